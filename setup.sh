#!/bin/sh
# MANIFEST.setup_cmd — builds the framework from files on disk only (offline).
# translator, harness (against /repo's working tree), the whole Coq development, the extracted runner.
set -e
cd "$(dirname "$0")"
export CARGO_NET_OFFLINE=true
mkdir -p .cache work evidence coq/gen runner/extracted
(cd translator && cargo build --offline 2>&1 | tail -3)
.cache/translator-target/debug/rs2v /repo coq/gen
# hand-written specifications rendered into Coq (formats of the field types, layouts of the message types)
python3 -c "import sys; sys.path.insert(0,'lib'); import fmtgen, spec2v, scen2v; fmtgen.write_v('coq/gen'); spec2v.write_v('coq/gen'); scen2v.write_v()"
(cd harness && cargo build --offline 2>&1 | tail -3)
(cd coq && coq_makefile -f _CoqProject -o Makefile.coq && timeout 3000 make -f Makefile.coq -j16 2>&1 | grep -v "^Closed under\|^COQC\|^COQDEP" | tail -20)
mv coq/swiftmt_model.ml coq/swiftmt_model.mli runner/extracted/ 2>/dev/null || true
runner/build.sh
echo "setup done"
