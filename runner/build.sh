#!/bin/sh
# builds the extracted model + driver into /verif/.cache/runner/runner
set -e
cd "$(dirname "$0")"
OUT=/verif/.cache/runner
mkdir -p "$OUT"
cp extracted/swiftmt_model.ml extracted/swiftmt_model.mli main.ml "$OUT"/
cd "$OUT"
ocamlfind ocamlopt -O2 -w -a -o runner swiftmt_model.mli swiftmt_model.ml main.ml 2>/dev/null || \
ocamlfind ocamlopt -w -a -o runner swiftmt_model.mli swiftmt_model.ml main.ml
