(* runner/main.ml — the extracted Coq model behind the harness's line protocol.
   usage: runner <casefile> ; one result line per case.  Trusted for the correspondence only. *)

module M = Swiftmt_model
open M
type string = Stdlib.String.t

let rec pos_of_int (i : int) : positive =
  if i = 1 then XH else if i land 1 = 0 then XO (pos_of_int (i lsr 1)) else XI (pos_of_int (i lsr 1))
let n_of_int (i : int) : n = if i = 0 then N0 else Npos (pos_of_int i)
let rec int_of_pos (p : positive) : int =
  match p with XH -> 1 | XO q -> 2 * int_of_pos q | XI q -> 2 * int_of_pos q + 1
let int_of_n (x : n) : int = match x with N0 -> 0 | Npos p -> int_of_pos p

let hexval c = match c with
  | '0'..'9' -> Char.code c - 48 | 'a'..'f' -> Char.code c - 87 | 'A'..'F' -> Char.code c - 55 | _ -> 0
let unhex (s : string) : bytes =
  let l = String.length s / 2 in
  List.init l (fun i -> n_of_int (hexval s.[2*i] * 16 + hexval s.[2*i+1]))
let hex (b : bytes) : string =
  String.concat "" (List.map (fun x -> Printf.sprintf "%02x" (int_of_n x)) b)
let hex_of_string (s : string) : string = String.concat "" (List.init (String.length s) (fun i -> Printf.sprintf "%02x" (Char.code s.[i])))
let b_of_s (s : string) : bytes = unhex (hex_of_string s)
let str (b : bytes) : string =
  String.init (List.length b) (fun i -> Char.chr (int_of_n (List.nth b i) land 255))

let rec show_res (r : res) : string = match r with
  | RTyped t -> "Typed(" ^ str t ^ ")"
  | RT03 (e, g) -> "T03(" ^ str e ^ "," ^ str g ^ ")"
  | RUnsupported c -> "Unsupported(" ^ hex c ^ ")"
  | RWrapped (v, r) -> "Wrapped(" ^ str v ^ "," ^ show_res r ^ ")"
  | RJsonOf t -> "JsonOf(" ^ str t ^ ")"
  | RRulesOf (t, c) -> "RulesOf(" ^ str t ^ "," ^ str c ^ ")"
  | RPublishOf t -> "PublishOf(" ^ str t ^ ")"
  | RNotFound c -> "NotFound(" ^ str c ^ ")"
  | RStuck -> "Stuck"

(* ---- engine *)
exception Need of string
let nat_of_int (i : int) : nat = let rec go k acc = if k = 0 then acc else go (k-1) (S acc) in go i O

let show_perr (e : perr) : string = match e with
  | EMissing t -> "Missing(" ^ str t ^ ")"
  | EBadField (t, c) -> "BadField(" ^ str t ^ "," ^ hex c ^ ")"
  | EDuplicate t -> "Duplicate(" ^ str t ^ ")"
  | EUnparsed -> "Unparsed"
  | EFailed m -> "Failed(" ^ hex m ^ ")"

let show_item (it : item) : string =
  str it.i_ty ^ "|" ^ (match it.i_letter with None -> "_" | Some l -> "=" ^ str l) ^ "|" ^ str it.i_tag ^ "|" ^ hex it.i_content

let show_outcome (o : outcome) : string = match o with
  | Accept its -> "ACCEPT\t" ^ String.concat ";" (List.map show_item its)
  | Reject e -> "REJECT\t" ^ show_perr e
  | OutOfFuel -> "OUTOFFUEL"
  | Stuck -> "STUCK"

(* table: ty|letter|hexcontent|0/1;...   letter: _ = none, =X = Some X *)
let parse_table (t : string) : (string, bool) Hashtbl.t =
  let h = Hashtbl.create 64 in
  if t <> "" then
    List.iter (fun e ->
      match String.split_on_char '|' e with
      | [ty; l; c; b] -> Hashtbl.replace h (ty ^ "|" ^ l ^ "|" ^ c) (b = "1")
      | _ -> ()) (String.split_on_char ';' t);
  h

let fparse_of (h : (string, bool) Hashtbl.t) : bytes -> bytes option -> bytes -> bool =
  fun ty l c ->
    let k = str ty ^ "|" ^ (match l with None -> "_" | Some x -> "=" ^ str x) ^ "|" ^ hex c in
    match Hashtbl.find_opt h k with
    | Some b -> b
    | None -> raise (Need k)

let date_field_of (s : string) : date_field = match s with
  | "11" -> F11 | "11R" -> F11R | "11S" -> F11S | "13D" -> F13D | "30" -> F30 | "32A" -> F32A | "32C" -> F32C | "32D" -> F32D
  | "60F" -> F60F | "60M" -> F60M | "61" -> F61 | "62F" -> F62F | "62M" -> F62M | "64" -> F64 | "65" -> F65
  | "13Djson" -> F13D_json | _ -> F30

let rec string_of_pos (p : positive) : string =
  (* decimal rendering of a binary positive via repeated doubling on a decimal string *)
  let double_plus (s : string) (carry0 : int) : string =
    let n = String.length s in
    let b = Bytes.create n in
    let carry = ref carry0 in
    for i = n - 1 downto 0 do
      let d = (Char.code s.[i] - 48) * 2 + !carry in
      Bytes.set b i (Char.chr (48 + d mod 10)); carry := d / 10
    done;
    (if !carry > 0 then string_of_int !carry else "") ^ Bytes.to_string b in
  match p with
  | XH -> "1"
  | XO q -> double_plus (string_of_pos q) 0
  | XI q -> double_plus (string_of_pos q) 1
let string_of_z (z : z) : string = match z with Z0 -> "0" | Zpos p -> string_of_pos p | Zneg p -> "-" ^ string_of_pos p
let rec nat_to_int (x : nat) : int = match x with O -> 0 | S y -> 1 + nat_to_int y

(* str::to_uppercase above ASCII: identity except the few code points whose upper case contains ASCII letters *)
let upper_hi (c : n) : n list =
  match int_of_n c with
  | 0x1E97 -> [n_of_int 84; n_of_int 776] | 0xDF -> [n_of_int 83; n_of_int 83] | 0x1F0 -> [n_of_int 74; n_of_int 780]
  | 0x149 -> [n_of_int 700; n_of_int 78] | 0x131 -> [n_of_int 73] | 0x17F -> [n_of_int 83]
  | 0xE9 -> [n_of_int 0xC9] | _ -> [c]

let split_lines (b : bytes) : bytes list =
  let rec go cur acc = function
    | [] -> List.rev (List.rev cur :: acc)
    | x :: r -> if int_of_n x = 10 then go [] (List.rev cur :: acc) r else go (x :: cur) acc r in
  go [] [] b

let show_entry (e : entry) : string = hex e.e_tag ^ "=" ^ hex e.e_value ^ "@" ^ string_of_int (int_of_n (stamp e))

let run (cols : string array) : string =
  match cols.(0) with
  | "l_tokens" ->
      (match parse_block4_fields (unhex cols.(1)) with
       | TOk es -> "OK\t" ^ String.concat ";" (List.map show_entry es)
       | TErr -> "ERR" | TOutOfFuel -> "OUTOFFUEL")
  | "l_track" ->
      (match parse_block4_fields (unhex cols.(1)) with
       | TOk es ->
           let ops = if cols.(2) = "" then [] else String.split_on_char ';' cols.(2) in
           let tr = ref [] in
           let outs = List.map (fun op ->
             match String.split_on_char '|' op with
             | [tag; vs] ->
                 let valid = if vs = "*" then None else Some (List.map (fun v -> unhex (hex_of_string v)) (String.split_on_char ',' vs)) in
                 let (r, tr') = lookup_variant es !tr (unhex (hex_of_string tag)) valid in
                 tr := tr';
                 (match r with
                  | None -> "-"
                  | Some ((v, l), p) -> hex v ^ "/" ^ (match l with None -> "_" | Some x -> str x) ^ "@" ^ string_of_int (int_of_n p))
             | _ -> "?") ops in
           "OK\t" ^ String.concat ";" outs
       | TErr -> "ERR" | TOutOfFuel -> "OUTOFFUEL")
  (* l_api <hex text> <cfg> <ops>: the tracker's own interface over the whole map (f) and the three maps of the split (a b c), one
     tracker for all.  M|tag|k marks the k-th occurrence of the tag (in the whole map); G|tag reads the next available of the whole
     map without marking; C|part|tag reads the next available of that part's values and marks it *)
  | "l_api" ->
      (match parse_block4_fields (unhex cols.(1)) with
       | TOk es ->
           let b_of s = unhex (hex_of_string s) in
           let cfg = if String.length cols.(2) > 4 && String.sub cols.(2) 0 4 = "cfg:" then
               (match String.split_on_char ':' cols.(2) with
                | _ :: mk :: hc :: cf :: _ ->
                    { cfg_marker = b_of mk; cfg_c_fields = List.map b_of (List.filter (fun x -> x <> "") (String.split_on_char ',' cf)); cfg_has_c = (hc = "1") }
                | _ -> get_sequence_config (b_of cols.(2)))
             else get_sequence_config (b_of cols.(2)) in
           let ((a, b), c) = split_into_sequences cfg es in
           let part = function "a" -> a | "b" -> b | "c" -> c | _ -> es in
           let ops = if cols.(3) = "" then [] else String.split_on_char ';' cols.(3) in
           let tr = ref [] in
           let show = function None -> "-" | Some (v, p) -> hex v ^ "@" ^ string_of_int (int_of_n p) in
           let outs = List.map (fun op ->
             match String.split_on_char '|' op with
             | ["M"; tag; k] ->
                 let vals = values_of es (b_of tag) in
                 (match vals with
                  | [] -> "-"
                  | _ -> let (_, p) = List.nth vals (int_of_string k mod List.length vals) in
                         tr := mark_consumed !tr (b_of tag) p; "m" ^ string_of_int (int_of_n p))
             | ["G"; tag] -> show (next_available !tr (b_of tag) (values_of es (b_of tag)))
             | ["C"; pt; tag] ->
                 let r = next_available !tr (b_of tag) (values_of (part pt) (b_of tag)) in
                 (match r with Some (_, p) -> tr := mark_consumed !tr (b_of tag) p | None -> ());
                 show r
             | _ -> "?") ops in
           "OK\t" ^ String.concat ";" outs
       | TErr -> "ERR" | TOutOfFuel -> "OUTOFFUEL")
  | "l_split" ->
      (match parse_block4_fields (unhex cols.(1)) with
       | TOk es ->
           let b_of s = unhex (hex_of_string s) in
           let cfg = if String.length cols.(2) > 4 && String.sub cols.(2) 0 4 = "cfg:" then
               (match String.split_on_char ':' cols.(2) with
                | _ :: mk :: hc :: cf :: _ ->
                    { cfg_marker = b_of mk; cfg_c_fields = List.map b_of (List.filter (fun x -> x <> "") (String.split_on_char ',' cf)); cfg_has_c = (hc = "1") }
                | _ -> get_sequence_config (b_of cols.(2)))
             else get_sequence_config (b_of cols.(2)) in
           let ((a, b), c) = split_into_sequences cfg es in
           let f l = String.concat ";" (List.map show_entry l) in
           "OK\t" ^ f a ^ "\t" ^ f b ^ "\t" ^ f c
       | TErr -> "ERR" | TOutOfFuel -> "OUTOFFUEL")
  (* fam <family> <base> <letter hex or -> <content hex> <payload=hexvalue,..: payload parsers that accept, with their printed value> <heuristic: vname=hexvalue or ->
     letter "-" means the raw API parse_with_variant(None); otherwise parse_named *)
  | "fam" ->
      (match family_named (b_of_s cols.(1)) with
       | None -> "NOFAMILY"
       | Some f ->
           let tbl = if cols.(5) = "" then [] else List.map (fun kv -> match String.split_on_char '=' kv with [k; v] -> (k, unhex v) | _ -> ("", [])) (String.split_on_char ',' cols.(5)) in
           let pparse p _ = List.assoc_opt (str p) tbl in
           let hres = if cols.(6) = "-" then None else (match String.split_on_char '=' cols.(6) with [k; v] -> Some (b_of_s k, unhex v) | _ -> None) in
           let r = named_core pparse ptag f (b_of_s cols.(2)) (unhex cols.(3)) (unhex cols.(4)) hres in
           (match r with None -> "NONE" | Some (v, x) -> "SOME	" ^ str v ^ "	" ^ hex x))
  | "famraw" ->
      (match family_named (b_of_s cols.(1)) with
       | None -> "NOFAMILY"
       | Some f ->
           let tbl = if cols.(5) = "" then [] else List.map (fun kv -> match String.split_on_char '=' kv with [k; v] -> (k, unhex v) | _ -> ("", [])) (String.split_on_char ',' cols.(5)) in
           let pparse p _ = List.assoc_opt (str p) tbl in
           let hres = if cols.(6) = "-" then None else (match String.split_on_char '=' cols.(6) with [k; v] -> Some (b_of_s k, unhex v) | _ -> None) in
           let l = if cols.(3) = "-" then None else Some (unhex cols.(3)) in
           (match pwv_core pparse f l (unhex cols.(4)) hres with None -> "NONE" | Some (v, x) -> "SOME\t" ^ str v ^ "\t" ^ hex x))
  (* rules <MTnnn> <0|1 stop> <json tokens>: { } [ ] k<hex> s<hex> n<hex> t f z, space separated *)
  | "rules" ->
      let toks = ref (List.filter (fun x -> x <> "") (String.split_on_char ' ' cols.(3))) in
      let next () = match !toks with [] -> "" | x :: r -> toks := r; x in
      let peek () = match !toks with [] -> "" | x :: _ -> x in
      let rec value () : jv =
        let t = next () in
        if t = "{" then begin
          let acc = ref [] in
          while peek () <> "}" && peek () <> "" do
            let k = next () in
            let key = unhex (String.sub k 1 (String.length k - 1)) in
            let v = value () in
            acc := (key, v) :: !acc
          done;
          ignore (next ()); JObj (List.rev !acc) end
        else if t = "[" then begin
          let acc = ref [] in
          while peek () <> "]" && peek () <> "" do acc := value () :: !acc done;
          ignore (next ()); JArr (List.rev !acc) end
        else if t = "t" then JBool true else if t = "f" then JBool false else if t = "z" then JNull
        else if String.length t > 0 && t.[0] = 's' then JStr (unhex (String.sub t 1 (String.length t - 1)))
        else if String.length t > 0 && t.[0] = 'n' then JNum (unhex (String.sub t 1 (String.length t - 1)))
        else JNull in
      let m = value () in
      let es = validate_rules (b_of_s cols.(1)) m (cols.(2) = "1") in
      String.concat ";" (List.map (fun e -> str e.ecode ^ ":" ^ str e.efield) es)
  (* fmt <FieldType> <hex content>: does the content have the documented format of the type? *)
  | "fmt" -> (match format_accepts (b_of_s cols.(1)) (unhex cols.(2)) with Some true -> "1" | Some false -> "0" | None -> "NOFORMAT")
  | "fampos" -> String.concat ";" (List.map (fun (t, (f, b)) -> str t ^ "|" ^ str f ^ "|" ^ str b) positions)
  | "hdr1" -> (match parse_b1 (unhex cols.(1)) with None -> "ERR" | Some h -> "OK\t" ^ hex (display_b1 h) ^ "\t" ^ hex h.bh_sender_bic)
  | "hdr2" -> (match parse_b2 (unhex cols.(1)) with None -> "ERR" | Some h -> "OK\t" ^ hex (display_b2 h) ^ "\t" ^ hex (message_type_of h))
  | "hdr3" -> "OK\t" ^ hex (user_header_display (unhex cols.(1)))
  | "hdr5" -> "OK\t" ^ hex (trailer_display (unhex cols.(1)))
  | "blocks" ->
      let raw = unhex cols.(1) in
      String.concat "\t" (List.map (fun i -> match extract_block raw (n_of_int i) with None -> "-" | Some b -> "=" ^ hex b) [1;2;3;4;5])
  | "classify" ->
      let ty = (match cols.(1) with "103" -> T103 | "202" -> T202 | "205" -> T205 | _ -> TOther) in
      let opt s = if s = "-" then None else Some (unhex s) in
      let m = { c_ty = ty; c_lines72 = (if cols.(2) = "-" then [] else split_lines (unhex cols.(2)));
                c_mur = opt cols.(3); c_flag = opt cols.(4); c_seqb_cust = (cols.(5) = "1"); c_stp = (cols.(6) = "1") } in
      let b x = if x then "1" else "0" in
      let meth = (match plugin_method upper_hi m with MReject -> "reject" | MReturn -> "return" | MCover -> "cover" | MStp -> "stp" | MNormal -> "normal") in
      Printf.sprintf "%s %s %s %s" (b (has_reject upper_hi m)) (b (has_return upper_hi m)) (b (is_cover m)) meth
  | "amount" ->
      (match parse_amount (unhex cols.(1)) with
       | None -> "ERR"
       | Some x ->
           let fm k = str (format_amount (nat_of_int k) x) in
           Printf.sprintf "OK\t%s\t%s|%s|%s|%s|%s" (string_of_z (to_bits x)) (fm 0) (fm 1) (fm 2) (fm 3) (fm 4))
  | "date" ->
      (match date_of (date_field_of cols.(1)) (unhex cols.(2)) with
       | None -> "ERR"
       | Some d -> Printf.sprintf "OK\t%04d-%02d-%02d\t%s" (int_of_n d.yr) (int_of_n d.mo) (int_of_n d.dy) (str (format_yymmdd d)))
  | "time" ->
      (match parse_time_hhmm (unhex cols.(1)) with
       | None -> "ERR"
       | Some t -> Printf.sprintf "OK\t%02d:%02d\t%s" (int_of_n t.hh) (int_of_n t.mi) (str (format_hhmm t)))
  | "offset" -> if offset_ok (unhex cols.(1)) then "OK" else "ERR"
  | "msg" ->
      let l = layout_of (unhex cols.(1)) in
      let text = unhex cols.(2) in
      let h = parse_table (if Array.length cols > 3 then cols.(3) else "") in
      let fuel = nat_of_int (4 * List.length text + 2000) in
      (try show_outcome (brun (fparse_of h) fuel l text) with Need k -> "NEED\t" ^ k)
  | "canon" ->
      (* is this text in the class of Engine/Factor.v (exec_factor)?  text = w ++ render crlf toks with aws w, tok_ok toks *)
      let text = unhex cols.(1) in
      let crlf = cols.(2) = "1" in
      let toks = if Array.length cols > 3 && cols.(3) <> "" then
          List.filter_map (fun e -> match String.split_on_char '|' e with
            | [t; c] -> Some (unhex t, unhex c) | _ -> None) (String.split_on_char ';' cols.(3)) else [] in
      let is_ws c = let i = int_of_n c in i = 10 || i = 13 || i = 32 in
      let rec split acc l = match l with c :: r when is_ws c -> split (c :: acc) r | _ -> (List.rev acc, l) in
      let (w, _) = split [] text in
      if is_canonical text w crlf toks then "CANON\t1" else "CANON\t0"
  | "specmatch" ->
      (* is this tag sequence a word of the type's specification (gen/Specs.v)?  cols: type, tags (hex;hex;...) *)
      let t = unhex cols.(1) in
      let tags = if Array.length cols > 2 && cols.(2) <> "" then List.map unhex (String.split_on_char ';' cols.(2)) else [] in
      let rec find l = match l with [] -> None | (k, r) :: rest -> if k = t then Some r else find rest in
      (match find specs with
       | None -> "NOSPEC"
       | Some alts -> (if List.exists (fun r -> matchb r tags) alts then "MEMBER\t1" else "MEMBER\t0") ^ (if List.mem t inclusion_open then "\topen" else "\tproved"))
  | "extract" ->
      (match extract_field_content (unhex cols.(1)) (unhex cols.(2)) with
       | None -> "NONE"
       | Some (c, n) -> "SOME\t" ^ hex c ^ "\t" ^ string_of_int (let rec go (x : nat) = match x with O -> 0 | S y -> 1 + go y in go n))
  | "d_typed" -> show_res (parse_typed gen_tables (unhex cols.(1)) (unhex cols.(2)))
  | "d_auto" -> show_res (parse_auto gen_tables (unhex cols.(1)))
  | "d_pparse" -> show_res (plugin_parse gen_tables (unhex cols.(1)))
  | "d_pvalidate" -> show_res (plugin_validate gen_tables (unhex cols.(1)))
  | "d_publish" -> show_res (publish gen_tables (unhex cols.(1)))
  | "d_wvalidate" -> show_res (wrapper_validate gen_tables (unhex cols.(1)))
  | op -> "BADCASE unknown op " ^ op

let () =
  let ic = open_in Sys.argv.(1) in
  (try
    while true do
      let line = input_line ic in
      if String.length line > 0 && line.[0] <> '#' then begin
        let cols = Array.of_list (String.split_on_char '\t' line) in
        let r = try run cols with e -> "EXN " ^ Printexc.to_string e in
        print_string r; print_char '\n'
      end
    done
  with End_of_file -> ());
  close_in ic
