#!/usr/bin/env python3
"""regenerates coq/Props/C04.v from the theorem statements of coq/Rules/Spec*.v (run by hand after editing them;
lib/c04.py checks that the committed file is up to date)"""
import re, sys, os
ROOT = os.path.dirname(os.path.dirname(os.path.abspath(__file__)))
HEAD = open(os.path.join(ROOT, "coq", "Props", "C04.v")).read().split("\nTheorem C04_mt", 1)[0]


def render():
    out = [HEAD.rstrip("\n") + "\n"]
    names = re.findall(r"\nTheorem (C04_\w+)", "\n" + HEAD)
    for f in ["Spec.v", "Spec103.v", "Spec104.v"]:
        s = open(os.path.join(ROOT, "coq", "Rules", f)).read()
        for m in re.finditer(r"\nTheorem (\w+) : (.*?)\.\nProof\.", s, re.S):
            n, stmt = m.group(1), m.group(2)
            out.append("Theorem C04_%s : %s.\nProof. exact %s. Qed.\n" % (n, stmt, n))
            names.append("C04_" + n)
    out.append("\n".join("Print Assumptions %s." % n for n in names) + "\n")
    return "\n".join(out)


if __name__ == "__main__":
    if "--check" in sys.argv:
        sys.exit(0 if render() == open(os.path.join(ROOT, "coq", "Props", "C04.v")).read() else 1)
    open(os.path.join(ROOT, "coq", "Props", "C04.v"), "w").write(render())
