"""C14 — field option letters decide the variant and are preserved."""
import json, os, re
from common import *
import mtgen

PROP = "C14"
COQ_TARGETS = ["Props/C14.vo"]
TRANSLATOR = ["layouts", "families"]

TRUSTED = [
    "Coq 8.16.1 kernel (coqc), vm_compute for bad_positions = []; no axioms",
    "translator rs2v module `families`: per enum of src/fields its variants, the arms of parse_with_variant (pattern -> payload parser -> variant, fallback arm), the control flow of the letter-less `parse` as an IR with opaque guards (every Ok(E::V(x)) must wrap the x bound by `P::parse(arg)` in the same condition), delegation of to_swift_string, and per payload struct the first tag literal in its to_swift_string; module `layouts` gives the positions",
    "hand model Family/Model.v of MessageParser::parse_named_variant (letter passed, None for no letter, printed tag must be the tag read) and of match-arm selection; tied by the stream `family` (extracted model vs MessageParser::parse_variant_field / parse_optional_variant_field on a real cursor)",
    "payload parsers and printers are parameters of the theorems; that a payload prints the tag literal found by the translator is checked on every accepted case",
]

LETTERS = ["", "A", "B", "C", "D", "F", "G", "H", "K", "L", "P", "M", "Z"]


def run(ctx):
    ctx.rule = ("stream family: every family of src/fields x every letter of {none,A,B,C,D,F,G,H,K,L,P,M,Z} x contents = the documented examples of "
                "every option of the same field number (valid for one option, for several, for none) + boundary/mutated ones, through "
                "MessageParser::parse_variant_field and parse_optional_variant_field, T::parse_with_variant and the letter-less T::parse; "
                "stream position: for every (type, family, base) a layout reads with option detection, seed messages with that field's "
                "letter and content replaced; non-trivial = accepted by at least one option; distinct = (family, letter, content)")
    standard_front(ctx, __import__("c14"))
    rng = ctx.rng
    known, _ = load_known(PROP)
    kn = {k["match"]["kind"]: k["id"] for k in known if k.get("match")}
    fams = json.load(open(os.path.join(COQ, "gen", "families.json")))
    ptags = dict(fams.pop("_payload_tags"))
    aliases = dict(fams.pop("_aliases"))
    ex = json.load(open(os.path.join(ROOT, "spec", "field_examples.json")))
    ex.pop("_comment", None)
    full = ctx.tier == "thorough"

    def base_of(f):
        for vn, pl, rn in f["variants"]:
            if pl in ptags:
                return ptags[pl][:2]
        return None

    # ---------------------------------------------------------------- stream family
    cases, meta = [], []
    for fname, f in sorted(fams.items()):
        base = base_of(f)
        if base is None:
            ctx.broken.append("translator: no printed tag found for the payloads of %s" % fname); continue
        pool = []
        for k, lst in ex.items():
            if k[:2] == base:
                pool += [(k, e) for e in lst]
        # contents of other party fields (often valid for several options) and degenerate ones
        for k in ("52A", "52D", "59", "50K", "57B", "32A", "32B", "60F"):
            pool += [(k, e) for e in ex.get(k, [])[:2]]
        pool += [("-", ""), ("-", " "), ("-", "/"), ("-", "DEUTDEFF"), ("-", "/C/12345\nDEUTDEFF"), ("-", "DEUTDEFFXXX\nSECOND LINE"), ("-", " DEUTDEFF"),
                 ("-", "/12345678"), ("-", "1/JOHN DOE\n2/STREET"), ("-", "/ACC\n1/JOHN DOE"), ("-", "JOHN DOE\nMAIN STREET 1\nCITY"), ("-", "260930USD100,"), ("-", "USD100,"),
                 ("-", "C260930EUR1,"), ("-", "D260930EUR1,")]
        if not full:
            pool = pool[:60]
        seen = set()
        for src, content in pool:
            if content in seen:
                continue
            seen.add(content)
            payloads = sorted({pl for _, pl, _ in f["variants"]})
            for pl in payloads:
                cases.append("fparse_raw\t%s\t_\t%s" % (pl, hexs(content))); meta.append((fname, base, "payload", pl, content))
            cases.append("fparse_raw\t%s\t_\t%s" % (fname, hexs(content))); meta.append((fname, base, "heur", None, content))
            for l in LETTERS:
                text = ":%s%s:%s\n:99:NEXT" % (base, l, content)
                cases.append("pvf\t%s\t%s\t%s" % (fname, base, hexs(text))); meta.append((fname, base, "pvf", l, content))
                cases.append("povf\t%s\t%s\t%s" % (fname, base, hexs(text))); meta.append((fname, base, "povf", l, content))
                cases.append("fparse_raw\t%s\t=%s\t%s" % (fname, l, hexs(content))); meta.append((fname, base, "raw", l, content))
    res = run_lib(ctx, cases, "c14")
    # group per (family, content)
    grp = {}
    for m, r, case in zip(meta, res, cases):
        fname, base, kind, x, content = m
        g = grp.setdefault((fname, content), {"base": base, "payload": {}, "pvf": {}, "povf": {}, "raw": {}, "heur": None, "cases": {}})
        if kind == "payload":
            g["payload"][x] = r
        elif kind == "heur":
            g["heur"] = r
        else:
            g[kind][x] = r
            g["cases"][(kind, x)] = case
    tag_of = lambda ser: ser[1:].split(":", 1)[0] if ser and ser.startswith(":") else None
    mcases, mmeta = [], []
    for (fname, content), g in sorted(grp.items()):
        f = fams[fname]
        base = g["base"]
        vname_by_tag = {ptags.get(pl): vn for vn, pl, _ in f["variants"]}
        accepting = {pl: r["ser"] for pl, r in g["payload"].items() if r.get("ok")}
        # payload prints the literal tag the translator found
        for pl, ser in accepting.items():
            if tag_of(ser) != ptags.get(pl):
                ctx.broken.append("translator: payload %s prints tag %r, the literal found in its to_swift_string is %r" % (pl, tag_of(ser), ptags.get(pl)))
        h = g["heur"]
        if any("panic" in r or "crash" in r for r in [h] + list(g["payload"].values())):
            ctx.violations.append(("panic in a field parser of family %s on %r" % (fname, content[:40]), "fparse_raw\t%s\t_\t%s" % (fname, hexs(content)))); continue
        hres = "-"
        if h.get("ok"):
            hv = vname_by_tag.get(tag_of(h["ser"]))
            hres = "%s=%s" % (hv, hexs(h["ser"]))
            # (d) the heuristic's variant is one whose own parser accepts the content, with the same value
            pl = dict((vn, p) for vn, p, _ in f["variants"]).get(hv)
            ctx.evaluations += 1
            if accepting:
                ctx.distinct.add((fname, "heur", content))
            if pl not in accepting:
                ctx.violations.append(("%s::parse(%r) returns option %s, whose own parser %s rejects that content" % (fname, content[:40], hv, pl), "fparse_raw\t%s\t_\t%s" % (fname, hexs(content))))
            elif accepting[pl] != h["ser"] or g["payload"][pl].get("json") != list((h.get("json") or {}).values() or [None])[0] and fname != "Field25AccountIdentification":
                ctx.violations.append(("%s::parse(%r) returns option %s with a value different from %s::parse" % (fname, content[:40], hv, pl), "fparse_raw\t%s\t_\t%s" % (fname, hexs(content))))
            # (e) printed and re-read under its own letter: same value
            if not (h.get("again_ok") and h.get("again_equal")):
                ctx.notes.append("heuristic value not stable under print/re-parse: %s %r" % (fname, content[:30]))
        tbl = ",".join("%s=%s" % (pl, hexs(ser)) for pl, ser in sorted(accepting.items()))
        arms = {(a[0] or ""): (a[1], a[2]) for a in f["arms"]}
        for l in LETTERS:
            for kind in ("pvf", "povf"):
                r = g[kind][l]
                case = g["cases"][(kind, l)]
                ctx.evaluations += 1
                if accepting:
                    ctx.distinct.add((fname, l, content))
                if "panic" in r or "crash" in r:
                    ctx.violations.append(("%s panicked: family %s letter %r content %r" % (kind, fname, l, content[:40]), case)); continue
                # detect_variant only knows A B C D F K L: other letters are "not found" (pvf: missing; povf: absent) -- see C03 findings
                detectable = l in ("", "A", "B", "C", "D", "F", "K", "L")
                got = (tag_of(r["ser"]), r["ser"]) if r.get("ok") and r.get("present") else None
                # ---- the property
                if got and got[0] != base + l:
                    ctx.violations.append(("':%s%s:' with content %r was parsed by %s as option %r (printed '%s')" % (base, l, content[:40], fname, got[0], got[1][:50]), case))
                if detectable and f["has_pwv"]:
                    if l in arms:
                        pl, vn = arms[l]
                        want = accepting.get(pl)
                        if (got[1] if got else None) != want:
                            ctx.violations.append(("':%s%s:%s' read as %s: option %s's own parser gives %r, the cursor gives %r" % (base, l, content[:30], fname, l or "no-letter", want and want[:40], got and got[1][:40]), case))
                    elif got:
                        ctx.violations.append(("':%s%s:' accepted by %s, which has no option %r" % (base, l, fname, l), case))
                # ---- model
                if detectable:
                    mcases.append("fam\t%s\t%s\t%s\t%s\t%s\t%s" % (fname, base, hexs(l), hexs(content), tbl, hres))
                    mmeta.append((fname, l, content, kind, got, case))
            # raw API with the letter: own letters select their parser
            r = g["raw"][l]
            if l in arms and l != "":
                pl, vn = arms[l]
                ctx.evaluations += 1
                if (r.get("ser") if r.get("ok") else None) != accepting.get(pl):
                    ctx.violations.append(("%s::parse_with_variant(%r, Some(%r)) = %r, %s::parse gives %r" % (fname, content[:30], l, r.get("ser"), pl, accepting.get(pl)), g["cases"][("raw", l)]))
    mres = run_model(ctx, mcases, "c14")
    for (fname, l, content, kind, got, case), m in zip(mmeta, mres):
        if m is None:
            continue
        want = None
        if m.startswith("SOME\t"):
            want = bytes.fromhex(m.split("\t")[2]).decode("utf-8", "replace")
        elif m != "NONE":
            ctx.disagreements.append({"family": fname, "letter": l, "content": content[:60], "model": m, "replay": case}); continue
        if (got[1] if got else None) != want:
            ctx.disagreements.append({"family": fname, "letter": l, "content": content[:60], "op": kind, "model": want, "library": got and got[1], "replay": case})
        if len(ctx.samples) < 6 and got and l:
            ctx.samples.append({"family": fname, "letter": l, "content": content[:40], "library": got[1][:60], "model": want and want[:60]})

    # ---------------------------------------------------------------- stream position
    pos = run_model(ctx, ["fampos"], "c14pos")
    positions = []
    if pos and pos[0]:
        for x in pos[0].split(";"):
            t, fam, base = x.split("|")
            positions.append((t, aliases.get(fam, fam), base))
    ctx.stats["positions"] = len(positions)
    seeds = mtgen.load_seeds(limit=None if full else 3)
    pcases, pmeta = [], []
    for (t, fam, base) in sorted(set(positions)):
        c = t[2:]
        f = fams.get(fam)
        if not f:
            ctx.broken.append("coq: position %s reads family %s which gen/Families.v does not have" % (t, fam)); continue
        opts = [ptags[pl] for _, pl, _ in f["variants"] if pl in ptags]
        for name, text in seeds.get(c, []):
            sp = mtgen.split_message(text)
            if not sp:
                continue
            toks = mtgen.tokens(sp[1])
            idxs = [i for i, (tg, _) in enumerate(toks) if tg[:2] == base and len(tg) <= 3]
            for i in idxs[:2]:
                trials = []
                for tag in opts:
                    for e in ex.get(tag, [])[: (4 if full else 2)]:
                        for l in ["", "A", "B", "C", "D", "F", "K", "L"]:
                            trials.append((base + l, e))
                rng.shuffle(trials)
                for newtag, e in trials[: (40 if full else 8)]:
                    t2 = list(toks)
                    t2[i] = (newtag, e)
                    pcases.append("body\tMT%s\t%s" % (c, hexs(mtgen.render(t2)))); pmeta.append((t, fam, base, i, newtag, e, [x[0] for x in t2]))
    # enum families read under ONE fixed tag (parse_field::<Enum>(tag)): the variant can only come from the content
    layouts = json.load(open(os.path.join(COQ, "gen", "layouts.json")))
    fixed = set()
    def walk(x, T):
        if isinstance(x, dict):
            if x.get("op") in ("req", "opt") and aliases.get(x.get("ty"), x.get("ty")) in fams:
                fixed.add((T, aliases.get(x["ty"], x["ty"]), x["tag"]))
            for v in x.values():
                walk(v, T)
        elif isinstance(x, list):
            for v in x:
                walk(v, T)
    for T, L in layouts.items():
        walk(L, T)
    ctx.stats["fixed_tag_family_positions"] = sorted(fixed)
    for (t, fam, tag) in sorted(fixed):
        c = t[2:]
        f = fams[fam]
        opts = [ptags[pl] for _, pl, _ in f["variants"] if pl in ptags]
        for name, text in seeds.get(c, [])[:2]:
            sp = mtgen.split_message(text)
            if not sp:
                continue
            toks = mtgen.tokens(sp[1])
            for i in [i for i, (tg, _) in enumerate(toks) if tg == tag][:1]:
                for o in opts:
                    for e in ex.get(o, []):
                        t2 = list(toks); t2[i] = (tag, e)
                        pcases.append("body\tMT%s\t%s" % (c, hexs(mtgen.render(t2)))); pmeta.append((t, fam, tag[:2], i, tag, e, [x[0] for x in t2]))
    pres = run_lib(ctx, pcases, "c14pos")
    for (t, fam, base, i, newtag, e, tags), r, case in zip(pmeta, pres, pcases):
        ctx.evaluations += 1
        if "panic" in r or "crash" in r:
            ctx.violations.append(("%s panicked with ':%s:%s'" % (t, newtag, e[:30]), case)); continue
        if not r.get("ok"):
            continue
        ctx.distinct.add((t, fam, newtag, e))
        out = [x[0] for x in mtgen.tokens(r["block4"])]
        if out != tags and sorted(out) != sorted(tags):
            d = [(a, b) for a, b in zip(tags + ["-"] * 3, out + ["-"] * 3) if a != b][:1]
            if (t, fam, newtag) in fixed and "fixed_tag_family" in kn:
                ctx.known_hits[kn["fixed_tag_family"]] = ctx.known_hits.get(kn["fixed_tag_family"], 0) + 1
            else:
                ctx.violations.append(("%s accepted ':%s:%s' and wrote it back as ':%s:' (position %d, family %s)" % (t, newtag, e[:30], d[0][1] if d else "?", i, fam), case))
    if ctx.disagreements:
        ctx.broken.append("correspondence: stream family: %d disagreement(s), first: %s" % (len(ctx.disagreements), json.dumps({k: v for k, v in ctx.disagreements[0].items() if k != "replay"})[:400]))
    # families outside the theorem: not read with option detection by any layout
    outside = sorted(set(fams) - {p[1] for p in positions})
    ctx.stats.update({"families": len(fams), "family_cases": len(cases), "position_cases": len(pcases), "families_not_at_a_variant_position": outside})
    return finish(ctx, level="proof", trusted=TRUSTED,
                  assumptions=["the documented options of a field position are the variants of the enum the layout reads there (a layout that uses the wrong family is a C03 matter)"])
