"""C12 — message-type dispatch is consistent across every entry point."""
import json, os, re
from common import *

PROP = "C12"
COQ_TARGETS = ["Props/C12.vo"]
TRANSLATOR = ["dispatch"]

SUPPORTED = ("101 103 104 107 110 111 112 190 191 192 196 199 200 202 204 205 210 290 291 292 296 299 "
             "900 910 920 935 940 941 942 950").split()

TRUSTED = [
    "Coq 8.16.1 kernel (coqc), vm_compute for gen_tables_ok; no native_compute; no axioms (every theorem: Closed under the global context)",
    "translator rs2v (syn 2): reads the match arms of parse_message_auto, ParsedSwiftMessage::{message_type,validate,into_*}, plugin parse/publish/validate, every SwiftMessageBody::message_type, the T03 guard of parse_message",
    "hand model Dispatch/Model.v of how the five entry points consult the tables; tied by the correspondence stream `dispatch` (extracted OCaml runner vs library on the same cases)",
    "extraction: ExtrOcamlBasic only; OCaml 4.13.1 driver runner/main.ml",
    "what a typed parse does with the text block is opaque in the model (RTyped T); only WHICH typed API is reached is modelled",
]


def seeds(tier, rng):
    d = os.path.join(ROOT, "corpus", "seeds")
    out = {}
    for c in SUPPORTED:
        fs = sorted(os.listdir(os.path.join(d, "MT" + c)))
        pick = fs if tier == "thorough" else ([f for f in fs if f in ("standard.mt", "minimal.mt")] or fs[:1])[:2]
        out[c] = [open(os.path.join(d, "MT" + c, f), encoding="utf-8").read() for f in pick]
    return out


def set_code(msg, code):
    """rewrite the message type announced in block 2 (input or output header)"""
    return re.sub(r"\{2:([IO])\d{3}", lambda m: "{2:" + m.group(1) + code, msg, count=1)


def is_t03(r):
    e = r.get("err") or {}
    sv = e.get("SwiftValidation") if isinstance(e, dict) else None
    if not sv:
        return False
    inner = list(sv.values())[0] if isinstance(sv, dict) and sv else {}
    return isinstance(inner, dict) and inner.get("code") == "T03"


def same_result(a, b):
    """typed vs typed-inside-wrapper: equal JSON on success, equal error on failure"""
    if a.get("ok") and b.get("ok"):
        return a.get("json") == b.get("json")
    if (not a.get("ok")) and (not b.get("ok")) and "panic" not in a and "panic" not in b:
        return a.get("err") == b.get("err")
    return False


def run(ctx):
    ctx.rule = ("messages = shipped-scenario seeds of all 30 types with the announced type rewritten to every code "
                "000-999 (plus non-numeric look-alikes); ops = auto, 30 typed parses, plugin parse/validate/publish; "
                "a case is non-trivial when the code is supported or is a near-miss of a supported code; distinct = "
                "distinct (op, announced code, requested type, outcome class)")
    front_ok = standard_front(ctx, __import__("c12"))
    sd = seeds(ctx.tier, ctx.rng)
    rng = ctx.rng
    msgs = []     # (announced code, text, origin)
    for c in SUPPORTED:
        for m in sd[c]:
            msgs.append((c, m, "seed:" + c))
    base_types = list(SUPPORTED)
    for code in range(1000):
        c = "%03d" % code
        src = rng.choice(base_types) if c not in SUPPORTED else c
        msgs.append((c, set_code(sd[src][0], c), "recode:%s->%s" % (src, c)))
    # every supported body announced as every other supported type (30 x 30)
    if ctx.tier == "thorough":
        for a in SUPPORTED:
            for b in SUPPORTED:
                if a != b:
                    msgs.append((b, set_code(sd[a][0], b), "cross:%s->%s" % (a, b)))
    # phase 1: typed (all 30 for seeds and supported recodes; own+2 random for the rest), auto, plugins
    cases, idx = [], []
    for mi, (c, m, origin) in enumerate(msgs):
        hx = hexs(m)
        full = origin.startswith("seed") or (c in SUPPORTED and origin.startswith("recode")) or origin.startswith("cross")
        ts = SUPPORTED if full else sorted(set(rng.sample(SUPPORTED, 3) + ([c] if c in SUPPORTED else [])))
        for t in ts:
            cases.append("typed\tMT%s\t%s" % (t, hx)); idx.append((mi, "typed", t))
        for op in ("auto", "pparse", "pvalidate"):
            cases.append("%s\t%s" % (op, hx)); idx.append((mi, op, None))
    res = run_lib(ctx, cases, "p1")
    by = {}
    for (mi, op, t), r in zip(idx, res):
        if op == "auto" and r.get("ok"):
            wj = dict(r.get("wrapper_json") or {}); wj.pop("mt_type", None)
            r["json"] = wj
        by.setdefault(mi, {})[(op, t)] = r
    # phase 2: publish with the JSON of the typed parse (own type) under the code and under "MT"+code;
    # for unsupported codes publish the JSON of the source message under the unsupported code
    cases2, idx2 = [], []
    a_json = None
    for mi, (c, m, origin) in enumerate(msgs):
        own = by[mi].get(("typed", c))
        if own and own.get("ok"):
            a_json = own["json"]
            for ty in (c, "MT" + c):
                cases2.append("ppublish\t%s\t%s" % (hexs(ty), hexs(json.dumps(own["json"])))); idx2.append((mi, ty))
        elif c not in SUPPORTED and a_json is not None:
            cases2.append("ppublish\t%s\t%s" % (hexs(c), hexs(json.dumps(a_json)))); idx2.append((mi, c))
    res2 = run_lib(ctx, cases2, "p2")
    pub = {}
    for (mi, ty), r in zip(idx2, res2):
        pub.setdefault(mi, {})[ty] = r
    # model side
    mcases, midx = [], []
    for mi, (c, m, origin) in enumerate(msgs):
        hc = hexs(c)
        for (op, t) in by[mi]:
            if op == "typed":
                mcases.append("d_typed\t%s\t%s" % (hexs("MT" + t), hc)); midx.append((mi, "typed", t))
        for op in ("auto", "pparse", "pvalidate"):
            mcases.append("d_%s\t%s" % (op, hc)); midx.append((mi, op, None))
        for ty in pub.get(mi, {}):
            mcases.append("d_publish\t%s" % hexs(ty)); midx.append((mi, "publish", ty))
    mres = run_model(ctx, mcases)
    model = {}
    for k, r in zip(midx, mres):
        model[k] = r

    def viol(what, mi, op, extra=""):
        c, m, origin = msgs[mi]
        ctx.violations.append(("%s [announced %s, %s] %s" % (what, c, origin, extra),
                               "%s\t%s" % (op, hexs(m))))

    # ---- oracle on the library's own outputs (the property, not the model)
    for mi, (c, m, origin) in enumerate(msgs):
        R = by[mi]
        sup = c in SUPPORTED
        auto, pp, pv = R[("auto", None)], R[("pparse", None)], R[("pvalidate", None)]
        for (op, t), r in R.items():
            ctx.evaluations += 1
            if "panic" in r or "crash" in r:
                viol("entry point %s panicked/crashed: %s" % (op, str(r)[:120]), mi, op)
            cls = "ok" if r.get("ok") else ("T03" if is_t03(r) else "err")
            if sup or any(abs(int(c) - int(s)) <= 1 for s in SUPPORTED):
                ctx.distinct.add((op, c, t, cls))
            if op == "typed":
                if t == c:
                    if is_t03(r):
                        viol("typed parse as the announced type MT%s reports a type mismatch" % t, mi, "typed\tMT" + t)
                elif not is_t03(r):
                    viol("typed parse as MT%s of a message announcing %s did not fail with T03: %s" % (t, c, str(r)[:160]), mi, "typed\tMT" + t)
        if sup:
            own = R[("typed", c)]
            if not same_result(auto, own):
                viol("auto-detecting parse differs from typed parse as MT%s" % c, mi, "auto")
            if auto.get("ok"):
                if auto.get("wrapper_type") != c or (auto.get("wrapper_json") or {}).get("mt_type") != c:
                    viol("auto parse wrapped the message as %s" % auto.get("wrapper_type"), mi, "auto")
                wj = dict(auto.get("wrapper_json") or {}); wj.pop("mt_type", None)
                if own.get("ok") and wj != own.get("json"):
                    viol("auto parse payload differs from the typed result", mi, "auto")
                if own.get("ok") and (auto.get("is_valid") != own.get("is_valid") or auto.get("validate_rule_names") != own.get("validate_rule_names")):
                    viol("wrapper validate() differs from typed validate()", mi, "auto")
            if own.get("ok"):
                if not (pp.get("ok") and pp.get("json") == own.get("json")):
                    viol("plugin parse result differs from typed parse as MT%s" % c, mi, "pparse")
                if not (pv.get("ok") and pv.get("valid") == (own.get("rules") == []) and pv.get("message_type") == c):
                    viol("plugin validate verdict/type differs from typed MT%s rules %s: %s" % (c, own.get("rules"), str(pv)[:160]), mi, "pvalidate")
                for ty, r in pub.get(mi, {}).items():
                    ctx.evaluations += 1
                    ctx.distinct.add(("publish", ty, "ok" if r.get("ok") else "err"))
                    if not (r.get("ok") and r.get("mt") == own.get("mt")):
                        viol("plugin publish as %r differs from typed to_mt_message: %s" % (ty, str(r)[:160]), mi, "ppublish\t" + hexs(ty))
            else:
                if pp.get("ok"):
                    viol("plugin parse accepted a message the typed API rejects", mi, "pparse")
                if not (pv.get("ok") and pv.get("valid") is False):
                    viol("plugin validate did not report an unparsable message invalid", mi, "pvalidate")
        else:
            e = auto.get("err") or {}
            if auto.get("ok") or not (isinstance(e, dict) and (e.get("UnsupportedMessageType") or {}).get("message_type") == c):
                viol("unsupported type %s not reported as unsupported by parse_auto: %s" % (c, str(auto)[:200]), mi, "auto")
            if pp.get("ok") or "nsupported" not in str(pp.get("display")):
                viol("unsupported type %s not reported as unsupported by plugin parse: %s" % (c, str(pp)[:200]), mi, "pparse")
            if not (pv.get("ok") and pv.get("valid") is False and "nsupported" in json.dumps(pv.get("errors"))):
                viol("unsupported type %s not reported as unsupported by plugin validate: %s" % (c, str(pv)[:200]), mi, "pvalidate")
            for ty, r in pub.get(mi, {}).items():
                ctx.evaluations += 1
                if r.get("ok") or "Unsupported message type" not in str(r.get("display")):
                    viol("plugin publish under unsupported type %r: %s" % (ty, str(r)[:200]), mi, "ppublish\t" + hexs(ty))
        # ---- correspondence: model's abstract result vs library
        if ctx.model_available:
            def dis(op, t, why):
                ctx.disagreements.append({"op": op, "announced": c, "requested": t, "model": model.get((mi, op, t)), "why": why})
            for (op, t), r in R.items():
                mr = model.get((mi, op, t))
                if mr is None:
                    continue
                if op == "typed":
                    if mr == "Typed(MT%s)" % t:
                        if is_t03(r): dis(op, t, "model: reaches typed API; library: T03")
                    elif mr == "T03(%s,%s)" % (t, c):
                        if not is_t03(r): dis(op, t, "model: T03; library: " + str(r)[:80])
                    else:
                        dis(op, t, "unexpected model result")
                elif op == "auto":
                    mm = re.fullmatch(r"Wrapped\(MT(\w+),Typed\(MT(\w+)\)\)", mr)
                    if mm:
                        tgt = R.get(("typed", mm.group(2)))
                        if tgt is not None and not same_result(r, tgt): dis(op, t, "library auto differs from typed " + mm.group(2))
                        if r.get("ok") and r.get("wrapper_type") != mm.group(1): dis(op, t, "wrapper type")
                    elif mr == "Unsupported(%s)" % hexs(c):
                        if r.get("ok") or "UnsupportedMessageType" not in json.dumps(r.get("err")): dis(op, t, "model: unsupported")
                    elif mr.startswith("T03"):
                        if not is_t03(r): dis(op, t, "model: T03")
                    else:
                        dis(op, t, "unexpected model result")
                elif op == "pparse":
                    mm = re.fullmatch(r"JsonOf\(MT(\w+)\)", mr)
                    if mm:
                        tgt = R.get(("typed", mm.group(1)))
                        if tgt is not None and tgt.get("ok") and not (r.get("ok") and r.get("json") == tgt.get("json")): dis(op, t, "json differs")
                    elif mr.startswith("Unsupported"):
                        if r.get("ok"): dis(op, t, "model: unsupported")
                    else:
                        dis(op, t, "unexpected model result")
                elif op == "pvalidate":
                    mm = re.fullmatch(r"RulesOf\(MT(\w+),(\w+)\)", mr)
                    if mm:
                        tgt = R.get(("typed", mm.group(1)))
                        if tgt is not None and tgt.get("ok") and not (r.get("valid") == (tgt.get("rules") == []) and r.get("message_type") == mm.group(2)): dis(op, t, "verdict differs")
                    elif mr.startswith("Unsupported"):
                        if r.get("valid") is not False: dis(op, t, "model: unsupported")
                    else:
                        dis(op, t, "unexpected model result")
            for ty, r in pub.get(mi, {}).items():
                mr = model.get((mi, "publish", ty))
                mm = re.fullmatch(r"PublishOf\(MT(\w+)\)", mr or "")
                if mm:
                    tgt = R.get(("typed", mm.group(1)))
                    if tgt is not None and tgt.get("ok") and not (r.get("ok") and r.get("mt") == tgt.get("mt")):
                        ctx.disagreements.append({"op": "publish", "type_string": ty, "model": mr})
                elif (mr or "").startswith("Unsupported"):
                    if r.get("ok"): ctx.disagreements.append({"op": "publish", "type_string": ty, "model": mr})
                else:
                    ctx.disagreements.append({"op": "publish", "type_string": ty, "model": mr, "why": "unexpected model result"})
    if ctx.disagreements:
        ctx.broken.append("correspondence: stream dispatch: %d disagreement(s), first: %s" % (len(ctx.disagreements), json.dumps(ctx.disagreements[0])[:300]))
    ctx.samples = [{"op": "auto", "announced": "103", "model": model.get((SUPPORTED.index("103") * 0 + 2, "auto", None))},
                   {"case": cases[0][:120] + "..."}, {"case": cases[-1][:120] + "..."}]
    ctx.stats["messages"] = len(msgs)
    return finish(ctx, level="proof", trusted=TRUSTED,
                  assumptions=["the 30 supported codes (Dispatch/Facts.v `supported`) are written by hand from the property text",
                               "Rust match semantics on string literals; serde's internally tagged enum for the wrapper"],
                  extra={"exhaustive": True,
                         "explanation": "theorems hold for EVERY type string; the correspondence sweep enumerates all 1000 numeric codes and (thorough) the 30x30 cross matrix"})
