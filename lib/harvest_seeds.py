#!/usr/bin/env python3
"""DEV TOOL: for every seeded change under seeded/_incoming/<P>/<m>: (1) does the patch (or its hand-adapted version) apply to /repo HEAD,
(2) confirmation in a scratch worktree under /tmp (demo passes clean, fails with the change, existing suite passes with the change),
(3) run the property's quick check with the change applied to /repo's working tree (undone straight afterwards) and record whether
it reports a violation.  Writes seeded/<P>-<m>/{patch.diff, demo.rs, meta.json}.  usage: harvest_seeds.py [P ...]"""
import json, os, subprocess, sys, shutil, re, signal
ROOT = os.path.dirname(os.path.dirname(os.path.abspath(__file__)))
# A seeded change is applied to /repo's working tree only between writing and removing this marker; the
# termination signals are turned into exceptions so that the `finally` below runs, the next run of this tool restores the tree
# first when it finds the marker, and `./check` prints a note on stderr while it exists.  Reason: a run of this tool that was
# killed in between once left a seeded change in /repo, where it was then committed as if it belonged to the code (DESIGN.md).
MARK = os.path.join(ROOT, "work", "SEEDED_CHANGE_IN_REPO")


def _term(signum, frame):
    raise KeyboardInterrupt("signal %d" % signum)


for _s in (signal.SIGTERM, signal.SIGHUP, signal.SIGINT):
    signal.signal(_s, _term)


def restore_repo():
    """undo whatever a seeded change left in /repo's working tree (tracked files only; nothing is committed by this tool)"""
    sh("git -C /repo checkout -- .")
    if os.path.exists(MARK):
        os.remove(MARK)
INC = os.path.join(ROOT, "seeded", "_incoming")
ENV = dict(os.environ, CARGO_NET_OFFLINE="true", CARGO_TARGET_DIR="/tmp/confirm_target")


def sh(cmd, cwd=None, timeout=3000, env=None):
    p = subprocess.run(cmd, shell=True, cwd=cwd, env=env or ENV, stdout=subprocess.PIPE, stderr=subprocess.STDOUT, timeout=timeout)
    return p.returncode, p.stdout.decode("utf-8", "replace")


def confirm(d, patch):
    wt = "/tmp/confirm_wt"
    sh("git -C /repo worktree remove --force %s" % wt)
    shutil.rmtree(wt, ignore_errors=True)
    rc, out = sh("git -C /repo worktree add -q --detach %s HEAD" % wt)
    if rc:
        return "NOT-CONFIRMED worktree: " + out[-200:]
    try:
        shutil.copy(os.path.join(d, "demo.rs"), os.path.join(wt, "tests", "verif_demo.rs"))
        rc, out = sh("cargo test --offline --test verif_demo", cwd=wt)
        if rc:
            return "NOT-CONFIRMED demo fails on the clean tree: " + out[-300:].replace("\n", " | ")
        rc, out = sh("git apply %s" % patch, cwd=wt)
        if rc:
            return "NOT-CONFIRMED patch does not apply to HEAD"
        rc, out = sh("cargo test --offline --test verif_demo", cwd=wt)
        if rc == 0:
            return "NOT-CONFIRMED demo passes with the change"
        os.remove(os.path.join(wt, "tests", "verif_demo.rs"))
        rc, out = sh("cargo test --offline", cwd=wt)
        if rc:
            return "NOT-CONFIRMED the existing suite fails with the change: " + out[-300:].replace("\n", " | ")
        return "CONFIRMED"
    finally:
        sh("git -C /repo worktree remove --force %s" % wt)
        shutil.rmtree(wt, ignore_errors=True)


def main():
    mode = "detect"
    args = sys.argv[1:]
    if args and args[0] in ("detect", "confirm"):
        mode = args[0]; args = args[1:]
    props = args or sorted(p for p in os.listdir(INC) if p.startswith("C"))
    head = sh("git -C /repo log --format=%h -1")[1].strip()
    if os.path.exists(MARK):
        print("a previous run left %s; restoring /repo's working tree first" % MARK, flush=True)
        restore_repo()
    for P in props:
        only = set(filter(None, os.environ.get("HARVEST_ONLY", "").split(",")))
        for m in sorted(x for x in os.listdir(os.path.join(INC, P)) if re.fullmatch(r"m\d", x) and (not only or x in only)):
            d = os.path.join(INC, P, m)
            meta = json.load(open(os.path.join(d, "meta.json")))
            adapted = os.path.join(d, "patch_adapted_to_head.diff")
            patch = adapted if os.path.exists(adapted) else os.path.join(d, "patch.diff")
            dst = os.path.join(ROOT, "seeded", "%s-%s" % (P, m))
            prev = json.load(open(os.path.join(dst, "meta.json"))) if os.path.exists(os.path.join(dst, "meta.json")) else {}
            out = dict(prev)
            out.update({"property": P, "summary": meta.get("summary"), "needs": meta.get("needs"), "repo_head": head,
                        "patch_used": "hand-adapted to HEAD (the original was written before later fix: commits)" if patch == adapted else "original"})
            rc, _ = sh("git -C /repo apply --check %s" % patch)
            if rc:
                out["status"] = "does-not-apply"
                out["note"] = "the original patch no longer applies to /repo HEAD (the code it edits was changed by later fix: commits) and was not adapted"
            elif mode == "confirm":
                out["confirmation"] = confirm(d, patch)
            else:
                restore_repo()
                os.makedirs(os.path.dirname(MARK), exist_ok=True)
                json.dump({"pid": os.getpid(), "patch": patch}, open(MARK, "w"))
                try:
                    rc, _ = sh("git -C /repo apply %s" % patch)
                    rc, o = sh("./check %s --tier quick" % P, cwd=ROOT, timeout=3000, env=dict(os.environ))
                    viol = [l for l in o.split("\n") if l.startswith("VIOLATION")]
                    first = [l.strip() for l in o.split("\n") if "violation:" in l][:1]
                    out["check_exit"] = rc
                    out["status"] = "detected" if rc == 1 and viol else "missed"
                    out["check_output"] = {"violation_lines": len(viol), "no_failing_input_found": any("no-failing-input-found" in l for l in viol), "first": (first[0][:300] if first else None)}
                finally:
                    restore_repo()
            os.makedirs(dst, exist_ok=True)
            shutil.copy(patch, os.path.join(dst, "patch.diff"))
            if patch == adapted:
                shutil.copy(os.path.join(d, "patch.diff"), os.path.join(dst, "patch_original.diff"))
            shutil.copy(os.path.join(d, "demo.rs"), os.path.join(dst, "demo.rs"))
            json.dump(out, open(os.path.join(dst, "meta.json"), "w"), indent=1)
            print(P, m, out.get("status"), out.get("confirmation", "")[:60], flush=True)
    shutil.rmtree("/tmp/confirm_target", ignore_errors=True)


main()
