"""C10 — envelope integrity: blocks and headers are extracted and reproduced faithfully."""
import json, os, re, itertools
from common import *
import mtgen

PROP = "C10"
COQ_TARGETS = ["Props/C10.vo"]
TRANSLATOR = []

TRUSTED = [
    "Coq 8.16.1 kernel; no axioms",
    "hand model Headers/{Hdr12,Hdr35,B3,Blocks}.v of BasicHeader / ApplicationHeader / UserHeader / Trailer parse and Display and of SwiftParser::extract_block; tied by the streams `hdr` and `blocks` (extracted model vs library)",
    "block 3/5 theorems are about blocks assembled from {tag:value} groups with brace-free values; extract_block's dependence on block structure only is NOT proved (it is false: see known findings) and is explored by the stream `blocks`",
]

B3_TAGS = {"103": ["TGT", "CAD"], "113": ["URGT", "0010"], "108": ["MUR12345", "REF/2024-01", "A"], "119": ["STP", "COV", "REMIT"],
           "423": ["260930123456", "26093012345678"], "106": ["260930BANKDEFFAXXX0001000001", "260930BANKDEFFAXXX00010000011"],
           "424": ["RELATEDREF1", "PQR"], "111": ["001"], "121": ["a1b2c3d4-e5f6-4a7b-8c9d-0e1f2a3b4c5d"], "115": ["121413 121413 DE BANKDECDA123", "ADDR"],
           "165": ["/abc/extra info", "ABC", "ABC/additional"], "433": ["/AOK/screened", "FPO", "NOK/details here"], "434": ["/FPO/x", "FPO", "AOK/more"]}
B3_NEAR = {"423": ["12345"], "106": ["260930BANK"], "165": ["AB", "ABCDEF"], "433": ["ABCX1"], "108": ["INV121:778899", "PAY/119:X"]}
B5_TAGS = {"CHK": ["123456789ABC"], "MAC": ["00000000"], "TNG": [""], "DLM": [""], "PDE": ["", "1348120811BANKFRPPAXXX2222123456"],
           "MRF": ["1806271539180626BANKFRPPAXXX2222123456"], "PDM": ["", "1213120811BANKFRPPAXXX2222123456"], "SYS": ["1454120811BANKFRPPAXXX2222123456"]}


def partly_read(t, v):
    """the values of the listed class C10-block3-structured-tags-partly-read: shorter than / shaped differently from what the reader
    expects (the near-miss values) and the documented /code/text form of 165, 433, 434"""
    return v in B3_NEAR.get(t, []) or (t in ("165", "433", "434") and v.startswith("/"))


def gen_b1(rng):
    return rng.choice("FAL") + rng.choice(["01", "21"]) + "".join(rng.choice("ABCDEFGH") for _ in range(6)) + rng.choice(["2L", "33", "FF"]) + \
        rng.choice("AXB") + rng.choice(["XXX", "123", "ABC"]) + "%04d" % rng.randrange(10000) + "%06d" % rng.randrange(1000000)


def gen_b2i(rng):
    s = "I" + rng.choice(mtgen.SUPPORTED) + "".join(rng.choice("ABCDEFGH") for _ in range(6)) + rng.choice(["2L", "33"]) + "X" + rng.choice(["XXX", "123"]) + rng.choice("NUS")
    k = rng.randrange(3)
    if k >= 1:
        s += rng.choice("123")
    if k == 2:
        s += rng.choice(["003", "020"])
    return s


def gen_b2o(rng):
    s = "O" + rng.choice(mtgen.SUPPORTED) + "%02d%02d" % (rng.randrange(24), rng.randrange(60)) + "260930" + "BANKDEFFAXXX" + "%04d" % rng.randrange(10000) + \
        "%06d" % rng.randrange(1000000) + "260930" + "%02d%02d" % (rng.randrange(24), rng.randrange(60))
    if rng.random() < 0.5:
        s += rng.choice("NUS")
    return s


def near_misses(rng, s):
    out = [s[:-1], s + "X", s + "XYZ", s[:5] + "é" + s[6:], s.lower(), " " + s, s[:3] + s[4:], "X" + s[1:], s[:17] + "-" + s[18:] if len(s) > 17 else s + "-"]
    return [x for x in out if x != s]


def spec_b1(s):
    return bool(re.fullmatch(r"[\x00-\x7f]{25}", s))


def spec_b2(s):
    if not s.isascii():
        return False
    if s.startswith("I"):
        return len(s) in (17, 18, 21) and (len(s) < 18 or s[17].isalnum())
    if s.startswith("O"):
        return len(s) in (46, 47)
    return False


def run(ctx):
    ctx.rule = ("well-formed basic / application (I and O) / user / trailer headers built from their documented components (every subset "
                "and order of the 13 block-3 and 8 block-5 tags), near-miss variants (length +-1, +3, non-ASCII, lower case, wrong direction, "
                "bad monitoring character, short structured tag values, tag text inside a value, long block 3), and whole messages with "
                "every combination of present/absent optional blocks around a block 4, incl. block-like text inside field values and block-3 values "
                "that end in a hyphen; whole messages (3 / 30 types, input and output block 2) with every recognised block-3 / block-5 tag alone, every "
                "pair of block-3 tags and all tags together through parse and serialisation; "
                "distinct = (stream, outcome class, shape)")
    standard_front(ctx, __import__("c10"))
    rng = ctx.rng
    known, _ = load_known(PROP)
    N = 1500 if ctx.tier == "thorough" else 80
    cases, meta = [], []
    for _ in range(N):
        for kind, g in (("hdr1", gen_b1), ("hdr2", gen_b2i), ("hdr2", gen_b2o)):
            s = g(rng)
            cases.append("%s\t%s" % (kind, hexs(s))); meta.append((kind, s, True))
            for nm in rng.sample(near_misses(rng, s), 3):
                cases.append("%s\t%s" % (kind, hexs(nm))); meta.append((kind, nm, False))
    # block 3: subsets, orders
    tags3 = list(B3_TAGS)
    for _ in range(N * 2):
        k = rng.randrange(0, len(tags3) + 1)
        sel = rng.sample(tags3, k)
        tvs = [(t, rng.choice(B3_TAGS[t] + (B3_NEAR.get(t, []) if rng.random() < 0.25 else []))) for t in sel]
        b3 = "".join("{%s:%s}" % tv for tv in tvs)
        cases.append("hdr3\t%s" % hexs(b3)); meta.append(("hdr3", b3, tvs))
    allfull = "".join("{%s:%s}" % (t, max(B3_TAGS[t], key=len)) for t in tags3)
    cases.append("hdr3\t%s" % hexs(allfull)); meta.append(("hdr3", allfull, [(t, max(B3_TAGS[t], key=len)) for t in tags3]))
    tags5 = list(B5_TAGS)
    for _ in range(N):
        sel = rng.sample(tags5, rng.randrange(0, len(tags5) + 1))
        tvs = [(t, rng.choice(B5_TAGS[t])) for t in sel]
        b5 = "".join("{%s:%s}" % tv for tv in tvs)
        cases.append("hdr5\t%s" % hexs(b5)); meta.append(("hdr5", b5, tvs))
    # whole messages: block structure
    seeds = mtgen.load_seeds(limit=1)
    inject = ["", "{5:{CHK:FAKE}}", "-}", "{3:{108:X}}", "{1:F01XXXXXXXXXXXX0000000000}", "SEE NOTE -} END", "{4:"]
    for c in (mtgen.SUPPORTED if ctx.tier == "thorough" else rng.sample(mtgen.SUPPORTED, 10)):
        text = seeds[c][0][1]
        sp = mtgen.split_message(text)
        if not sp:
            continue
        b1 = gen_b1(rng); b2 = gen_b2i(rng)[:1] + c + gen_b2i(rng)[4:]
        body = sp[1]
        for has3, has5 in itertools.product((False, True, "long", "hyphen"), (False, True)):
            for inj in inject:
                toks = mtgen.tokens(body)
                if inj:
                    # put block-like text inside a free-text field value (72 / 79 / 70 / 86 if present, else append a 72... only when allowed)
                    idx = [i for i, (t, _) in enumerate(toks) if t in ("72", "79", "70", "86", "77B")]
                    if not idx:
                        continue
                    i = idx[0]
                    toks = toks[:i] + [(toks[i][0], toks[i][1].split("\n")[0][:20] + " " + inj)] + toks[i + 1:]
                b4 = "\n" + mtgen.render(toks) + "\n"
                b3 = allfull if has3 == "long" else "{108:PAY-2024-}{424:REL-}" if has3 == "hyphen" else "{108:MUR1}{121:a1b2c3d4-e5f6-4a7b-8c9d-0e1f2a3b4c5d}" if has3 else None
                b5 = "{CHK:123456789ABC}" if has5 else None
                raw = "{1:%s}\n{2:%s}\n" % (b1, b2) + ("{3:%s}\n" % b3 if has3 else "") + "{4:%s-}\n" % b4 + ("{5:%s}\n" % b5 if has5 else "")
                cases.append("blocks\t%s" % hexs(raw)); meta.append(("blocks", raw, (b1, b2, b3, b4, b5, inj)))
    # whole messages through parse and serialisation: every recognised tag of block 3 / 5 alone, every pair of block-3 tags,
    # values that end in a hyphen; the printed text must carry the same blocks 1, 2 and the same tag values in blocks 3 and 5
    wl = []
    for t in tags3:
        for v in B3_TAGS[t]:
            wl.append(([(t, v)], []))
    for t1, t2 in itertools.combinations(tags3, 2):
        wl.append(([(t1, B3_TAGS[t1][0]), (t2, B3_TAGS[t2][0])], []))
    for t in ("108", "424", "113", "115"):
        wl.append(([(t, {"113": "AB-", "115": "ADDR-"}.get(t, "REF-2024-"))], []))
    for t in tags5:
        for v in B5_TAGS[t]:
            wl.append(([], [(t, v)]))
    wl.append(([(t, B3_TAGS[t][0]) for t in tags3], [(t, B5_TAGS[t][0]) for t in tags5]))
    wtypes = mtgen.SUPPORTED if ctx.tier == "thorough" else rng.sample(mtgen.SUPPORTED, 3)
    for c in wtypes:
        sp = mtgen.split_message(seeds[c][0][1])
        if not sp:
            continue
        for tv3, tv5 in wl:
            for b2 in ((gen_b2i(rng)[:1] + c + gen_b2i(rng)[4:]), (gen_b2o(rng)[:1] + c + gen_b2o(rng)[4:])):
                b1 = gen_b1(rng)
                b3 = "".join("{%s:%s}" % tv for tv in tv3)
                b5 = "".join("{%s:%s}" % tv for tv in tv5)
                raw = "{1:%s}{2:%s}" % (b1, b2) + ("{3:%s}" % b3 if tv3 else "") + "{4:\n%s\n-}" % sp[1].strip("\n") + ("{5:%s}" % b5 if tv5 else "")
                cases.append("jrt\tMT%s\t%s" % (c, hexs(raw))); meta.append(("whole", raw, (b1, b2, tv3, tv5)))
    res = run_lib(ctx, cases, "c10")
    mres = run_model(ctx, [c for c in cases if not c.startswith("jrt\t")], "c10") + [None] * sum(1 for c in cases if c.startswith("jrt\t"))
    kn = {k["match"]["kind"]: k["id"] for k in known if "match" in k}
    def hit(kind):
        if kind in kn:
            ctx.known_hits[kn[kind]] = ctx.known_hits.get(kn[kind], 0) + 1
            return True
        return False
    for case, (kind, s, info), r, m in zip(cases, meta, res, mres):
        ctx.evaluations += 1
        replay = case
        if "panic" in r or "crash" in r:
            ctx.violations.append(("%s panicked on %r: %s" % (kind, s[:60], str(r)[:100]), replay)); continue
        ok = bool(r.get("ok"))
        if kind in ("hdr1", "hdr2"):
            want = spec_b1(s) if kind == "hdr1" else spec_b2(s)
            ctx.distinct.add((kind, ok, len(s)))
            if ok and not want:
                ctx.violations.append(("%s accepts %r, which does not have the header's length/direction/shape" % (kind, s), replay))
            elif want and not ok:
                ctx.violations.append(("%s rejects the well-formed header %r: %s" % (kind, s, r.get("display")), replay))
            if ok and r.get("display") != s:
                ctx.violations.append(("%s accepted %r and printed %r" % (kind, s, r.get("display")), replay))
            if m is not None:
                mok = m.startswith("OK")
                if mok != ok or (ok and bytes.fromhex(m.split("\t")[1]).decode() != r.get("display")):
                    ctx.disagreements.append({"stream": kind, "input": s, "model": m[:80], "library": r.get("display") if ok else "ERR", "replay": replay})
        elif kind in ("hdr3", "hdr5"):
            disp = r.get("display", "")
            ctx.distinct.add((kind, tuple(t for t, _ in info)))
            for t, v in info:
                if ("{%s:%s}" % (t, v)) in disp or (kind == "hdr5" and v == "" and ("{%s}" % t) in disp):
                    continue
                # a recognised tag was not reproduced with its value
                if kind == "hdr3" and partly_read(t, v) and hit("b3_structured_partial"):
                    continue
                if kind == "hdr5" and t in ("TNG", "DLM", "PDE", "MRF", "PDM", "SYS") and hit("b5_unparsed_tags"):
                    continue
                if kind == "hdr3" and any(":" in vv and re.search(r"\d{3}:", vv) for _, vv in info) and hit("b3_tag_text_in_value"):
                    continue
                ctx.violations.append(("%s: tag %s with value %r is not reproduced (printed %r)" % (kind, t, v, disp[:160]), replay))
            if m is not None and m.startswith("OK"):
                md = bytes.fromhex(m.split("\t")[1]).decode()
                if md != disp:
                    ctx.disagreements.append({"stream": kind, "input": s[:120], "model": md[:160], "library": disp[:160], "replay": replay})
        elif kind == "whole":
            b1, b2, tv3, tv5 = info
            ctx.distinct.add((kind, tuple(t for t, _ in tv3), tuple(t for t, _ in tv5), b2[0]))
            if not ok:
                # the base text is a shipped example that the library accepts; only the envelope was varied
                ctx.violations.append(("a well-formed message with block 3 %r / block 5 %r is rejected: %s" % (tv3, tv5, str(r.get("display"))[:120]), replay))
                continue
            out = r.get("mt") or ""
            if ("{1:%s}" % b1) not in out or ("{2:%s}" % b2) not in out:
                ctx.violations.append(("blocks 1 / 2 are not reproduced: %r %r in %r" % (b1, b2, out[:120]), replay))
            m3 = re.search(r"\{3:((?:\{[^{}]*\})*)\}", out)
            m5 = re.search(r"\{5:((?:\{[^{}]*\})*)\}\s*$", out)
            for blk, tvs, mm in (("3", tv3, m3), ("5", tv5, m5)):
                disp = mm.group(1) if mm else ""
                for t, v in tvs:
                    if ("{%s:%s}" % (t, v)) in disp or (blk == "5" and v == "" and ("{%s}" % t) in disp):
                        continue
                    if blk == "3" and partly_read(t, v) and hit("b3_structured_partial"):
                        continue
                    if blk == "5" and t in ("TNG", "DLM", "PDE", "MRF", "PDM", "SYS") and hit("b5_unparsed_tags"):
                        continue
                    ctx.violations.append(("whole message: tag %s of block %s with value %r is not reproduced by serialisation (block printed as %r)" % (t, blk, v, disp[:120]), replay))
        else:
            b1, b2, b3, b4, b5, inj = info
            got = r.get("blocks")
            want = [b1, b2, b3, b4, b5]
            ctx.distinct.add((kind, b3 is not None, b5 is not None, inj))
            if got != want:
                if inj and hit("blocks_found_by_substring"):
                    pass
                else:
                    d = [(i + 1, w, g) for i, (w, g) in enumerate(zip(want, got)) if w != g][:1]
                    ctx.violations.append(("extract_block: block %d should be %r, got %r (injected %r)" % (d[0][0], str(d[0][1])[:60], str(d[0][2])[:60], inj), replay))
            if m is not None:
                mg = [None if x == "-" else bytes.fromhex(x[1:]).decode("utf-8", "replace") for x in m.split("\t")]
                if mg != got:
                    ctx.disagreements.append({"stream": kind, "model": str(mg)[:200], "library": str(got)[:200], "replay": replay})
        if len(ctx.samples) < 6 and kind in ("hdr3", "blocks"):
            ctx.samples.append({"stream": kind, "input": s[:160]})
    if ctx.disagreements:
        ctx.broken.append("correspondence: streams hdr/blocks: %d disagreement(s), first: %s" % (len(ctx.disagreements), json.dumps({k: v for k, v in ctx.disagreements[0].items() if k != "replay"})[:300]))
    ctx.stats.update({"cases": len(cases)})
    return finish(ctx, level="proof", trusted=TRUSTED,
                  assumptions=["documented header formats: block 1 = 25 characters; block 2 input = 17/18/21, output = 46/47; block 3 / 5 = {tag:value} groups of the documented tags"])
