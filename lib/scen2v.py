"""Renders the shipped scenario files, the generators' languages and the requirement table into coq/gen/Scenarios.v
(regenerated on every run of C15 from /repo/test_scenarios, the `fake` / `datafake-rs` sources the library is built
with, and spec/scenario_reqs.json)."""
import json, os, re, sys
sys.path.insert(0, os.path.dirname(os.path.abspath(__file__)))
import scen

ROOT = os.path.dirname(os.path.dirname(os.path.abspath(__file__)))
OUT = os.path.join(ROOT, "coq", "gen", "Scenarios.v")


def q(s):
    assert all(32 <= ord(c) < 127 for c in s), s
    return '"%s"' % s.replace('"', '""')


def load_reqs():
    d = json.load(open(os.path.join(ROOT, "spec", "scenario_reqs.json")))
    return d["classes"], d["reqs"]


def req_for(reqs, tag, key):
    t = tag if tag is not None else "-"
    for r in reqs:
        if re.fullmatch(r["tag"], t) and re.fullmatch(r["key"], key):
            return r
    return None


class Render:
    def __init__(self):
        self.wl = {}        # tuple(words) -> name
        self.kinds = {}     # json args -> index in the table `kinds` (None: not modelled)
        self.kdefs = []
        self.defs = []

    def words(self, ws):
        key = tuple(ws)
        if key not in self.wl:
            name = "wl_%d" % len(self.wl)
            self.wl[key] = name
            uniq = list(dict.fromkeys(ws))
            self.defs.append("Definition %s : list bytes := map bs [%s]." % (name, "; ".join(q(w) for w in uniq)))
        return self.wl[key]

    def slot(self, sl):
        if sl[0] == "words":
            return "SWords %s" % self.words(sl[1])
        if sl[0] == "chars":
            return "SChars (bs %s) %d %d" % (q(sl[1]), sl[2], sl[3])
        if sl[0] == "num":
            return "SNum (%d) (%d)" % (sl[1], sl[2])
        raise ValueError(sl)

    def kind(self, args):
        key = json.dumps(args)
        if key not in self.kinds:
            if args[0] == "date":
                # a superset of the calendar: year 2000..2049, month, day as independent choices
                fmt = args[1] if len(args) > 1 else "%Y-%m-%d"
                yy = ["%02d" % y for y in range(0, 50)]
                mm = ["%02d" % m for m in range(1, 13)]
                dd = ["%02d" % d for d in range(1, 32)]
                if fmt == "%Y-%m-%d":
                    lang = [[("words", ["20" + y for y in yy]), ("words", ["-"]), ("words", mm), ("words", ["-"]), ("words", dd)]]
                elif fmt == "%y%m%d":
                    lang = [[("words", yy), ("words", mm), ("words", dd)]]
                else:
                    lang = None
            else:
                lang = scen.kind_lang(args)
            if lang is None:
                self.kinds[key] = None
            else:
                name = "k_%d" % len(self.kdefs)
                body = "; ".join("[%s]" % "; ".join(self.slot(sl) for sl in alt) for alt in lang)
                self.defs.append("(* fake %s *)\nDefinition %s : klang := [%s]." % (key.replace("*)", "* )"), name, body))
                self.kinds[key] = len(self.kdefs)
                self.kdefs.append(name)
        return self.kinds[key]

    def tm(self, node, variables, depth=0):
        if depth > 20:
            return "TTop"
        if isinstance(node, str):
            if not all(32 <= ord(c) < 127 for c in node):
                return "TTop"
            return "(TLit (bs %s))" % q(node)
        if isinstance(node, bool) or node is None:
            return "(TLit [])" if node is None else "TTop"
        if isinstance(node, int):
            return "(TLit (bs %s))" % q(str(node))
        if scen.is_op(node):
            op = next(iter(node)); a = node[op]
            al = a if isinstance(a, list) else [a]
            if op == "fake":
                k = self.kind(a)
                return "(TFake %d)" % k if k is not None else "TTop"
            if op == "var":
                if not isinstance(a, str):
                    return "TTop"
                if a not in variables:
                    return "(TLit [])"
                # variables are evaluated in an empty context: a variable inside a variable is null
                return self.tm(variables[a], {}, depth + 1)
            if op == "cat":
                out = "(TLit [])"
                for x in reversed(al):
                    out = "(TCat %s %s)" % (self.tm(x, variables, depth + 1), out)
                return out
            if op == "substr":
                st = al[1] if len(al) > 1 else 0
                ln = al[2] if len(al) > 2 else None
                if not isinstance(st, int) or st < 0 or not isinstance(ln, int) or ln < 0:
                    return "TTop"
                return "(TSub %s %d %d)" % (self.tm(al[0], variables, depth + 1), st, ln)
            if op == "if":
                br = [al[i + 1] for i in range(0, len(al) - 1, 2)] + ([al[-1]] if len(al) % 2 == 1 else [])
                out = self.tm(br[-1], variables, depth + 1)
                for x in reversed(br[:-1]):
                    out = "(TAny %s %s)" % (self.tm(x, variables, depth + 1), out)
                return out
            return "TTop"
        return "TTop"


def av_text(classes, r, lo, hi):
    cs = classes[r["cls"]]
    fst = "".join(c for c in cs if c not in r.get("first_not", ""))
    lst = "".join(c for c in cs if c not in r.get("last_not", ""))
    one = "".join(c for c in cs if c not in r.get("first_not", "") + r.get("last_not", "") + r.get("one_not", ""))
    return "{| v_cs := mask_of (bs %s); v_lo := %d; v_hi := %d; v_fst := mask_of (bs %s); v_lst := mask_of (bs %s); v_one := mask_of (bs %s) |}" % (
        q(cs), lo, hi, q(fst), q(lst), q(one))


def render():
    classes, reqs = load_reqs()
    R = Render()
    distinct, files = {}, []
    stats = {"files": 0, "leaves": 0, "string_leaves": 0, "constrained": 0, "unconstrained_keys": {}}
    used_reqs = {}
    for f in scen.scenario_files():
        d = json.load(open(f))
        variables = d.get("variables", {})
        idxs = []
        stats["files"] += 1
        for tag, kpath, jpath, node in scen.leaves(d):
            stats["leaves"] += 1
            key = "/".join(kpath)
            if isinstance(node, (int, float)) and not isinstance(node, bool):
                continue
            stats["string_leaves"] += 1
            r = req_for(reqs, tag, key)
            if r is None:
                k = "%s %s" % (tag or "-", key)
                stats["unconstrained_keys"][k] = stats["unconstrained_keys"].get(k, 0) + 1
                continue
            stats["constrained"] += 1
            used_reqs[(tag or "-", key)] = r
            t = R.tm(node, variables)
            ent = (tag or "-", key, t)
            if ent not in distinct:
                distinct[ent] = len(distinct)
            idxs.append(distinct[ent])
        files.append((os.path.relpath(f, scen.REPO), idxs))
    out = ["(* gen/Scenarios.v — GENERATED by lib/scen2v.py from /repo/test_scenarios, the word lists of the `fake` crate and",
           "   spec/scenario_reqs.json.  Do not edit. *)", "",
           "From Coq Require Import List NArith ZArith String.", "From SwiftMT Require Import Base.Bytes Scenario.Lang.",
           "Import ListNotations.", "Local Open Scope string_scope.", ""]
    # templates first (so that the definitions they need exist), then the tables
    body = []
    body.append("Definition distinct_leaves : list (bytes * bytes * tm) := [")
    body.append(";\n".join("  (bs %s, bs %s, %s)" % (q(tag), q(key), t) for (tag, key, t), _ in sorted(distinct.items(), key=lambda x: x[1])))
    body.append("].")
    body.append("")
    body.append("Definition reqs : list (bytes * bytes * list av) := [")
    rl = []
    for (tag, key), r in sorted(used_reqs.items()):
        alts = r.get("alts") or [[r["lo"], r["hi"]]]
        rl.append("  (bs %s, bs %s, [%s])" % (q(tag), q(key), "; ".join(av_text(classes, r, lo, hi) for lo, hi in alts)))
    body.append(";\n".join(rl))
    body.append("].")
    body.append("")
    body.append("Definition scenario_leaves : list (bytes * list nat) := [")
    body.append(";\n".join("  (bs %s, [%s])" % (q(f), "; ".join(map(str, ix))) for f, ix in files))
    body.append("].")
    kt = ["", "Definition kinds : list klang := [%s]." % "; ".join(R.kdefs)]
    text = "\n".join(out + R.defs + kt + [""] + body) + "\n"
    stats["distinct_leaves"] = len(distinct)
    stats["kinds"] = len(R.kdefs)
    stats["requirement_rows"] = len(used_reqs)
    return text, stats


def write_v():
    text, stats = render()
    os.makedirs(os.path.dirname(OUT), exist_ok=True)
    old = open(OUT).read() if os.path.exists(OUT) else None
    if old != text:
        open(OUT, "w").write(text)
    return stats


if __name__ == "__main__":
    print(json.dumps(write_v(), indent=1))
