#!/usr/bin/env python3
"""DEV TOOL (not run by any check).  Builds the C05 entries of known_findings.json from the deviation cases of several runs made
with NO C05 entry listed (work/C05/all_cases.jsonl): every case is put into the first class whose predicate holds; per-type classes
get the exact list of field types observed, classes caused by a shared helper apply to every type.  Review the output before committing."""
import json, re, sys, os, collections, glob
sys.path.insert(0, os.path.dirname(__file__))
from c05 import offending, is_extra
ROOT = os.path.dirname(os.path.dirname(os.path.abspath(__file__)))
hx = lambda s: s.encode().hex()
cs = [json.loads(l) for l in open(os.path.join(ROOT, "work", "C05", "all_cases.jsonl"))]
cs = [c for c in cs if not c["why"].startswith("corpus")]
AMT = re.compile(r"Field(19|32\w*|33B|34F|36|37H|60\w*|61|62\w*|64|65|71F|71G|90C|90D)$")
A, R = "accepts", "rejects"
NOC = r"\d\.\d|[A-Z]{3}[DC]?\d+$|^\d+$|^[CD]N?\d+$|^\d{1,5}[A-Z]{3}\d+$"
# (id, what, predicate, matcher extras, generic (no type list), witness)
CL = [
 ("C05-trailing-newline", "a content followed by one new line is accepted (str::lines ignores a final line end; 16x references take the new line as an x character); the extractor never passes one, so only direct API users see it",
  lambda c: c["dir"] == A and c["why"] == "trailing-nl", {"why": ["trailing-nl"]}, True, ("Field20", "REF1\n")),
 ("C05-offset-hours", "the UTC offset of 13C / 13D is HHMM with HH up to 13; '+1400' / '-1400' is accepted",
  lambda c: c["dir"] == A and re.search(r"[+-]14\d\d$", c["c"]), {"content_re": r"[+-]14\d\d$"}, False, ("Field13C", "/CLSTIME/2359-1400")),
 ("C05-amount-without-comma-or-with-dot", "amount components accept '100' (no decimal comma) and '1.5' (dot as separator); nd requires the comma",
  lambda c: c["dir"] == A and AMT.match(c["T"]) and not offending(c["c"]) and re.search(NOC, c["c"]), {"content_re": NOC}, False, ("Field19", "100")),
 ("C05-amount-longer-than-documented", "15d amounts of 16 and 17 characters (12d rates of 13 and 14) are accepted: parse_amount's only limit is 17, for field 19",
  lambda c: c["dir"] == A and AMT.match(c["T"]) and not offending(c["c"]) and re.search(r"\d{10,},\d\d", c["c"]), {"content_re": r"\d{10,},\d\d"}, False, ("Field32B", "USD11111111111111,00")),
 ("C05-precision-not-checked-in-balances", "fields 34F, 60F/M, 62F/M, 64, 65, 90C/D call parse_amount without the currency: 'C500101BHD1,0005' and 'USD1,005' are accepted (a fix was tried: it breaks a shipped scenario that writes decimals on a zero-decimal currency)",
  lambda c: c["dir"] == A and AMT.match(c["T"]) and not offending(c["c"]) and re.search(r"(JPY|BHD|USD|EUR)[DC]?\d+,\d+$", c["c"]), {"content_re": r"(JPY|BHD|USD|EUR)[DC]?\d+,\d+$"}, False, ("Field65", "C500101BHD1,0005")),
 ("C05-blank-lines-dropped", "an empty line inside, before or after a multi-line content is accepted and dropped (parse_multiline_text filters empty lines; party fields skip them)",
  lambda c: c["dir"] == A and re.search(r"\n\n|^\n|\n$", c["c"]) and not offending(c["c"]), {"content_re": r"\n\n|^\n|\n$"}, False, ("Field72", "A\n\nB")),
 ("C05-charset-extras", "parse_swift_chars, the check behind every x component, also accepts every non-ASCII letter or digit and the specials {}%&*;<=>@[]_$!\"#| (shipped scenarios rely on '@' and '_', so this is not repaired)",
  lambda c: c["dir"] == A and offending(c["c"]) and all(is_extra(ch) for ch in offending(c["c"])), {"chars": "extras"}, True, ("Field21C", "REF@é")),
 ("C05-charset-unchecked", "some components check no character class at all: tab, ~, ^, backslash are accepted in the 5xB location, 5xD name lines of some options, 71B, 72, 77T",
  lambda c: c["dir"] == A and offending(c["c"]), {"chars": "any"}, False, ("Field53B", "/C\nPLACE~")),
 ("C05-lines-after-the-part-read", "the parser reads the lines it needs and drops every further one (':52A:BANKDEFF\\nEXTRA LINE', ':20:REF\\nEXTRA LINE'); see C01-trailing-lines-ignored",
  lambda c: c["dir"] == A and c["why"] in ("trailing-line", "doubled") and "\n" in c["c"], {"why": ["trailing-line", "doubled"], "content_re": r"\n"}, False, ("Field52A", "DEUTDEFF\nEXTRA LINE")),
 ("C05-more-lines-than-documented", "one or two lines more than the documented maximum are accepted (kept, or the first N kept: see C01-narrative-truncated)",
  lambda c: c["dir"] == A and c["why"] in ("len:over", "len:over2") and "\n" in c["c"], {"why": ["len:over", "len:over2"], "content_re": r"\n"}, False, ("Field53D", "A\nB\nC\nD\nE")),
 ("C05-61-loose", "field 61 is cut at fixed offsets with few checks: lower-case and digits where 2a / 1!a / 3!c are documented, over-long references, MMDD entry dates such as 1301",
  lambda c: c["dir"] == A and c["T"] == "Field61", {}, False, ("Field61", "4901011301RDA100,00ZBBBA//REF")),
 ("C05-empty-content-accepted", "the empty string is accepted by the B options (52B, 53B, 54B, 55B, 57B: every component optional in the parser) and so by their families",
  lambda c: c["dir"] == A and c["c"] == "", {"content_re": r"^$"}, False, ("Field52B", "")),
 ("C05-party-identifier-unchecked", "the party identifier line is not checked against /1!a/34x | /34x: '/AB/' + 34 characters, '/' + 35 characters, '//...' and an empty '/' are accepted",
  lambda c: c["dir"] == A and re.search(r"^/[A-Z]{2,}/|^/[^\n]{35,}|^//|^/\n|^/$", c["c"]), {"content_re": r"^/[A-Z]{2,}/|^/[^\n]{35,}|^//|^/\n|^/$"}, False, ("Field52A", "/AB/1111111111111111111111111111111111\nDEUTDEFF")),
 ("C05-spaces-around-content", "leading or trailing blanks are accepted (and kept or trimmed) by 23, the B options and some families",
  lambda c: c["dir"] == A and c["why"] in ("leading-space", "trailing-space"), {"why": ["leading-space", "trailing-space"]}, False, ("Field52B", " /C\nLOCATION")),
 ("C05-overlong-or-misplaced-component", "remaining single-component deviations: 36- and 37-character location in 52B / 57B and their families, an empty [/2n] in 28 / 28C ('3/'), an empty [/35x] in 23E ('HOLD/'), a blank inside the code of 23 / 23E, lower case in 26T, account and BIC of 25P on one line, the same content twice in 52B / 57",
  lambda c: c["dir"] == A, {}, False, ("Field52B", "/C\n" + "A" * 36)),
 # ---- the parser is stricter than the documented format
 ("C05-zero-amount-rejected", "zero amounts ('USD0,') are rejected by 32A/B/C/D, 33B and 34F ('amount must be greater than zero') although 15d allows them and MT101 rule C9 is about zero amounts",
  lambda c: c["dir"] == R and re.search(r"[A-Z]{3}[DC]?0+,0*$", c["c"]), {"content_re": r"[A-Z]{3}[DC]?0+,0*$"}, False, ("Field32B", "USD0,")),
 ("C05-23E-letters-only", "23E codes with a digit ('A09B') are rejected: 4!c is read as upper-case letters only",
  lambda c: c["dir"] == R and c["T"] == "Field23E", {}, False, ("Field23E", "A09B")),
 ("C05-23-function-and-days", "field 23 = 3!a[2!n]11x: two digits after the first subfield are taken for the number of days and rejected unless NOT / NOTICE, also where they are the start of the 11x part",
  lambda c: c["dir"] == R and c["T"] == "Field23", {}, False, ("Field23", "USD30CALL")),
 ("C05-28D-index-zero", "'0/3' is rejected by 28D (index must be at least 1)",
  lambda c: c["dir"] == R and c["T"] == "Field28D" and re.search(r"^0+/", c["c"]), {"content_re": r"^0+/"}, False, ("Field28D", "0/3")),
 ("C05-36-range-heuristic", "field 36 rejects rates 'outside a reasonable range' ('999999,999', '111111111,00') that 12d allows",
  lambda c: c["dir"] == R and c["T"] == "Field36", {}, False, ("Field36", "999999,999")),
 ("C05-90-five-digits", "90C / 90D require exactly five digits for the number of entries; the documented format is 5n (up to five)",
  lambda c: c["dir"] == R and c["T"] in ("Field90C", "Field90D") and re.search(r"^\d{1,4}[A-Z]", c["c"]), {"content_re": r"^\d{1,4}[A-Z]"}, False, ("Field90C", "5USD1,")),
 ("C05-59F-line-numbers", "59F requires line numbers 1,2,3.. consecutive from 1 (and rejects other details of numbered lines); the format only requires 1!n/33x per line (see C03-59F-number-gap-rejected)",
  lambda c: c["dir"] == R and c["T"] == "Field59F", {}, False, ("Field59F", "1/JOHN\n3/GB/LONDON")),
 ("C05-leading-slash-is-party-identifier", "a first line starting with '/' is always read as the party identifier (or account): '//' + BIC, '/D/ACC/SUB x' as a name line, '/ACC,' as the only line of 59 are rejected",
  lambda c: c["dir"] == R and c["c"].startswith("/"), {"content_re": r"^/"}, False, ("Field52A", "//\nDEUTDEFF")),
 ("C05-61-stricter", "field 61 rejects some contents of the documented shape (transaction type identification letter other than S / N / F, funds code combinations)",
  lambda c: c["dir"] == R and c["T"] == "Field61", {}, False, ("Field61", "2609300229RC0,01ZABAREF\nSUPP")),
]
REJ = {"C05-zero-amount-rejected", "C05-23E-letters-only", "C05-23-function-and-days", "C05-28D-index-zero", "C05-36-range-heuristic", "C05-90-five-digits",
       "C05-59F-line-numbers", "C05-leading-slash-is-party-identifier", "C05-61-stricter"}
out = collections.OrderedDict()
left = []
for c in cs:
    for cid, what, pred, m, generic, w in CL:
        if pred(c):
            o = out.setdefault(cid, {"types": set(), "why": set(), "n": 0})
            o["types"].add(c["T"]); o["why"].add(c["why"]); o["n"] += 1
            break
    else:
        left.append(c)
p = os.path.join(ROOT, "known_findings.json"); d = json.load(open(p))
d["known"] = [k for k in d["known"] if k["property"] != "C05"]
for f in glob.glob(os.path.join(ROOT, "corpus", "C05", "C05-*.case")):
    os.remove(f)
for cid, what, pred, m, generic, (T, wc) in CL:
    if cid not in out:
        print("no cases:", cid); continue
    o = out[cid]; m = dict(m); m["kind"] = "format_deviation"; m["direction"] = R if cid in REJ else A
    if not generic:
        m["types"] = sorted(o["types"])
    if "why" not in m and m["direction"] == A:
        m["why"] = sorted(o["why"])
    open(os.path.join(ROOT, "corpus", "C05", cid + ".case"), "w").write("fparse_raw\t%s\t_\t%s\n" % (T, hx(wc)))
    d["known"].append({"id": cid, "property": "C05", "what": what, "match": m, "witness": "corpus/C05/%s.case" % cid})
    print(cid, m["direction"], o["n"], "all types" if generic else len(o["types"]), sorted(o["why"])[:8])
print("unclassified:", len(left), [(c["T"], c["dir"], c["why"], c["c"][:30]) for c in left[:10]])
json.dump(d, open(p, "w"), indent=1, ensure_ascii=False)
