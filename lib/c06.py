"""C06 — monetary amounts and rates are accepted only as decimals and preserved exactly."""
import json, os, re
from common import *

PROP = "C06"
COQ_TARGETS = ["Props/C06.vo"]
TRANSLATOR = ["tables"]

TRUSTED = [
    "Coq 8.16.1 kernel; lia/nia; no axioms (Closed under the global context)",
    "integer model Num/Amount.v of swift_utils::parse_amount / parse_amount_with_currency / format_swift_amount and of Rust's str::parse::<f64> (correctly rounded, ties to even) and `{:.k}` (exact expansion, half to even) on plain decimals; that core's float code behaves so is an ASSUMPTION, exercised by the stream `amount` (f64::to_bits and the five renderings compared with the model on every case)",
    "translator rs2v module `tables`: get_currency_decimals match arms, COMMODITY_CURRENCIES, the two format functions' bodies",
    "hand-written ISO 4217 minor-unit table (Num/Iso4217.v)",
    "JSON: statements are at serde_json::Value level (an f64 is stored as such; no text rounding)",
]

ISO0 = "BIF CLP DJF GNF ISK JPY KMF KRW PYG RWF UGX UYI VND VUV XAF XOF XPF".split()
ISO3 = "BHD IQD JOD KWD LYD OMR TND".split()
ISO4 = "CLF UYW".split()
OTHER = "USD EUR GBP CHF CAD AUD SEK NOK DKK PLN CZK HUF CNY INR BRL MXN ZAR SGD HKD NZD TRY AED SAR".split()


def iso_dec(c):
    return 0 if c in ISO0 else 3 if c in ISO3 else 4 if c in ISO4 else 2


def is_decimal(s):
    return bool(re.fullmatch(r"[0-9]+([.,][0-9]*)?", s)) and len(s.encode()) <= 17


# amount-bearing fields: type, builder, has currency check, printed decimals (None = currency's)
FIELDS = {
    "19": ("Field19", lambda a, c: a, False, 2),
    "32A": ("Field32A", lambda a, c: "260930" + c + a, True, None),
    "32B": ("Field32B", lambda a, c: c + a, True, None),
    "32C": ("Field32C", lambda a, c: "260930" + c + a, True, None),
    "32D": ("Field32D", lambda a, c: "260930" + c + a, True, None),
    "33B": ("Field33B", lambda a, c: c + a, True, None),
    "34F": ("Field34F", lambda a, c: c + "D" + a, False, 2),
    "36": ("Field36", lambda a, c: a, False, None),
    "37H": ("Field37H", lambda a, c: "C" + a, False, 4),
    "60F": ("Field60F", lambda a, c: "C260930" + c + a, False, 2),
    "60M": ("Field60M", lambda a, c: "C260930" + c + a, False, 2),
    "61": ("Field61", lambda a, c: "260930C" + a + "NTRFREF", False, 2),
    "62F": ("Field62F", lambda a, c: "C260930" + c + a, False, 2),
    "62M": ("Field62M", lambda a, c: "C260930" + c + a, False, 2),
    "64": ("Field64", lambda a, c: "C260930" + c + a, False, 2),
    "65": ("Field65", lambda a, c: "C260930" + c + a, False, 2),
    "71F": ("Field71F", lambda a, c: c + a, True, None),
    "71G": ("Field71G", lambda a, c: c + a, True, None),
    "90C": ("Field90C", lambda a, c: "5" + c + a, False, 2),
    "90D": ("Field90D", lambda a, c: "5" + c + a, False, 2),
}


def run(ctx):
    ctx.rule = ("(A) amount texts: integer part 1..15 digits x fraction 0..5 digits (boundaries 0, 9.., 10^k, 2^53 neighbourhood, random), "
                "every non-decimal spelling a float parser takes (NaN, inf, exponents, signs, leading/trailing separator, blanks, hex, "
                "underscores, Unicode digits), over-long digit strings; (B) every currency of the ISO table + 23 two-decimal ones x "
                "fraction lengths 0..5; (C) the same amounts through all 20 amount-bearing field types; non-trivial = accepted; "
                "distinct = distinct (text) resp. (field, currency, text)")
    standard_front(ctx, __import__("c06"))
    rng = ctx.rng
    known, _ = load_known(PROP)
    N = 6000 if ctx.tier == "thorough" else 250
    amounts = set()
    for il in range(1, 16):
        for fl in range(0, 6):
            if il + (1 + fl if fl else 0) > 17:
                continue
            for _ in range(max(1, N // 90)):
                ip = str(rng.randrange(10 ** (il - 1), 10 ** il)) if il > 1 else str(rng.randrange(10))
                for sep in (",", "."):
                    amounts.add(ip + (sep + "".join(rng.choice("0123456789") for _ in range(fl)) if fl else rng.choice(["", sep])))
    amounts |= {"0", "0,", "0,0", "0,00", "0,01", "0,001", "0,0001", "0,00001", "1,", "1,10", "999999999999,99", "999999999999999", "9999999999999,9",
                "123456789012,34", "25000000,12", "2,675", "0,125", "0,375", "1,005", "9007199254740993", "9007199254740992,", "4503599627370497",
                "100,", "100,0", "100,00", "100,000", "100,0000", "100,00000", "1234567,89", "0,1", "0,2", "0,3", "12,345", "12,3456"}
    # small values densely: every two-decimal amount below 10, a band of four-decimal rates, rates with 7-10 decimals
    # (a conversion that is exact on most values and one unit in the last place off on a few shows here)
    amounts |= {"%d,%02d" % (i, j) for i in range(10) for j in range(100)}
    amounts |= {"1,%04d" % j for j in range(0, 10000, 7 if ctx.tier == "thorough" else 37)} | {"0,%04d" % j for j in range(1, 10000, 41)}
    amounts |= {"0,0067342", "0,0001234567", "0,000000001", "1,0131", "1,0353", "1,1038", "1,1281", "0,1234567", "12,3456789", "0,00000001"}
    bad = ["NaN", "nan", "inf", "Inf", "infinity", "-inf", "1e3", "1E3", "1e-3", "1,5e2", "+5", "-5", "-0", "+0,5", ".5", ",5", "5.5.5", "1,2,3", "1.2,3",
           " 5", "5 ", "5\n", "0x10", "1_000", "１２３", "١٢٣", "", ",", ".", "1,-5", "--5", "5-", "1e400", "9" * 16, "9" * 20 + ",12", "9" * 310,
           "12345678901234567890,12", "1 000", "1'000", "1,0e0", "0,5f", "5d", "NAN", "INF", "1e", "e1", "+", "-"]
    texts = sorted(amounts) + bad
    res = run_lib(ctx, ["amount\t%s" % hexs(t) for t in texts], "c06a")
    mres = run_model(ctx, ["amount\t%s" % hexs(t) for t in texts], "c06a")
    acc = 0
    for t, r, m in zip(texts, res, mres):
        ctx.evaluations += 1
        replay = "amount\t%s" % hexs(t)
        if "panic" in r or "crash" in r:
            ctx.violations.append(("parse_amount panicked on %r" % t[:40], replay)); continue
        ok = bool(r.get("ok"))
        if ok:
            acc += 1
            ctx.distinct.add(t)
        want = is_decimal(t)
        if ok and not want:
            ctx.violations.append(("parse_amount accepts %r, which is not digits with one decimal separator within 15 characters" % t[:40], replay))
        elif want and not ok:
            ctx.violations.append(("parse_amount rejects the decimal %r" % t, replay))
        if ok:
            if not (r.get("finite") and r.get("nonneg")):
                ctx.violations.append(("parse_amount(%r) is not a finite non-negative number" % t[:40], replay))
            if not isinstance(r.get("json"), (int, float)):
                ctx.violations.append(("the amount %r is not a JSON number: %r" % (t[:40], r.get("json")), replay))
            # printing with k >= written decimals reproduces the decimal (when it has at most 15 digits)
            if want:
                ip, _, fp = t.replace(".", ",").partition(",")
                fmts = r.get("fmt", "").split("|")
                for k in range(len(fp), 5):
                    if len(ip.lstrip("0") or "0") + k <= 15:
                        expect = (ip.lstrip("0") or "0") + ("," + fp.ljust(k, "0") if k else "")
                        if fmts[k] != expect:
                            ctx.violations.append(("amount %r printed with %d decimals is %r, not %r" % (t, k, fmts[k], expect), replay))
                            break
        if m is not None:
            mok = m.startswith("OK")
            if mok != ok:
                ctx.disagreements.append({"text": t[:60], "model": m[:60], "library": ok, "replay": replay})
            elif ok:
                _, bits, fm = m.split("\t")
                if bits != r.get("bits") or fm != r.get("fmt"):
                    ctx.disagreements.append({"text": t, "model": "%s %s" % (bits, fm), "library": "%s %s" % (r.get("bits"), r.get("fmt")), "replay": replay})
    # ---- (B) currency precision
    ccases, cmeta = [], []
    for c in ISO0 + ISO3 + ISO4 + OTHER + ["XXX", "ZZZ"]:
        for fl in range(0, 6):
            a = "1234" + ("," + "1" * fl if fl else "")
            ccases.append("amountc\t%s\t%s" % (hexs(a), hexs(c))); cmeta.append((c, fl, a))
            a2 = "1234," + "0" * fl
            ccases.append("amountc\t%s\t%s" % (hexs(a2), hexs(c))); cmeta.append((c, fl, a2))
    cres = run_lib(ctx, ccases, "c06c")
    for (c, fl, a), r in zip(cmeta, cres):
        ctx.evaluations += 1
        replay = "amountc\t%s\t%s" % (hexs(a), hexs(c))
        ok = bool(r.get("ok"))
        if ok != (fl <= iso_dec(c)):
            ctx.violations.append(("%s%s (%d decimals written, ISO 4217 allows %d) is %s" % (c, a, fl, iso_dec(c), "accepted" if ok else "rejected"), replay))
        if ok:
            ctx.distinct.add((c, a))
            if r.get("decimals") != iso_dec(c):
                ctx.violations.append(("get_currency_decimals(%s) = %s, ISO 4217 says %d" % (c, r.get("decimals"), iso_dec(c)), replay))
    # ---- (C) through the fields
    fcases, fmeta = [], []
    sample = sorted(amounts)
    rng.shuffle(sample)
    sample = sample[: (400 if ctx.tier == "thorough" else 60)] + ["0,", "1,10", "999999999999,99", "123456789012,34", "25000000,12", "12,345", "1,2345",
                                                                       "0,0067342", "0,0001234567", "1,0131", "1,14", "2,28", "0,1234567", "12,3456789"]
    for f, (ty, build, ccheck, pk) in FIELDS.items():
        # field 61 finds the end of its amount itself (first letter), so a non-decimal spelling there is a
        # different split of the line, not a different amount: those inputs belong to C05 / C07
        for a in sample + ([] if f == "61" else bad[:40]):
            for c in (["USD", "JPY", "BHD", "CLF"] if ccheck else ["USD"]):
                fcases.append("fparse\t%s\t_\t%s" % (ty, hexs(build(a, c)))); fmeta.append((f, a, c))
    fres = run_lib(ctx, fcases, "c06f")
    for (f, a, c), r in zip(fmeta, fres):
        ctx.evaluations += 1
        ty, build, ccheck, pk = FIELDS[f]
        replay = "fparse\t%s\t_\t%s" % (ty, hexs(build(a, c)))
        if "panic" in r or "crash" in r:
            ctx.violations.append(("field %s panicked on amount %r" % (f, a[:30]), replay)); continue
        if not r.get("ok"):
            continue
        ctx.distinct.add((f, c, a))
        if not is_decimal(a):
            ctx.violations.append(("field %s accepts the amount text %r" % (f, a[:40]), replay)); continue
        limit = 17 if f == "19" else 12 if f in ("36", "37H") else 15
        if len(a) > limit:
            kk = [k for k in known if k.get("match", {}).get("kind") == "length_limit"]
            if kk:
                ctx.known_hits[kk[0]["id"]] = ctx.known_hits.get(kk[0]["id"], 0) + 1
                continue
            ctx.violations.append(("field %s accepts the amount %r of %d characters (its format allows %d)" % (f, a, len(a), limit), replay)); continue
        fl = len(a.replace(".", ",").partition(",")[2])
        if ccheck and fl > iso_dec(c):
            ctx.violations.append(("field %s accepts %s%s: %d decimals, the currency allows %d" % (f, c, a, fl, iso_dec(c)), replay))
        if not (r.get("again_ok") and r.get("again_equal") and r.get("json_rt")):
            kid = None
            for k in known:
                m = k.get("match", {})
                if m.get("kind") == "fixed_decimals" and f in m["fields"] and fl > m["fields"][f]:
                    kid = k["id"]
                if m.get("kind") == "padded_print_too_long":
                    pc = (r.get("printed") or {}).get("content", "")
                    am = re.findall(r"\d+(?:,\d*)?", pc)
                    if am and len(max(am, key=len)) > 15:
                        kid = k["id"]
            if kid:
                ctx.known_hits[kid] = ctx.known_hits.get(kid, 0) + 1
            else:
                ctx.violations.append(("field %s: amount %s%s changes when printed and parsed again (printed %r; again_ok=%s equal=%s json_rt=%s)" % (
                    f, c if ccheck else "", a, (r.get("printed") or {}).get("content"), r.get("again_ok"), r.get("again_equal"), r.get("json_rt")), replay))
    if ctx.disagreements:
        ctx.broken.append("correspondence: stream amount: %d disagreement(s), first: %s" % (len(ctx.disagreements), json.dumps({k: v for k, v in ctx.disagreements[0].items() if k != "replay"})[:300]))
    ctx.samples = [{"text": texts[5], "library_bits": res[5].get("bits"), "model": mres[5]}, {"non_decimal_spellings": bad[:12]}]
    ctx.stats.update({"amount_texts": len(texts), "accepted": acc, "currency_cases": len(ccases), "field_cases": len(fcases)})
    return finish(ctx, level="proof", trusted=TRUSTED,
                  assumptions=["Rust core: str::parse::<f64> is correctly rounded and `{:.k}` is the exact decimal expansion rounded half to even (checked on every case of the run by comparing bits and renderings with the integer model)"])
