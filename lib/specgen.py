"""Message generation from the independent layout specification (spec/mt_layouts.json) with
hand-written canonical field contents (spec/field_examples.json)."""
import json, os, itertools

ROOT = "/verif"
SPEC = json.load(open(os.path.join(ROOT, "spec", "mt_layouts.json")))
EXAMPLES = json.load(open(os.path.join(ROOT, "spec", "field_examples.json")))


def letters_of(it):
    l = it[2] if len(it) > 2 else None
    if l is None:
        return None
    return list(l)


def gen_items(items, rng, p_opt, reps, out, trace, seqname=""):
    for it in items:
        if isinstance(it, dict) and "one_of" in it:
            gen_items([rng.choice(it["one_of"])], rng, p_opt, reps, out, trace, seqname)
            continue
        if isinstance(it, dict):
            lo, hi = it["min"], it["max"]
            n = rng.choice(reps) if hi is None else min(hi, rng.choice(reps))
            n = max(lo, n)
            for k in range(n):
                gen_items(it["items"], rng, p_opt, reps, out, trace, it["seq"] + str(k))
            continue
        tag, status = it[0], it[1]
        count = 1
        if status.startswith("O") and rng.random() >= p_opt:
            count = 0
        if status.endswith("*") and count:
            count = max(1, rng.choice(reps))
        for _ in range(count):
            if tag.endswith("a"):
                l = rng.choice(letters_of(it))
                full = tag[:-1] + l
            else:
                full = tag
            ex = EXAMPLES.get(full)
            if not ex:
                continue
            trace.append((len(out), full, status.startswith("M"), seqname))
            out.append((full, rng.choice(ex)))


def generate(T, rng, p_opt=0.5, reps=(0, 1, 2)):
    out, trace = [], []
    gen_items(SPEC[T], rng, p_opt, reps, out, trace)
    return out, trace


def max_repeat(T, rng):
    """one message with every capped sequence at its maximum"""
    out, trace = [], []
    def go(items):
        for it in items:
            if isinstance(it, dict) and "one_of" in it:
                go([rng.choice(it["one_of"])])
            elif isinstance(it, dict):
                n = it["max"] if it["max"] is not None else 3
                for k in range(n):
                    go(it["items"])
            else:
                tag, status = it[0], it[1]
                if status.startswith("M"):
                    full = tag[:-1] + rng.choice(letters_of(it)) if tag.endswith("a") else tag
                    ex = EXAMPLES.get(full)
                    if ex:
                        out.append((full, rng.choice(ex)))
    go(SPEC[T])
    return out
