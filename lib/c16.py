"""C16 — the field-map tokeniser and sequential consumption lose and reorder nothing."""
import json, os, re
from common import *
import mtgen

PROP = "C16"
COQ_TARGETS = ["Props/C16.vo"]
TRANSLATOR = []

TRUSTED = [
    "Coq 8.16.1 kernel; lia; no axioms",
    "hand model Legacy/{Block4Map,Tracker}.v of parse_block4_fields, normalize_field_tag, FieldConsumptionTracker, find_field_with_variant_sequential_constrained and split_into_sequences; tied by the stream `legacy` (extracted model vs library: entries with stamps, every lookup result of random histories, the three sequences)",
    "HashMap iteration order: the theorems need none (stamps are pairwise distinct below 65 536 fields, so every sort key is unique); the harness sorts map output by stamp",
    "that the map's entries are exactly the fields of the text is judged by an independent line-based tokeniser on every case (not proved)",
]

KEEP = {"11", "13", "21", "23", "25", "26", "28", "32", "33", "34", "37", "50", "51", "52", "53", "54", "55", "56", "57", "58", "59", "60", "62", "71", "77", "90"}


def norm_tag(t):
    """documented normalisation: numbered tags keep '#n'; the listed numbers keep their option letter; others lose an upper-case suffix"""
    if "#" in t:
        return t
    m = re.match(r"^(\d*)(.*)$", t)
    num, suf = m.group(1), m.group(2)
    if not suf or num in KEEP:
        return t
    return num if suf.isascii() and suf.isalpha() and suf.isupper() else t


def spec_tokens(text):
    """independent reading: a line starting with ':' + tag + ':' starts a field"""
    out = []
    for line in text.strip().split("\n"):
        m = re.match(r"^:([^:\n]*):(.*)$", line, re.S)
        if m and (out or True):
            out.append([m.group(1), m.group(2)])
        elif out:
            out[-1][1] += "\n" + line
    return [(norm_tag(t), v.strip()) for t, v in out]


def bad_markers(text):
    t = text.replace("\r\n", "\n").strip()
    return bool(t) and (not t.startswith(":") or any(l.startswith(":") and not re.match(r"^:[^:]*:", l) for l in t.split("\n")))


def spec_history(entries, ops):
    """independent reading of sequential consumption: a request for tag T with allowed letters V gets the earliest occurrence not yet handed
    out of tag T itself, else of the tags T+letter (letter in V, any when V is absent); None when the field-50 routing rule applies"""
    if entries is None:
        return None
    used = set()
    out = []
    for op in ops:
        base, vs = op.split("|")
        if base == "50" and vs != "*":
            return None
        exact = [e for e in entries if e[0] == base and e[2] not in used]
        if not exact:
            exact = [e for e in entries if len(e[0]) == len(base) + 1 and e[0].startswith(base) and e[0][-1].isascii() and e[0][-1].isupper()
                     and (vs == "*" or e[0][-1] in vs.split(",")) and e[2] not in used]
        if exact:
            e = min(exact, key=lambda e: e[2])
            used.add(e[2]); out.append(e[2])
        else:
            out.append(None)
    return out


def run(ctx):
    ctx.rule = ("block-4 texts: shipped-scenario seeds of all 30 types and mutants (duplicate / swap / delete / retag fields, duplicated sequences, "
                "blank lines, CRLF, leading junk, ':' inside values, numbered tags 50#1), plus synthetic texts with many repeated tags; "
                "for each text the entries and stamps, 3 random interleavings of 10-40 lookups by tag and option constraint, the "
                "sequence split under each configuration, and histories of the tracker's own interface (mark the k-th occurrence in any order, read "
                "without marking, consume from the whole map and from the three maps of the split with ONE tracker); distinct = (tag sequence, history)")
    standard_front(ctx, __import__("c16"))
    rng = ctx.rng
    known, _ = load_known(PROP)
    seeds = mtgen.load_seeds(limit=None if ctx.tier == "thorough" else 2)
    texts = []
    for c, lst in seeds.items():
        for name, text in lst:
            sp = mtgen.split_message(text)
            if not sp:
                continue
            toks = mtgen.tokens(sp[1])
            texts.append((c, mtgen.render(toks), "seed"))
            for k in range(6 if ctx.tier == "thorough" else 2):
                r = mtgen.mutate(rng, toks, rng.choice(["dup", "swap", "delete", "retag", "dupseq", "insert_sibling", "append"]))
                if r:
                    texts.append((c, mtgen.render(r[1]), "mut-" + r[0]))
            body = mtgen.render(toks)
            texts.append((c, body.replace("\n", "\r\n"), "crlf"))
            texts.append((c, "\n\n" + body + "\n\n", "padded"))
            lines = body.split("\n")
            i = rng.randrange(1, len(lines))
            texts.append((c, "\n".join(lines[:i] + [""] + lines[i:]), "blank-line"))
    texts.append(("103", ":20:A\n:50#1:X\n:50#2:Y\n:21R:Z\n:13C:/SNDTIME/1200+0100\n:30F:260930\n:72Z:Q", "numbered"))
    texts.append(("103", ":21:B:C\nD\n:79:x:y\n:72:/A/:b:\n/c:d", "colons"))
    texts.append(("103", ":20:\u00c4\n\n:21:\u00e9\n:72:/X/\u00fc\n\n:79:z\u20ac\n\n\n:77E:\u00df", "non-ascii"))
    # not block-4 texts: text before the first marker, lines starting with ':' that are no marker
    texts.append(("103", "text :20:A\nB :21:C", "bad-marker"))
    texts.append(("103", ":72:/A/b\n://c\n:79:q", "bad-marker"))
    texts.append(("103", ":20:A\n:Z", "bad-marker"))
    texts.append(("103", ":20:A\n:21", "bad-marker"))
    # more than 65 536 fields: the 16-bit field counter of the stamp wraps (library only: the model side is theorem C16_stamps_refuted_beyond_65535)
    texts.append(("103", "\n".join(":20:" for _ in range(65537)), "wrap"))
    texts.append(("103", "\n".join(":61:%d" % i for i in range(300)) + "\n:62F:X", "many"))
    # more than 65 536 BYTES but few fields (a long statement): stamps count fields, not bytes
    texts.append(("940", ":20:S\n" + "\n".join(":61:2609300930C%d,00NTRFREF%d//B%d\n:86:%s" % (i, i, i, "\n".join("NARRATIVE LINE %d OF ENTRY %d %s" % (j, i, "X" * 30) for j in range(6)))
                                               for i in range(170)) + "\n:62F:C260930EUR1,00", "long-bytes"))
    # synthetic tag sequences: option letters of one number interleaved, sequence markers and sequence-C tags in any order
    POOL = ["20", "21", "21", "21R", "23E", "30", "32B", "19", "71F", "71G", "50K", "50F", "50A", "50C", "50L", "52A", "52D", "57A", "57D", "57C",
            "59", "59A", "59F", "70", "36", "61", "86", "72", "77E", "79", "25", "23", "28D", "20", "50#1", "50#2"]
    for i in range(3000 if ctx.tier == "thorough" else 400):
        n = rng.randrange(2, 26)
        sub = rng.sample(POOL, rng.randrange(2, 9)) if rng.random() < 0.6 else POOL
        seq = [rng.choice(sub) for _ in range(n)]
        texts.append(("104", "\n".join(":%s:V%d%s" % (tg, j, "\nline two" if rng.random() < 0.2 else "") for j, tg in enumerate(seq)), "synthetic"))
    cases = []
    meta = []
    cfgs = ["MT101", "MT104", "MT107", "MT110", "MT204", "MT999", "cfg:23:0:", "cfg:21:1:32B,19", "cfg:61:1:62F,64,65,86", "cfg:20:1:19"]
    for c, t, kind in texts:
        hx = hexs(t)
        cases.append("l_tokens\t%s" % hx); meta.append((c, t, kind, "tokens", None))
        if kind == "wrap":
            continue
        tags = sorted({norm_tag(x) for x, _ in mtgen.tokens(t) if x})
        bases = sorted({re.sub(r"[A-Z]$", "", x) for x in tags}) or ["20"]
        for _ in range(3):
            ops = []
            for _ in range(rng.randrange(10, 40)):
                b = rng.choice(bases + tags)
                vs = rng.choice(["*", "A,F,K", "C,L", "A,B,D", "A", "F,G,H", "K"])
                ops.append("%s|%s" % (b, vs))
            cases.append("l_track\t%s\t%s" % (hx, ";".join(ops))); meta.append((c, t, kind, "track", ops))
        # drain histories: ask for a base tag until nothing is left, under one constraint, then the next base
        multi = [b for b in bases if sum(1 for x in tags if x.startswith(b)) > 1 or kind == "synthetic"]
        if multi:
            ops = []
            for b in rng.sample(multi, min(len(multi), 4)):
                vs = rng.choice(["*", "*", "A,F,K", "A,D", "A,C,D", "A,F"])
                ops += ["%s|%s" % (b, vs)] * rng.randrange(2, 7) + ["%s|*" % b] * rng.randrange(0, 4)
            cases.append("l_track\t%s\t%s" % (hx, ";".join(ops))); meta.append((c, t, kind, "track", ops))
        for cfg in (cfgs if kind == "synthetic" and rng.random() < 0.3 else ([("MT" + c)] if ("MT" + c) in cfgs else []) + [rng.choice(cfgs)]):
            cases.append("l_split\t%s\t%s" % (hx, cfg)); meta.append((c, t, kind, "split", cfg))
        # the tracker's own interface: marks in any order, reads without marking, one tracker over the whole map and the maps of the split
        if tags and (kind in ("synthetic", "seed", "many") or rng.random() < 0.3):
            cfg = ("MT" + c) if ("MT" + c) in cfgs and rng.random() < 0.5 else rng.choice(cfgs)
            rep = [x for x in tags if sum(1 for y, _ in mtgen.tokens(t) if norm_tag(y) == x) > 1] or tags
            for _ in range(2):
                ops = []
                focus = rng.sample(rep, min(len(rep), 3))
                for _ in range(rng.randrange(6, 30)):
                    tg = rng.choice(focus if rng.random() < 0.8 else tags)
                    k = rng.random()
                    if k < 0.25:
                        ops.append("M|%s|%d" % (tg, rng.randrange(0, 6)))
                    elif k < 0.5:
                        ops.append("G|%s" % tg)
                    else:
                        ops.append("C|%s|%s" % (rng.choice("abcf"), tg))
                cases.append("l_api\t%s\t%s\t%s" % (hx, cfg, ";".join(ops))); meta.append((c, t, kind, "api", (cfg, ops)))
    res = run_lib(ctx, cases, "c16")
    # library only on the two very long texts (the extracted model is quadratic in the text length); their oracles are the Python ones
    nomodel = ("wrap", "long-bytes")
    mres = run_model(ctx, [x for x, mm in zip(cases, meta) if mm[2] not in nomodel], "c16")
    it = iter(mres)
    mres = [None if mm[2] in nomodel else next(it) for mm in meta]
    kn = {k["match"]["kind"]: k["id"] for k in known if k.get("match")}
    def hit(kind):
        ctx.known_hits[kn[kind]] = ctx.known_hits.get(kn[kind], 0) + 1
    entries_of = {}

    def parse_model_entries(s):
        out = []
        for x in s.split(";") if s else []:
            tag, rest = x.split("=", 1)
            hv, p = rest.rsplit("@", 1)
            out.append([bytes.fromhex(tag).decode("utf-8", "replace"), bytes.fromhex(hv).decode("utf-8", "replace"), int(p)])
        return out

    for case, (c, t, kind, op, arg), r, m in zip(cases, meta, res, mres):
        ctx.evaluations += 1
        replay = case
        if "panic" in r or "crash" in r:
            ctx.violations.append(("legacy API panicked (%s, %s): %s" % (op, kind, str(r)[:120]), replay)); continue
        if not r.get("ok"):
            if m is not None and m.startswith("OK"):
                ctx.disagreements.append({"op": op, "model": m[:80], "library": "ERR", "replay": replay})
            continue
        if op == "tokens":
            ents = r["entries"]
            ctx.distinct.add(tuple(e[0] for e in ents))
            want = spec_tokens(t.replace("\r\n", "\n"))
            got = [(e[0], e[1].replace("\r\n", "\n").replace("\r", "")) for e in ents]
            want = [(a, b.replace("\r", "")) for a, b in want]
            entries_of[t] = ents
            if got != want:
                if bad_markers(t) and "marker_shape" in kn:
                    hit("marker_shape")
                else:
                    d = [(a, b) for a, b in zip(want + [None] * 3, got + [None] * 3) if a != b][:1]
                    ctx.violations.append(("the field map is not the fields of the text (%s): expected %r, got %r" % (kind, str(d[0][0])[:80], str(d[0][1])[:80]), replay))
            stamps = [e[2] for e in ents]
            if len(stamps) > 65536 and sorted(set(stamps)) != stamps and "stamp_wrap" in kn:
                hit("stamp_wrap")
            elif any(a >= b for a, b in zip(stamps, stamps[1:])):
                ctx.violations.append(("position stamps do not increase strictly in input order (%s)" % kind, replay))
            # per-tag vectors in input order
            for tag, vals in r["per_tag"]:
                ps = [p for _, p in vals]
                if ps != sorted(ps) and len(stamps) <= 65536:
                    ctx.violations.append(("values of tag %s are not in input order" % tag, replay))
            if m is not None:
                me = parse_model_entries(m.split("\t")[1]) if m.startswith("OK") and "\t" in m else ([] if m.startswith("OK") else None)
                if me != [[a, b, p] for a, b, p in ents]:
                    ctx.disagreements.append({"op": op, "kind": kind, "model": str(me)[:160], "library": str(ents)[:160], "replay": replay})
        elif op == "track":
            outs = r["outs"]
            ctx.distinct.add((kind, tuple(arg[:5])))
            # each occurrence returned at most once; per tag in input order
            seen = set()
            last = {}
            for o in outs:
                if o is None:
                    continue
                v, l, p = o
                if p in seen:
                    ctx.violations.append(("an occurrence (stamp %d) was returned twice" % p, replay)); break
                seen.add(p)
            per = {}
            for (opx, o) in zip(arg, outs):
                if o is not None:
                    full = opx.split("|")[0] + (o[1] or "")
                    if full in per and per[full] > o[2]:
                        ctx.violations.append(("occurrences of %s were returned out of input order" % full, replay)); break
                    per[full] = o[2]
            want = spec_history(entries_of.get(t), arg)
            if want is not None and want != [o and o[2] for o in outs]:
                i = [a == (b and b[2]) for a, b in zip(want, outs)].index(False)
                ctx.violations.append(("request %d (%s) returned %r; the earliest occurrence not yet handed out is stamp %r" % (i, arg[i], outs[i], want[i]), replay))
            if m is not None and m.startswith("OK"):
                mo = []
                for x in (m.split("\t")[1].split(";") if "\t" in m and m.split("\t")[1] else []):
                    if x == "-":
                        mo.append(None)
                    else:
                        hv, rest = x.split("/", 1)
                        l, p = rest.rsplit("@", 1)
                        mo.append([bytes.fromhex(hv).decode("utf-8", "replace"), None if l == "_" else l, int(p)])
                if mo != outs:
                    ctx.disagreements.append({"op": op, "kind": kind, "ops": arg[:8], "model": str(mo)[:200], "library": str(outs)[:200], "replay": replay})
        elif op == "api":
            cfg, ops = arg
            outs = r["outs"]
            ctx.distinct.add((kind, "api", tuple(ops[:6])))
            ents = entries_of.get(t)
            # independent reading: a set of used (tag, stamp); M marks the k-th occurrence; G / C give the earliest unused occurrence of
            # the tag (C: among those the library itself assigns to that part, which the split stream checks) and C marks it
            used = set()
            sp = None
            for cs2, mm2, rr in zip(cases, meta, res):
                if mm2[3] == "split" and mm2[1] == t and mm2[4] == cfg and rr.get("ok"):
                    sp = {"a": rr["a"], "b": rr["b"], "c": rr["c"]}
                    break
            if ents is not None:
                for i, (o, got) in enumerate(zip(ops, outs)):
                    p = o.split("|")
                    if p[0] == "M":
                        vals = [e for e in ents if e[0] == p[1]]
                        if vals:
                            used.add((p[1], vals[int(p[2]) % len(vals)][2]))
                        continue
                    if p[0] == "G":
                        pool, tg = ents, p[1]
                    else:
                        tg = p[2]
                        if p[1] == "f":
                            pool = ents
                        elif sp is not None:
                            pool = sp[p[1]]
                        else:
                            break
                    cand = [e for e in pool if e[0] == tg and (tg, e[2]) not in used]
                    want = min(cand, key=lambda e: e[2]) if cand else None
                    if (want and [want[1], want[2]]) != (got and [got[0], got[1]]):
                        ctx.violations.append(("tracker history, step %d (%s) of %s: returned %r, the earliest occurrence of the tag not yet marked is %r" % (
                            i, o, ops[:i + 1][-6:], got, want and [want[1], want[2]]), replay))
                        break
                    if p[0] == "C" and want:
                        used.add((tg, want[2]))
            if m is not None and m.startswith("OK"):
                mo = []
                for x in (m.split("\t")[1].split(";") if "\t" in m and m.split("\t")[1] else []):
                    if x == "-":
                        mo.append(None)
                    elif x.startswith("m"):
                        mo.append(["m", int(x[1:])])
                    else:
                        hv, pp = x.rsplit("@", 1)
                        mo.append([bytes.fromhex(hv).decode("utf-8", "replace"), int(pp)])
                if mo != outs:
                    ctx.disagreements.append({"op": op, "kind": kind, "ops": ops[:8], "model": str(mo)[:200], "library": str(outs)[:200], "replay": replay})
        else:
            a, b, cc = r["a"], r["b"], r["c"]
            allp = sorted([e[2] for e in a + b + cc])
            ctx.distinct.add((kind, arg, len(a), len(b), len(cc)))
            # exactly one sequence per field: compare with the token list
            tm = res[cases.index("l_tokens\t%s" % hexs(t))]
            if tm.get("ok"):
                want = sorted(e[2] for e in tm["entries"])
                if allp != want:
                    ctx.violations.append(("split_into_sequences (%s): the three sequences hold %d fields, the text has %d (a field is lost or assigned twice)" % (arg, len(allp), len(want)), replay))
            if m is not None and m.startswith("OK"):
                parts = (m.split("\t") + ["", "", ""])[1:4]
                mm = [parse_model_entries(x) for x in parts]
                if mm != [a, b, cc]:
                    ctx.disagreements.append({"op": op, "cfg": arg, "kind": kind, "model": str(mm)[:200], "library": str([a, b, cc])[:200], "replay": replay})
        if len(ctx.samples) < 5 and op == "track":
            ctx.samples.append({"kind": kind, "history": arg[:6], "returned": str(r.get("outs"))[:200]})
    if ctx.disagreements:
        ctx.broken.append("correspondence: stream legacy: %d disagreement(s), first: %s" % (len(ctx.disagreements), json.dumps({k: v for k, v in ctx.disagreements[0].items() if k != "replay"})[:400]))
    ctx.stats.update({"texts": len(texts), "cases": len(cases)})
    return finish(ctx, level="proof", trusted=TRUSTED,
                  assumptions=["a field of the text = a line starting with ':' + tag + ':' and its continuation lines; white space around a value aside"])
