"""C02 — MT round trip is stable: re-parsing serialised output gives the same message."""
import json, os, re
from common import *
import mtgen, engine, layoutgen

PROP = "C02"
COQ_TARGETS = ["Props/C02.vo"]
TRANSLATOR = ["layouts"]

TRUSTED = [
    "Coq 8.16.1 kernel; no axioms (Closed under the global context)",
    "translator rs2v module `layouts`",
    "the message-level theorem is conditional on two field-level hypotheses (printed content accepted again; printing idempotent); they are OBSERVED on the real field parsers for every (type, option, content) the run meets (stream field), not proved, except for the field types whose models are proved under C05/C06/C11",
    "that to_mt_string prints the parsed fields in parse order is checked by the correspondence stream msg (predicted serialisation = library output), not proved",
    "byte level: the block round trip is restated for the transcribed byte cursor on canonical texts, with the extra premise that printers print clean contents (no line starting with ':' or '-', no trailing line end)",
    "headers and trailer: covered by the library oracle (whole-message re-parse), their codec theorems are under C10",
]

def _num(repl):
    def f(c):
        ms = list(re.finditer(r"\d[\d,]*", c))
        if not ms:
            return c
        m = ms[-1]
        return c[:m.start()] + repl + c[m.end():]
    return f

FIELD_VARIANTS = [lambda c: c, lambda c: c + " ", lambda c: c.replace(",00", ","), lambda c: c.replace(",", ",0", 1),
                  _num("0,0067123"), _num("1,23456789"), _num("12,345"), _num("999999999999,99"),
                  lambda c: c.lower(), lambda c: c + "\nEXTRA", lambda c: c[:-1], lambda c: "0" + c,
                  _num("0,"), _num("1234567,8912"), lambda c: "/" + c, lambda c: c.replace("/", "//", 1)]


def field_known(known, ty, content, r):
    for k in known:
        m = k.get("match", {})
        if m.get("kind") == "field_rt" and re.fullmatch(m["type_re"], ty):
            if "content_re" in m and not re.search(m["content_re"], content):
                continue
            return k["id"]
    return None


def run(ctx):
    ctx.rule = ("(A) whole messages of all 30 types: shipped-scenario seeds, CRLF and non-canonical number spellings, mutants that "
                "still parse, layout-generated bodies under the seed's headers: parse, serialise, re-parse, serialise; "
                "(B) every SwiftField type (114 + aliases) x contents harvested from seeds and boundary variants: parse, print, "
                "re-parse, print; non-trivial = accepted inputs; distinct = (type, outcome) for messages, (field type, content) for fields")
    standard_front(ctx, __import__("c02"))
    rng = ctx.rng
    known, _ = load_known(PROP)
    seeds = mtgen.load_seeds(limit=None if ctx.tier == "thorough" else 3)
    layouts = engine.load_layouts()
    pool = layoutgen.harvest_pool(layouts, mtgen.load_seeds())
    msgs, meta = [], []
    g = layoutgen.Gen(layouts, pool, rng)
    for c, lst in seeds.items():
        for name, text in lst:
            msgs.append((c, text)); meta.append("seed:%s/%s" % (c, name))
            msgs.append((c, text.replace("\n", "\r\n"))); meta.append("seed-crlf:%s/%s" % (c, name))
            sp = mtgen.split_message(text)
            if not sp:
                continue
            pre, body, post = sp
            toks = mtgen.tokens(body)
            # envelope variants: empty / unmodelled-only / full user header and trailer
            pre_no3 = re.sub(r"\{3:(\{[^{}]*\})*\}\n?", "", pre)
            for b3 in ("{3:}\n", "{3:{108:REF123}}\n", "{3:{113:URGT}{108:MUR1}{119:STP}{121:a1b2c3d4-e5f6-4a7b-8c9d-0e1f2a3b4c5d}}\n",
                       "{3:{103:EBA}{113:URGT}{108:MUR1}{119:STP}{423:260930123456}{106:260930BANKDEFFAXXX0001000001}{424:PQR}{111:001}{121:a1b2c3d4-e5f6-4a7b-8c9d-0e1f2a3b4c5d}{115:X}{165:/ABC/INFO}{433:/AOK/INFO}{434:/FPO/INFO}}\n"):
                for b5 in ("", "{5:}\n", "{5:{PDE:1348120811BANKFRPPAXXX2222123456}}\n", "{5:{CHK:123456789ABC}}\n", "{5:{MAC:00000000}{CHK:123456789ABC}{TNG:}}\n"):
                    if rng.random() < (1.0 if ctx.tier == "thorough" else 0.25):
                        post_no5 = re.sub(r"\{5:.*", "", post, flags=re.S)
                        msgs.append((c, pre_no3.replace("{4:\n", b3 + "{4:\n") + body + "\n" + post_no5 + b5)); meta.append("envelope:%s/%s" % (c, name))
            # non-canonical spellings of numbers
            t2 = [(t, re.sub(r"(\d),00\b", r"\1,", cn)) for t, cn in toks]
            if t2 != toks:
                msgs.append((c, mtgen.rebuild(pre, t2, post))); meta.append("noncanon-amount:%s/%s" % (c, name))
            for k in range(30 if ctx.tier == "thorough" else 4):
                r = mtgen.mutate(rng, toks, rng.choice(["ccy", "code", "amount", "dupseq", "delete", "corrupt", "retag"]))
                if r:
                    msgs.append((c, mtgen.rebuild(pre, r[1], post))); meta.append("mut-%s:%s/%s" % (r[0], c, name))
        # layout-generated bodies
        pre0 = mtgen.split_message(lst[0][1])
        if pre0:
            for k in range(90 if ctx.tier == "thorough" else 16):
                g.p_opt = rng.choice([0.2, 0.5, 0.9, 0.97])
                r = g.gen("MT" + c)
                if r:
                    msgs.append((c, mtgen.rebuild(pre0[0], r[0], pre0[2]))); meta.append("layoutgen:%s/%d" % (c, k))
    for cdir in (os.path.join(ROOT, "corpus", PROP), os.path.join(ROOT, "corpus", PROP, "fixed")):
        for f in sorted(os.listdir(cdir)) if os.path.isdir(cdir) else []:
            if f.endswith(".mt"):
                text = open(os.path.join(cdir, f), encoding="utf-8", newline="").read()
                mm = re.search(r"\{2:[IO](\d{3})", text)
                msgs.insert(0, (mm.group(1), text)); meta.insert(0, "corpus:" + f)
    res = run_lib(ctx, ["typed\tMT%s\t%s" % (c, hexs(t)) for c, t in msgs], "c02msg")
    acc = 0
    for (c, text), origin, r in zip(msgs, meta, res):
        ctx.evaluations += 1
        replay = "typed\tMT%s\t%s" % (c, hexs(text))
        if "panic" in r or "crash" in r:
            ctx.violations.append(("parse panicked [%s]: %s" % (origin, str(r)[:120]), replay)); continue
        if not r.get("ok"):
            ctx.distinct.add((c, "reject"))
            continue
        acc += 1
        ctx.distinct.add((c, "accept", origin.split(":")[0]))
        bad = [k for k in ("again_ok", "again_equal", "again_fixpoint") if not r.get(k)]
        if bad:
            # attribute to field-level findings when the failing field is a listed one
            # a failing round trip is attributed to a listed finding only if EVERY field that differs between the input and
            # the serialised text is one the finding names (same tags in the same order, nothing missing, nothing moved)
            kid = None
            sp_in, sp_out = mtgen.split_message(text.replace("\r\n", "\n")), mtgen.split_message((r.get("mt") or "").replace("\r\n", "\n"))
            if sp_in and sp_out:
                tin, tout = mtgen.tokens(sp_in[1]), mtgen.tokens(sp_out[1])
                if [t for t, _ in tin] == [t for t, _ in tout]:
                    diffs = [(a, b) for a, b in zip(tin, tout) if engine.canon_content(a[1]) != engine.canon_content(b[1])]
                    kids = []
                    for a, b in diffs:
                        one = None
                        for k in known:
                            m = k.get("match", {})
                            if m.get("kind") == "msg_rt" and re.search(m["text_re"], ":%s:%s" % (a[0], a[1]), re.S):
                                one = k["id"]; break
                        kids.append(one)
                    if diffs and all(kids):
                        kid = kids[0]
            if kid:
                ctx.known_hits[kid] = ctx.known_hits.get(kid, 0) + 1
            else:
                ctx.violations.append(("MT%s [%s]: accepted, but round trip fails (%s) %s" % (c, origin, ",".join(bad), str(r.get("again_err"))[:160]), replay))
        if len(ctx.samples) < 3:
            ctx.samples.append({"origin": origin, "again_ok": r.get("again_ok"), "again_equal": r.get("again_equal"), "again_fixpoint": r.get("again_fixpoint")})
    # ---- (B) field level
    names = open(os.path.join(ROOT, "harness/src/fields_gen.rs")).read()
    all_types = re.findall(r'"(Field\w+)" => \{', names)
    by_type = {}
    for (ty, lk), cs in pool.items():
        by_type.setdefault(ty, set()).update((lk, c) for c in cs)
    # option types: feed them the contents seen under their family (Field52A <- family contents with =A)
    fam_contents = {}
    for (ty, lk), cs in pool.items():
        m = re.match(r"Field(\d\d)", ty)
        if m and lk.startswith("=") and len(lk) == 2:
            fam_contents.setdefault("Field" + m.group(1) + lk[1], set()).update(cs)
    cases, cmeta = [], []
    for ty in all_types:
        contents = set(by_type.get(ty, set())) | {("_", c) for c in fam_contents.get(ty, set())}
        if not contents:
            # try a generic probe set so that every type is exercised
            contents = {("_", c) for cs in list(fam_contents.values())[:3] for c in list(cs)[:2]}
        lst = sorted(contents)
        rng.shuffle(lst)
        for lk, cn in lst[: (60 if ctx.tier == "thorough" else 12)]:
            for f in (FIELD_VARIANTS if ctx.tier == "thorough" else FIELD_VARIANTS[:8]):
                v = f(cn)
                cases.append("fparse\t%s\t%s\t%s" % (ty, lk, hexs(v))); cmeta.append((ty, lk, v))
    # contents drawn from the documented formats (every component at its boundary lengths, optional components in and
    # out, every line count): the accepted ones must survive print and re-parse like any other accepted content
    try:
        import fmtgen
        F = fmtgen.load()
        for T in sorted(F):
            if T not in all_types:
                continue
            for why, content in fmtgen.cases_for(rng, F[T]["fmt"], 40 if ctx.tier == "thorough" else 10):
                if why == "valid" or why.startswith("len") or why.startswith("lines"):
                    cases.append("fparse\t%s\t_\t%s" % (T, hexs(content))); cmeta.append((T, "_", content))
    except Exception as e:
        ctx.notes.append("fmtgen: %r" % (e,))
    cdir = os.path.join(ROOT, "corpus", PROP)
    for f in sorted(os.listdir(cdir)) if os.path.isdir(cdir) else []:
        if f.endswith(".case"):
            for l in open(os.path.join(cdir, f)).read().split("\n"):
                if l.startswith("fparse\t"):
                    _, ty, lk, hc = l.split("\t")
                    cases.insert(0, l); cmeta.insert(0, (ty, lk, bytes.fromhex(hc).decode("utf-8")))
    fres = run_lib(ctx, cases, "c02fld")
    facc = 0
    types_seen = set()
    for (ty, lk, cn), r in zip(cmeta, fres):
        ctx.evaluations += 1
        replay = "fparse\t%s\t%s\t%s" % (ty, lk, hexs(cn))
        if "panic" in r or "crash" in r:
            ctx.violations.append(("%s::parse panicked on %r: %s" % (ty, cn[:60], str(r)[:100]), replay)); continue
        if not r.get("ok"):
            continue
        facc += 1
        types_seen.add(ty)
        ctx.distinct.add((ty, lk, cn))
        bad = [k for k in ("again_ok", "again_equal", "again_ser_equal") if not r.get(k)]
        if bad:
            kid = field_known(known, ty, cn, r)
            if kid:
                ctx.known_hits[kid] = ctx.known_hits.get(kid, 0) + 1
            else:
                ctx.violations.append(("%s (%s): %r is accepted and printed as %r, whose re-parse fails: %s" % (ty, lk, cn[:80], (r.get("printed") or {}).get("content", "")[:80], ",".join(bad)), replay))
    ctx.stats.update({"messages": len(msgs), "messages_accepted": acc, "field_cases": len(cases), "field_accepted": facc,
                      "field_types_with_accepted_content": len(types_seen), "field_types_total": len(all_types)})
    ctx.samples.append({"field": cmeta[0][0], "content": cmeta[0][2][:60], "again_ok": fres[0].get("again_ok")})
    return finish(ctx, level="proof", trusted=TRUSTED,
                  assumptions=["equality of parses is equality of their serde_json::Value renderings (floats compare as JSON numbers)"])
