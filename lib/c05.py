"""C05 — field parsers accept exactly their documented SWIFT format."""
import json, os, re, time
from common import *
import fmtgen

PROP = "C05"
COQ_TARGETS = ["Props/C05.vo"]
TRANSLATOR = ["families"]

TRUSTED = [
    "Coq 8.16.1 kernel (coqc), vm_compute for every_type_has_format and the examples; no axioms",
    "spec/field_formats.json: hand transcription of the `Format:` doc line of every field struct of src/fields (SR 2025 where the doc is informal or missing - recorded per entry); lib/fmtgen.py renders it into gen/FieldFormats.v",
    "the recogniser Fmt/Model.v `accepts` is proved to decide the declarative meaning for all formats and strings; it IS the model of what a field parser should accept, tied to the 114 real parsers by the stream `field` (extracted recogniser vs T::parse)",
    "option families: the union of their options' formats (gen/Families.v from rs2v)",
]


XSET = set("abcdefghijklmnopqrstuvwxyzABCDEFGHIJKLMNOPQRSTUVWXYZ0123456789/-?:().,'+ \n\r")
EXTRAS = set("{}%&*;<=>@[]_$!\"#|")


def offending(c):
    """characters of a content that no SWIFT x component may hold"""
    return {ch for ch in c if ch not in XSET}


def is_extra(ch):
    """the characters parse_swift_chars takes beyond the x set: its list of specials and every non-ASCII letter / digit"""
    return ch in EXTRAS or (ord(ch) > 127 and ch.isalnum())


def classify(T, why, content, lib_ok):
    """decidable classes of listed deviations: returns a match kind or None"""
    return None


def run(ctx):
    ctx.rule = ("for each of the 114 field types: 30 valid contents drawn from the documented format; every component at lengths min, max, max+1, "
                "max+2, 0 and (fixed) n-1, n+1; every line count 1, max, max+1, max+2, 0; one wrong-class character per component (lower case, "
                "non-ASCII letter/digit, characters outside the SWIFT sets); malformed dates / times / currencies / BICs / amounts; empty content, "
                "trailing new line, extra line, leading / trailing space, CRLF, trailing junk, doubled content, blank line inside; "
                "non-trivial = the recogniser and/or the parser accepts; distinct = (type, content)")
    fmtgen.write_v(os.path.join(COQ, "gen")) if os.path.exists(os.path.join(COQ, "gen", "families.json")) else None
    standard_front(ctx, __import__("c05"))
    fmtgen.write_v(os.path.join(COQ, "gen"))
    rng = ctx.rng
    known, _ = load_known(PROP)
    F = fmtgen.load()
    fam = json.load(open(os.path.join(COQ, "gen", "families.json")))
    full = ctx.tier == "thorough"
    cases, meta = [], []
    for T in sorted(F):
        for why, content in fmtgen.cases_for(rng, F[T]["fmt"], 120 if full else 30):
            cases.append((T, content)); meta.append(why)
    for T, d in sorted(fam.items()):
        if T.startswith("_") or d.get("heur") == "fail":
            continue
        for _, pl, _ in d["variants"]:
            if pl in F:
                for why, content in fmtgen.cases_for(rng, F[pl]["fmt"], 40 if full else 10):
                    cases.append((T, content)); meta.append("as-%s:%s" % (pl, why))
    # corpus of minimised earlier deviations runs first
    cdir = os.path.join(ROOT, "corpus", PROP)
    for f in sorted(os.listdir(cdir)) if os.path.isdir(cdir) else []:
        if f.endswith(".case"):
            for line in open(os.path.join(cdir, f)):
                p = line.rstrip("\n").split("\t")
                if len(p) == 4 and p[0] == "fparse_raw":
                    cases.insert(0, (p[1], bytes.fromhex(p[3]).decode("utf-8", "replace"))); meta.insert(0, "corpus:" + f)
    seen = set()
    uc, um = [], []
    for (T, c), w in zip(cases, meta):
        if (T, c) not in seen:
            seen.add((T, c)); uc.append((T, c)); um.append(w)
    t0 = time.time()
    lib = run_lib(ctx, ["fparse_raw\t%s\t_\t%s" % (T, hexs(c)) for T, c in uc], "c05")
    t1 = time.time()
    # line ends: the recogniser sees LF; CRLF is the same line end for the library (str::lines)
    mod = run_model(ctx, ["fmt\t%s\t%s" % (T, hexs(c.replace("\r\n", "\n"))) for T, c in uc], "c05m")
    ctx.stats.update({"lib_s": round(t1 - t0, 1), "model_s": round(time.time() - t1, 1)})
    kinds = {}
    dev = {}
    known_cases = []
    for (T, c), why, r, m in zip(uc, um, lib, mod):
        ctx.evaluations += 1
        case = "fparse_raw\t%s\t_\t%s" % (T, hexs(c))
        if "panic" in r or "crash" in r:
            kk = [k for k in known if k.get("match", {}).get("kind") == "panic" and re.fullmatch(k["match"].get("type_re", ".*"), T)]
            if kk:
                ctx.known_hits[kk[0]["id"]] = ctx.known_hits.get(kk[0]["id"], 0) + 1
            else:
                ctx.violations.append(("%s::parse panicked on %r: %s" % (T, c[:40], str(r)[:100]), case))
            continue
        if m is None:
            continue
        if m == "NOFORMAT":
            ctx.broken.append("coq: no documented format for %s" % T); continue
        lib_ok, spec_ok = bool(r.get("ok")), m == "1"
        if T in fam and spec_ok and not lib_ok:
            # letter-less parse of an option family is a heuristic: contents of some option it does not recognise are a C14 matter
            kinds["family-heuristic-miss"] = kinds.get("family-heuristic-miss", 0) + 1
            continue
        if lib_ok or spec_ok:
            ctx.distinct.add((T, c))
        if lib_ok == spec_ok:
            kinds[why.split(":")[0]] = kinds.get(why.split(":")[0], 0) + 1
            continue
        hitk = None
        direction = "accepts" if lib_ok else "rejects"
        wk = re.sub(r"^as-\w+:", "", re.sub(r":\d+(\.\d+)?$", "", why))
        detail = re.sub(r"^as-\w+:", "", why)        # with the component (and variant) index
        if why.startswith("corpus:"):
            stem = why[len("corpus:"):].rsplit(".", 1)[0]
            kk = [k for k in known if k["id"] == stem and k.get("match", {}).get("direction") == direction]
            if kk:
                hitk = kk[0]["id"]
        for k in known:
            if hitk:
                break
            mm = k.get("match", {})
            if mm.get("kind") != "format_deviation" or mm.get("direction") != direction:
                continue
            if "types" in mm and T not in mm["types"]:
                continue
            if "why" in mm and wk not in mm["why"]:
                continue
            if mm.get("content_re") and not re.search(mm["content_re"], c, re.S):
                continue
            if "cases" in mm and [T, detail] not in mm["cases"]:
                continue
            if mm.get("chars"):
                off = offending(c)
                if not off:
                    continue
                if mm["chars"] == "extras" and not all(is_extra(ch) for ch in off):
                    continue
                if mm["chars"] == "lower" and not all(ch.islower() and ch.isascii() for ch in off):
                    continue
            hitk = k["id"]
        if hitk:
            ctx.known_hits[hitk] = ctx.known_hits.get(hitk, 0) + 1
            known_cases.append({"id": hitk, "T": T, "dir": direction, "why": wk, "detail": detail, "c": c})
        else:
            key = (T, direction, wk)
            dev.setdefault(key, []).append((c, case))
    with open(os.path.join(ctx.work, "known_cases.jsonl"), "w") as fh:      # what each listed class absorbed (for review)
        for row in known_cases:
            fh.write(json.dumps(row) + "\n")
    with open(os.path.join(ctx.work, "deviation_cases.jsonl"), "w") as fh:
        for (T, direction, w), lst in sorted(dev.items()):
            for c, case in lst:
                fh.write(json.dumps({"T": T, "dir": direction, "why": w, "c": c}) + "\n")
    with open(os.path.join(ctx.work, "deviations.txt"), "w") as fh:
        for (T, direction, w), lst in sorted(dev.items()):
            fh.write("%s\t%s\t%s\t%d\t%r\n" % (T, direction, w, len(lst), [x[0][:50] for x in lst[:3]]))
    for (T, direction, w), lst in sorted(dev.items()):
        c, case = lst[0]
        if direction == "accepts":
            ctx.violations.append(("%s::parse accepts %r, which is outside the documented format %s (%s; %d such case(s))" % (T, c[:60], F.get(T, {}).get("doc", "(family)"), w, len(lst)), case))
        else:
            ctx.violations.append(("%s::parse rejects %r, which has the documented format %s (%s; %d such case(s)): %s" % (T, c[:60], F.get(T, {}).get("doc", "(family)"), w, len(lst), ""), case))
    ctx.stats.update({"types": len(F) + len([k for k in fam if not k.startswith("_")]), "cases": len(uc), "agreeing_by_case_kind": dict(sorted(kinds.items())),
                      "deviation_groups": len(dev)})
    if not ctx.samples:
        ctx.samples = [{"type": T, "content": c[:40]} for (T, c) in uc[:4]]
    return finish(ctx, level="proof", trusted=TRUSTED,
                  assumptions=["the documented format of a field type is the `Format:` line of its doc comment (SR 2025 where that line is informal or missing)"])
