"""Grammar-style generation of text blocks by walking the regenerated layout IR
(coq/gen/layouts.json): optional fields in or out, every option letter for which a content is
known, 0..k repetitions of loops.  Contents come from a pool harvested from the shipped-scenario
seeds (by field type and option letter).  Generator quality bounds the correspondence check; this
is never part of a theorem."""
import json, os, re
import mtgen

LETTERS7 = ["A", "B", "C", "D", "F", "G", "H", "K", "L", "P"]
LETTERS26 = [chr(65 + i) for i in range(26)]


def harvest_pool(layouts, seeds):
    """pool[(ty_or_fam, letterkey)] -> sorted list of contents seen in seeds (letterkey '_' or '=X')"""
    from engine import flatten, candidates
    pool = {}
    for c, lst in seeds.items():
        fl = flatten(layouts.get("MT" + c, []), [])
        for name, text in lst:
            sp = mtgen.split_message(text)
            if not sp:
                continue
            for tag, content in mtgen.tokens(sp[1]):
                for ty, lk in candidates(fl, tag):
                    pool.setdefault((ty, lk), set()).add(content)
    # a content seen under one family is a content of the same tag under every family that has that option
    # (families are enums over the same payload types; type aliases included)
    by_tag = {}
    for c, lst in seeds.items():
        for name, text in lst:
            sp = mtgen.split_message(text)
            if sp:
                for tag, content in mtgen.tokens(sp[1]):
                    by_tag.setdefault(tag, set()).add(content)
    try:      # and the hand-written examples of the documented formats, for options no shipped scenario uses
        ex = json.load(open("/verif/spec/field_examples.json"))
        for tag, lst in ex.items():
            if not tag.startswith("_"):
                by_tag.setdefault(tag, set()).update(lst[:3])
    except Exception:
        pass
    try:
        fam = json.load(open(os.path.join("/verif/coq/gen", "families.json")))
        alias = dict(fam.get("_aliases", []))
        for T, ss in layouts.items():
            for st in flatten(ss, []):
                if st["op"] in ("req", "opt") and not pool.get((st["ty"], "_")):
                    for content in sorted(by_tag.get(st["tag"], []))[:6]:
                        pool.setdefault((st["ty"], "_"), set()).add(content)
                if st["op"] in ("reqv", "optv"):
                    f = fam.get(alias.get(st["fam"], st["fam"]))
                    for arm in (f or {}).get("arms", []):
                        letter = arm[0] or ""
                        for content in sorted(by_tag.get(st["base"] + letter, []))[:6]:
                            pool.setdefault((st["fam"], "=" + letter), set()).add(content)
    except Exception:
        pass
    return {k: sorted(v) for k, v in pool.items()}


class Gen:
    def __init__(self, layouts, pool, rng, p_opt=0.5, max_rep=3):
        self.layouts, self.pool, self.rng = layouts, pool, rng
        self.p_opt, self.max_rep = p_opt, max_rep

    def content(self, ty, lk):
        c = self.pool.get((ty, lk))
        return self.rng.choice(c) if c else None

    def letters_for(self, fam):
        return [lk for (t, lk) in self.pool if t == fam]

    def gen(self, T):
        """returns (tokens, trace) or None when generation ran into a Fail / missing pool entry"""
        self.env = {}
        self.toks = []
        self.trace = []       # (index, ty, letterkey, mandatory)
        self.force = None     # a tag the next matching cursor call must produce
        self.dead = False
        r = self.block(self.layouts[T], 0)
        if self.dead:
            return None
        return self.toks, self.trace

    def emit(self, tag, ty, lk, mandatory):
        c = self.content(ty, lk)
        if c is None:
            self.dead = True
            return False
        self.trace.append((len(self.toks), ty, lk, mandatory))
        self.toks.append((tag, c))
        return True

    def cond(self, c):
        """decide a condition generatively; for detect-conditions decide by coin and remember the tag to produce"""
        rng = self.rng
        if c == "complete":
            return True
        if c == "true":
            return True
        if "detect" in c:
            if rng.random() < self.p_opt:
                self.force = c["detect"]
                return True
            return False
        if "or" in c:
            a, b = c["or"]
            if rng.random() < 0.5:
                return self.cond(a) or self.cond(b)
            return self.cond(b) or self.cond(a)
        if "and" in c:
            a, b = c["and"]
            # evaluate pure (length) conditions first so a forced tag is not left dangling
            pa = self.pure(a); pb = self.pure(b)
            if pa is False or pb is False:
                return False
            ra = pa if pa is not None else self.cond(a)
            if not ra:
                return False
            rb = pb if pb is not None else self.cond(b)
            if not rb:
                self.force = None
            return rb
        if "not" in c:
            p = self.pure(c["not"])
            if p is not None:
                return not p
            r = self.cond(c["not"])
            self.force = None
            return not r
        p = self.pure(c)
        return bool(p)

    def pure(self, c):
        if not isinstance(c, dict):
            return None
        g = lambda v: self.env.get(v, 0)
        if "len_lt" in c:
            return g(c["len_lt"][0]) < c["len_lt"][1]
        if "len_ge" in c:
            return g(c["len_ge"][0]) >= c["len_ge"][1]
        if "is_zero" in c:
            return g(c["is_zero"]) == 0
        if "non_zero" in c:
            return g(c["non_zero"]) != 0
        return None

    def bind(self, dst, present):
        if not dst:
            return
        if "let" in dst:
            self.env[dst["let"]] = 1 if present else 0
        elif "push" in dst and present:
            self.env[dst["push"]] = self.env.get(dst["push"], 0) + 1

    def block(self, ss, depth):
        """returns 'next' | 'break' | 'ret'"""
        i = 0
        while i < len(ss):
            if self.dead:
                return "ret"
            s = ss[i]
            op = s["op"]
            rng = self.rng
            if op in ("req", "opt"):
                tag = s["tag"]
                forced = self.force == tag
                if forced:
                    self.force = None
                present = True if (op == "req" or forced) else (rng.random() < self.p_opt)
                if present:
                    self.emit(tag, s["ty"], "_", op == "req")
                self.bind(s.get("dst"), present)
            elif op in ("reqv", "optv"):
                base = s["base"]
                forced_tag = None
                if self.force is not None and self.force.startswith(base) and (self.force[len(base):] in LETTERS7 + [""]):
                    forced_tag = self.force
                    self.force = None
                present = True if (op == "reqv" or forced_tag is not None) else (rng.random() < self.p_opt)
                if present:
                    if forced_tag is not None:
                        lk = "=" + forced_tag[len(base):]
                    else:
                        ls = [lk for lk in self.letters_for(s["fam"]) if lk[1:] in LETTERS7 + [""]]
                        if not ls:
                            if op == "reqv":
                                self.dead = True
                            present = False
                            lk = None
                        else:
                            lk = rng.choice(ls)
                    if present:
                        self.emit(base + lk[1:], s["fam"], lk, op == "reqv")
                self.bind(s.get("dst"), present)
            elif op == "dup":
                pass
            elif op == "push":
                v = s["v"]
                if v.startswith("="):
                    self.env[v[1:]] = 1
                elif v.startswith("~"):
                    self.env[v[1:]] = 0
                else:
                    self.env[v] = self.env.get(v, 0) + 1
            elif op == "while":
                n = 0
                reps = rng.randrange(0, self.max_rep + 1)
                while n < reps and not self.dead:
                    # the loop condition must hold: force its detect tag
                    save_p = self.p_opt
                    self.p_opt = 1.0
                    ok = self.cond(s["cond"])
                    self.p_opt = save_p
                    if not ok:
                        break
                    r = self.block(s["body"], depth + 1)
                    n += 1
                    if r == "break":
                        break
                    if r == "ret":
                        return "ret"
                self.force = None
            elif op == "if":
                r = self.block(s["then"] if self.cond(s["cond"]) else s["else"], depth)
                self.force = None
                if r != "next":
                    return r
            elif op == "break":
                return "break"
            elif op == "fail":
                self.dead = True
                return "ret"
            elif op == "peek":
                base = s["base"]
                if rng.random() < self.p_opt:
                    arms = s["arms"]
                    choices = [l for a in arms for l in a["letters"]]
                    letters = LETTERS26 if s["all"] else LETTERS7
                    l = rng.choice([x for x in choices if x in letters] or choices)
                    self.force = base + l
                    body = s["default"]
                    for a in arms:
                        if l in a["letters"]:
                            body = a["body"]; break
                    r = self.block(body, depth)
                    self.force = None
                    if r != "next":
                        return r
            elif op in ("while_let_ok", "try_else"):
                # only in ill-formed layouts: generate one successful occurrence
                r = self.block([s["call"]], depth)
            elif op == "verify_complete":
                pass
            elif op == "return_ok":
                return "ret"
            i += 1
        return "next"


def mandatory_positions(trace):
    return [i for (i, ty, lk, m) in trace if m]
