"""C17 — reject / return / cover classification follows the codes present, consistently."""
import json, os, re, itertools
from common import *
import mtgen

PROP = "C17"
COQ_TARGETS = ["Props/C17.vo"]
TRANSLATOR = []

TRUSTED = [
    "Coq 8.16.1 kernel; no axioms",
    "hand model Classify/Model.v of SwiftMessage::{has_reject_codes, has_return_codes, is_cover_message}, the field-72 scans of MT103/MT202/MT205 and the method chain of plugin/parse.rs; tied by the stream `classify` (extracted model vs library on every combination)",
    "str::to_uppercase above ASCII is an oracle parameter of the theorems; MT103::is_stp_compliant is an opaque boolean here",
    "documented code words: /REJT/ and /RETN/ in a field-72 line, REJT / RETN in the message user reference (tag 108), tag 119 REJT/RETN/COV for the plugin on MT202/MT205",
]

BASE = {
    "103": "{1:F01BANKDEFFAXXX0000000000}\n{2:I103BANKUS33XXXXN}\n%s{4:\n:20:REF123\n:23B:CRED\n:32A:260930USD1000,00\n:50K:/12345678\nJOHN DOE\n:59:/87654321\nJANE ROE\n:71A:SHA\n%s-}\n",
    "202": "{1:F01BANKDEFFAXXX0000000000}\n{2:I202BANKUS33XXXXN}\n%s{4:\n:20:REF123\n:21:RELREF\n:32A:260930USD1000,00\n:58A:BANKGB2L\n%s%s-}\n",
    "205": "{1:F01BANKDEFFAXXX0000000000}\n{2:I205BANKUS33XXXXN}\n%s{4:\n:20:REF123\n:21:RELREF\n:32A:260930USD1000,00\n:52A:BANKDEFF\n:58A:BANKGB2L\n%s-}\n",
}
F72 = [None, "/REJT/AC01", "/RETN/AC01", "/REJT/AC01\n/RETN/AC02", "/INS/BANKDEFF\n/REJT/X", "/REJ/AC01", "REJT AC01", "/rejt/ac01", "/REJTX/1", "//REJT/1",
       "/BNF/SEE/REJT/", "/RJT/AC01", "/RET/AC01", "/COV/INFO", "/COVER/INFO", "/INS/RETN", "/BNF/INVOICE 2024/RET", "/RETN", "RETN/", "/ACC/NOTHING SPECIAL"]
MUR = [None, "REJT12345", "xxrejtxx", "RETN", "12retn34", "REJ T", "MYREF", "REJTRETN", "1234REJT", "TXREJT2401", "rẗ"]
FLAG = [None, "STP", "REJT", "RETN", "COV", "REMIT"]


def block3(mur, flag):
    if mur is None and flag is None:
        return ""
    s = "{3:"
    if mur is not None:
        s += "{108:%s}" % mur
    if flag is not None:
        s += "{119:%s}" % flag
    return s + "}\n"


def run(ctx):
    ctx.rule = ("MT103 / MT202 / MT205 built by hand and one seed of each other type, with every combination of 20 field-72 contents "
                "(code words, both, look-alikes, lower case, short spellings, cover words), 11 message user references, 6 validation "
                "flags and (MT202) sequence B with/without customer fields; typed API flags and the parse plugin's method; "
                "non-trivial = some code word or look-alike present; distinct = (type, 72, 108, 119, seqB)")
    standard_front(ctx, __import__("c17"))
    rng = ctx.rng
    known, _ = load_known(PROP)
    cases = []   # (type code, model ty, text, f72, mur, flag, seqb)
    full = ctx.tier == "thorough"
    combos = list(itertools.product(F72, MUR, FLAG))
    if not full:
        rng.shuffle(combos)
        combos = [c for c in combos if c[1] is None and c[2] is None] + [c for c in combos if c[0] in F72[:4] and (c[1] in MUR[:5]) and c[2] in FLAG] + combos[:250]
        combos = list(dict.fromkeys(combos))
    for f72, mur, flag in combos:
        b3 = block3(mur, flag)
        l72 = (":72:%s\n" % f72) if f72 is not None else ""
        cases.append(("103", "103", BASE["103"] % (b3, l72), f72, mur, flag, False))
        cases.append(("205", "205", BASE["205"] % (b3, l72), f72, mur, flag, False))
        for seqb in (False, True):
            sb = ":50K:/111\nCUSTOMER\n:59:/222\nBENEFICIARY\n" if seqb else ""
            cases.append(("202", "202", BASE["202"] % (b3, l72, sb), f72, mur, flag, seqb))
    # every other type: block 3 variants on a seed (field 72 left as the seed has it)
    seeds = mtgen.load_seeds(limit=1)
    for c in mtgen.SUPPORTED:
        if c in ("103", "202", "205"):
            continue
        text = seeds[c][0][1]
        pre_no3 = re.sub(r"\{3:(\{[^{}]*\})*\}\n?", "", text)
        for mur, flag in itertools.product(MUR[:6], FLAG[:4]):
            t = pre_no3.replace("{4:\n", block3(mur, flag) + "{4:\n")
            m72 = re.search(r":72:((?:.|\n)*?)\n(?::|-\})", t)
            cases.append((c, "other", t, m72.group(1) if m72 else None, mur, flag, False))
    lib_cases = []
    for c, mt, text, f72, mur, flag, seqb in cases:
        lib_cases.append("typed\tMT%s\t%s" % (c, hexs(text)))
        lib_cases.append("pparse\t%s" % hexs(text))
    res = run_lib(ctx, lib_cases, "c17")
    mcases = []
    for (c, mt, text, f72, mur, flag, seqb), rt in zip(cases, res[0::2]):
        stp = "1" if rt.get("stp") else "0"
        mcases.append("classify\t%s\t%s\t%s\t%s\t%s\t%s" % (mt, hexs(f72) if f72 is not None else "-", hexs(mur) if mur is not None else "-",
                                                            hexs(flag) if flag is not None else "-", "1" if seqb else "0", stp))
    mres = run_model(ctx, mcases, "c17")
    for i, (c, mt, text, f72, mur, flag, seqb) in enumerate(cases):
        rt, rp = res[2 * i], res[2 * i + 1]
        m = mres[i]
        ctx.evaluations += 1
        replay = "typed\tMT%s\t%s" % (c, hexs(text))
        if "panic" in rt or "crash" in rt or "panic" in rp:
            ctx.violations.append(("panic while classifying MT%s: %s" % (c, str(rt)[:100]), replay)); continue
        if not rt.get("ok"):
            ctx.notes.append("rejected: MT%s 72=%r mur=%r flag=%r: %s" % (c, f72, mur, flag, rt.get("display")))
            continue
        if f72 or mur or flag:
            ctx.distinct.add((c, f72, mur, flag, seqb))
        lines = f72.split("\n") if f72 else []
        murU = (mur or "").upper()
        # ---- the property, on the library's own answers
        spec_rej = any("/REJT/" in l for l in lines) and mt != "other" or "REJT" in murU
        spec_ret = any("/RETN/" in l for l in lines) and mt != "other" or "RETN" in murU
        short = mt in ("202", "205") and any("/RJT/" in l or "/RET/" in l for l in lines)
        kshort = [k for k in known if k.get("match", {}).get("kind") == "short_codes"]
        kother = [k for k in known if k.get("match", {}).get("kind") == "other_type_mur"]
        def flag_violation(what):
            if short and kshort:
                ctx.known_hits[kshort[0]["id"]] = ctx.known_hits.get(kshort[0]["id"], 0) + 1
            else:
                ctx.violations.append((what + " [MT%s 72=%r 108=%r 119=%r]" % (c, f72, mur, flag), replay))
        if bool(rt.get("reject")) != spec_rej:
            flag_violation("has_reject_codes() = %s but the message %s a reject code word" % (rt.get("reject"), "carries" if spec_rej else "does not carry"))
        if bool(rt.get("return")) != spec_ret:
            flag_violation("has_return_codes() = %s but the message %s a return code word" % (rt.get("return"), "carries" if spec_ret else "does not carry"))
        # plugin method implied by the classifications
        meth = (rp.get("meta") or {}).get("method") if rp.get("ok") else None
        if rp.get("ok"):
            rej = rt.get("reject") or (mt in ("202", "205") and flag == "REJT")
            ret = rt.get("return") or (mt in ("202", "205") and flag == "RETN")
            cov = rt.get("cover") or (mt in ("202", "205") and flag == "COV")
            if mt == "other":
                want = "normal"
                if (rt.get("reject") or rt.get("return")) and kother:
                    ctx.known_hits[kother[0]["id"]] = ctx.known_hits.get(kother[0]["id"], 0) + 1
                elif rt.get("reject") or rt.get("return"):
                    ctx.violations.append(("MT%s is classified reject/return by the typed API (tag 108 = %r) but the plugin reports %r" % (c, mur, meth), replay))
            else:
                want = "reject" if rej else "return" if ret else ("stp" if rt.get("stp") else "normal") if mt == "103" else "cover" if cov else "normal"
            if meth != want:
                ctx.violations.append(("plugin method %r, the classifications imply %r [MT%s 72=%r 108=%r 119=%r]" % (meth, want, c, f72, mur, flag), replay))
        # ---- correspondence
        if m is not None:
            mr, mt_, mc, mm = m.split(" ")
            lib = "%d %d %d %s" % (bool(rt.get("reject")), bool(rt.get("return")), bool(rt.get("cover")), meth)
            if lib != m:
                ctx.disagreements.append({"type": c, "f72": f72, "mur": mur, "flag": flag, "seqb": seqb, "model": m, "library": lib, "replay": replay})
        if len(ctx.samples) < 5 and f72 and mur:
            ctx.samples.append({"type": c, "72": f72, "108": mur, "119": flag, "library": "%s/%s/%s/%s" % (rt.get("reject"), rt.get("return"), rt.get("cover"), meth)})
    if ctx.disagreements:
        ctx.broken.append("correspondence: stream classify: %d disagreement(s), first: %s" % (len(ctx.disagreements), json.dumps({k: v for k, v in ctx.disagreements[0].items() if k != "replay"})[:300]))
    ctx.stats.update({"cases": len(cases), "rejected_by_parser": len(ctx.notes)})
    return finish(ctx, level="proof", trusted=TRUSTED,
                  assumptions=["the documented code words are /REJT/ and /RETN/ (field 72) and REJT / RETN (tag 108)"],
                  extra={"exhaustive": full})
