"""Shared machinery of ./check: build steps, hygiene, evidence, verdict.

Every property module (lib/cNN.py) exposes
    PROP  = "Cnn"
    COQ_TARGETS = [...]            # .vo targets of the property's cone (Props/Cnn.vo last)
    TRANSLATOR = [...]             # rs2v modules it needs
    def run(ctx)                   # generates cases, runs library + model, fills ctx
and uses the helpers below.  Nothing here decides a property: a property holds on a run when
(1) its Coq cone builds (all theorems re-checked against the regenerated gen/*.v), (2) hygiene and
the Print Assumptions allowlist pass, (3) model and library agree on every generated case and
(4) the property oracle, evaluated on the library's own outputs, finds no failing input.
"""
import fcntl, hashlib, json, os, random, re, subprocess, sys, time

ROOT = "/verif"
REPO = os.environ.get("VERIF_REPO", "/repo")
CACHE = os.path.join(ROOT, ".cache")
COQ = os.path.join(ROOT, "coq")
HARNESS_BIN = os.path.join(CACHE, "harness-target/debug/swiftmt-harness")
RS2V_BIN = os.path.join(CACHE, "translator-target/debug/rs2v")
RUNNER_BIN = os.path.join(CACHE, "runner/runner")
ENV = dict(os.environ, CARGO_NET_OFFLINE="true", GOPROXY="off", PIP_NO_INDEX="1")

ALLOWED_AXIOMS = {
    # standard-library axioms the development may depend on (named in DESIGN.md section 8)
    "functional_extensionality_dep", "FunctionalExtensionality.functional_extensionality_dep",
    "Coq.Logic.FunctionalExtensionality.functional_extensionality_dep",
    "ClassicalDedekindReals.sig_forall_dec", "ClassicalDedekindReals.sig_not_dec",
    "Classical_Prop.classic", "Eqdep.Eq_rect_eq.eq_rect_eq", "JMeq.JMeq_eq",
}

FORBIDDEN = re.compile(
    r"\b(Admitted|admit|Axiom|Axioms|Parameter|Parameters|Conjecture|Conjectures|Abort All|bypass_check)\b"
    r"|Unset\s+Guard|Unset\s+Positivity|Unset\s+Universe\s+Checking|-type-in-type|-impredicative-set|Admit\s+Obligations")


def hexs(s):
    if isinstance(s, str):
        s = s.encode("utf-8")
    return s.hex()


def sh(cmd, timeout=600, cwd=None, env=None):
    t0 = time.time()
    try:
        p = subprocess.run(cmd, shell=isinstance(cmd, str), cwd=cwd, env=env or ENV,
                           stdout=subprocess.PIPE, stderr=subprocess.STDOUT, timeout=timeout)
        return p.returncode, p.stdout.decode("utf-8", "replace"), time.time() - t0
    except subprocess.TimeoutExpired as e:
        out = (e.stdout or b"").decode("utf-8", "replace")
        return 124, out + "\nTIMEOUT after %ss" % timeout, time.time() - t0


class Ctx:
    def __init__(self, prop, tier, seed):
        self.prop, self.tier, self.seed = prop, tier, seed
        self.t0 = time.time()
        self.rng = random.Random(seed)
        self.work = os.path.join(ROOT, "work", prop)
        os.makedirs(self.work, exist_ok=True)
        self.obligations = []        # (name, discharged: bool)
        self.broken = []             # names of theorems / ties that no longer check
        self.violations = []         # (what, replay_text)   concrete failing inputs
        self.known_hits = {}         # finding id -> count
        self.evaluations = 0
        self.distinct = set()
        self.samples = []
        self.disagreements = []      # model vs library
        self.notes = []
        self.assumptions = {}        # theorem -> "closed" | [axioms]
        self.stats = {}
        self.trusted = []
        self.rule = ""
        self.model_available = True
        self.log = []

    def say(self, *a):
        msg = " ".join(str(x) for x in a)
        self.log.append(msg)
        print(msg, flush=True)


# ------------------------------------------------------------------ build steps

class Lock:
    def __enter__(self):
        os.makedirs(CACHE, exist_ok=True)
        self.f = open(os.path.join(CACHE, "lock"), "w")
        fcntl.flock(self.f, fcntl.LOCK_EX)
        return self

    def __exit__(self, *a):
        fcntl.flock(self.f, fcntl.LOCK_UN)
        self.f.close()


def build_translator(ctx):
    rc, out, dt = sh("cargo build --offline 2>&1", cwd=os.path.join(ROOT, "translator"), timeout=900)
    if rc != 0:
        ctx.say("translator build failed:\n" + out[-3000:])
        return False
    return True


ALL_MODULES = ["dispatch", "validators", "layouts", "tables", "families", "shapes"]


def run_translator(ctx, modules, relevant=None):
    """regenerate coq/gen from the CURRENT /repo working tree.
    ALL modules are regenerated on every run (a file left over from a run against another state of /repo must never
    be used); only a failure in one of the property's own modules is an obligation of this property: for another
    module the previous file is kept and the failure is noted (it is an obligation of the property that owns it)."""
    gen = os.path.join(COQ, "gen")
    os.makedirs(gen, exist_ok=True)
    ok = True
    t0 = time.time()
    for mod in ALL_MODULES:
        tmp = os.path.join(ctx.work, "gen.new." + mod)
        if os.path.isdir(tmp):
            for f in os.listdir(tmp):
                os.remove(os.path.join(tmp, f))
        os.makedirs(tmp, exist_ok=True)
        rc, out, dt = sh([RS2V_BIN, REPO, tmp, mod], timeout=300)
        mine = mod in modules
        if mine and rc != 0 and relevant and mod in relevant:
            # the module covers several tables: a failure in a part this property does not use is not its obligation
            failed = [l for l in out.splitlines() if "FAILED" in l]
            if failed and not any(re.search(relevant[mod], l) for l in failed):
                mine = False
        if rc == 0 or mine:
            # install only files whose content changed (keeps make's timestamps meaningful)
            for f in sorted(os.listdir(tmp)):
                src, dst = os.path.join(tmp, f), os.path.join(gen, f)
                new = open(src, "rb").read()
                if not os.path.exists(dst) or open(dst, "rb").read() != new:
                    open(dst, "wb").write(new)
        if rc != 0:
            if mine:
                ok = False
                ctx.say("rs2v %s failed:\n" % mod + out[-3000:])
                for line in out.splitlines():
                    if "FAILED" in line:
                        ctx.broken.append("translator: " + line.strip())
                if not any(b.startswith("translator") for b in ctx.broken):
                    ctx.broken.append("translator: rs2v %s exit %d" % (mod, rc))
            else:
                ctx.notes.append("translator module %s (not one of this property's) failed; its previous output is kept" % mod)
    ctx.stats["translator_s"] = round(time.time() - t0, 2)
    h = hashlib.sha256()
    for f in sorted(os.listdir(gen)):
        if f.endswith(".v"):
            h.update(open(os.path.join(gen, f), "rb").read())
    ctx.stats["gen_sha256"] = h.hexdigest()[:16]
    return ok


def coq_makefile(ctx):
    mk = os.path.join(COQ, "Makefile.coq")
    cp = os.path.join(COQ, "_CoqProject")
    if not os.path.exists(mk) or os.path.getmtime(mk) < os.path.getmtime(cp):
        rc, out, _ = sh("coq_makefile -f _CoqProject -o Makefile.coq", cwd=COQ)
        if rc != 0:
            ctx.say(out)
            return False
    return True


THEOREM_RE = re.compile(r"^\s*(Theorem|Lemma|Corollary|Example|Definition|Fixpoint|Fact|Remark|Proposition)\s+([A-Za-z0-9_']+)")


def enclosing_name(path, line):
    try:
        lines = open(path, encoding="utf-8").read().splitlines()
    except OSError:
        return "?"
    for i in range(min(line, len(lines)) - 1, -1, -1):
        m = THEOREM_RE.match(lines[i])
        if m:
            return m.group(2)
    return "?"


def coq_make(ctx, targets, timeout=1500, fresh_props=True):
    """build the property's cone; returns (ok, log).  Props/Cnn.vo is always recompiled so that
    Print Assumptions is re-run."""
    if not coq_makefile(ctx):
        ctx.broken.append("coq: coq_makefile failed")
        return False, ""
    if fresh_props:
        for t in targets:
            if t.startswith("Props/"):
                for ext in (".vo", ".glob", ".vok", ".vos"):
                    p = os.path.join(COQ, t[:-3] + ext)
                    if os.path.exists(p):
                        os.remove(p)
    rc, out, dt = sh("make -f Makefile.coq -j16 -k " + " ".join(targets) + " 2>&1", cwd=COQ, timeout=timeout)
    ctx.stats["coq_make_s"] = round(ctx.stats.get("coq_make_s", 0) + dt, 2)
    if rc != 0:
        found = False
        for m in re.finditer(r'File "\./([^"]+)", line (\d+), characters [^\n]*\n((?:(?!File ").*\n){0,12})', out):
            body = m.group(3)
            if "Error" not in body:
                continue
            found = True
            f, ln = m.group(1), int(m.group(2))
            name = enclosing_name(os.path.join(COQ, f), ln)
            first = [l for l in body.splitlines() if l.strip()]
            ctx.broken.append("coq: %s line %d (%s): %s" % (f, ln, name, " ".join(first)[:300]))
        if not found:
            ctx.broken.append("coq: make failed (rc=%d): %s" % (rc, out[-400:].replace("\n", " | ")))
        ctx.say("coq build FAILED:\n" + out[-2500:])
        return False, out
    return True, out


def parse_assumptions(ctx, log, names):
    """Print Assumptions output, in order, for the theorems listed (same order as in the file)."""
    blocks = []
    cur = None
    for line in log.splitlines():
        if line.startswith("Closed under the global context"):
            blocks.append("closed")
            cur = None
        elif line.startswith("Axioms:"):
            cur = []
            blocks.append(cur)
        elif cur is not None:
            m = re.match(r"^([A-Za-z_][A-Za-z0-9_.']*)\s*:", line)
            if m:
                cur.append(m.group(1))
            elif line.startswith("COQC") or line.startswith("make"):
                cur = None
    ok = True
    if len(blocks) < len(names):
        ctx.broken.append("coq: Print Assumptions printed %d blocks for %d theorems" % (len(blocks), len(names)))
        ok = False
    for n, b in zip(names, blocks):
        ctx.assumptions[n] = b
        if b != "closed":
            bad = [a for a in b if a not in ALLOWED_AXIOMS and a.split(".")[-1] not in ALLOWED_AXIOMS]
            if bad:
                ctx.broken.append("coq: theorem %s depends on non-allowlisted axioms %s" % (n, bad))
                ok = False
    return ok


def props_theorems(prop):
    """names of the theorems in Props/Cnn.v, in file order, and those with Print Assumptions"""
    p = os.path.join(COQ, "Props", prop + ".v")
    txt = open(p, encoding="utf-8").read()
    thms = re.findall(r"^\s*Theorem\s+([A-Za-z0-9_']+)", txt, re.M)
    pa = re.findall(r"^\s*Print Assumptions\s+([A-Za-z0-9_']+)\s*\.", txt, re.M)
    return thms, pa


def hygiene(ctx, extra_dirs=()):
    """no Admitted/admit/Axiom/Parameter/... anywhere in the development (comments stripped)"""
    bad = []
    for base, _, files in os.walk(COQ):
        for f in files:
            if not f.endswith(".v"):
                continue
            p = os.path.join(base, f)
            txt = open(p, encoding="utf-8", errors="replace").read()
            # strip comments (nested)
            out, depth, i = [], 0, 0
            while i < len(txt):
                if txt.startswith("(*", i):
                    depth += 1; i += 2
                elif txt.startswith("*)", i) and depth > 0:
                    depth -= 1; i += 2
                else:
                    if depth == 0:
                        out.append(txt[i])
                    elif txt[i] == "\n":
                        out.append("\n")
                    i += 1
            code = "".join(out)
            # strip string literals
            code = re.sub(r'"(?:[^"]|"")*"', '""', code)
            for n, line in enumerate(code.splitlines(), 1):
                m = FORBIDDEN.search(line)
                if m:
                    bad.append("%s:%d: %s" % (os.path.relpath(p, COQ), n, m.group(0)))
                if re.match(r"^\s*(Variable|Variables|Hypothesis|Hypotheses|Context)\b", line):
                    # allowed only inside a Section: check by scanning
                    pre = code.splitlines()[:n]
                    depth_s = sum(1 for l in pre if re.match(r"^\s*Section\b", l)) - sum(1 for l in pre if re.match(r"^\s*End\b", l))
                    mods = sum(1 for l in pre if re.match(r"^\s*Module\b(?!\s+Type)", l) and ":=" not in l)
                    if depth_s - 0 <= 0 and mods == 0:
                        bad.append("%s:%d: Variable/Hypothesis outside a section" % (os.path.relpath(p, COQ), n))
    if bad:
        for b in bad:
            ctx.broken.append("hygiene: " + b)
    ctx.stats["hygiene_files_scanned"] = sum(len([f for f in fs if f.endswith(".v")]) for _, _, fs in os.walk(COQ))
    return not bad


def build_runner(ctx):
    ok, log = coq_make(ctx, ["Extract/Extract.vo"], fresh_props=False)
    if not ok:
        ctx.model_available = False
        return False
    ext = os.path.join(ROOT, "runner", "extracted")
    os.makedirs(ext, exist_ok=True)
    for f in ("swiftmt_model.ml", "swiftmt_model.mli"):
        src = os.path.join(COQ, f)
        if os.path.exists(src):
            os.replace(src, os.path.join(ext, f))
    # rebuild only when the extracted code or the driver changed
    h = hashlib.sha256()
    for f in (os.path.join(ext, "swiftmt_model.ml"), os.path.join(ROOT, "runner", "main.ml")):
        h.update(open(f, "rb").read())
    stamp = os.path.join(CACHE, "runner", "stamp")
    if os.path.exists(stamp) and os.path.exists(RUNNER_BIN) and open(stamp).read() == h.hexdigest():
        return True
    rc, out, dt = sh(os.path.join(ROOT, "runner", "build.sh"), timeout=900)
    ctx.stats["runner_build_s"] = round(dt, 2)
    if rc != 0:
        ctx.say("runner build failed:\n" + out[-2000:])
        ctx.broken.append("runner: ocaml build failed")
        ctx.model_available = False
        return False
    open(stamp, "w").write(h.hexdigest())
    return True


def build_harness(ctx):
    rc, out, dt = sh("cargo build --offline 2>&1", cwd=os.path.join(ROOT, "harness"), timeout=1800)
    ctx.stats["harness_build_s"] = round(dt, 2)
    if rc != 0:
        ctx.say("harness build failed:\n" + out[-3000:])
        ctx.broken.append("harness: cargo build failed (library no longer compiles against the observation harness)")
        return False
    return True


def run_cases(binary, cases, work, name, timeout=1800, shards=16):
    """cases: list of tab-joined strings.  returns list of output lines (same length), sharded over cores"""
    if not cases:
        return []
    shards = max(1, min(shards, (len(cases) + 49) // 50))
    per = (len(cases) + shards - 1) // shards
    procs = []
    for i in range(shards):
        chunk = cases[i * per:(i + 1) * per]
        if not chunk:
            continue
        p = os.path.join(work, "%s.%d.cases" % (name, i))
        with open(p, "w", encoding="utf-8") as f:
            f.write("\n".join(chunk) + "\n")
        o = open(p + ".out", "wb")
        procs.append((subprocess.Popen([binary, p], stdout=o, stderr=subprocess.DEVNULL, env=ENV), o, p, len(chunk)))
    res = []
    deadline = time.time() + timeout
    for pr, o, p, n in procs:
        try:
            pr.wait(timeout=max(1, deadline - time.time()))
        except subprocess.TimeoutExpired:
            pr.kill()
        o.close()
        lines = open(p + ".out", encoding="utf-8", errors="replace").read().split("\n")
        if lines and lines[-1] == "":
            lines.pop()
        if len(lines) < n:   # crashed / killed: pad so that positions stay aligned
            lines += ['{"crash": "process ended (rc=%s) before this case"}' % pr.returncode] * (n - len(lines))
        res.extend(lines[:n])
    return res


def run_lib(ctx, cases, name="lib"):
    out = run_cases(HARNESS_BIN, cases, ctx.work, name)
    res = []
    for l in out:
        try:
            res.append(json.loads(l))
        except Exception:
            res.append({"crash": l[:200]})
    return res


def run_model(ctx, cases, name="model"):
    if not ctx.model_available:
        return [None] * len(cases)
    return run_cases(RUNNER_BIN, cases, ctx.work, name)


# ------------------------------------------------------------------ known findings

def load_known(prop):
    p = os.path.join(ROOT, "known_findings.json")
    if not os.path.exists(p):
        return [], []
    d = json.load(open(p))
    return ([k for k in d.get("known", []) if k["property"] == prop],
            [k for k in d.get("fixed", []) if k["property"] == prop])


# ------------------------------------------------------------------ verdict + evidence

def finish(ctx, level="proof", trusted=None, assumptions=None, extra=None):
    prop = ctx.prop
    os.makedirs(os.path.join(ROOT, "evidence"), exist_ok=True)
    os.makedirs(os.path.join(ROOT, "work", "replay"), exist_ok=True)
    known, _fixed = load_known(prop)
    rdir = os.path.join(ROOT, "work", "replay")
    for f in os.listdir(rdir):
        if f.startswith(prop + "_"):
            os.remove(os.path.join(rdir, f))
    lines = []
    exit_code = 0
    # concrete violations first
    nviol = 0
    for i, (what, replay) in enumerate(ctx.violations[:20]):
        rp = os.path.join(ROOT, "work", "replay", "%s_%d.replay" % (prop, i))
        with open(rp, "w", encoding="utf-8") as f:
            f.write("# property=%s seed=%d tier=%s\n# %s\n%s\n" % (prop, ctx.seed, ctx.tier, what, replay))
        lines.append("VIOLATION property=%s replay=%s" % (prop, rp))
        ctx.say("  violation: " + what[:400])
        nviol += 1
    if ctx.broken and not ctx.violations:
        rp = os.path.join(ROOT, "work", "replay", "%s_broken.replay" % prop)
        with open(rp, "w", encoding="utf-8") as f:
            f.write("# property=%s seed=%d tier=%s\n# no failing input was found; the following no longer check:\n" % (prop, ctx.seed, ctx.tier))
            for b in ctx.broken:
                f.write("BROKEN\t%s\n" % b)
            for d in ctx.disagreements[:10]:
                if isinstance(d, dict) and d.get("replay"):
                    f.write("# disagreeing input (model %s / library %s)\n%s\n" % (str(d.get("model"))[:80], str(d.get("library"))[:80], d["replay"]))
        lines.append("VIOLATION property=%s replay=%s no-failing-input-found" % (prop, rp))
        nviol += 1
    for k in known:
        n = ctx.known_hits.get(k["id"], 0)
        lines.append("KNOWN-FINDING: property=%s %s [%s; %d matching case(s) this run]" % (prop, k["what"], k["id"], n))
    if nviol:
        exit_code = 1
    obligations = len(ctx.obligations)
    discharged = sum(1 for _, d in ctx.obligations if d)
    cov = {
        "obligations": obligations,
        "discharged": discharged,
        "checker_cmd": "cd /verif/coq && make -f Makefile.coq -j16 Props/%s.vo  (coqc 8.16.1; full .vo build; Print Assumptions under every property theorem)" % prop,
        "trusted_base": trusted or [],
        "theorems": [{"name": n, "discharged": d, "assumptions": ctx.assumptions.get(n, "n/a")} for n, d in ctx.obligations],
        "broken": ctx.broken,
        "evaluations": ctx.evaluations,
        "distinct_nontrivial": len(ctx.distinct),
        "rule": ctx.rule,
        "samples": ctx.samples[:8] if ctx.samples else ["(none)"],
        "model_vs_library_disagreements": len(ctx.disagreements),
        "known_finding_hits": ctx.known_hits,
        "stats": ctx.stats,
    }
    if extra:
        cov.update(extra)
    ev = {
        "property_id": prop,
        "tier": ctx.tier,
        "seed": ctx.seed,
        "level": level,
        "coverage": cov,
        "assumptions": assumptions or [],
        "wall_s": round(time.time() - ctx.t0, 2),
        "violations": nviol,
    }
    with open(os.path.join(ROOT, "evidence", prop + ".json"), "w") as f:
        json.dump(ev, f, indent=1, sort_keys=True, default=str)
    for l in lines:
        print(l, flush=True)
    print("%s: %s  obligations %d/%d, cases %d (distinct %d), disagreements %d, %.1fs" % (
        prop, "FAIL" if exit_code else "ok", discharged, obligations, ctx.evaluations, len(ctx.distinct),
        len(ctx.disagreements), time.time() - ctx.t0), flush=True)
    return exit_code


def standard_front(ctx, mod):
    """steps 1-4 of the protocol shared by all properties; returns True when the proof side is intact"""
    ok = True
    if not build_translator(ctx):
        ctx.broken.append("translator: build failed")
        ok = False
    else:
        ok = run_translator(ctx, mod.TRANSLATOR, getattr(mod, "TRANSLATOR_RELEVANT", None)) and ok
    cok, log = coq_make(ctx, mod.COQ_TARGETS)
    thms, pa = props_theorems(ctx.prop)
    if cok:
        aok = parse_assumptions(ctx, log, pa)
        for t in thms:
            ctx.obligations.append((t, True))
        if set(thms) - set(pa):
            ctx.broken.append("coq: theorems without Print Assumptions: %s" % sorted(set(thms) - set(pa)))
            ok = False
        ok = ok and aok
    else:
        for t in thms:
            ctx.obligations.append((t, False))
        ok = False
    ok = hygiene(ctx) and ok
    build_runner(ctx)
    if not build_harness(ctx):
        ok = False
    return ok
