#!/bin/sh
# independent re-check of every compiled property file and everything it depends on (about two minutes);
# prints the axioms the whole development relies on.  Result of the last run: coq/COQCHK.txt
cd "$(dirname "$0")/../coq" && coqchk -o -silent -Q . SwiftMT Props/C01.vo Props/C02.vo Props/C03.vo Props/C04.vo Props/C05.vo Props/C06.vo Props/C07.vo Props/C08.vo Props/C09.vo Props/C10.vo Props/C11.vo Props/C12.vo Props/C13.vo Props/C14.vo Props/C15.vo Props/C16.vo Props/C17.vo
