#!/usr/bin/env python3
"""writes seeded/SUMMARY.md from seeded/<P>-<m>/meta.json"""
import json, os, glob
ROOT = os.path.dirname(os.path.dirname(os.path.abspath(__file__)))
rows = []
for f in sorted(glob.glob(os.path.join(ROOT, "seeded", "C*-m*", "meta.json"))):
    m = json.load(open(f))
    name = os.path.basename(os.path.dirname(f))
    co = m.get("check_output") or {}
    rows.append((name, m.get("status", "?"), m.get("patch_used", ""), (m.get("confirmation") or "not re-run at this HEAD")[:40],
                 ("concrete input" if co.get("violation_lines") and not co.get("no_failing_input_found") else "no-failing-input-found" if co.get("no_failing_input_found") else ""),
                 (m.get("summary") or "")[:160].replace("|", "/").replace("\n", " ")))
out = ["# Seeded property-breaking changes and what the checks reported", "",
       "Produced by sub-agents that saw only the property text and a scratch worktree; never committed in /repo. `status` is what the property's",
       "own quick check reported with the change applied to /repo's working tree (undone afterwards), at the /repo HEAD named in each meta.json.", "",
       "| change | status | patch | confirmation (demo fails with / passes without, suite passes) | how reported | what the change does |", "|---|---|---|---|---|---|"]
for r in rows:
    out.append("| %s | %s | %s | %s | %s | %s |" % r)
n = len(rows); det = sum(1 for r in rows if r[1] == "detected")
out += ["", "%d changes: %d detected, %d missed, %d not applicable to the current HEAD." % (n, det, sum(1 for r in rows if r[1] == "missed"), sum(1 for r in rows if r[1] == "does-not-apply"))]
open(os.path.join(ROOT, "seeded", "SUMMARY.md"), "w").write("\n".join(out) + "\n")
print(out[-1])
