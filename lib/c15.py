"""C15 — shipped scenarios always generate valid, exactly round-trippable messages."""
import json, os, re, glob, math
from common import *

PROP = "C15"
COQ_TARGETS = ["Props/C15.vo"]
TRANSLATOR = []

TRUSTED = [
    "Coq 8.16.1 kernel; no axioms",
    "PARTIAL: the random draws of the scenario generators (datafake-rs / fake: word lists, number ranges) are not modelled; the theorem covers only the numeric part (a generated decimal amount is published as exactly that decimal)",
    "per draw: the same four plugins as tests/end2end.rs (generate_mt, publish_mt, validate_mt, parse_mt) run by the harness on every shipped scenario file; the generated and the parsed JSON are compared exactly (numbers by binary64 value, an absent key = null), with no rounding",
]


def strip(v):
    """null / absent are the same; nothing else is normalised"""
    if isinstance(v, dict):
        return {k: strip(x) for k, x in v.items() if x is not None and strip(x) not in ({}, None)}
    if isinstance(v, list):
        return [strip(x) for x in v]
    if isinstance(v, bool):
        return v
    if isinstance(v, (int, float)):
        return float(v)
    return v


def first_diff(a, b, path=""):
    if type(a) != type(b):
        return path, a, b
    if isinstance(a, dict):
        for k in sorted(set(a) | set(b)):
            if k not in a or k not in b:
                return path + "/" + k, a.get(k), b.get(k)
            d = first_diff(a[k], b[k], path + "/" + k)
            if d:
                return d
        return None
    if isinstance(a, list):
        if len(a) != len(b):
            return path + "/#len", len(a), len(b)
        for i, (x, y) in enumerate(zip(a, b)):
            d = first_diff(x, y, path + "/%d" % i)
            if d:
                return d
        return None
    return None if a == b else (path, a, b)


def run(ctx):
    ctx.rule = ("every scenario file under /repo/test_scenarios (all 30 types; index and README excluded), N random draws each (quick 40, thorough 600) "
                "through generate_mt -> publish_mt -> validate_mt -> parse_mt; a draw passes when all four succeed, validation reports valid with "
                "no error, and the parsed JSON equals the generated JSON exactly; distinct = (scenario file, generated MT text)")
    standard_front(ctx, __import__("c15"))
    known, _ = load_known(PROP)
    full = ctx.tier == "thorough"
    n = 600 if full else 40
    files = sorted(f for f in glob.glob(os.path.join(REPO, "test_scenarios", "mt*", "*.json")) if os.path.basename(f) != "index.json")
    cases, meta = [], []
    for f in files:
        for i in range(n):
            cases.append("scenario\t%s" % f); meta.append(f)
    res = run_lib(ctx, cases, "c15")
    per = {}
    for f, r, case in zip(meta, res, cases):
        ctx.evaluations += 1
        rel = os.path.relpath(f, REPO)
        st = per.setdefault(rel, {"draws": 0, "ok": 0})
        st["draws"] += 1
        def bad(what, extra=None):
            kk = [k for k in known if k.get("match", {}).get("kind") == "scenario" and k["match"].get("file") == rel and re.search(k["match"].get("what_re", ""), what)]
            if kk:
                ctx.known_hits[kk[0]["id"]] = ctx.known_hits.get(kk[0]["id"], 0) + 1
            else:
                # the replay names the scenario file and carries the draw that failed (the generator's RNG cannot be seeded from outside)
                ctx.violations.append(("%s: %s" % (rel, what), case + ("\n# failing draw: " + json.dumps(extra)[:4000] if extra is not None else "")))
        if "panic" in r or "crash" in r:
            bad("the pipeline panicked or died: %s" % str(r)[:160]); continue
        if r.get("bad_case"):
            ctx.broken.append("harness: %s: %s" % (rel, r["bad_case"])); continue
        if not r.get("ok"):
            bad("%s failed: %s" % (r.get("stage"), str(r.get("display"))[:200]), r.get("sample_json")); continue
        v = r.get("validation_result") or {}
        if not v.get("valid") or v.get("errors"):
            bad("the generated message does not pass validation: %s" % str(v.get("errors"))[:200], r.get("sample_json")); continue
        a, b = strip(r["sample_json"]), strip(r["mt_json"])
        d = first_diff(a, b)
        if d:
            bad("the JSON parsed back differs from the generated JSON at %s: generated %r, parsed %r" % (d[0], d[1], d[2]), r.get("sample_json")); continue
        st["ok"] += 1
        ctx.distinct.add((rel, r["sample_mt"] if isinstance(r["sample_mt"], str) else json.dumps(r["sample_mt"])))
        if len(ctx.samples) < 3:
            ctx.samples.append({"scenario": rel, "mt_first_line": (r["sample_mt"] if isinstance(r["sample_mt"], str) else "")[:60]})
    ctx.stats.update({"scenario_files": len(files), "draws_per_file": n, "files_with_a_failing_draw": sorted(k for k, v in per.items() if v["ok"] < v["draws"])[:40]})
    return finish(ctx, level="proof", trusted=TRUSTED,
                  assumptions=["'equal to what was generated': JSON equality with numbers compared as binary64 values and an absent key equal to null; empty objects left by absent members are ignored"])
