"""C15 — shipped scenarios always generate valid, exactly round-trippable messages."""
import json, os, re, glob, math, copy, random
from concurrent.futures import ProcessPoolExecutor
from common import *
import scen, scen2v

PROP = "C15"
COQ_TARGETS = ["Props/C15.vo"]
TRANSLATOR = []

TRUSTED = [
    "Coq 8.16.1 kernel, vm_compute for the fit of the 2 279 distinct leaves of gen/Scenarios.v; no axioms",
    "PARTIAL: the theorems say that every text leaf of every shipped scenario, in every draw, has the characters, length and first / last character that the "
    "component it fills requires (C15_every_leaf_fits_in_every_draw), and that generated decimal amounts are published exactly; that the library publishes, "
    "validates, parses and reads back a message whose leaves have the required shape is explored per draw, not proved",
    "lib/scen2v.py (translator, Python): renders /repo/test_scenarios/mt*/*.json (var inlined, cat / substr / if as TCat / TSub / TAny, anything else TTop = never fits), "
    "the word lists of the `fake` crate (src/locales/mod.rs of the version in /repo/Cargo.lock) and spec/scenario_reqs.json into gen/Scenarios.v on every run",
    "the languages of the 17 `fake` kinds the scenarios use are transcribed by hand (lib/scen.py kind_lang) from datafake-rs/src/operators/fake.rs and fake/src/faker/impls; "
    "assumption, validated on every run: N real values of every kind and argument list used (harness op fakegen) are members of the transcribed language; "
    "`date` is the clock: modelled as any calendar day of 2000-2049",
    "the template semantics (var / cat / substr / if / == / *) is lib/scen.py evaluate, mirrored by Scenario/Lang.v den; tie: for every directed draw the model's JSON equals "
    "the JSON the library's own generator (datafake-rs) produces from the same scenario with its fake nodes replaced by the chosen values",
    "spec/scenario_reqs.json (hand-written requirement per field component) is validated against the library: strings drawn from the requirement itself (all punctuation "
    "first / last / inside, longest, shortest, trailing blank) are put at a leaf with that requirement and must pass the whole pipeline",
    "per draw: the same four plugins as tests/end2end.rs (generate_mt, publish_mt, validate_mt, parse_mt) run by the harness; the generated and the parsed JSON are compared "
    "exactly (numbers by binary64 value, an absent key = null), with no rounding",
]


def strip(v):
    """null / absent are the same; nothing else is normalised"""
    if isinstance(v, dict):
        return {k: strip(x) for k, x in v.items() if x is not None and strip(x) not in ({}, None)}
    if isinstance(v, list):
        return [strip(x) for x in v]
    if isinstance(v, bool):
        return v
    if isinstance(v, (int, float)):
        return float(v)
    return v


def first_diff(a, b, path=""):
    if type(a) != type(b):
        return path, a, b
    if isinstance(a, dict):
        for k in sorted(set(a) | set(b)):
            if k not in a or k not in b:
                return path + "/" + k, a.get(k), b.get(k)
            d = first_diff(a[k], b[k], path + "/" + k)
            if d:
                return d
        return None
    if isinstance(a, list):
        if len(a) != len(b):
            return path + "/#len", len(a), len(b)
        for i, (x, y) in enumerate(zip(a, b)):
            d = first_diff(x, y, path + "/%d" % i)
            if d:
                return d
        return None
    return None if a == b else (path, a, b)


def hexs(s):
    return s.encode("utf-8").hex()


def verdict(r):
    """None when the draw passes, else what failed"""
    if "panic" in r or "crash" in r:
        return "the pipeline panicked or died: %s" % str(r)[:160]
    if not r.get("ok"):
        return "%s failed: %s" % (r.get("stage"), str(r.get("display"))[:200])
    v = r.get("validation_result") or {}
    if not v.get("valid") or v.get("errors"):
        return "the generated message does not pass validation: %s" % str(v.get("errors"))[:200]
    d = first_diff(strip(r["sample_json"]), strip(r["mt_json"]))
    if d:
        return "the JSON parsed back differs from the generated JSON at %s: generated %r, parsed %r" % (d[0], d[1], d[2])
    return None


# ------------------------------------------------------------------ directed draws (worker processes)

GOALS = {
    "ends_blank": lambda s, n: s.endswith(" "),
    "ends_punct": lambda s, n: bool(re.search(r"[^A-Za-z0-9 ]$", s)),
    "starts_punct": lambda s, n: bool(re.search(r"^[^A-Za-z0-9]", s)),
    "apostrophe": lambda s, n: "'" in s,
    "full": lambda s, n: n is not None and len(s) == n,
    "full-1": lambda s, n: n is not None and len(s) == n - 1,
    "short": lambda s, n: len(s) <= 8,
}


def leaf_limit(classes, reqs, tag, key):
    r = scen2v.req_for(reqs, tag, key)
    if not r:
        return None
    return r["hi"] if "hi" in r else max(h for _, h in r["alts"])


def directed_for_file(arg):
    f, seed, tries, targets, pool = arg
    scen.POOL.update(pool)
    rng = random.Random(seed)
    d = json.load(open(f))
    classes, reqs = scen2v.load_reqs()
    out = []

    def rdraw(how="random"):
        try:
            return scen.random_draw(d, rng, how)
        except scen.Opaque:
            return None
    if rdraw() is None:
        return f, []
    for how in ("longest", "shortest", "special", "random", "random"):
        out.append((how, rdraw(how)))
    # countries of the BICs: the rules that compare sender / receiver / ordering countries see every combination
    for cc in ("DE", "US", "AD", "GB"):
        dr = rdraw()
        for p, a in scen.all_fakes(d):
            if a[0] in ("bic8", "bic11"):
                v = dr[p]
                dr[p] = v[:4] + cc + v[6:]
        out.append(("bic-country-" + cc, dr))
    for dt in ("2028-02-29", "2049-12-31", "2030-01-01", "2026-12-31"):
        dr = rdraw()
        import datetime
        y, m, dd = map(int, dt.split("-"))
        for p, a in scen.all_fakes(d):
            if a[0] == "date":
                dr[p] = datetime.date(y, m, dd).strftime(a[1] if len(a) > 1 else "%Y-%m-%d")
        out.append(("date-" + dt, dr))
    base = rdraw()
    for tag, kpath, jpath, tm in scen.leaves(d):
        if not scen.is_op(tm):
            continue
        key = "/".join(kpath)
        n = leaf_limit(classes, reqs, tag, key)
        goals = {g: (lambda s, fn=fn, n=n: fn(s, n)) for g, fn in GOALS.items()}
        # a number computed from drawn numbers: a value that is not the binary64 nearest to a decimal with few decimals
        goals["num:long-fraction"] = lambda v: isinstance(v, float) and len(repr(v).split(".")[-1]) > 4
        goals["num:integral"] = lambda v: float(v) == int(v)
        goals["num:three-decimals"] = lambda v: isinstance(v, float) and len(repr(v).split(".")[-1]) == 3
        t = tries * (6 if (f, jpath) in targets else 1)
        if (f, jpath) in targets:
            cs = set(classes["x"])
            goals["over"] = lambda s, n=n: n is not None and len(s) > n
            goals["odd-char"] = lambda s: any(c not in cs for c in s)
        for g, dr in scen.leaf_search(d, jpath, tm, goals, rng, base, tries=t).items():
            out.append(("%s at /%s" % (g, "/".join(map(str, jpath))), dr))
        # constructive: word lengths chosen so that the cut of a substr keeps a blank / punctuation as its last character
        try:
            for c, dr in scen.cut_search(d, jpath, tm, " ,'-./", rng, base).items():
                out.append(("cut-on-%s at /%s" % ({" ": "blank", ",": "comma", "'": "apostrophe", "-": "hyphen", ".": "dot", "/": "slash"}[c], "/".join(map(str, jpath))), dr))
        except scen.Opaque:
            pass
    res = []
    for how, dr in out:
        if dr is None:
            continue
        inst = scen.apply_draw(d, dr)
        try:
            mj, _ = scen.model_generate(d, dr)
            opaque = None
        except scen.Opaque as e:
            mj, opaque = None, str(e)
        res.append((how, json.dumps(inst), mj, opaque))
    return f, res


# ------------------------------------------------------------------ requirement samples

def req_samples(classes, r, full):
    cs = classes[r["cls"]]
    lo, hi = (r["lo"], r["hi"]) if "lo" in r else r["alts"][0]
    fn, ln = r.get("first_not", ""), r.get("last_not", "")
    punct = [c for c in cs if not c.isalnum()]
    if not full:
        punct = [c for c in punct if c in " /-'.,:+?()"]
    out = []
    s = [cs[i % len(cs)] for i in range(hi)]
    if s[0] in fn:
        s[0] = "A"
    if s[-1] in ln:
        s[-1] = "Z"
    out.append("".join(s))
    out.append("A" * lo)
    for p in punct:
        if hi >= 3:
            if p not in fn:
                out.append(p + "AB")
            if p not in ln:
                out.append("AB" + p)
            out.append("A" + p + "B")
        if lo <= 1 and p not in fn and p not in ln and p not in r.get("one_not", ""):
            out.append(p)
    out.append("A" * (hi - 1) + ("Z" if " " in ln else " "))
    if r["sample"] == "reference":
        out = [x for x in out if "//" not in x]
    return out


def set_path(node, jpath, val):
    for k in jpath[:-1]:
        node = node[k]
    node[jpath[-1]] = val


def run(ctx):
    full = ctx.tier == "thorough"
    n_random = 300 if full else 20
    n_fake = 3000 if full else 400
    tries = 200 if full else 30
    ctx.rule = ("every scenario file under /repo/test_scenarios (all 30 types; index and README excluded). (a) proof side: every text leaf with a requirement, all draws "
                "(gen/Scenarios.v). (b) N random draws of the library's own generator per file (quick %d, thorough 300). (c) directed draws per file: every generator at its "
                "longest / shortest / most unusual value, BIC countries DE/US/AD/GB, dates 2028-02-29 / 2049-12-31 / 2030-01-01 / 2026-12-31, and for every variable "
                "leaf a search (%d tries) for values that end in a blank, end or start in punctuation, contain an apostrophe, fill the component exactly or by one less, for computed numbers a value with a long binary fraction, plus a constructive choice of word lengths that makes the cut of a substr land on a blank or on punctuation; "
                "the fake nodes are replaced by the chosen values and the library's own generator evaluates the rest. (d) strings drawn from each requirement at a leaf "
                "that has it. Every draw goes through generate_mt -> publish_mt -> validate_mt -> parse_mt; it passes when all succeed, validation reports valid "
                "with no error, and the parsed JSON equals the generated JSON exactly; distinct = (scenario file, generated MT text)") % (n_random, tries)
    try:
        tstats = scen2v.write_v()
        ctx.stats["scenario_translation"] = {k: v for k, v in tstats.items() if k != "unconstrained_keys"}
        ctx.stats["leaves_without_requirement"] = sum(tstats["unconstrained_keys"].values())
    except Exception as e:
        ctx.broken.append("translator scen2v: %s" % str(e)[:300])
    proof_ok = standard_front(ctx, __import__("c15"))
    known, _ = load_known(PROP)
    classes, reqs = scen2v.load_reqs()
    files = scen.scenario_files()

    def bad(rel, what, case, extra=None):
        kk = [k for k in known if k.get("match", {}).get("kind") == "scenario" and k["match"].get("file") == rel and re.search(k["match"].get("what_re", ""), what)]
        if kk:
            ctx.known_hits[kk[0]["id"]] = ctx.known_hits.get(kk[0]["id"], 0) + 1
        else:
            ctx.violations.append(("%s: %s" % (rel, what), case + ("\n# failing draw: " + json.dumps(extra)[:4000] if extra is not None else "")))

    # ---- which leaves does the proof side not carry?  (Python mirror of Scenario/Lang.v abs / fits: diagnosis and targets only)
    targets, not_fitting = set(), []
    for f in files:
        d = json.load(open(f))
        V = d.get("variables", {})
        for tag, kpath, jpath, node in scen.leaves(d):
            if isinstance(node, (int, float)) and not isinstance(node, bool):
                continue
            r = scen2v.req_for(reqs, tag, "/".join(kpath))
            if not r:
                continue
            cs, fst, lst, one = scen.req_sets(classes, r)
            x = scen.a_tm(node, V)
            alts = r.get("alts") or [[r["lo"], r["hi"]]]
            if not any(scen.a_fits(x, cs, lo, hi, fst, lst, one) for lo, hi in alts):
                targets.add((f, jpath))
                not_fitting.append("%s /%s: %s" % (os.path.relpath(f, REPO), "/".join(map(str, jpath)), scen.why_not(x, cs, alts[0][0], alts[-1][1], fst, lst, one)))
    if not_fitting:
        ctx.say("  leaves that do not fit their requirement: %d, e.g. %s" % (len(not_fitting), not_fitting[:3]))
        ctx.stats["leaves_not_fitting"] = not_fitting[:20]
        if proof_ok:
            ctx.broken.append("the diagnosis (lib/scen.py a_tm) finds leaves that do not fit while Scenario/Instance.v builds: the two readings of the scenario files differ")
    elif not proof_ok and any("Scenario" in b or "C15" in b for b in ctx.broken):
        ctx.say("  the proof side is broken but the diagnosis finds every leaf fitting")

    # ---- (A) the generators' languages: real values are members
    kinds = {}
    scen.POOL.clear()
    for f in files:
        for p, a in scen.all_fakes(json.load(open(f))):
            kinds[json.dumps(a)] = a
    kl = sorted(kinds)
    res = run_lib(ctx, ["fakegen\t%s\t%d" % (hexs(k), n_fake) for k in kl], "c15fake")
    not_member = 0
    pool = {}
    for k, r in zip(kl, res):
        a = kinds[k]
        if scen.lang_of(a) is None:
            ctx.broken.append("generator kind not modelled: fake %s" % k)
            if r.get("ok"):
                pool[k] = r["values"][:50]
            continue
        if not r.get("ok"):
            ctx.broken.append("fakegen %s: %s" % (k, str(r)[:120]))
            continue
        for v in r["values"]:
            ctx.evaluations += 1
            s = v if isinstance(v, str) else json.dumps(v)
            if scen.member(a, s) is not True:
                not_member += 1
                if not_member <= 3:
                    ctx.disagreements.append({"kind": k, "library": s, "model": "not in the language transcribed for this generator"})
    scen.POOL.update(pool)
    ctx.stats["generator_kinds"] = len(kl)
    ctx.stats["generator_values_checked"] = len(kl) * n_fake

    # ---- (B) the library's own random draws
    cases, meta = [], []
    for f in files:
        for i in range(n_random):
            cases.append("scenario\t%s" % f); meta.append((f, "library-draw"))
    # ---- (C) directed draws
    with ProcessPoolExecutor(16) as ex:
        directed = list(ex.map(directed_for_file, [(f, ctx.seed * 1000 + i, tries, targets, pool) for i, f in enumerate(files)]))
    model_json = {}
    opaque = {}
    for f, lst in directed:
        for how, inst, mj, op in lst:
            model_json[len(cases)] = mj
            if op:
                opaque[os.path.relpath(f, REPO)] = op
            cases.append("scenario_json\t%s" % hexs(inst)); meta.append((f, how))
    # ---- (D) requirement samples
    hosts = {}
    for f in files:
        d = json.load(open(f))
        for tag, kpath, jpath, tm in scen.leaves(d):
            hosts.setdefault((tag, "/".join(kpath)), []).append((f, jpath))
    nreq = 0
    for (tag, key), hl in sorted(hosts.items(), key=lambda x: (str(x[0][0]), x[0][1])):
        r = scen2v.req_for(reqs, tag, key)
        if not r or r.get("sample") not in ("line", "reference"):
            continue
        for f, jpath in (hl[:3] if full else hl[:1]):
            d = json.load(open(f))
            for s in req_samples(classes, r, full):
                try:
                    inst = scen.apply_draw(d, scen.random_draw(d, ctx.rng))
                except scen.Opaque:
                    continue
                set_path(inst["schema"], jpath, s)
                cases.append("scenario_json\t%s" % hexs(json.dumps(inst))); meta.append((f, "requirement %s %s: %r" % (tag, key, s)))
                nreq += 1
    res = run_lib(ctx, cases, "c15")
    per = {}
    hows = {}
    req_fail = []
    for i, ((f, how), r, case) in enumerate(zip(meta, res, cases)):
        ctx.evaluations += 1
        rel = os.path.relpath(f, REPO)
        st = per.setdefault(rel, {"draws": 0, "ok": 0})
        st["draws"] += 1
        kind = how.split(" ")[0]
        hows[kind] = hows.get(kind, 0) + 1
        if r.get("bad_case"):
            ctx.broken.append("harness: %s: %s" % (rel, r["bad_case"])); continue
        # the model of the template language against the library's generator
        if i in model_json and model_json[i] is not None and isinstance(r.get("sample_json"), (dict, list)) and model_json[i] != r["sample_json"]:
            dd = first_diff(model_json[i], r["sample_json"])
            ctx.disagreements.append({"scenario": rel, "how": how, "model": str(dd[1])[:80] if dd else "?", "library": str(dd[2])[:80] if dd else "?",
                                      "at": dd[0] if dd else "?", "replay": case})
        w = verdict(r)
        if w is None:
            st["ok"] += 1
            ctx.distinct.add((rel, r["sample_mt"] if isinstance(r["sample_mt"], str) else json.dumps(r["sample_mt"])))
            if len(ctx.samples) < 3 and how != "library-draw":
                ctx.samples.append({"scenario": rel, "draw": how, "mt_first_line": (r["sample_mt"] if isinstance(r["sample_mt"], str) else "")[:60]})
            continue
        if how.startswith("requirement "):
            # not a draw of the scenario: the requirement table claims more than the library accepts
            req_fail.append("%s (%s): %s" % (how, rel, w[:160]))
            continue
        bad(rel, "[%s] %s" % (how, w), case, r.get("sample_json"))
    if req_fail:
        ctx.stats["requirement_strings_not_passing"] = req_fail[:40]
        ctx.broken.append("correspondence: requirement table vs library: %d string(s) of a requirement do not pass, first: %s" % (len(req_fail), req_fail[0][:300]))
    if ctx.disagreements:
        ctx.broken.append("correspondence: scenario model vs library generator: %d disagreement(s), first: %s" % (
            len(ctx.disagreements), json.dumps({k: v for k, v in ctx.disagreements[0].items() if k != "replay"})[:300]))
    ctx.stats.update({"scenario_files": len(files), "library_draws_per_file": n_random, "draws_by_kind": hows, "requirement_samples": nreq,
                      "templates_outside_the_model": opaque,
                      "files_with_a_failing_draw": sorted(k for k, v in per.items() if v["ok"] < v["draws"])[:40]})
    return finish(ctx, level="proof", trusted=TRUSTED,
                  assumptions=["'equal to what was generated': JSON equality with numbers compared as binary64 values and an absent key equal to null; empty objects left by absent members are ignored",
                               "the clock's date lies in 2000-2049"])
