#!/bin/sh
# confirms every incoming seed (sequentially; shared target dir)
for d in /verif/seeded/_incoming/*/m*; do
  if [ -f "$d/patch.diff" ] && [ ! -f "$d/confirmed.txt" ]; then
    r=$(/verif/lib/confirm_seed.sh "$d" 2>&1 | tail -1)
    echo "$r" > "$d/confirmed.txt"
    echo "$d: $r"
  fi
done
rm -rf /tmp/confirm_target
