import re,sys
def patch(p, imp_add, body):
    s=open(p).read()
    lines=s.split("\n")
    for k,l in enumerate(lines):
        if l.startswith("From SwiftMT Require Import"):
            assert l.rstrip().endswith(".")
            lines[k]=l.rstrip()[:-1]+" "+imp_add+"."
            break
    s="\n".join(lines)
    i=s.index("Print Assumptions")
    s=s[:i]+body+"\n"+s[i:]
    names=re.findall(r"Theorem\s+([A-Za-z0-9_']+)", body)
    s=s.rstrip("\n")+"\n"+"".join("Print Assumptions %s.\n"%n for n in names)
    open(p,'w').write(s)
