"""Shipped scenarios (C15): the template language of datafake-rs as far as the scenario files use it, and the languages
of the `fake` generators read from the sources of the crates the library is built with.

* `fake_data()` parses the word lists of fake-<version>/src/locales/mod.rs (version from /repo/Cargo.lock).
* `kind_lang(args)` gives the language of one `fake` call as a list of alternatives, each a list of slots:
  ("words", [w...]) | ("chars", alphabet, lo, hi) | ("num", lo, hi).  It transcribes datafake-rs/src/operators/fake.rs
  and fake/src/faker/impls/*.rs for the 17 kinds the scenarios use (hand-written, validated by membership of real draws).
* `evaluate(node, env, choose)` is the template semantics (var, cat, substr, if, ==, *, literals, structure).
* `instantiate(scenario, choose)` replaces every `fake` node by a value; the library's own generator evaluates the rest.
"""
import glob, json, os, re, random

REPO = "/repo"
OPS = {"var", "==", "!=", "===", "!==", "!", "!!", "or", "and", "?:", "if", ">", ">=", "<", "<=", "max", "min", "+", "-", "*", "/", "%",
       "map", "filter", "reduce", "all", "none", "some", "merge", "in", "cat", "substr", "log", "method", "preserve", "missing",
       "missing_some", "fake"}          # datafake-rs engine.rs is_jsonlogic_operator


def crate_dir(name):
    ver = None
    lock = open(os.path.join(REPO, "Cargo.lock")).read()
    m = re.search(r'name = "%s"\nversion = "([^"]+)"' % re.escape(name), lock)
    if m:
        ver = m.group(1)
    for d in sorted(glob.glob(os.path.expanduser("~/.cargo/registry/src/*/%s-%s" % (name, ver or "*")))):
        return d
    return None


_DATA = None


def fake_data():
    """name -> list of str (or str for the templates) of the EN locale (the Data trait's defaults)"""
    global _DATA
    if _DATA is not None:
        return _DATA
    d = crate_dir("fake")
    s = open(os.path.join(d, "src/locales/mod.rs"), encoding="utf-8").read()
    out = {}
    for m in re.finditer(r"const ([A-Z_0-9]+): &'static (\[&'static str\]|str)\s*=\s*(.*?);\n", s, re.S):
        name, ty, body = m.group(1), m.group(2), m.group(3)
        strs = [json.loads('"%s"' % x) for x in re.findall(r'"((?:[^"\\]|\\.)*)"', body)]
        out[name] = strs if ty.startswith("[") else (strs[0] if strs else "")
    _DATA = out
    return out


ALPHA = "ABCDEFGHIJKLMNOPQRSTUVWXYZ"
VOWELS = "AEIOU"
DIGITS = "0123456789"
ALNUM = DIGITS + ALPHA
HEX = "0123456789abcdef"


def iso3166():
    d = crate_dir("datafake-rs")
    s = open(os.path.join(d, "src/operators/fake.rs"), encoding="utf-8").read()
    m = re.search(r"const ISO3166: &\[&str\] = &\[(.*?)\];", s, re.S)
    return re.findall(r'"([A-Z]{2})"', m.group(1))


def W(ws):
    return ("words", list(ws))


def L(s):
    return ("words", [s])


def C(alpha, lo, hi=None):
    return ("chars", alpha, lo, lo if hi is None else hi)


DATES = None


def date_words(fmt):
    """the clock's date: every calendar day of 2000..2049 (the years the library's century window reads back as written)"""
    import datetime
    out = []
    d = datetime.date(2000, 1, 1)
    while d.year < 2050:
        out.append(d.strftime(fmt))
        d += datetime.timedelta(days=1)
    return out


def kind_lang(args):
    D = fake_data()
    k = args[0]
    first, last = D["NAME_FIRST_NAME"], D["NAME_LAST_NAME"]
    if k == "bic8" or k == "bic11":
        base = [C(ALPHA, 3), W(VOWELS), W(iso3166()), C(ALPHA, 1), L("1")]
        if k == "bic8":
            return [base]
        return [base + [C(DIGITS, 3)], base + [C(ALPHA, 1), W(VOWELS), C(ALPHA, 1)]]
    if k == "date":
        return [[W(date_words(args[1] if len(args) > 1 else "%Y-%m-%d"))]]
    if k == "uuid":
        return [[C(HEX, 8), L("-"), C(HEX, 4), L("-4"), C(HEX, 3), L("-"), W("89ab"), C(HEX, 3), L("-"), C(HEX, 12)]]
    if k == "street_address":
        assert D["ADDRESS_STREET_TPL"] == "{StreetName} {StreetSuffix}"
        suf = D["ADDRESS_STREET_SUFFIX"]
        return [[("num", 1, 9998), L(" "), W(first + last), L(" "), W(suf), L(" "), W(suf)]]
    if k in ("city", "city_name"):
        assert D["ADDRESS_CITY_TPL"] == "{CityName} {CitySuffix}" and D["ADDRESS_CITY_WITH_PREFIX_TPL"] == "{CityPrefix} {CityName} {CitySuffix}"
        assert D["NAME_TPL"] == "{FirstName} {LastName}"
        cs = D["ADDRESS_CITY_SUFFIX"]
        return [[W(D["ADDRESS_CITY_PREFIX"]), L(" "), W(first), L(" "), W(last), L(" "), W(cs)],
                [W(first), L(" "), W(cs)], [W(last), L(" "), W(cs)]]
    if k == "country_code":
        return [[W(D["ADDRESS_COUNTRY_CODE"])]]
    if k == "company_name":
        assert D["COMPANY_NAME_TPLS"] == ["{Name_1} {Suffix}", "{Name_1} and {Name_2} {Suffix}"]
        cs = D["COMPANY_SUFFIX"]
        return [[W(last), L(" "), W(cs)], [W(last), L(" and "), W(last), L(" "), W(cs)]]
    if k in ("name", "full_name"):
        return [[W(first), L(" "), W(last)]]
    if k == "iban":
        cc = args[1] if len(args) > 1 else "DE"
        return [[L(cc), ("num", 10, 98), C(DIGITS, 18)]]
    if k == "lei":
        return [[C(ALNUM, 18), ("num", 10, 98)]]
    if k == "alphanumeric":
        lo = int(args[1]) if len(args) > 1 else 10
        hi = int(args[2]) if len(args) > 2 else lo
        return [[C(ALNUM, lo, hi)]]
    if k in ("u64", "i32", "u32", "i64", "u16", "u8"):
        if len(args) == 3:
            return [[("num", int(args[1]), int(args[2]))]]
        return None
    if k == "words":
        n = int(args[1]) if len(args) > 1 else 5
        sl = []
        for i in range(n):
            if i:
                sl.append(L(" "))
            sl.append(W(D["LOREM_WORD"]))
        return [sl]
    if k == "sentence":
        lo = int(args[1]) if len(args) > 1 else 4
        hi = int(args[2]) if len(args) > 2 else 10
        alts = []
        for n in range(lo, hi):
            sl = []
            for i in range(n):
                if i:
                    sl.append(L(" "))
                sl.append(W(D["LOREM_WORD"]))
            alts.append(sl + [L(".")])
        return alts
    if k in ("enum", "pick", "choice") and len(args) > 1 and all(isinstance(x, str) and x.isascii() for x in args[1:]):
        return [[W(args[1:])]]
    if k == "bs":
        assert D["COMPANY_BS_TPL"] == "{Verb} {Adj} {Noun}"
        return [[W(D["COMPANY_BS_VERBS"]), L(" "), W(D["COMPANY_BS_ADJ"]), L(" "), W(D["COMPANY_BS_NOUNS"])]]
    return None


def is_number_kind(args):
    return args[0] in ("u64", "i32", "u32", "i64", "u16", "u8")


# ------------------------------------------------------------------ choosing from a language

def slot_pick(slot, how, rng):
    t = slot[0]
    if t == "words":
        ws = slot[1]
        if how == "longest":
            m = max(len(w) for w in ws)
            return rng.choice([w for w in ws if len(w) == m])
        if how == "shortest":
            m = min(len(w) for w in ws)
            return rng.choice([w for w in ws if len(w) == m])
        if how == "special":
            sp = [w for w in ws if re.search(r"[^A-Za-z0-9]", w)]
            return rng.choice(sp or ws)
        return rng.choice(ws)
    if t == "chars":
        _, alpha, lo, hi = slot
        n = hi if how == "longest" else lo if how == "shortest" else rng.randint(lo, hi)
        if how == "special":
            return "".join(rng.choice(alpha[-3:] + alpha[:1]) for _ in range(n))
        return "".join(rng.choice(alpha) for _ in range(n))
    if t == "num":
        _, lo, hi = slot
        if how == "longest":
            return str(hi)
        if how == "shortest":
            return str(lo)
        return str(rng.choice([lo, hi, rng.randint(lo, hi), rng.randint(lo, hi)]))
    raise ValueError(slot)


def lang_pick(lang, how, rng):
    if how == "longest":
        best = None
        for alt in lang:
            s = "".join(slot_pick(sl, how, rng) for sl in alt)
            if best is None or len(s) > len(best):
                best = s
        return best
    if how == "shortest":
        best = None
        for alt in lang:
            s = "".join(slot_pick(sl, how, rng) for sl in alt)
            if best is None or len(s) < len(best):
                best = s
        return best
    alt = rng.choice(lang)
    return "".join(slot_pick(sl, how, rng) for sl in alt)


def slot_member_re(slot):
    t = slot[0]
    if t == "words":
        return "(?:%s)" % "|".join(sorted({re.escape(w) for w in slot[1]}, key=lambda x: -len(x)))
    if t == "chars":
        return "[%s]{%d,%d}" % (re.escape(slot[1]), slot[2], slot[3])
    if t == "num":
        return r"-?\d+"
    raise ValueError(slot)


_RE = {}


def member(args, s):
    """is s in the language of fake(args)?  (None: the kind is not modelled)"""
    key = json.dumps(args)
    if key not in _RE:
        lang = kind_lang(args)
        if lang is None:
            _RE[key] = None
        else:
            _RE[key] = (lang, [re.compile("^" + "".join("(%s)" % slot_member_re(sl) for sl in alt) + "$", re.S) for alt in lang])
    if _RE[key] is None:
        return None
    lang, res = _RE[key]
    for alt, r in zip(lang, res):
        for m in [r.match(s)]:
            if not m:
                continue
            ok = True
            for i, sl in enumerate(alt):
                if sl[0] == "num" and not (sl[1] <= int(m.group(i + 1)) <= sl[2] and str(int(m.group(i + 1))) == m.group(i + 1)):
                    ok = False
            if ok:
                return True
    return False


# ------------------------------------------------------------------ abstraction (the same as coq/Scenario/Abs.v, used for goals)

def slot_bounds(slot):
    t = slot[0]
    if t == "words":
        return min(len(w) for w in slot[1]), max(len(w) for w in slot[1]), set("".join(slot[1]))
    if t == "chars":
        return slot[2], slot[3], set(slot[1]) if slot[3] else set()
    if t == "num":
        return min(len(str(slot[1])), len(str(slot[2]))), max(len(str(slot[1])), len(str(slot[2]))), set(DIGITS + ("-" if slot[1] < 0 else ""))


def lang_bounds(lang):
    lo = hi = None
    cs = set()
    for alt in lang:
        a = b = 0
        for sl in alt:
            x, y, c = slot_bounds(sl)
            a += x; b += y; cs |= c
        lo = a if lo is None else min(lo, a)
        hi = b if hi is None else max(hi, b)
    return lo, hi, cs


# ------------------------------------------------------------------ template semantics

class Opaque(Exception):
    pass


def is_op(v):
    return isinstance(v, dict) and len(v) == 1 and next(iter(v)) in OPS


def to_str(v):
    if isinstance(v, str):
        return v
    if isinstance(v, bool):
        return "true" if v else "false"
    if isinstance(v, int):
        return str(v)
    if v is None:
        return ""
    raise Opaque("cat of %r" % (v,))


def evaluate(node, env, choose, path=()):
    """the value of a template.  choose(args, path) gives the value of a `fake` node"""
    if is_op(node):
        op = next(iter(node)); a = node[op]
        if op == "fake":
            return choose(a, path)
        if op == "var":
            if not isinstance(a, str):
                raise Opaque("var %r" % (a,))
            return env.get(a)               # a missing variable is null (variables are evaluated in an empty context)
        al = a if isinstance(a, list) else [a]
        sub = (lambda i: path + (op, i)) if isinstance(a, list) else (lambda i: path + (op,))
        if op == "cat":
            return "".join(to_str(evaluate(x, env, choose, sub(i))) for i, x in enumerate(al))
        if op == "substr":
            s = to_str(evaluate(al[0], env, choose, sub(0)))
            st = al[1] if len(al) > 1 else 0
            ln = al[2] if len(al) > 2 else None
            if not isinstance(st, int) or st < 0 or (ln is not None and (not isinstance(ln, int) or ln < 0)):
                raise Opaque("substr arguments")
            return s[st:] if ln is None else s[st:st + ln]
        if op == "if":
            vals = al
            i = 0
            while i + 1 < len(vals):
                c = evaluate(vals[i], env, choose, sub(i))
                if c not in (False, None, 0, "", []):
                    return evaluate(vals[i + 1], env, choose, sub(i + 1))
                i += 2
            return evaluate(vals[i], env, choose, sub(i)) if i < len(vals) else None
        if op == "==":
            x, y = (evaluate(z, env, choose, sub(i)) for i, z in enumerate(al[:2]))
            if type(x) is not type(y):
                raise Opaque("== across types")
            return x == y
        if op == "*":
            r = 1
            for i, z in enumerate(al):
                v = evaluate(z, env, choose, sub(i))
                if isinstance(v, bool) or not isinstance(v, (int, float)):
                    raise Opaque("* on a non-number")
                r = r * v
            return r
        raise Opaque("operator " + op)
    if isinstance(node, dict):
        return {k: evaluate(v, env, choose, path + (k,)) for k, v in node.items()}
    if isinstance(node, list):
        return [evaluate(v, env, choose, path + (i,)) for i, v in enumerate(node)]
    return node


def generate(scn, choose):
    """the model of DataGenerator::generate: variables first (empty context), then the schema"""
    env = {}
    for k, v in scn.get("variables", {}).items():
        try:
            env[k] = evaluate(v, {}, choose, ("variables", k))
        except Opaque:
            pass
    return evaluate(scn["schema"], env, choose, ("schema",)), env


def instantiate(node, choose, path=()):
    """the scenario with every `fake` node replaced by the value chosen for it"""
    if is_op(node) and next(iter(node)) == "fake":
        return choose(node["fake"], path)
    if isinstance(node, dict):
        return {k: instantiate(v, choose, path + (k,)) for k, v in node.items()}
    if isinstance(node, list):
        return [instantiate(v, choose, path + (i,)) for i, v in enumerate(node)]
    return node


def fake_nodes(node, path=()):
    if is_op(node) and next(iter(node)) == "fake":
        yield path, node["fake"]
    elif isinstance(node, dict):
        for k, v in node.items():
            yield from fake_nodes(v, path + (k,))
    elif isinstance(node, list):
        for i, v in enumerate(node):
            yield from fake_nodes(v, path + (i,))


def scenario_files():
    return sorted(f for f in glob.glob(os.path.join(REPO, "test_scenarios", "mt*", "*.json")) if os.path.basename(f) != "index.json")


TAG = re.compile(r"^\d{2}[A-Z]?$")


def leaves(scn):
    """(tag or None, key path with * for indices, json path, template) for every template node of the schema (a leaf is
    an operator node or a string literal inside a field)"""
    out = []

    def walk(v, jpath, tag, kpath):
        if is_op(v) or isinstance(v, (str, int, float)) and not isinstance(v, bool):
            out.append((tag, kpath, jpath, v))
            return
        if isinstance(v, dict):
            for k, x in v.items():
                if tag is None and TAG.match(k):
                    walk(x, jpath + (k,), k, ())
                else:
                    walk(x, jpath + (k,), tag, kpath + (k,))
        elif isinstance(v, list):
            for i, x in enumerate(v):
                walk(x, jpath + (i,), tag, kpath + ("*",))
    walk(scn["schema"], (), None, ())
    return out


# ------------------------------------------------------------------ draws (an assignment of a value to every `fake` node)

_LANG = {}


def lang_of(args):
    k = json.dumps(args)
    if k not in _LANG:
        _LANG[k] = kind_lang(args)
    return _LANG[k]


POOL = {}          # json(args) -> real values of a generator the model does not read (filled by the check from the library)


def pick(args, how, rng):
    lang = lang_of(args)
    if lang is None:
        pool = POOL.get(json.dumps(args))
        if not pool:
            raise Opaque("generator %s is not modelled and no value of it is known" % json.dumps(args))
        return rng.choice(pool)
    v = lang_pick(lang, how, rng)
    return int(v) if is_number_kind(args) else v


def all_fakes(scn):
    """[(absolute path, args)] of the scenario's fake nodes, variables first"""
    out = []
    for k, v in scn.get("variables", {}).items():
        out += [(("variables", k) + p, a) for p, a in fake_nodes(v)]
    out += [(("schema",) + p, a) for p, a in fake_nodes(scn["schema"])]
    return out


def random_draw(scn, rng, how="random"):
    return {p: pick(a, how if isinstance(how, str) else rng.choice(how), rng) for p, a in all_fakes(scn)}


def apply_draw(scn, draw):
    """the scenario with its fake nodes replaced by the draw's values (a fake-free scenario the library's generator accepts)"""
    out = dict(scn)
    out["variables"] = {k: instantiate(v, lambda a, p: draw[p], ("variables", k)) for k, v in scn.get("variables", {}).items()}
    out["schema"] = instantiate(scn["schema"], lambda a, p: draw[p], ("schema",))
    return out


def model_generate(scn, draw):
    env = {}
    for k, v in scn.get("variables", {}).items():
        try:
            env[k] = evaluate(v, {}, lambda a, p: draw[p], ("variables", k))
        except Opaque:
            env[k] = None
    return evaluate(scn["schema"], env, lambda a, p: draw[p], ("schema",)), env


def vars_used(node):
    if is_op(node):
        op = next(iter(node)); a = node[op]
        if op == "var":
            return {a} if isinstance(a, str) else set()
        if op == "fake":
            return set()
        out = set()
        for x in (a if isinstance(a, list) else [a]):
            out |= vars_used(x)
        return out
    if isinstance(node, dict):
        out = set()
        for x in node.values():
            out |= vars_used(x)
        return out
    if isinstance(node, list):
        out = set()
        for x in node:
            out |= vars_used(x)
        return out
    return set()


def leaf_value(scn, jpath, tm, draw):
    env = {}
    for k in vars_used(tm):
        v = scn.get("variables", {}).get(k)
        try:
            env[k] = evaluate(v, {}, lambda a, p: draw[p], ("variables", k))
        except Opaque:
            env[k] = None
    return evaluate(tm, env, lambda a, p: draw[p], ("schema",) + jpath)


def leaf_search(scn, jpath, tm, goals, rng, base, tries=200):
    """goals: name -> predicate on the leaf's string.  Returns name -> draw (base with the fake nodes the leaf depends
    on re-drawn) for every goal some try reached"""
    rel = [(("schema",) + jpath + p, a) for p, a in fake_nodes(tm)]
    for k in vars_used(tm):
        v = scn.get("variables", {}).get(k)
        if v is not None:
            rel += [(("variables", k) + p, a) for p, a in fake_nodes(v)]
    found = {}
    if not rel:
        return found
    hows = ["random", "random", "longest", "special", "shortest"]
    for _ in range(tries):
        d = dict(base)
        for p, a in rel:
            d[p] = pick(a, rng.choice(hows), rng)
        try:
            s = leaf_value(scn, jpath, tm, d)
        except Opaque:
            return found
        if isinstance(s, str):
            for g, fn in goals.items():
                if g not in found and not g.startswith("num:") and fn(s):
                    found[g] = d
        elif isinstance(s, (int, float)) and not isinstance(s, bool):
            for g, fn in goals.items():
                if g not in found and g.startswith("num:") and fn(s):
                    found[g] = d
        if len(found) == len(goals):
            break
    return found


# ------------------------------------------------------------------ the abstraction of coq/Scenario/Lang.v, mirrored (diagnosis and search only)

TOP, BOT = "top", "bot"


def a_word(w):
    return (set(w), len(w), len(w), set(w[:1]), set(w[-1:]), set(w) if len(w) == 1 else set())


def a_join(x, y):
    if x == BOT:
        return y
    if y == BOT:
        return x
    if x == TOP or y == TOP:
        return TOP
    return (x[0] | y[0], min(x[1], y[1]), max(x[2], y[2]), x[3] | y[3], x[4] | y[4], x[5] | y[5])


def a_cat(x, y):
    if x == BOT or y == BOT:
        return BOT
    if x == TOP or y == TOP:
        return TOP
    return (x[0] | y[0], x[1] + y[1], x[2] + y[2], (x[3] | y[3]) if x[1] == 0 else x[3], (x[4] | y[4]) if y[1] == 0 else y[4],
            (x[5] if y[1] == 0 else set()) | (y[5] if x[1] == 0 else set()))


def a_sub(x, st, ln):
    if x in (BOT, TOP):
        return x
    return (x[0], min(max(x[1] - st, 0), ln), min(max(x[2] - st, 0), ln), x[3] if st == 0 else x[0], x[4] if x[2] <= st + ln else x[0],
            x[5] if st == 0 and x[2] <= ln else x[0])


def a_slot(sl):
    if sl[0] == "words":
        x = BOT
        for w in sl[1]:
            x = a_join(a_word(w), x)
        return x
    if sl[0] == "chars":
        if sl[2] > sl[3]:
            return BOT
        if sl[3] == 0:
            return a_word("")
        return (set(sl[1]), sl[2], sl[3], set(sl[1]), set(sl[1]), set(sl[1]))
    if sl[0] == "num":
        if sl[1] < 0 or sl[1] > sl[2]:
            return TOP
        return (set(DIGITS), len(str(sl[1])), len(str(sl[2])), set(DIGITS), set(DIGITS), set(DIGITS))


_ALANG = {}


def a_lang(args):
    k = json.dumps(args)
    if k not in _ALANG:
        lang = lang_of(args)
        if lang is None:
            _ALANG[k] = TOP
        else:
            x = BOT
            for alt in lang:
                y = a_word("")
                for sl in reversed(alt):
                    y = a_cat(a_slot(sl), y)
                x = a_join(y, x)
            _ALANG[k] = x
    return _ALANG[k]


def a_tm(node, variables, depth=0):
    if depth > 20:
        return TOP
    if isinstance(node, str):
        return a_word(node)
    if node is None:
        return a_word("")
    if isinstance(node, bool):
        return TOP
    if isinstance(node, int):
        return a_word(str(node))
    if is_op(node):
        op = next(iter(node)); a = node[op]
        al = a if isinstance(a, list) else [a]
        if op == "fake":
            return a_lang(a)
        if op == "var":
            if not isinstance(a, str):
                return TOP
            return a_tm(variables[a], {}, depth + 1) if a in variables else a_word("")
        if op == "cat":
            x = a_word("")
            for z in reversed(al):
                x = a_cat(a_tm(z, variables, depth + 1), x)
            return x
        if op == "substr":
            st = al[1] if len(al) > 1 else 0
            ln = al[2] if len(al) > 2 else None
            if not isinstance(st, int) or st < 0 or not isinstance(ln, int) or ln < 0:
                return TOP
            return a_sub(a_tm(al[0], variables, depth + 1), st, ln)
        if op == "if":
            br = [al[i + 1] for i in range(0, len(al) - 1, 2)] + ([al[-1]] if len(al) % 2 == 1 else [])
            x = BOT
            for z in br:
                x = a_join(a_tm(z, variables, depth + 1), x)
            return x
        return TOP
    return TOP


def a_fits(x, cs, lo, hi, fst, lst, one=None):
    if x == BOT:
        return True
    if x == TOP:
        return False
    return x[0] <= cs and lo <= x[1] and x[2] <= hi and x[3] <= fst and x[4] <= lst and (one is None or x[1] >= 2 or x[5] <= one)


def req_sets(classes, r):
    cs = set(classes[r["cls"]])
    fst = cs - set(r.get("first_not", ""))
    lst = cs - set(r.get("last_not", ""))
    one = cs - set(r.get("first_not", "") + r.get("last_not", "") + r.get("one_not", ""))
    return cs, fst, lst, one


def why_not(x, cs, lo, hi, fst, lst, one=None):
    if x == TOP:
        return "the template is not read by the model"
    out = []
    if not x[0] <= cs:
        out.append("characters %r" % "".join(sorted(x[0] - cs)))
    if x[1] < lo:
        out.append("length can be %d (< %d)" % (x[1], lo))
    if x[2] > hi:
        out.append("length can be %d (> %d)" % (x[2], hi))
    if not x[3] <= fst:
        out.append("first character can be %r" % "".join(sorted(x[3] - fst)))
    if not x[4] <= lst:
        out.append("last character can be %r" % "".join(sorted(x[4] - lst)))
    if one is not None and x[1] < 2 and not x[5] <= one:
        out.append("the whole value can be %r" % "".join(sorted(x[5] - one)))
    return "; ".join(out)


# ------------------------------------------------------------------ constructive search: make a cut land on a chosen character

def flatten(tm, variables, base_path, depth=0):
    """the template as a list of pieces, each (owner, options) where owner is the absolute path of the fake node the piece
    belongs to (None for literal text) and options is a list of alternatives, each a list of slots.  Only cat / literals /
    numbers / fake / var; returns None for anything else."""
    if depth > 20:
        return None
    if isinstance(tm, str):
        return [(None, [[("words", [tm])]])]
    if tm is None:
        return []
    if isinstance(tm, bool):
        return None
    if isinstance(tm, int):
        return [(None, [[("words", [str(tm)])]])]
    if is_op(tm):
        op = next(iter(tm)); a = tm[op]
        al = a if isinstance(a, list) else [a]
        if op == "fake":
            lang = lang_of(a)
            if lang is None:
                return None
            return [(base_path, lang)]
        if op == "var":
            if not isinstance(a, str):
                return None
            if a not in variables:
                return []
            return flatten(variables[a], {}, ("variables", a), depth + 1)
        if op == "cat":
            out = []
            for i, x in enumerate(al):
                sub = flatten(x, variables, base_path + (op, i) if isinstance(a, list) else base_path + (op,), depth + 1)
                if sub is None:
                    return None
                out += sub
            return out
    return None


def slot_lengths(sl):
    if sl[0] == "words":
        return {len(w) for w in sl[1]}
    if sl[0] == "chars":
        return set(range(sl[2], sl[3] + 1))
    return set(range(len(str(sl[1])), len(str(sl[2])) + 1))


def slot_pick_len(sl, n, rng, want=None):
    """a value of the slot of length n (want = (offset, char): with that character at that offset)"""
    if sl[0] == "words":
        ws = [w for w in sl[1] if len(w) == n and (want is None or (want[0] < len(w) and w[want[0]] == want[1]))]
        return rng.choice(ws) if ws else None
    if sl[0] == "chars":
        if want is not None:
            if want[1] not in sl[1]:
                return None
            s = [rng.choice(sl[1]) for _ in range(n)]
            s[want[0]] = want[1]
            return "".join(s)
        return "".join(rng.choice(sl[1]) for _ in range(n))
    if want is not None:
        return None
    lo, hi = max(sl[1], 10 ** (n - 1) if n > 1 else 0), min(sl[2], 10 ** n - 1)
    return str(rng.randint(lo, hi)) if lo <= hi else None


def cut_search(scn, jpath, tm, chars, rng, base, max_alts=24):
    """for a leaf substr(t, 0, n) with t made of cat / literals / fake / var: draws in which the last character kept by the
    cut (position n-1, the value being at least n long) is one of `chars`.  Returns {char: draw}."""
    if not (is_op(tm) and next(iter(tm)) == "substr"):
        return {}
    a = tm["substr"]
    if not (isinstance(a, list) and len(a) == 3 and a[1] == 0 and isinstance(a[2], int) and a[2] > 0):
        return {}
    n = a[2]
    pieces = flatten(a[0], scn.get("variables", {}), ("schema",) + jpath + ("substr", 0))
    if not pieces:
        return {}
    import itertools
    found = {}
    combos = itertools.islice(itertools.product(*[range(len(opts)) for _, opts in pieces]), max_alts)
    for combo in combos:
        slots = []            # (piece index, slot)
        for pi, ((owner, opts), ci) in enumerate(zip(pieces, combo)):
            for sl in opts[ci]:
                slots.append((pi, sl))
        # an owner used twice (a variable read twice) must take the same value: give up on those
        owners = [o for o, _ in pieces if o is not None]
        if len(owners) != len(set(owners)):
            return found
        L = [slot_lengths(sl) for _, sl in slots]
        reach = [{0}]
        for ls in L:
            reach.append({r + x for r in reach[-1] for x in ls if r + x <= n + 60})
        # the total must be >= n: suffix maxima
        sufmax = [0] * (len(slots) + 1)
        for j in range(len(slots) - 1, -1, -1):
            sufmax[j] = sufmax[j + 1] + max(L[j])
        for c in chars:
            if c in found:
                continue
            done = False
            for j, (pi, sl) in enumerate(slots):
                if done:
                    break
                for ln in sorted(L[j], reverse=True):
                    if done:
                        break
                    for off in range(ln):
                        start = n - 1 - off
                        if start < 0 or start not in reach[j]:
                            continue
                        if start + ln + sufmax[j + 1] < n:
                            continue
                        v = slot_pick_len(sl, ln, rng, (off, c))
                        if v is None:
                            continue
                        # choose lengths for the slots before j that sum to `start` (backwards through reach)
                        vals = [None] * len(slots)
                        vals[j] = v
                        need = start
                        ok = True
                        for k in range(j - 1, -1, -1):
                            cand = [x for x in L[k] if need - x in reach[k]]
                            if not cand:
                                ok = False; break
                            x = rng.choice(cand)
                            vals[k] = slot_pick_len(slots[k][1], x, rng)
                            if vals[k] is None:
                                ok = False; break
                            need -= x
                        if not ok or need != 0:
                            continue
                        for k in range(j + 1, len(slots)):
                            x = max(L[k])
                            vals[k] = slot_pick_len(slots[k][1], x, rng)
                            if vals[k] is None:
                                ok = False; break
                        if not ok:
                            continue
                        d = dict(base)
                        per_owner = {}
                        for (pi, _), val in zip(slots, vals):
                            o = pieces[pi][0]
                            if o is not None:
                                per_owner[o] = per_owner.get(o, "") + val
                        for o, val in per_owner.items():
                            d[o] = int(val) if isinstance(base.get(o), int) and not isinstance(base.get(o), bool) else val
                        try:
                            s = leaf_value(scn, jpath, tm, d)
                        except Opaque:
                            continue
                        if isinstance(s, str) and len(s) == n and s[-1] == c:
                            found[c] = d
                            done = True
                            break
    return found
