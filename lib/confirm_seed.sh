#!/bin/sh
# confirm_seed.sh <dir with patch.diff demo.rs> : in a scratch worktree of /repo HEAD, checks that
#  (1) the patch applies and the full test suite passes with it, (2) the demo fails with it, (3) the demo passes without it.
# prints CONFIRMED or NOT-CONFIRMED <why>; removes the worktree and its build output.
D="$1"; NAME=$(echo "$D" | tr '/' '_')
WT=/tmp/confirm_$NAME
export CARGO_NET_OFFLINE=true CARGO_TARGET_DIR=/tmp/confirm_target
git -C /repo worktree remove --force $WT 2>/dev/null
git -C /repo worktree add -q --detach $WT HEAD || exit 2
cd $WT
res=CONFIRMED
cp "$D/demo.rs" tests/verif_demo.rs
if ! cargo test --offline --test verif_demo >/tmp/confirm_$NAME.clean.log 2>&1; then res="NOT-CONFIRMED demo fails on clean tree"; fi
if [ "$res" = CONFIRMED ]; then
  if ! git apply "$D/patch.diff" 2>/tmp/confirm_$NAME.apply.log; then res="NOT-CONFIRMED patch does not apply to HEAD"; fi
fi
if [ "$res" = CONFIRMED ]; then
  if cargo test --offline --test verif_demo >/tmp/confirm_$NAME.mut.log 2>&1; then res="NOT-CONFIRMED demo passes with the change"; fi
fi
if [ "$res" = CONFIRMED ]; then
  rm tests/verif_demo.rs
  if ! cargo test --offline >/tmp/confirm_$NAME.suite.log 2>&1; then res="NOT-CONFIRMED existing suite fails with the change"; fi
fi
cd /
git -C /repo worktree remove --force $WT
echo "$res"
