"""C07 — parsing is total: any input gives a value or an error, never a panic or hang."""
import json, os, re, time
from common import *
import mtgen, fmtgen

PROP = "C07"
COQ_TARGETS = ["Props/C07.vo"]
TRANSLATOR = ["layouts"]

TRUSTED = [
    "Coq 8.16.1 kernel; no axioms",
    "what is proved: the modelled loops terminate within their fuel for every input (tokeniser of the field-map API; the cursor interpreter on all 30 regenerated layouts for every byte string, with a linear fuel bound, given the syntactic progress check gen_layouts_progress); the other modelled entry points (headers, block extraction, amounts, dates, classification, rules, families, formats) are structural recursions, total by definition in Gallina",
    "what is not proved: absence of panics in the Rust code (slices, unwrap, arithmetic) and the wall-clock bound; these are explored by the stream `total`: malformed inputs through every public entry point with catch_unwind, a per-shard watchdog and size-scaled timing",
]

NONASCII = ["é", "٣", "€", "😀", "\u00a0", "\u2028", "Ω"]
SPECIAL = ["{", "}", ":", "-", "\n", "\r", "\r\n", "/", ",", ".", " ", "\t", "\x00", "-}", "{4:", "{1:", "\n:", ":20:", "//", "\n-", "}{"]


def malform(rng, text, k):
    """k byte/character level edits of a text"""
    s = text
    for _ in range(k):
        if not s:
            s = rng.choice(SPECIAL + NONASCII); continue
        op = rng.choice(["del", "ins", "insna", "dup", "trunc", "swap", "repl", "replna", "cut"])
        i = rng.randrange(len(s))
        if op == "del":
            s = s[:i] + s[i + 1:]
        elif op == "ins":
            s = s[:i] + rng.choice(SPECIAL) + s[i:]
        elif op == "insna":
            s = s[:i] + rng.choice(NONASCII) + s[i:]
        elif op == "dup":
            j = min(len(s), i + rng.randrange(1, 40)); s = s[:j] + s[i:j] + s[j:]
        elif op == "trunc":
            s = s[:i]
        elif op == "swap" and i + 1 < len(s):
            s = s[:i] + s[i + 1] + s[i] + s[i + 2:]
        elif op == "repl":
            s = s[:i] + rng.choice(SPECIAL) + s[i + 1:]
        elif op == "replna":
            s = s[:i] + rng.choice(NONASCII) + s[i + 1:]
        elif op == "cut":
            j = min(len(s), i + rng.randrange(1, 60)); s = s[:i] + s[j:]
    return s


def run(ctx):
    ctx.rule = ("inputs: every shipped-scenario seed (whole message and text block alone) with 1-6 byte/character edits (delete, insert / replace by "
                "structural characters and by 2-, 3- and 4-byte UTF-8 characters at every offset class, duplicate, truncate, cut), every prefix class "
                "of a message, field contents of all 114 types with a non-ASCII character at each of the first 14 offsets and at the end, "
                "degenerate texts (empty, only braces / colons / new lines, unbalanced blocks, 200-deep braces), and size-scaled inputs "
                "(1 kB - 1 MB: long values, many fields, many lines starting with ':', many blocks); each through parse_auto, the typed parser "
                "and parse_from_block4 of all 30 types, the 4 header parsers, extract_block, the field-map API (tokeniser, tracker, "
                "sequence split), extract_field_content, every field parser with and without letter; every value through serialisation, "
                "validation, JSON and back, re-parse; every error through Display, debug_report, brief_message, format_with_context, serde; "
                "non-trivial = not rejected by every entry point; distinct = input text")
    standard_front(ctx, __import__("c07"))
    rng = ctx.rng
    known, _ = load_known(PROP)
    full = ctx.tier == "thorough"
    seeds = mtgen.load_seeds(limit=None if full else 2)
    inputs = []   # (text, mode, origin)
    for c, lst in seeds.items():
        for name, text in lst:
            sp = mtgen.split_message(text)
            body = sp[1] if sp else text
            inputs.append((text, "msg", "seed")); inputs.append((body, "msg", "seed-body"))
            for _ in range(24 if full else 6):
                inputs.append((malform(rng, text, rng.randrange(1, 7)), "msg", "msg-mut"))
                inputs.append((malform(rng, body, rng.randrange(1, 7)), "msg", "body-mut"))
            for frac in (0.1, 0.35, 0.6, 0.85, 0.97):
                inputs.append((text[:int(len(text) * frac)], "msg", "prefix"))
            # a multi-byte character inside each field value (cursor arithmetic)
            toks = mtgen.tokens(body)
            for _ in range(4 if full else 2):
                i = rng.randrange(len(toks))
                t2 = list(toks); ch = rng.choice(NONASCII); v = t2[i][1]
                pos = rng.randrange(len(v) + 1)
                t2[i] = (t2[i][0], v[:pos] + ch * rng.choice([1, 2, 3]) + v[pos:])
                b2 = mtgen.render(t2)
                inputs.append((b2, "msg", "body-nonascii")); inputs.append((mtgen.rebuild(sp[0], t2, sp[2]) if sp else b2, "msg", "msg-nonascii"))
            # an option letter the type does not know (every letter, digits too) and a letter on a tag that has none
            for i, (tag, cn) in enumerate(toks):
                if len(tag) == 3 and tag[2].isalpha():
                    alts = [tag[:2] + l for l in rng.sample("EIJMNOQRSTUVWXYZ", 5 if full else 2)] + ([tag[:2] + rng.choice("0123456789")] if full else [])
                elif len(tag) == 2 and (full or rng.random() < 0.3):
                    alts = [tag + rng.choice("ABCDEFGHIJKLMNOPQRSTUVWXYZ")]
                else:
                    continue
                for tag2 in alts:
                    t2 = list(toks); t2[i] = (tag2, cn)
                    inputs.append((mtgen.render(t2), "msg", "other-letter"))
            # a badly split batch: the tail of one message, then a message cut before its own terminator
            if sp:
                cut = text[:max(text.rfind("-}"), 0)]
                for tail in ("-}", "\n-}", ":72:END\n-}{5:{CHK:123456789ABC}}", "}-}"):
                    inputs.append((tail + cut, "msg", "split-batch")); inputs.append((tail + cut[:int(len(cut) * 0.7)], "msg", "split-batch"))
            # long runs of 2-, 3- and 4-byte characters after the last field, at every alignment: whatever is echoed, cut
            # or measured at a fixed byte offset of the left-over text meets the inside of a character
            for ch in ("é", "€", "😀"):
                for pad in range(len(ch.encode("utf-8"))):
                    inputs.append((body.rstrip("\n") + "\n:99Z:" + "x" * pad + ch * 150 + "\n", "msg", "nonascii-tail"))
                    inputs.append((body.rstrip("\n") + "\n" + "x" * pad + ch * 150 + "\n", "msg", "nonascii-tail"))
            # a line starting with ':' that is no field marker, content ending in a new line + colon
            for extra in ["\n: NOTE", "\n:-) REGARDS", "\n:123456:X", "\n:", "\n:\n", "\n:2", "\n::"]:
                i = rng.randrange(len(toks))
                t2 = list(toks); t2[i] = (t2[i][0], t2[i][1] + extra)
                inputs.append((mtgen.render(t2), "msg", "colon-line"))
    for d in ["", " ", "\n", "{", "}", "{}", "{1:}", "{4:", "{4:\n-}", "-}", ":", "::", ":20:", ":20:\n", "{1:F01}{2:I103}{4:\n:20:X\n-}", "{" * 200 + "}" * 200, "{4:" * 50,
              "{1:F01BANKDEFFAXXX0000000000}", "{1:F01BANKDEFFAXXX0000000000}{2:I999BANKUS33XXXXN}{4:\n:20:X\n-}", "\x00", "\ufeff{1:F01BANKDEFFAXXX0000000000}", "{5:{CHK:}}", "{3:{108:}}", "{3:{{{", "{2:O1031200", "{2:I103BANKUS33XXXXN", "{2:é103BANKUS33XXXXN}",
              "-}{4:", "-}{1:F01BANKDEFFAXXX0000000000}{2:I199BANKUS33XXXXN}{4:\n:20:X\n:79:Y", "x-}{4:\n:20:REF\n", "-}{3:{108:X}", "-}{5:", "}{4:-}{4:"]:
        inputs.append((d, "all", "degenerate"))
    # field contents with a multi-byte character at each offset
    F = fmtgen.load()
    for T in sorted(F):
        for _ in range(3 if full else 1):
            s = fmtgen.gen_seq(rng, F[T]["fmt"], "ok")
            for ch in (NONASCII if full else NONASCII[:4]):
                for pos in list(range(0, min(14, len(s) + 1))) + [len(s)]:
                    inputs.append((s[:pos] + ch + s[pos + 1:], "fields", "field-nonascii")); inputs.append((s[:pos] + ch + s[pos:], "fields", "field-nonascii"))
            inputs.append((malform(rng, s, 2), "fields", "field-mut"))
    # size-scaled inputs
    sizes = [1000, 10000, 100000] + ([1000000] if full else [])
    big = []
    for n in sizes:
        big.append(("{1:F01BANKDEFFAXXX0000000000}{2:I103BANKUS33XXXXN}{4:\n:20:REF\n:70:" + "A" * n + "\n-}", "long-value", n))
        big.append(("{1:F01BANKDEFFAXXX0000000000}{2:I940BANKUS33XXXXN}{4:\n:20:REF\n:25:/1\n:28C:1/1\n:60F:C260930USD1,\n" + ":61:260930C1,NTRFREF\n" * (n // 21) + ":62F:C260930USD1,\n-}", "many-fields", n))
        big.append((":20:REF\n:79:" + "\n: X" * (n // 4), "many-colon-lines", n))
        big.append(("{1:F01BANKDEFFAXXX0000000000}" + "{3:{108:X}}" * (n // 11) + "{4:\n:20:X\n-}", "many-blocks", n))
        big.append(("\n" * n, "newlines", n)); big.append(("é" * (n // 2), "nonascii-run", n))
    cdir = os.path.join(ROOT, "corpus", PROP)
    corpus = []
    for f in sorted(os.listdir(cdir)) if os.path.isdir(cdir) else []:
        if f.endswith(".case"):
            for line in open(os.path.join(cdir, f)):
                p = line.rstrip("\n").split("\t")
                if p[0] == "total":
                    corpus.append((bytes.fromhex(p[1]).decode("utf-8", "replace"), p[2] if len(p) > 2 else "all", "corpus:" + f))
    inputs = corpus + inputs
    seen = set(); uniq = []
    for t, m, o in inputs:
        if (t, m) not in seen:
            seen.add((t, m)); uniq.append((t, m, o))
    cases = ["total\t%s\t%s" % (hexs(t), m) for t, m, o in uniq]
    t0 = time.time()
    outs = run_cases(HARNESS_BIN, cases, ctx.work, "c07", timeout=150 if not full else 900)
    ctx.stats["small_inputs_s"] = round(time.time() - t0, 1)
    kinds = {}
    first_dead = True
    for (t, m, o), case, line in zip(uniq, cases, outs):
        ctx.evaluations += 1
        try:
            r = json.loads(line)
        except Exception:
            r = {"crash": line[:100]}
        kinds[o] = kinds.get(o, 0) + 1
        if "crash" in r:
            if first_dead:
                first_dead = False
                ctx.violations.append(("the process died or did not answer within the watchdog on (or just before) this input [%s]: abort / stack overflow / hang" % o, case))
            continue
        if "panic" in r:
            kk = [k for k in known if k.get("match", {}).get("kind") == "panic" and re.search(k["match"].get("stage_re", ""), r.get("stage", ""))]
            if kk:
                ctx.known_hits[kk[0]["id"]] = ctx.known_hits.get(kk[0]["id"], 0) + 1
            else:
                ctx.violations.append(("panic in %s on a %s input: %s" % (r.get("stage"), o, r["panic"][:140]), case))
            continue
        if r.get("values"):
            ctx.distinct.add(t)
        if len(ctx.samples) < 4 and o == "msg-mut":
            ctx.samples.append({"origin": o, "input_len": len(t), "values": r.get("values"), "errors": r.get("errors"), "us": r.get("us")})
    # ---- time as a function of size: one process per input, wall clock limit
    timing = {}
    if not first_dead:
        big = []          # a death / hang is already reported with its input: do not wait for the long inputs as well
    for text, kind, n in big:
        p = os.path.join(ctx.work, "big.case")
        open(p, "w").write("total\t%s\tmsg\n" % hexs(text))
        t1 = time.time()
        rc, out, dt = sh([HARNESS_BIN, p], timeout=300 if full else 120)
        ctx.evaluations += 1
        us = None
        try:
            r = json.loads(out.strip().split("\n")[-1]); us = r.get("us")
            if "panic" in r:
                ctx.violations.append(("panic in %s on a %d-byte %s input: %s" % (r.get("stage"), n, kind, r["panic"][:120]), "total\t%s\tmsg" % hexs(text[:2000])))
        except Exception:
            ctx.violations.append(("no answer within the wall-clock limit (or the process died, rc=%s) on a %d-byte %s input" % (rc, n, kind), "# %s input of %d bytes (see lib/c07.py `big`)" % (kind, n)))
            break
        timing.setdefault(kind, []).append((n, us))
    slow = {}
    for kind, pts in timing.items():
        pts = [(n, u) for n, u in pts if u]
        for (n1, u1), (n2, u2) in zip(pts, pts[1:]):
            # low polynomial: tenfold input, at most about a thousandfold time (cubic), with a floor for noise
            if u2 > 2_000_000 and u1 > 0 and u2 / max(u1, 2000) > 1500:
                ctx.violations.append(("time grows faster than cubic on %s inputs: %d bytes %.3f s, %d bytes %.3f s" % (kind, n1, u1 / 1e6, n2, u2 / 1e6), "# %s %d" % (kind, n2)))
        slow[kind] = [(n, round(u / 1e6, 3)) for n, u in pts]
    ctx.stats.update({"inputs": len(uniq), "by_origin": kinds, "seconds_by_size": slow})
    return finish(ctx, level="proof", trusted=TRUSTED,
                  assumptions=["'low polynomial' is read as at most cubic growth, checked between 1 kB and 100 kB (1 MB in the thorough tier) with a 300 s wall-clock limit per input"])
