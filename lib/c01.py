"""C01 — nothing in an accepted message is silently discarded."""
import json, os, re
from common import *
import mtgen, engine, layoutgen

PROP = "C01"
COQ_TARGETS = ["Props/C01.vo"]
TRANSLATOR = ["layouts"]

TRUSTED = [
    "Coq 8.16.1 kernel (coqc); vm_compute for gen_layouts_ok; no axioms (Closed under the global context)",
    "translator rs2v module `layouts`: every parse_from_block4 body as a program in the layout IR (Engine/Layout.v); fails on any statement that mentions the parser and is not recognised",
    "hand model of MessageParser (Engine/Layout.v) and field_extractor.rs (Engine/Extract.v), tied by the stream `msg`: extracted byte-level model vs library on seeds and mutants, outcome class + predicted serialisation compared",
    "field parsers are a parameter of the theorem (any fparse); in the correspondence run the table of the real parsers' answers is supplied per case",
    "token level (Engine/Tokens.v) and, since Engine/Factor.v, byte level: the transcribed byte cursor (find / trim based) is PROVED to read a canonical text (leading white space, ':tag:content' + LF/CRLF per field, no content line starting with ':' or '-', no '-}', no trailing line end) as the token cursor reads the token list; the run counts how many of its texts fall in that class (stats *_texts_in_exec_factor_class, decided by the extracted predicate); for the other texts and for the transcription of field_extractor.rs itself the tie is the correspondence stream",
    "extraction: ExtrOcamlBasic only; OCaml driver runner/main.ml",
]


# ---- known-finding classes: decidable predicates on (input token, output token) pairs.
# A case is attributed to listed findings only if EVERY differing token falls in a listed class;
# anything else is a new violation.

def _lines(s):
    return engine.canon_content(s).split("\n")

def rule_trailing_ignored(tin, tout):
    """the field parser reads a prefix of the content and ignores the rest"""
    (t, a), (_, b) = tin, tout
    ca, cb = engine.canon_content(a), engine.canon_content(b)
    return bool(re.fullmatch(r"5[0-9][ABDFK]?|11[RS]?", t)) and ca != cb and ca.startswith(cb)

def rule_narrative_truncated(tin, tout):
    (t, a), (_, b) = tin, tout
    la, lb = _lines(a), _lines(b)
    return t in ("70", "71B", "72", "75", "76", "77A", "77B", "77T", "79", "86") and len(lb) < len(la) and la[:len(lb)] == lb

def rule_field25_slash(tin, tout):
    (t, a), (_, b) = tin, tout
    return t in ("25", "25A", "25P") and b.startswith("/") and b.lstrip("/") == a.lstrip("/")

def rule_amount_without_comma(tin, tout):
    (t, a), (_, b) = tin, tout
    m = re.fullmatch(r"(.*?\d),0*((?:\n.*)?)", b, re.S)
    return bool(m) and (m.group(1) + m.group(2)) == a.replace("\r", "")

def rule_zero_decimal_comma_dropped(tin, tout):
    """an amount of a zero-decimal currency is printed without the mandatory decimal comma"""
    (t, a), (_, b) = tin, tout
    a2 = a.replace("\r", "")
    return a2 != b and re.sub(r"(\d),(?!\d)", r"\1", a2) == b

def rule_dash_absorbed(tin, tout):
    (t, a), (_, b) = tin, tout
    return engine.canon_content(b) == engine.canon_content(a) + "\n-"

TOKEN_RULES = {"trailing_ignored": rule_trailing_ignored, "narrative_truncated": rule_narrative_truncated,
               "field25_slash": rule_field25_slash, "amount_without_comma": rule_amount_without_comma,
               "dash_absorbed": rule_dash_absorbed, "zero_decimal_comma_dropped": rule_zero_decimal_comma_dropped}


def classify_known(known, mt, in_toks, out_toks, text):
    """returns the set of finding ids that explain ALL differences, or None"""
    rules = {k["match"]["rule"]: k["id"] for k in known if k.get("match", {}).get("kind") == "token_rule"}
    letter = [k["id"] for k in known if k.get("match", {}).get("kind") == "option_letter"]
    if len(in_toks) != len(out_toks):
        return None
    moved = [k["id"] for k in known if k.get("match", {}).get("kind") == "mt942_13d_first"]
    if moved and mt == "942" and in_toks and in_toks[0][0] == "13D" and [t for t, _ in in_toks] != [t for t, _ in out_toks]:
        rest = in_toks[1:]
        j = [i for i, (t, _) in enumerate(out_toks) if t == "13D"]
        if len(j) == 1 and out_toks[:j[0]] + out_toks[j[0] + 1:] == [(t, c) for t, c in rest] or \
           (len(j) == 1 and [t for t, _ in out_toks[:j[0]] + out_toks[j[0] + 1:]] == [t for t, _ in rest]):
            r = classify_known(known, "x", rest, out_toks[:j[0]] + out_toks[j[0] + 1:], text) if [engine.canon_content(c) for _, c in rest] != [engine.canon_content(c) for _, c in out_toks[:j[0]] + out_toks[j[0] + 1:]] else set()
            if r is not None:
                return set(r) | {moved[0]}
        return None
    hits = set()
    for tin, tout in zip(in_toks, out_toks):
        if tin[0] != tout[0]:
            if letter and tin[0][:2] == tout[0][:2] and tin[0][:2].isdigit():
                hits.add(letter[0]); continue
            return None
        if engine.canon_content(tin[1]) == engine.canon_content(tout[1]):
            continue
        for name, kid in rules.items():
            if TOKEN_RULES[name](tin, tout):
                hits.add(kid); break
        else:
            return None
    return hits or None


def run(ctx):
    ctx.rule = ("block-4 texts of all 30 types: shipped-scenario seeds, then single and double mutations (insert unknown tag, "
                "duplicate a field, duplicate a whole sequence occurrence up to and beyond the type's cap, swap neighbours, "
                "corrupt a content, append fields, delete a field), LF and CRLF; non-trivial = the library accepts the text or "
                "the mutation changes the outcome class; distinct = (type, mutation kinds, library outcome class)")
    standard_front(ctx, __import__("c01"))
    rng = ctx.rng
    # when a proof obligation or the translation of one type broke, search that type harder for a failing input
    boost = set(re.findall(r"MT(\d{3})", " ".join(ctx.broken)))
    known, _ = load_known(PROP)
    seeds = mtgen.load_seeds(limit=None if ctx.tier == "thorough" else 2)
    nmut = 100 if ctx.tier == "thorough" else 14
    msgs, meta = [], []
    caps = {"204": 10, "210": 10, "935": 10, "920": 100, "940": 500}
    for c, lst in seeds.items():
        for name, text in lst:
            sp = mtgen.split_message(text)
            if not sp:
                continue
            pre, body, post = sp
            toks = mtgen.tokens(body)
            msgs.append((c, "\n" + mtgen.render(toks) + "\n")); meta.append(("seed", name, toks))
            msgs.append((c, "\r\n" + mtgen.render(toks).replace("\n", "\r\n") + "\r\n")); meta.append(("seed-crlf", name, toks))
            msgs.append((c, mtgen.render(toks) + "\n-")); meta.append(("seed-dash", name, toks))
            for k in range(nmut * (12 if c in boost else 1)):
                t2, kinds = toks, []
                for _ in range(rng.choice([1, 1, 1, 2])):
                    r = mtgen.mutate(rng, t2, rng.choice(["insert_unknown", "dup", "swap", "corrupt", "append", "delete", "dupseq", "dupseq", "retag", "insert_sibling", "morelines", "morelines"]))
                    if r:
                        kinds.append(r[0]); t2 = r[1]
                if kinds:
                    msgs.append((c, "\n" + mtgen.render(t2) + "\n")); meta.append(("+".join(kinds), name, t2))
            # repetitions around the type's cap
            if c in caps and ctx.tier == "thorough" or c in ("204", "210", "935"):
                starts = [k for k, (t, _) in enumerate(toks) if t in ("21", "20", "61", "12", "23", "32B")]
                if len(starts) >= 2:
                    a = starts[1] if c in ("204",) else starts[0]
                    nxt = [s for s in starts if s > a]
                    b = nxt[0] if nxt else len(toks)
                    unit = toks[a:b]
                    for n in (caps.get(c, 10) - 1, caps.get(c, 10), caps.get(c, 10) + 1):
                        t2 = toks[:a] + unit * n + toks[b:]
                        msgs.append((c, "\n" + mtgen.render(t2) + "\n")); meta.append(("repeat%d" % n, name, t2))
    # layout-driven generation: every optional field in/out, every option letter, 0..3 repetitions
    try:
        layouts = engine.load_layouts()
        pool = layoutgen.harvest_pool(layouts, mtgen.load_seeds())
        g = layoutgen.Gen(layouts, pool, rng)
        ngen = 400 if ctx.tier == "thorough" else 25
        for c in mtgen.SUPPORTED:
            for k in range(ngen * (8 if c in boost else 1)):
                g.p_opt = rng.choice([0.2, 0.5, 0.8])
                r = g.gen("MT" + c)
                if r is None:
                    continue
                toks, trace = r
                msgs.append((c, "\n" + mtgen.render(toks) + "\n")); meta.append(("layoutgen", "gen%d" % k, toks))
                if k % 3 == 0:
                    m2 = mtgen.mutate(rng, toks, rng.choice(["retag", "insert_sibling", "swap", "dup", "append", "delete", "morelines"]))
                    if m2:
                        msgs.append((c, "\n" + mtgen.render(m2[1]) + "\n")); meta.append(("layoutgen+" + m2[0], "gen%d" % k, m2[1]))
    except Exception as e:   # a layout the generator cannot walk is not a verdict
        ctx.notes.append("layoutgen: %r" % (e,))
    # regression corpus
    for cdir in (os.path.join(ROOT, "corpus", PROP), os.path.join(ROOT, "corpus", PROP, "fixed")):
        for f in sorted(os.listdir(cdir)) if os.path.isdir(cdir) else []:
            if f.endswith(".b4"):
                c = f.split("_")[0].replace("MT", "")
                text = open(os.path.join(cdir, f), encoding="utf-8").read()
                msgs.insert(0, (c, text)); meta.insert(0, ("corpus:" + f, f, mtgen.tokens(text.strip("\n"))))
    res = engine.run_engine(ctx, msgs, "c01")
    table = res[0]["table"] if res else {}
    acc = rej = 0
    classes = {}
    for i, ((c, text), (kinds, name, toks), r) in enumerate(zip(msgs, meta, res)):
        ctx.evaluations += 1
        lib, model = r["lib"], r["model"]
        replay = "body\tMT%s\t%s" % (c, hexs(text))
        if "panic" in lib or "crash" in lib:
            ctx.violations.append(("parse_from_block4 panicked on MT%s %s/%s: %s" % (c, name, kinds, str(lib)[:120]), replay))
            continue
        lclass = "ACCEPT" if lib.get("ok") else engine.lib_error_class(lib)
        classes[lclass.split("(")[0]] = classes.get(lclass.split("(")[0], 0) + 1
        ctx.distinct.add((c, kinds, lclass.split("(")[0]))
        # ---- the property, judged on the library's own output
        if lib.get("ok"):
            acc += 1
            in_toks = [(t, cn) for t, cn in mtgen.tokens(text.replace("\r\n", "\n").strip("\n").removesuffix("\n-")) if t or cn]
            if in_toks and in_toks[0][0] == "" and not in_toks[0][1].strip():
                in_toks = in_toks[1:]
            out_toks = engine.body_tokens(lib["block4"])
            same_tags = [t for t, _ in in_toks] == [t for t, _ in out_toks]
            same_content = same_tags and all(engine.canon_content(a[1]) == engine.canon_content(b[1]) for a, b in zip(in_toks, out_toks))
            if not (same_tags and same_content):
                kids = classify_known(known, c, in_toks, out_toks, text)
                if kids:
                    for kid in kids:
                        ctx.known_hits[kid] = ctx.known_hits.get(kid, 0) + 1
                else:
                    what = "tags %s -> %s" % ([t for t, _ in in_toks], [t for t, _ in out_toks]) if not same_tags else \
                        "content changed: " + "; ".join("%s %r -> %r" % (a[0], a[1][:60], b[1][:60]) for a, b in zip(in_toks, out_toks) if engine.canon_content(a[1]) != engine.canon_content(b[1]))
                    ctx.violations.append(("MT%s accepted but not reproduced (%s/%s): %s" % (c, name, kinds, what[:500]), replay))
        else:
            rej += 1
        # ---- correspondence: model outcome vs library outcome
        if model is not None:
            mclass = engine.model_class(model)
            if mclass != lclass:
                ctx.disagreements.append({"type": "MT" + c, "origin": "%s/%s" % (name, kinds), "model": mclass, "library": lclass, "replay": replay})
            elif mclass == "ACCEPT":
                items = engine.model_items(model)
                pred = "\r\n".join((table.get((ty, lk, cn)) or {}).get("ser", "?") for ty, lk, tag, cn in items)
                if c == "942" and items and items[0][2] == "13D":
                    # to_mt_string prints field_13d after the floor limits whichever position it was read at
                    # (known finding C01-mt942-13d-reordered); the model's items are in input order
                    first = pred.split("\r\n")[0]
                    lines = lib["block4"].split("\r\n")
                    if first in lines:
                        lines.remove(first)
                        if "\r\n".join([first] + lines) == pred:
                            pred = lib["block4"]
                if pred != lib["block4"]:
                    ctx.disagreements.append({"type": "MT" + c, "origin": "%s/%s" % (name, kinds), "model": "serialisation " + pred[:200], "library": lib["block4"][:200], "replay": replay})
        if len(ctx.samples) < 5 and kinds not in ("seed", "seed-crlf", "seed-dash"):
            ctx.samples.append({"type": "MT" + c, "mutation": kinds, "text": text[:300], "library": lclass, "model": engine.model_class(model) if model else None})
    if ctx.disagreements:
        d0 = ctx.disagreements[0]
        ctx.broken.append("correspondence: stream msg: %d disagreement(s) between the extracted model and the library, first: %s" % (len(ctx.disagreements), json.dumps({k: v for k, v in d0.items() if k != "replay"})[:400]))
        # a disagreement is a candidate input: judge it with the property oracle (done above for every case);
        # keep the disagreeing inputs in the replay of the broken tie
        ctx.stats["first_disagreeing_inputs"] = [d["replay"][:400] for d in ctx.disagreements[:3]]
    ctx.stats.update({"cases": len(msgs), "accepted": acc, "rejected": rej, "library_outcome_classes": classes})
    return finish(ctx, level="proof", trusted=TRUSTED,
                  assumptions=["a text block is its sequence of field occurrences as read line by line (`:` + tag + `:` at the start of a line starts a field, a line `-` ends the block)",
                               "content equality is judged up to line endings, trailing blanks and the spelling of decimal numbers (leading/trailing zeros)"])
