"""C11 — dates and times: calendar-valid only, one meaning everywhere, round-trip stable."""
import json, os, re, datetime
from common import *

PROP = "C11"
COQ_TARGETS = ["Props/C11.vo"]
TRANSLATOR = []

TRUSTED = [
    "Coq 8.16.1 kernel; lia; no axioms (Closed under the global context)",
    "hand model Dates/DateTime.v of swift_utils::{parse_date_yymmdd, parse_time_hhmm}, the inline date code of fields 11/11R/11S, the 13C/13D serde codecs, the offset check and chrono's %y%m%d / %H%M; tied by the stream `date`: extracted model vs library, field by field",
    "chrono::NaiveDate::from_ymd_opt / NaiveTime::from_hms_opt are modelled by the Gregorian validity predicate (chrono is trusted); their agreement is what the exhaustive sweep checks",
    "how each field cuts its six date bytes out of its content is part of the field parsers (C05), exercised here with fixed surroundings",
]

# field -> (harness type, content builder around the six date bytes, where the digits reappear in the printed content)
FIELDS = {
    "30": ("Field30", lambda s: s, 0),
    "32A": ("Field32A", lambda s: s + "USD1,00", 0),
    "32C": ("Field32C", lambda s: s + "USD1,00", 0),
    "32D": ("Field32D", lambda s: s + "USD1,00", 0),
    "60F": ("Field60F", lambda s: "C" + s + "USD1,00", 1),
    "60M": ("Field60M", lambda s: "C" + s + "USD1,00", 1),
    "62F": ("Field62F", lambda s: "C" + s + "USD1,00", 1),
    "62M": ("Field62M", lambda s: "C" + s + "USD1,00", 1),
    "64": ("Field64", lambda s: "C" + s + "USD1,00", 1),
    "65": ("Field65", lambda s: "C" + s + "USD1,00", 1),
    "61": ("Field61", lambda s: s + "C1,00NTRFREF", 0),
    "13D": ("Field13D", lambda s: s + "1200+0100", 0),
    "11S": ("Field11S", lambda s: "103" + s, 3),
    "11R": ("Field11R", lambda s: "103" + s, 3),
    "11": ("Field11", lambda s: "103" + s, 3),
}
CORE = ["30", "13D", "11S"]


def real_date(s):
    if not (len(s) == 6 and s.isascii() and s.isdigit()):
        return None
    yy, m, d = int(s[:2]), int(s[2:4]), int(s[4:])
    y = 2000 + yy if yy <= 49 else 1900 + yy
    try:
        datetime.date(y, m, d)
        return "%04d-%02d-%02d" % (y, m, d)
    except ValueError:
        return None


def run(ctx):
    ctx.rule = ("six-byte strings: quick = all yy x mm 00..13 x dd {00,01,28,29,30,31,32} (9800) + non-digit / signed / non-ASCII "
                "strings; thorough = all 1,000,000 digit strings through fields 30, 13D, 11S and 13D's JSON form, the stratified set "
                "through all 15 date-bearing field types; all 10,000 HHMM strings and all signed 4-digit offsets through 13C and 13D; "
                "non-trivial = accepted by some field; distinct = distinct strings")
    standard_front(ctx, __import__("c11"))
    rng = ctx.rng
    known, _ = load_known(PROP)
    strat = ["%02d%02d%02d" % (y, m, d) for y in range(100) for m in range(14) for d in (0, 1, 28, 29, 30, 31, 32)]
    weird = ["+1+2+3", "-10101", " 10101", "2609 1", "26093o", "１２３４５６"[:2], "2609३0", "26é930"[:6], "1é2345"[:6], "٠٠٠١٠١", "260930 ",
             "26093", "2609301", "", "ABCDEF", "26-9-3", "26/9/3", "0x1010", "1e1010", "260230", "000229", "000000", "999999", "490101", "500101"]
    weird += ["".join(rng.choice("0123456789+- é٣") for _ in range(6)) for _ in range(150)]
    # the property is about six-BYTE date components; longer or shorter strings belong to C05 / C07
    weird = sorted({w for w in weird if len(w.encode("utf-8")) == 6})
    if ctx.tier == "thorough":
        allsix = ["%06d" % i for i in range(1000000)]
    else:
        allsix = strat + ["%06d" % rng.randrange(1000000) for _ in range(3000)]
    cases, meta = [], []
    def add(field, s):
        ty, build, _ = FIELDS[field]
        cases.append("fparse\t%s\t_\t%s" % (ty, hexs(build(s)))); meta.append((field, s))
    for s in allsix:
        for f in CORE:
            add(f, s)
        cases.append("fjson\tField13D\t%s" % hexs(json.dumps({"date": s, "time": "1200", "offset_sign": "+", "offset": "0100"}))); meta.append(("13Djson", s))
    side = strat if ctx.tier == "thorough" else strat[::5]
    for s in side + weird:
        for f in FIELDS:
            if f not in CORE or s in weird:
                add(f, s)
        if s in weird:
            cases.append("fjson\tField13D\t%s" % hexs(json.dumps({"date": s, "time": "1200", "offset_sign": "+", "offset": "0100"}))); meta.append(("13Djson", s))
    res = run_lib(ctx, cases, "c11date")
    mres = run_model(ctx, ["date\t%s\t%s" % (f, hexs(s)) for f, s in meta], "c11date")
    per_string = {}
    acc = 0
    for (f, s), r, m in zip(meta, res, mres):
        ctx.evaluations += 1
        replay = "date\t%s\t%s" % (f, hexs(s))
        if "panic" in r or "crash" in r:
            ctx.violations.append(("field %s panicked on date bytes %r: %s" % (f, s, str(r)[:100]), replay)); continue
        ok = bool(r.get("ok"))
        iso = None
        if ok:
            acc += 1
            mm = re.search(r"\d{4}-\d{2}-\d{2}", r.get("debug", ""))
            iso = mm.group(0) if mm else None
            ctx.distinct.add(s)
        # property oracle, on the library's own answers
        want = real_date(s)
        if ok and want is None:
            ctx.violations.append(("field %s accepts %r, which is not six digits denoting a calendar date (read as %s)" % (f, s, iso), replay))
        elif ok and iso != want:
            ctx.violations.append(("field %s reads %r as %s; the other fields read it as %s" % (f, s, iso, want), replay))
        elif (not ok) and want is not None:
            ctx.violations.append(("field %s rejects the calendar date %r" % (f, s), replay))
        if ok and f != "13Djson":
            off = FIELDS[f][2]
            printed = (r.get("printed") or {}).get("content", "")
            if printed[off:off + 6] != s:
                ctx.violations.append(("field %s read %r and printed %r" % (f, s, printed[off:off + 6]), replay))
        if ok and f == "13Djson":
            if not re.search(r":13D:" + re.escape(s), r.get("ser", "")):
                ctx.violations.append(("13D from JSON date %r prints %r" % (s, r.get("ser")), replay))
        per_string.setdefault(s, set()).add((ok, iso))
        # correspondence with the model
        if m is not None:
            mok = m.startswith("OK")
            miso = m.split("\t")[1] if mok else None
            if mok != ok or miso != iso:
                ctx.disagreements.append({"field": f, "bytes": s, "model": m, "library": "%s %s" % (ok, iso), "replay": replay})
    # one meaning: every field gave the same answer for the same bytes
    for s, answers in per_string.items():
        if len(answers) > 1:
            ctx.violations.append(("the six bytes %r are read differently by different fields: %s" % (s, sorted(answers, key=str)), "date\t*\t%s" % hexs(s)))
    # ---- times and offsets
    tcases, tmeta = [], []
    hhmm = ["%04d" % i for i in range(10000)] + ["+930", "12 0", "1２00"[:4], "९९९९"[:4], "12:0", "-100", "2400", "2360"]
    for t in hhmm:
        tcases.append("fparse\tField13C\t_\t%s" % hexs("/SNDTIME/" + t + "+0100")); tmeta.append(("time13C", t))
        tcases.append("fparse\tField13D\t_\t%s" % hexs("260930" + t + "+0100")); tmeta.append(("time13D", t))
    offs = ["%04d" % i for i in (range(10000) if ctx.tier == "thorough" else list(range(0, 1600)) + list(range(1600, 10000, 7)))] + ["+100", "01 0", "1é00"[:4]]
    for o in offs:
        for sign in "+-":
            tcases.append("fparse\tField13C\t_\t%s" % hexs("/CLSTIME/0915" + sign + o)); tmeta.append(("off13C" + sign, o))
            tcases.append("fparse\tField13D\t_\t%s" % hexs("2609300915" + sign + o)); tmeta.append(("off13D" + sign, o))
    tres = run_lib(ctx, tcases, "c11time")
    tm = run_model(ctx, [("time\t%s" % hexs(v)) if k.startswith("time") else ("offset\t%s" % hexs(v)) for k, v in tmeta], "c11time")
    for (k, v), r, m in zip(tmeta, tres, tm):
        ctx.evaluations += 1
        replay = "%s\t%s" % (k, hexs(v))
        if "panic" in r or "crash" in r:
            ctx.violations.append(("%s panicked on %r: %s" % (k, v, str(r)[:100]), replay)); continue
        ok = bool(r.get("ok"))
        dig = len(v) == 4 and v.isascii() and v.isdigit()
        if k.startswith("time"):
            want = dig and int(v[:2]) <= 23 and int(v[2:]) <= 59
        else:
            want = dig and int(v[:2]) <= 14 and int(v[2:]) <= 59
        if ok != want:
            ctx.violations.append(("%s: %r is %s, but it %s a valid %s" % (k, v, "accepted" if ok else "rejected", "is" if want else "is not", "clock time" if k.startswith("time") else "UTC offset"), replay))
        if ok:
            ctx.distinct.add(k[:4] + v)
            printed = (r.get("printed") or {}).get("content", "")
            if v not in printed:
                ctx.violations.append(("%s read %r and printed %r" % (k, v, printed), replay))
        if m is not None and (m.startswith("OK") != ok):
            ctx.disagreements.append({"what": k, "bytes": v, "model": m, "library": ok, "replay": replay})
    if ctx.disagreements:
        ctx.broken.append("correspondence: stream date: %d disagreement(s), first: %s" % (len(ctx.disagreements), json.dumps({k: v for k, v in ctx.disagreements[0].items() if k != "replay"})[:300]))
    ctx.samples = [{"field": meta[0][0], "bytes": meta[0][1], "library": res[0].get("ok"), "model": mres[0]},
                   {"field": "13Djson", "bytes": "500101"}, {"weird": weird[:6]}]
    ctx.stats.update({"date_cases": len(cases), "date_accepted": acc, "time_offset_cases": len(tcases), "six_byte_strings": len(per_string)})
    return finish(ctx, level="proof", trusted=TRUSTED,
                  assumptions=["the century window 00-49 -> 20xx, 50-99 -> 19xx is the library's documented reading of YY"],
                  extra={"exhaustive": ctx.tier == "thorough"})
