#!/usr/bin/env python3
"""spec/mt_layouts.json -> gen/Specs.v : the independent layout specification as tag expressions (Engine/Regex.v)"""
import json, sys, os

def q(s):
    return '(bs "%s")' % s

def tags_of(it):
    tag = it[0]
    if tag.endswith("a") and len(it) > 2:
        return [tag[:-1] + l for l in list(it[2])]
    return [tag]

def nullable(it):
    if isinstance(it, dict) and "one_of" in it:
        return any(nullable(a) for a in it["one_of"])
    if isinstance(it, dict):
        return it["min"] == 0 or all(nullable(i) for i in it["items"])
    return it[1].startswith("O")

def item(it):
    if isinstance(it, dict) and "one_of" in it:
        alts = [item(a) for a in it["one_of"]]
        r = alts[-1]
        for a in reversed(alts[:-1]):
            r = "RAlt (%s) (%s)" % (a, r)
        return r
    if isinstance(it, dict):
        assert not all(nullable(i) for i in it["items"]), "a repeated sequence must not be empty: %r" % (it,)
        hi = "None" if it["max"] is None else "(Some %d)" % it["max"]
        return "RRep (%s) %d %s" % (seq(it["items"]), it["min"], hi)
    ts = "RTag [%s]" % "; ".join(q(t) for t in tags_of(it))
    st = it[1]
    if st == "M":
        return ts
    if st == "O":
        return "ropt (%s)" % ts
    if st == "M*":
        return "RRep (%s) 1 None" % ts
    if st == "O*":
        return "RRep (%s) 0 None" % ts
    raise ValueError(st)

def seq(items):
    parts = [item(i) for i in items]
    r = parts[-1]
    for p in reversed(parts[:-1]):
        r = "RSeq (%s) (%s)" % (p, r)
    return r

def mandatory(it):
    if isinstance(it, dict) and "one_of" in it:
        return all(mandatory(a) for a in it["one_of"])
    if isinstance(it, dict):
        return it["min"] >= 1
    return it[1].startswith("M")

def label(it):
    if isinstance(it, dict) and "one_of" in it:
        return "/".join(label(a) for a in it["one_of"])
    if isinstance(it, dict):
        return "sequence " + it["seq"]
    return it[0]

def make_mandatory(it):
    if isinstance(it, dict) and "one_of" in it:
        return {"one_of": [make_mandatory(a) for a in it["one_of"]]}
    if isinstance(it, dict):
        return dict(it, min=max(1, it["min"]))
    return [it[0], it[1].replace("O", "M")] + list(it[2:])

def nonempty_forms(inner):
    """the non-empty words of an item list, as item lists that cannot be empty: if the list can be empty, one form per
    item that is the first one present"""
    if not inner:
        return []
    if not all(nullable(x) for x in inner):
        return [inner]
    return [[make_mandatory(inner[j])] + inner[j + 1:] for j in range(len(inner))]

def deletions(items, where=""):
    """[(description, items')]: the item lists in which exactly one mandatory element is missing: a mandatory field, every
    occurrence of a mandatory repetitive field, a whole mandatory sequence, or a mandatory element of ONE occurrence of a
    sequence (that occurrence anywhere among the others)"""
    out = []
    for i, it in enumerate(items):
        same_next = (i + 1 < len(items) and not isinstance(it, dict) and not isinstance(items[i + 1], dict)
                     and tags_of(items[i + 1]) == tags_of(it))
        if mandatory(it) and not same_next:      # (34F M, 34F O: without the first, the second takes its place)
            out.append((where + label(it), items[:i] + items[i + 1:]))
        if isinstance(it, dict) and "items" in it:
            for desc, inner0 in deletions(it["items"], where + it["seq"] + "."):
              for inner in nonempty_forms(inner0):
                  any_g = dict(it, min=0, max=None)
                  broken = {"seq": it["seq"] + "'", "min": 1, "max": 1, "items": inner}
                  if it["max"] == 1:       # a sequence that occurs at most once: its only occurrence is the broken one
                      out.append((desc, items[:i] + [broken] + items[i + 1:]))
                  else:
                      out.append((desc, items[:i] + [any_g, broken, any_g] + items[i + 1:]))
    return out

# ---- a small regular-expression engine (derivatives), used only to leave out the deletion languages that still contain
# a word of the specification (the optional element of a neighbour takes the place of what was deleted)
def r_item(it):
    if isinstance(it, dict) and "one_of" in it:
        r = ("none",)
        for a in it["one_of"]:
            r = ("alt", r_item(a), r)
        return r
    if isinstance(it, dict):
        return ("rep", r_seq(it["items"]), it["min"], it["max"])
    t = ("tag", frozenset(tags_of(it)))
    st = it[1]
    return {"M": t, "O": ("alt", t, ("eps",)), "M*": ("rep", t, 1, None), "O*": ("rep", t, 0, None)}[st]

def r_seq(items):
    r = ("eps",)
    for it in reversed(items):
        r = ("seq", r_item(it), r)
    return r

def r_null(r):
    k = r[0]
    if k == "eps": return True
    if k in ("none", "tag"): return False
    if k == "seq": return r_null(r[1]) and r_null(r[2])
    if k == "alt": return r_null(r[1]) or r_null(r[2])
    return r[2] == 0

def r_seq2(a, b):
    if a[0] == "none" or b[0] == "none": return ("none",)
    if a[0] == "eps": return b
    if b[0] == "eps": return a
    return ("seq", a, b)

def r_alt2(a, b):
    if a[0] == "none": return b
    if b[0] == "none": return a
    if a == b: return a
    return ("alt", a, b)

def r_der(t, r):
    k = r[0]
    if k in ("none", "eps"): return ("none",)
    if k == "tag": return ("eps",) if t in r[1] else ("none",)
    if k == "seq":
        d = r_seq2(r_der(t, r[1]), r[2])
        return r_alt2(d, r_der(t, r[2])) if r_null(r[1]) else d
    if k == "alt": return r_alt2(r_der(t, r[1]), r_der(t, r[2]))
    _, x, lo, hi = r
    if hi == 0: return ("none",)
    return r_seq2(r_der(t, x), ("rep", x, max(lo - 1, 0), None if hi is None else hi - 1))

def r_tags(r, acc):
    if r[0] == "tag": acc |= r[1]
    for c in r[1:]:
        if isinstance(c, tuple): r_tags(c, acc)
    return acc

def common_word(a, b):
    """a word of both languages, or None (breadth first over pairs of derivatives)"""
    sigma = sorted(r_tags(a, set()) | r_tags(b, set()))
    seen = {(a, b)}
    todo = [((a, b), [])]
    while todo:
        (x, y), w = todo.pop(0)
        if r_null(x) and r_null(y):
            return w
        if len(seen) > 20000:
            return w        # give up: treat as ambiguous (leave the language out)
        for t in sigma:
            dx, dy = r_der(t, x), r_der(t, y)
            if dx[0] == "none" or dy[0] == "none" or (dx, dy) in seen:
                continue
            seen.add((dx, dy)); todo.append(((dx, dy), w + [t]))
    return None

def deletion_table(S):
    rows, arows = [], []
    for T in sorted(k for k in S if k.startswith("MT")):
        full = r_seq(S[T])
        ok, amb = [], []
        for d, x in deletions(S[T]):
            for a in alternatives(x):
                w = common_word(r_seq(a), full)
                if w is None:
                    ok.append((d, a))
                else:
                    amb.append((d, a, w))
        rows.append("  (%s, [%s])" % (q(T), "; ".join("(%s, %s)" % (q(d), seq(a) if a else "REps") for d, a in ok)))
        arows.append("  (%s, [%s])" % (q(T), "; ".join("(%s, (%s, [%s]))" % (q(d), seq(a) if a else "REps", "; ".join(q(t) for t in w)) for d, a, w in amb)))
    return (["Definition spec_deletions : list (bytes * list (bytes * re)) := [", ";\n".join(rows), "].", "",
             "(* left out of spec_deletions: with the element deleted the text can still be a word of the specification (an optional",
             "   element of a neighbour takes its place); each with a word that is in both languages *)",
             "Definition spec_deletions_ambiguous : list (bytes * list (bytes * (re * list bytes))) := [", ";\n".join(arows), "]."])

def alternatives(items):
    """the same language as a finite union: each top-level sequence that occurs at most once (min 0, max 1) is either
    absent or present.  The analysis of Engine/Abs.v runs once per alternative, which keeps the presence of such a
    sequence and the variables that record it together."""
    alts = [[]]
    for it in items:
        if isinstance(it, dict) and "items" in it and it["min"] == 0 and it["max"] == 1:
            alts = [a for a in alts] + [a + [dict(it, min=1)] for a in alts]
        else:
            alts = [a + [it] for a in alts]
    return alts

def table(name, S):
    rows = []
    for T in sorted(k for k in S if k.startswith("MT")):
        rows.append("  (%s, [%s])" % (q(T), "; ".join(seq(a) if a else "REps" for a in alternatives(S[T]))))
    return ["Definition %s : list (bytes * list re) := [" % name, ";\n".join(rows), "]."]

def main(src, dst, restricted=None):
    S = json.load(open(src))
    out = ["(* GENERATED from /verif/spec/mt_layouts.json and mt_layouts_restricted.json on every check run. Do not edit. *)",
           "From Coq Require Import Strings.String.", "From SwiftMT Require Import Base.Bytes Engine.Regex.",
           "Local Open Scope string_scope.", "Local Open Scope list_scope.", ""]
    out += table("specs", S)
    out.append("")
    out += table("specs_restricted", json.load(open(restricted)) if restricted else {})
    out.append("")
    out += deletion_table(S)
    new = "\n".join(out) + "\n"
    if not os.path.exists(dst) or open(dst).read() != new:     # keep make's timestamps meaningful
        open(dst, "w").write(new)

def write_v(out_dir):
    main("/verif/spec/mt_layouts.json", os.path.join(out_dir, "Specs.v"), "/verif/spec/mt_layouts_restricted.json")

if __name__ == "__main__":
    main(sys.argv[1], sys.argv[2], sys.argv[3] if len(sys.argv) > 3 else None)
