#!/usr/bin/env python3
"""spec/mt_layouts.json -> gen/Specs.v : the independent layout specification as tag expressions (Engine/Regex.v)"""
import json, sys, os

def q(s):
    return '(bs "%s")' % s

def tags_of(it):
    tag = it[0]
    if tag.endswith("a") and len(it) > 2:
        return [tag[:-1] + l for l in list(it[2])]
    return [tag]

def nullable(it):
    if isinstance(it, dict) and "one_of" in it:
        return any(nullable(a) for a in it["one_of"])
    if isinstance(it, dict):
        return it["min"] == 0 or all(nullable(i) for i in it["items"])
    return it[1].startswith("O")

def item(it):
    if isinstance(it, dict) and "one_of" in it:
        alts = [item(a) for a in it["one_of"]]
        r = alts[-1]
        for a in reversed(alts[:-1]):
            r = "RAlt (%s) (%s)" % (a, r)
        return r
    if isinstance(it, dict):
        assert not all(nullable(i) for i in it["items"]), "a repeated sequence must not be empty: %r" % (it,)
        hi = "None" if it["max"] is None else "(Some %d)" % it["max"]
        return "RRep (%s) %d %s" % (seq(it["items"]), it["min"], hi)
    ts = "RTag [%s]" % "; ".join(q(t) for t in tags_of(it))
    st = it[1]
    if st == "M":
        return ts
    if st == "O":
        return "ropt (%s)" % ts
    if st == "M*":
        return "RRep (%s) 1 None" % ts
    if st == "O*":
        return "RRep (%s) 0 None" % ts
    raise ValueError(st)

def seq(items):
    parts = [item(i) for i in items]
    r = parts[-1]
    for p in reversed(parts[:-1]):
        r = "RSeq (%s) (%s)" % (p, r)
    return r

def table(name, S):
    rows = []
    for T in sorted(k for k in S if k.startswith("MT")):
        rows.append("  (%s, %s)" % (q(T), seq(S[T])))
    return ["Definition %s : list (bytes * re) := [" % name, ";\n".join(rows), "]."]

def main(src, dst, restricted=None):
    S = json.load(open(src))
    out = ["(* GENERATED from /verif/spec/mt_layouts.json and mt_layouts_restricted.json on every check run. Do not edit. *)",
           "From Coq Require Import Strings.String.", "From SwiftMT Require Import Base.Bytes Engine.Regex.",
           "Local Open Scope string_scope.", "Local Open Scope list_scope.", ""]
    out += table("specs", S)
    out.append("")
    out += table("specs_restricted", json.load(open(restricted)) if restricted else {})
    new = "\n".join(out) + "\n"
    if not os.path.exists(dst) or open(dst).read() != new:     # keep make's timestamps meaningful
        open(dst, "w").write(new)

def write_v(out_dir):
    main("/verif/spec/mt_layouts.json", os.path.join(out_dir, "Specs.v"), "/verif/spec/mt_layouts_restricted.json")

if __name__ == "__main__":
    main(sys.argv[1], sys.argv[2], sys.argv[3] if len(sys.argv) > 3 else None)
