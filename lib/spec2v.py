#!/usr/bin/env python3
"""spec/mt_layouts.json -> gen/Specs.v : the independent layout specification as tag expressions (Engine/Regex.v)"""
import json, sys, os

def q(s):
    return '(bs "%s")' % s

def tags_of(it):
    tag = it[0]
    if tag.endswith("a") and len(it) > 2:
        return [tag[:-1] + l for l in list(it[2])]
    return [tag]

def nullable(it):
    if isinstance(it, dict) and "one_of" in it:
        return any(nullable(a) for a in it["one_of"])
    if isinstance(it, dict):
        return it["min"] == 0 or all(nullable(i) for i in it["items"])
    return it[1].startswith("O")

def item(it):
    if isinstance(it, dict) and "one_of" in it:
        alts = [item(a) for a in it["one_of"]]
        r = alts[-1]
        for a in reversed(alts[:-1]):
            r = "RAlt (%s) (%s)" % (a, r)
        return r
    if isinstance(it, dict):
        assert not all(nullable(i) for i in it["items"]), "a repeated sequence must not be empty: %r" % (it,)
        hi = "None" if it["max"] is None else "(Some %d)" % it["max"]
        return "RRep (%s) %d %s" % (seq(it["items"]), it["min"], hi)
    ts = "RTag [%s]" % "; ".join(q(t) for t in tags_of(it))
    st = it[1]
    if st == "M":
        return ts
    if st == "O":
        return "ropt (%s)" % ts
    if st == "M*":
        return "RRep (%s) 1 None" % ts
    if st == "O*":
        return "RRep (%s) 0 None" % ts
    raise ValueError(st)

def seq(items):
    parts = [item(i) for i in items]
    r = parts[-1]
    for p in reversed(parts[:-1]):
        r = "RSeq (%s) (%s)" % (p, r)
    return r

def mandatory(it):
    if isinstance(it, dict) and "one_of" in it:
        return all(mandatory(a) for a in it["one_of"])
    if isinstance(it, dict):
        return it["min"] >= 1
    return it[1].startswith("M")

def label(it):
    if isinstance(it, dict) and "one_of" in it:
        return "/".join(label(a) for a in it["one_of"])
    if isinstance(it, dict):
        return "sequence " + it["seq"]
    return it[0]

def deletions(items, where=""):
    """[(description, items')]: the item lists in which exactly one mandatory element is missing: a mandatory field, every
    occurrence of a mandatory repetitive field, a whole mandatory sequence, or a mandatory element of ONE occurrence of a
    sequence (that occurrence anywhere among the others)"""
    out = []
    for i, it in enumerate(items):
        same_next = (i + 1 < len(items) and not isinstance(it, dict) and not isinstance(items[i + 1], dict)
                     and tags_of(items[i + 1]) == tags_of(it))
        if mandatory(it) and not same_next:      # (34F M, 34F O: without the first, the second takes its place)
            out.append((where + label(it), items[:i] + items[i + 1:]))
        if isinstance(it, dict) and "items" in it:
            for desc, inner in deletions(it["items"], where + it["seq"] + "."):
                if not inner or all(nullable(x) for x in inner):
                    continue      # the occurrence would be empty: that is the deletion of the occurrence itself
                any_g = dict(it, min=0, max=None)
                broken = {"seq": it["seq"] + "'", "min": 1, "max": 1, "items": inner}
                if it["max"] == 1:       # a sequence that occurs at most once: its only occurrence is the broken one
                    out.append((desc, items[:i] + [broken] + items[i + 1:]))
                else:
                    out.append((desc, items[:i] + [any_g, broken, any_g] + items[i + 1:]))
    return out

def deletion_table(S):
    rows = []
    for T in sorted(k for k in S if k.startswith("MT")):
        ds = deletions(S[T])
        rows.append("  (%s, [%s])" % (q(T), "; ".join("(%s, %s)" % (q(d), seq(a) if a else "REps") for d, x in ds for a in alternatives(x))))
    return ["Definition spec_deletions : list (bytes * list (bytes * re)) := [", ";\n".join(rows), "]."]

def alternatives(items):
    """the same language as a finite union: each top-level sequence that occurs at most once (min 0, max 1) is either
    absent or present.  The analysis of Engine/Abs.v runs once per alternative, which keeps the presence of such a
    sequence and the variables that record it together."""
    alts = [[]]
    for it in items:
        if isinstance(it, dict) and "items" in it and it["min"] == 0 and it["max"] == 1:
            alts = [a for a in alts] + [a + [dict(it, min=1)] for a in alts]
        else:
            alts = [a + [it] for a in alts]
    return alts

def table(name, S):
    rows = []
    for T in sorted(k for k in S if k.startswith("MT")):
        rows.append("  (%s, [%s])" % (q(T), "; ".join(seq(a) if a else "REps" for a in alternatives(S[T]))))
    return ["Definition %s : list (bytes * list re) := [" % name, ";\n".join(rows), "]."]

def main(src, dst, restricted=None):
    S = json.load(open(src))
    out = ["(* GENERATED from /verif/spec/mt_layouts.json and mt_layouts_restricted.json on every check run. Do not edit. *)",
           "From Coq Require Import Strings.String.", "From SwiftMT Require Import Base.Bytes Engine.Regex.",
           "Local Open Scope string_scope.", "Local Open Scope list_scope.", ""]
    out += table("specs", S)
    out.append("")
    out += table("specs_restricted", json.load(open(restricted)) if restricted else {})
    out.append("")
    out += deletion_table(S)
    new = "\n".join(out) + "\n"
    if not os.path.exists(dst) or open(dst).read() != new:     # keep make's timestamps meaningful
        open(dst, "w").write(new)

def write_v(out_dir):
    main("/verif/spec/mt_layouts.json", os.path.join(out_dir, "Specs.v"), "/verif/spec/mt_layouts_restricted.json")

if __name__ == "__main__":
    main(sys.argv[1], sys.argv[2], sys.argv[3] if len(sys.argv) > 3 else None)
