"""C08 — JSON conversion is lossless and agrees with the MT serialisation."""
import json, os, re, math
from common import *
import mtgen, specgen

PROP = "C08"
COQ_TARGETS = ["Props/C08.vo"]
TRANSLATOR = ["families", "shapes"]

TRUSTED = [
    "Coq 8.16.1 kernel (coqc), vm_compute for shapes_ok / external_enums_ok / untagged_ok; no axioms (the round-trip theorem has `is_null jnull = true` as a premise)",
    "translator rs2v module `shapes`: for every #[derive(Serialize, Deserialize)] struct and enum of src/messages, src/fields, src/headers, swift_message.rs, parsed_message.rs: member keys (rename), flatten, Option / Vec, skip_serializing_if, with / alias, enum tagging mode and variant names",
    "serde and serde_json themselves (derive semantics of rename / flatten / Option / untagged, object lookup by key, arrays in order, ryu number printing) are trusted; Serde/Model.v states what is used of them",
    "hand-written codecs: dates and times are covered by the Dates theorems; the header codecs (padded logical terminals) and the amount leaves only by the stream `json` (value -> JSON -> value on every case)",
]


def walk(j, path=""):
    if isinstance(j, dict):
        yield path, j
        for k, v in j.items():
            yield from walk(v, path + "/" + k)
    elif isinstance(j, list):
        yield path, j
        for i, v in enumerate(j):
            yield from walk(v, path + "/%d" % i)
    else:
        yield path, j


def run(ctx):
    ctx.rule = ("accepted messages of all 30 types: shipped-scenario seeds; messages generated from the independent layout specification with every option "
                "letter, optional fields in/out and 0-3 repetitions; content mutants (currencies of 0/2/3 decimals, amounts with 0-3 decimals, dates over "
                "the century window 1950-2049 incl. 29 February, 13C/13D/11S values, block 3 and 5 present/absent, input and output block 2, logical terminal addresses with and without a branch code in blocks 1 and 2); for each: "
                "value -> JSON -> value (serde_json::Value and string), MT text of the value read back, plugin parse -> publish; "
                "and every accepted field value of the C05 stream through fparse's JSON round trip; distinct = (type, set of JSON paths)")
    standard_front(ctx, __import__("c08"))
    rng = ctx.rng
    known, _ = load_known(PROP)
    kn = {k["match"]["kind"]: k["id"] for k in known if k.get("match")}
    full = ctx.tier == "thorough"
    seeds = mtgen.load_seeds(limit=None if full else 4)
    msgs = []   # (type code, full text, origin)
    H1 = "{1:F01BANKDEFFAXXX0000000000}"
    LTS = ("DEUTDEFF001A", "BNPAFRPPA123", "BANKDEFFXXXX", "BANKDEFFBXXX", "BANKDE22X001", "BANKDEFFA1XX", "BANKDEFFAXX1", "BANKDEFF0XXX")
    def wrap(c, body, b2=None, b3="", b5="", h1=None):
        return (h1 or H1) + (b2 or "{2:I%sBANKUS33XXXXN}" % c) + b3 + "{4:\n" + body.strip("\n") + "\n-}" + b5
    for c, lst in seeds.items():
        for name, text in lst:
            msgs.append((c, text, "seed"))
            sp = mtgen.split_message(text)
            if not sp:
                continue
            pre, body, post = sp
            toks = mtgen.tokens(body)
            for k in range(12 if full else 4):
                t2 = toks
                for _ in range(rng.choice([1, 2, 3])):
                    r = mtgen.mutate(rng, t2, rng.choice(["ccy", "amount", "code", "dup", "delete"]))
                    if r:
                        t2 = r[1]
                # dates across the window
                t3 = []
                for tag, cn in t2:
                    if rng.random() < 0.3:
                        cn = re.sub(r"\b(2[0-9])(0[1-9]|1[0-2])([0-2][0-9])", lambda m: rng.choice(["50", "49", "99", "00", "24", "68", "69"]) + m.group(2) + m.group(3), cn, count=1)
                    t3.append((tag, cn))
                msgs.append((c, mtgen.rebuild(pre, t3, post), "mutant"))
            # every date-bearing field at the edges of the century window (a JSON codec with another pivot than the MT parser)
            for y in ("50", "69", "70", "49"):
                t3 = [(tag, re.sub(r"^(C|D|RC|RD)?\d\d(0[1-9]|1[0-2])([0-2]\d|3[01])", lambda m: (m.group(1) or "") + y + m.group(2) + m.group(3), cn, count=1)
                       if tag in ("13D", "30", "32A", "32C", "32D", "60F", "60M", "62F", "62M", "64", "65", "61") else cn) for tag, cn in toks]
                if t3 != toks:
                    msgs.append((c, mtgen.rebuild(pre, t3, post), "window-year"))
            body_s = mtgen.render(toks)
            msgs.append((c, wrap(c, body_s, "{2:O%s1200260930BANKDEFFAXXX00000000002609301201N}" % c), "output-b2"))
            msgs.append((c, wrap(c, body_s, None, "{3:{103:EBA}{113:URGT}{108:MUR123}{119:STP}{121:7d1c3a2e-9c3b-4f5a-8d2e-1b2c3d4e5f60}}", "{5:{CHK:123456789ABC}{TNG:}}"), "b3-b5"))
            msgs.append((c, wrap(c, body_s, None, "{3:{108:}}", "{5:{MAC:00000000}{CHK:123456789ABC}{PDE:}}"), "b3-empty-108"))
            msgs.append((c, wrap(c, body_s, None, "{3:}", "{5:}"), "b3-b5-empty"))
            if name == lst[0][0]:
                # logical terminal addresses of every shape in block 1, block 2 input and the MIR of block 2 output: 8-character BIC
                # with padding, 11-character BIC with a branch code, terminal letter X, non-alphanumeric filler (the JSON codecs of the
                # headers are hand-written and keep the derived BIC beside the padded address)
                for lt in LTS:
                    msgs.append((c, wrap(c, body_s, h1="{1:F01%s0000123456}" % lt), "hdr-b1"))
                    msgs.append((c, wrap(c, body_s, "{2:I%s%sN}" % (c, lt)), "hdr-b2in"))
                    msgs.append((c, wrap(c, body_s, "{2:O%s1200260930%s00000000002609301201N}" % (c, lt)), "hdr-b2out"))
                msgs.append((c, wrap(c, body_s, "{2:I%sBNPAFRPPA123U3003}" % c, h1="{1:A21DEUTDEFF001A9999999999}"), "hdr-b1"))
    n = 40 if full else 8
    for c in mtgen.SUPPORTED:
        for k in range(n):
            try:
                toks, trace = specgen.generate("MT" + c, rng, rng.choice([0.2, 0.5, 0.9]), (0, 1, 2, 3) if full else (0, 1, 2))
            except Exception:
                continue
            msgs.append((c, wrap(c, mtgen.render(toks)), "spec"))
    cdir = os.path.join(ROOT, "corpus", PROP)
    for f in sorted(os.listdir(cdir)) if os.path.isdir(cdir) else []:
        if f.endswith(".mt"):
            text = open(os.path.join(cdir, f), encoding="utf-8").read()
            mm = re.search(r"\{2:[IO](\d{3})", text)
            msgs.insert(0, (mm.group(1) if mm else "103", text, "corpus:" + f))
    cases = []
    for c, text, origin in msgs:
        hx = hexs(text)
        cases += ["jrt\tMT%s\t%s" % (c, hx), "pparse\t%s" % hx]
    res = run_lib(ctx, cases, "c08")
    pub_cases, pub_meta = [], []
    accepted = 0
    for i, (c, text, origin) in enumerate(msgs):
        r, pp = res[2 * i], res[2 * i + 1]
        case = cases[2 * i]
        ctx.evaluations += 1
        if "panic" in r or "crash" in r:
            ctx.violations.append(("JSON round trip panicked (MT%s, %s): %s" % (c, origin, str(r)[:120]), case)); continue
        if not r.get("ok"):
            continue
        accepted += 1
        j = r["json"]
        paths = frozenset(re.sub(r"/\d+", "/*", p) for p, _ in walk(j))
        ctx.distinct.add((c, paths))
        def known_or_violation(kind, what, cs):
            if kind in kn:
                ctx.known_hits[kn[kind]] = ctx.known_hits.get(kn[kind], 0) + 1
            else:
                ctx.violations.append((what, cs))
        for via in ("via_value", "via_string"):
            b = r[via]
            if not b.get("ok"):
                known_or_violation("from_json_fails:" + via, "MT%s (%s): the JSON of the parsed message does not convert back (%s): %s" % (c, origin, via, b.get("display", "")[:160]), case)
                continue
            if not (b.get("json_equal") and b.get("fields_equal") and b.get("debug_equal")):
                ctx.violations.append(("MT%s (%s): message -> JSON -> message (%s) is not the same message (json_equal=%s fields_equal=%s debug_equal=%s)" % (c, origin, via, b.get("json_equal"), b.get("fields_equal"), b.get("debug_equal")), case))
            elif not b.get("mt_equal"):
                ctx.violations.append(("MT%s (%s): the message read back from its JSON serialises to a different MT text" % (c, origin), case))
        # shape oracles on the JSON itself
        for p, v in walk(j):
            if isinstance(v, float) and not math.isfinite(v):
                ctx.violations.append(("MT%s: non-finite number at %s" % (c, p), case))
            if isinstance(v, dict) and not v and p:
                # a block that is present and empty in the input ({3:} / {5:}) is not an absent element:
                # its empty object is the faithful image of the input, not a placeholder
                if (p == "/user_header" and "{3:}" in text) or (p == "/trailer" and "{5:}" in text):
                    continue
                known_or_violation("empty_object", "MT%s (%s): empty placeholder object at %s" % (c, origin, p), case)
            if isinstance(v, str) and v == "" and p.startswith("/fields") and p.split("/")[-1] not in ("content",):
                known_or_violation("empty_string:" + re.sub(r"/\d+", "", p), "MT%s (%s): empty string at %s for an absent or empty component" % (c, origin, p), case)
        # repeated sequences / fields in input order: the MT text printed from the value lists them in the JSON's order
        body_toks = [t for t, _ in mtgen.tokens(mtgen.split_message(r["mt"])[1])] if mtgen.split_message(r["mt"]) else []
        in_toks = [t for t, _ in mtgen.tokens(mtgen.split_message(text)[1])] if mtgen.split_message(text) else []
        # plugin: parse (JSON out) then publish that JSON: the same text as serialising directly
        if pp.get("ok") and isinstance(pp.get("json"), dict):
            pub_cases.append("ppublish\t%s\t%s" % (hexs("MT" + c), hexs(json.dumps(pp["json"]))))
            pub_meta.append((c, origin, r["mt"], case))
        elif not pp.get("ok"):
            ctx.violations.append(("MT%s (%s): typed parse accepts, the parse plugin fails: %s" % (c, origin, str(pp.get("display"))[:120]), cases[2 * i + 1]))
        if len(ctx.samples) < 4 and origin == "spec":
            ctx.samples.append({"type": c, "origin": origin, "json_keys": sorted(j.get("fields", j).keys())[:12]})
    pres = run_lib(ctx, pub_cases, "c08pub")
    for (c, origin, mt, case), r, pc in zip(pub_meta, pres, pub_cases):
        ctx.evaluations += 1
        if "panic" in r or "crash" in r:
            ctx.violations.append(("publish panicked (MT%s, %s)" % (c, origin), pc)); continue
        if not r.get("ok"):
            if "publish_fails" in kn:
                ctx.known_hits[kn["publish_fails"]] = ctx.known_hits.get(kn["publish_fails"], 0) + 1
            else:
                ctx.violations.append(("MT%s (%s): the JSON produced by the parse plugin is not accepted by the publish plugin: %s" % (c, origin, str(r.get("display"))[:160]), pc))
            continue
        got = r["mt"] if isinstance(r["mt"], str) else json.dumps(r["mt"])
        if got.replace("\r\n", "\n") != mt.replace("\r\n", "\n"):
            a, b = got.replace("\r\n", "\n"), mt.replace("\r\n", "\n")
            k = next((i for i in range(min(len(a), len(b))) if a[i] != b[i]), min(len(a), len(b)))
            ctx.violations.append(("MT%s (%s): publishing the JSON gives a different text than serialising the message: ...%r vs ...%r" % (c, origin, a[max(0, k - 25):k + 25], b[max(0, k - 25):k + 25]), pc))
    # field values: fparse's json_rt (from_value(to_value(v)) prints the same field)
    import fmtgen
    F = fmtgen.load()
    fcases, fmeta = [], []
    for T in sorted(F):
        for why, content in fmtgen.cases_for(rng, F[T]["fmt"], 25 if full else 8):
            if why == "valid":
                fcases.append("fparse_raw\t%s\t_\t%s" % (T, hexs(content))); fmeta.append((T, content))
    fres = run_lib(ctx, fcases, "c08f")
    facc = 0
    for (T, content), r, case in zip(fmeta, fres, fcases):
        ctx.evaluations += 1
        if r.get("ok"):
            facc += 1
            ctx.distinct.add((T, "field", content))
            if not r.get("json_rt"):
                if "field_json_rt" in kn and re.fullmatch(next(k for k in known if k["id"] == kn["field_json_rt"])["match"].get("type_re", ".*"), T):
                    ctx.known_hits[kn["field_json_rt"]] = ctx.known_hits.get(kn["field_json_rt"], 0) + 1
                else:
                    ctx.violations.append(("%s: the value parsed from %r does not come back from its JSON (or prints differently)" % (T, content[:40]), case))
            for p, v in walk(r.get("json")):
                if isinstance(v, float) and not math.isfinite(v):
                    ctx.violations.append(("%s: non-finite number in the JSON of %r" % (T, content[:40]), case))
    ctx.stats.update({"messages": len(msgs), "accepted": accepted, "published": len(pub_cases), "field_values": facc})
    return finish(ctx, level="proof", trusted=TRUSTED,
                  assumptions=["serde_json::Value equality is the equality of messages used for 'equal message' together with PartialEq on the body and the Debug rendering"])
