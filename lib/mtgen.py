"""Message text tools shared by the property modules: an independent, line-based reading of an
MT message (blocks, then block-4 tokens), rendering, and the mutation operators the properties'
quantifiers name.  This is test-input machinery (generator quality bounds the correspondence
check); it is never part of a theorem."""
import os, re

ROOT = "/verif"
SUPPORTED = ("101 103 104 107 110 111 112 190 191 192 196 199 200 202 204 205 210 290 291 292 296 299 "
             "900 910 920 935 940 941 942 950").split()

TAG_RE = re.compile(r"^:([0-9]{2}[A-Z]?):")


def load_seeds(types=None, names=None, limit=None):
    """{code: [(name, text)]} from corpus/seeds"""
    d = os.path.join(ROOT, "corpus", "seeds")
    out = {}
    for c in (types or SUPPORTED):
        fs = sorted(os.listdir(os.path.join(d, "MT" + c)))
        if names:
            fs = [f for f in fs if f[:-3] in names] or fs[:1]
        if limit:
            fs = fs[:limit]
        out[c] = [(f[:-3], open(os.path.join(d, "MT" + c, f), encoding="utf-8").read()) for f in fs]
    return out


def split_message(text):
    """-> (pre, block4 body lines, post): pre ends with '{4:\\n', post starts with '-}'"""
    i = text.find("{4:\n")
    j = text.find("\n-}", i)
    if i < 0 or j < 0:
        return None
    return text[:i + 4], text[i + 4:j], text[j + 1:]


def tokens(body):
    """line-based tokeniser: [(tag, content)] ; content keeps inner newlines"""
    toks = []
    for line in body.split("\n"):
        m = TAG_RE.match(line)
        if m:
            toks.append([m.group(1), line[m.end():]])
        elif toks:
            toks[-1][1] += "\n" + line
        else:
            toks.append(["", line])
    return [(t, c) for t, c in toks]


def render(toks):
    return "\n".join((":%s:%s" % (t, c)) if t else c for t, c in toks)


def rebuild(pre, toks, post):
    return pre + render(toks) + "\n" + post


CCY = ["USD", "EUR", "GBP", "JPY", "CHF", "BHD", "KWD", "XAU", "CLF"]


def mutate(rng, toks, kind=None):
    """one structural or content mutation of a token list; returns (kind, new toks) or None"""
    toks = list(toks)
    if not toks:
        return None
    kind = kind or rng.choice(["delete", "dup", "swap", "ccy", "code", "amount", "append", "insert_unknown", "corrupt", "dupseq"])
    i = rng.randrange(len(toks))
    if kind == "delete":
        del toks[i]
    elif kind == "dup":
        toks.insert(i, toks[i])
    elif kind == "swap" and len(toks) > 1:
        j = min(i + 1, len(toks) - 1)
        toks[i], toks[j] = toks[j], toks[i]
    elif kind == "ccy":
        cand = [k for k, (t, c) in enumerate(toks) if re.search(r"[A-Z]{3}\d+,", c)]
        if not cand:
            return None
        k = rng.choice(cand)
        t, c = toks[k]
        new = rng.choice(CCY)
        toks[k] = (t, re.sub(r"([A-Z]{3})(\d+,)", lambda m: new + m.group(2), c, count=1))
    elif kind == "code":
        cand = [k for k, (t, c) in enumerate(toks) if t in ("23B", "23E", "71A", "26T", "23", "25", "77B") or c.startswith("/")]
        if not cand:
            return None
        k = rng.choice(cand)
        t, c = toks[k]
        pool = {"23B": ["CRED", "CRTS", "SPAY", "SPRI", "SSTD"], "71A": ["BEN", "OUR", "SHA"],
                "23E": ["CHQB", "HOLD", "PHOB", "TELB", "SDVA", "INTC", "REPA", "CORT", "PHON", "TELE", "PHOI", "TELI", "RTND", "AUTH", "NAUT", "OTHR", "URGP", "CMTO", "EQUI"]}
        if t in pool:
            toks[k] = (t, rng.choice(pool[t]))
        else:
            toks[k] = (t, rng.choice(["/REJT/", "/RETN/", "/INS/", "/ACC/", "/BNF/"]) + c.lstrip("/"))
    elif kind == "amount":
        cand = [k for k, (t, c) in enumerate(toks) if re.search(r"\d+,\d*", c)]
        if not cand:
            return None
        k = rng.choice(cand)
        t, c = toks[k]
        new = rng.choice(["0,", "1,", "0,01", "999999999999,99", "12,345", "100,", "1,5"])
        toks[k] = (t, re.sub(r"\d+,\d*", new, c, count=1))
    elif kind == "append":
        toks.append(rng.choice([("79", "EXTRA NARRATIVE"), ("72", "/INS/EXTRA"), ("20", "EXTRAREF"), toks[i]]))
    elif kind == "insert_unknown":
        toks.insert(i, rng.choice([("99Z", "JUNK"), ("00", "X"), ("ZZ", "Y"), ("12", "999")]))
    elif kind == "corrupt":
        t, c = toks[i]
        toks[i] = (t, rng.choice(["", "!!!", c + "é", "X" * 80, c[: max(0, len(c) // 2)], "/" + c, c + "\n" + c]))
    elif kind == "morelines":
        # one to three further lines on a content (a parser that reads a fixed number of lines must reject, not drop them)
        t, c = toks[i]
        toks[i] = (t, c + "".join("\nEXTRA LINE %d" % (n + 1) for n in range(rng.choice([1, 2, 3]))))
    elif kind == "dupseq":
        # duplicate a run of fields (a sequence occurrence) starting at a 21 / 20 / 61 / 12
        starts = [k for k, (t, c) in enumerate(toks) if t in ("21", "20", "61", "12", "23", "25")]
        if len(starts) < 1:
            return None
        a = rng.choice(starts)
        nxt = [s for s in starts if s > a]
        b = nxt[0] if nxt else len(toks)
        toks[b:b] = toks[a:b]
    elif kind == "retag":
        # same field number, another / no / an added option letter: near-miss tags for the cursor's detection
        t, c = toks[i]
        m = re.fullmatch(r"(\d{2})([A-Z]?)", t)
        if not m:
            return None
        new = m.group(1) + rng.choice([l for l in ["", "A", "B", "C", "D", "F", "G", "H", "K", "L", "M", "P", "R", "S"] if l != m.group(2)])
        toks[i] = (new, c)
    elif kind == "copy":
        # a copy of a field placed anywhere else (e.g. a sequence-B field also in sequence A)
        toks.insert(rng.randrange(len(toks) + 1), toks[i])
    elif kind == "insert_sibling":
        # a copy of a field under a sibling tag, placed just before it
        t, c = toks[i]
        m = re.fullmatch(r"(\d{2})([A-Z]?)", t)
        if not m:
            return None
        new = m.group(1) + rng.choice([l for l in ["", "A", "B", "C", "D", "F", "G", "H", "K", "L", "M", "P", "R", "S"] if l != m.group(2)])
        toks.insert(i, (new, c))
    else:
        return None
    return kind, toks


def set_code(msg, code):
    return re.sub(r"\{2:([IO])\d{3}", lambda m: "{2:" + m.group(1) + code, msg, count=1)
