"""C03 — every well-formed message of a supported type is accepted and reproduced exactly."""
import json, os, re
from common import *
import mtgen, engine, specgen, spec2v

PROP = "C03"
COQ_TARGETS = ["Props/C03.vo"]
TRANSLATOR = ["layouts", "families"]

TRUSTED = [
    "Coq 8.16.1 kernel; no axioms",
    "proved (Props/C03.v): for 24 types the tag language of the independent specification is included in the language the regenerated layout accepts (unbounded; abstract interpreter Engine/Abs.v, soundness Engine/AbsSound.v, verdict recomputed on every run), for 5 open types the specification minus the listed deviations, with refutation witnesses for the open types; accepted texts are reproduced exactly; acceptance depends only on tags and parser verdicts",
    "hypothesis of the inclusion theorem on contents: every parser the layout may apply to a token's tag accepts it, a family accepts exactly its own letters (C14); the run counts the real parsers' answers for and against it (stats parser_answers_*); contents themselves are C05's subject",
    "lib/spec2v.py renders spec/mt_layouts.json and spec/mt_layouts_restricted.json into gen/Specs.v; tie: every generated specification message (generator lib/specgen.py reading the same JSON) is a word of the rendered expression, decided by the extracted matcher matchb (proved equal to the language)",
    "independent specification spec/mt_layouts.json (30 types) and spec/field_examples.json (87 tag/option keys), written by hand from SR2025; a transcription error there is a false alarm or a miss",
    "translator rs2v (layouts); the transcription of the byte-level extractor is tied by correspondence; that it realises the token cursor on canonical texts is proved (Engine/Factor.v) and every generated text of this stream is checked to be in that class",
]


def count_keys(j, key):
    n = 0
    if isinstance(j, dict):
        for k, v in j.items():
            if k == key:
                n += len(v) if isinstance(v, list) else 1
            n += count_keys(v, key)
    elif isinstance(j, list):
        for v in j:
            n += count_keys(v, key)
    return n


RESTRICTED = {k: v for k, v in json.load(open(os.path.join(ROOT, "spec", "mt_layouts_restricted.json"))).items() if k.startswith("MT")}

DIAG_CODES = {1: "analysis fuel", 2: "a mandatory field is not the next field", 3: "the duplicate check may fire", 4: "a parser's verdict is not known to be positive",
              6: "a fail statement is reachable", 7: "content may remain at the completeness check", 8: "loop state not inductive within the unrolling budget",
              9: "statement outside the analysed fragment"}


def diag_inclusion(ctx):
    """where does the abstract interpreter give up, per type not listed as open?  (Engine/AbsInstance.vo must exist)"""
    if not os.path.exists(os.path.join(COQ, "Engine", "AbsInstance.vo")):
        return {}
    v = ["From Coq Require Import Strings.String.", "From SwiftMT Require Import Base.Bytes Engine.Regex Engine.Abs Engine.AbsInstance gen.Specs.",
         "Local Open Scope string_scope.", "Local Open Scope list_scope.",
         "Eval vm_compute in map (fun p => (fst p, match why_type (fst p) with Ok o => (0, heads (a_cur (o_next o)) ++ heads (a_cur (o_break o))) | Fail c x => (c, x) end)) "
         "(filter (fun p => negb (mem (fst p) inclusion_open)) specs)."]
    path = os.path.join(ctx.work, "incl_diag.v")
    open(path, "w").write("\n".join(v) + "\n")
    rc, out, _ = sh("coqc -noglob -Q %s SwiftMT %s" % (COQ, path), timeout=600)
    flat = out.replace("\n", " ")
    def dec(m):
        try:
            return '"' + "".join(chr(int(x.replace("%N", "").strip())) for x in m.group(1).split(";")) + '"'
        except Exception:
            return m.group(0)
    flat = re.sub(r"\[((?:\s*\d+%N\s*;?)+)\]", dec, flat)
    res = {}
    for m in re.finditer(r'\("(MT\d{3})",\s*\((\d+),\s*\[(.*?)\]\)\)', flat):
        code = int(m.group(2))
        if code or m.group(3).strip():
            res[m.group(1)] = (code, re.sub(r"\s+", " ", m.group(3)).strip())
    return res


def run(ctx):
    ctx.rule = ("messages generated from the independent layout specification: optional fields in/out (p = 0.2/0.5/0.9), every option "
                "letter, 0..2 (thorough 0..3) repetitions of repetitive fields and sequences, each capped sequence at its maximum; "
                "contents = hand-written canonical examples; distinct = distinct (type, tag sequence)")
    spec2v.write_v(os.path.join(COQ, "gen"))      # the specification as tag expressions (gen/Specs.v)
    standard_front(ctx, __import__("c03"))
    rng = ctx.rng
    known, _ = load_known(PROP)
    # the inclusion theorem no longer checks: say where the analysis gives up and look much harder at those types
    suspects = {}
    if any("gen_inclusion_ok" in b or "AbsResult" in b for b in ctx.broken):
        suspects = diag_inclusion(ctx)
        for T, (code, where) in sorted(suspects.items()):
            ctx.broken.append("inclusion analysis: %s: %s [%s]" % (T, DIAG_CODES.get(code, "outcome other than acceptance possible"), where))
        ctx.stats["inclusion_suspects"] = {T: [c, w] for T, (c, w) in suspects.items()}
    n = 500 if ctx.tier == "thorough" else 30
    reps = (0, 1, 2, 3) if ctx.tier == "thorough" else (0, 1, 2)
    # "the library's own canonical spelling": every example is passed once through the field's own
    # parser and printer (by the type the message's layout uses for that tag); an example of the documented
    # format that the parser rejects is reported (it makes every message containing it a rejection)
    layouts = engine.load_layouts()
    flat = {T: engine.flatten(ss, []) for T, ss in layouts.items()}
    pre, pmeta = [], []
    for c in mtgen.SUPPORTED:
        for key, exs in specgen.EXAMPLES.items():
            if key.startswith("_"):
                continue
            for ty, lk in engine.candidates(flat["MT" + c], key):
                for e in exs:
                    pre.append("fparse\t%s\t%s\t%s" % (ty, lk, hexs(e))); pmeta.append((c, key, e))
    canon = {}
    for (c, key, e), r in zip(pmeta, run_lib(ctx, pre, "c03canon")):
        # only the spelling the property allows to differ (numbers, line endings, trailing blanks) is taken from the library;
        # an example the library would print differently in any other way stays as written, so that the difference shows
        if r.get("ok") and (r.get("printed") or {}).get("tag") == key and r.get("again_ser_equal") \
                and engine.canon_content(r["printed"]["content"]) == engine.canon_content(e):
            canon.setdefault((c, key, e), r["printed"]["content"])
    msgs, meta = [], []
    for c in mtgen.SUPPORTED:
        T = "MT" + c
        for k in range(n * (25 if T in suspects else 1)):
            toks, trace = specgen.generate(T, rng, rng.choice([0.2, 0.5, 0.9]), reps)
            toks = [(t, canon.get((c, t, cn), cn)) for t, cn in toks]
            msgs.append((c, "\n" + mtgen.render(toks) + "\n")); meta.append(("spec", toks))
        toks = [(t, canon.get((c, t, cn), cn)) for t, cn in specgen.max_repeat(T, rng)]
        msgs.append((c, "\n" + mtgen.render(toks) + "\n")); meta.append(("spec-max", toks))
        # the open types: words of the restricted specification (the part the library is proved to accept)
        if T in RESTRICTED:
            for k in range(n):
                toks, trace = [], []
                specgen.gen_items(RESTRICTED[T], rng, rng.choice([0.2, 0.5, 0.9]), reps, toks, trace)
                toks = [(t, canon.get((c, t, cn), cn)) for t, cn in toks]
                msgs.append((c, "\n" + mtgen.render(toks) + "\n")); meta.append(("spec-restricted", toks))
    for cdir in (os.path.join(ROOT, "corpus", PROP), os.path.join(ROOT, "corpus", PROP, "fixed")):
        for f in sorted(os.listdir(cdir)) if os.path.isdir(cdir) else []:
            if f.endswith(".b4"):
                text = open(os.path.join(cdir, f), encoding="utf-8").read()
                msgs.insert(0, (f[2:5], text)); meta.insert(0, ("corpus:" + f, mtgen.tokens(text.strip("\n"))))
    res = engine.run_engine(ctx, msgs, "c03")
    table = res[0]["table"] if res else {}
    acc = 0
    rej_by = {}
    for (c, text), (kind, toks), r in zip(msgs, meta, res):
        ctx.evaluations += 1
        lib, model = r["lib"], r["model"]
        replay = "body\tMT%s\t%s" % (c, hexs(text))
        tags = tuple(t for t, _ in toks)
        ctx.distinct.add((c, tags))
        if "panic" in lib or "crash" in lib:
            ctx.violations.append(("parse_from_block4 panicked on a well-formed MT%s: %s" % (c, str(lib)[:120]), replay)); continue
        lclass = "ACCEPT" if lib.get("ok") else engine.lib_error_class(lib)
        if not lib.get("ok"):
            # which token is the culprit (for attribution to listed findings)
            kid = None
            for k in known:
                m = k.get("match", {})
                if m.get("kind") == "spec_reject" and c in m.get("types", [c]):
                    if re.search(m.get("seq_re", ""), " ".join(tags)) and re.search(m.get("error_re", ""), lclass + " " + str(lib.get("display"))):
                        kid = k["id"]; break
            if kid:
                ctx.known_hits[kid] = ctx.known_hits.get(kid, 0) + 1
                wp = os.path.join(ROOT, "corpus", PROP, "MT%s_%s.b4" % (c, kid))
                if os.environ.get("VERIF_SAVE_WITNESS") and not [f for f in os.listdir(os.path.dirname(wp)) if f.endswith(kid + ".b4")]:
                    open(wp, "w", encoding="utf-8").write(text)
            else:
                rej_by.setdefault((c, lclass.split(",")[0]), 0)
                rej_by[(c, lclass.split(",")[0])] += 1
                ctx.stats.setdefault("rejection_samples", {}).setdefault("%s %s" % (c, lclass.split(",")[0]), " ".join(tags))
                ctx.violations.append(("well-formed MT%s rejected: %s | tags %s" % (c, (lclass + " " + str(lib.get("display")))[:200], " ".join(tags)), replay))
        else:
            acc += 1
            out = lib["block4"].replace("\r\n", "\n")
            if out != text.strip("\n"):
                kid = None
                in_toks = [(t, cn) for t, cn in toks]
                out_toks = engine.body_tokens(lib["block4"])
                # every differing field must be explained by a listed finding (by tag, and by the shape of the change when given)
                if len(in_toks) == len(out_toks):
                    diffs = [(a, b) for a, b in zip(in_toks, out_toks) if a != b and not (a[0] == b[0] and engine.canon_content(a[1]) == engine.canon_content(b[1]))]
                    kids = []
                    for a, b in diffs:
                        hit1 = None
                        for k in known:
                            m = k.get("match", {})
                            if m.get("kind") == "spec_reprint" and a[0] == b[0] and re.fullmatch(m["tag_re"], a[0]):
                                if m.get("rule") == "comma_dropped" and re.sub(r"(\d),(?!\d)", r"\1", a[1]) != b[1]:
                                    continue
                                hit1 = k["id"]; break
                        kids.append(hit1)
                    if diffs and all(kids):
                        kid = kids[0]
                        for extra in kids[1:]:
                            ctx.known_hits[extra] = ctx.known_hits.get(extra, 0) + 1
                    elif not diffs:
                        kid = "_same"
                if kid == "_same":
                    pass
                elif kid:
                    ctx.known_hits[kid] = ctx.known_hits.get(kid, 0) + 1
                    wp = os.path.join(ROOT, "corpus", PROP, "MT%s_%s.b4" % (c, kid))
                    if os.environ.get("VERIF_SAVE_WITNESS") and not [f for f in os.listdir(os.path.dirname(wp)) if f.endswith(kid + ".b4")]:
                        open(wp, "w", encoding="utf-8").write(text)
                else:
                    d = [(a, b) for a, b in zip(text.strip("\n").split("\n"), out.split("\n")) if a != b][:2]
                    ctx.violations.append(("well-formed MT%s accepted but not reproduced byte for byte: %s" % (c, d), replay))
        if model is not None:
            mclass = engine.model_class(model)
            if mclass != lclass:
                ctx.disagreements.append({"type": "MT" + c, "model": mclass, "library": lclass, "replay": replay})
        if len(ctx.samples) < 4:
            ctx.samples.append({"type": "MT" + c, "tags": " ".join(tags), "library": lclass})
    # ---- the tie of the inclusion theorem (Props/C03.v, C03_specification_is_accepted):
    # (1) the Coq rendering of spec/mt_layouts.json and the generator read the same language: every generated message is
    #     a word of the type's expression (decided by the extracted matcher, proved equal to the language);
    # (2) how many tokens satisfy the theorem's hypothesis on contents (every plain parser the layout may apply accepts,
    #     a family accepts exactly its own letters), measured on the real parsers' answers
    spec_idx = [i for i, (kind, _) in enumerate(meta) if kind.startswith("spec")]
    mcases = ["specmatch\t%s\t%s" % (hexs("MT" + msgs[i][0]), ";".join(hexs(t) for t, _ in meta[i][1])) for i in spec_idx]
    mres = run_model(ctx, mcases, "c03.member") if mcases else []
    non_members = [(i, l) for i, l in zip(spec_idx, mres) if not (l or "").startswith("MEMBER\t1")]
    if non_members:
        i, l = non_members[0]
        ctx.broken.append("correspondence: %d generated specification message(s) are not words of gen/Specs.v (first: MT%s %s -> %s)" % (len(non_members), msgs[i][0], " ".join(t for t, _ in meta[i][1]), l))
    fam = json.load(open(os.path.join(COQ, "gen", "families.json")))
    alias = dict(fam.get("_aliases", []))
    def expected(ty, lk):
        if lk == "_":
            return True
        f = fam.get(alias.get(ty, ty))
        if not f or not f.get("has_pwv"):
            return None
        letter = lk[1:] or None
        return any(a[0] == letter for a in f["arms"])
    good = bad = 0
    bad_samples = {}
    proved_accepted = proved_total = 0
    for i, l in zip(spec_idx, mres):
        r = res[i]
        allgood = True
        for (ty, lk, cn) in r["need"]:
            if (ty, lk, cn) not in table:
                continue
            e = expected(ty, lk)
            if e is None or bool(table[(ty, lk, cn)].get("ok")) == e:
                good += 1
            else:
                bad += 1; allgood = False
                bad_samples.setdefault("%s %s" % (ty, lk), cn[:40])
        if ((l or "").endswith("proved") or meta[i][0] == "spec-restricted") and allgood:
            proved_total += 1
            if r["lib"].get("ok"):
                proved_accepted += 1
    ctx.stats.update({"spec_messages_checked_as_words": len(mcases), "parser_answers_matching_hypothesis": good,
                      "parser_answers_against_hypothesis": bad, "against_hypothesis_samples": dict(list(bad_samples.items())[:8]),
                      "messages_in_theorem_scope": proved_total, "of_which_library_accepts": proved_accepted})
    if ctx.disagreements:
        ctx.broken.append("correspondence: stream spec: %d disagreement(s), first: %s" % (len(ctx.disagreements), json.dumps({k: v for k, v in ctx.disagreements[0].items() if k != "replay"})[:300]))
    ctx.stats.update({"generated": len(msgs), "accepted": acc, "rejections_not_listed": {"%s %s" % k: v for k, v in rej_by.items()}})
    return finish(ctx, level="proof", trusted=TRUSTED,
                  assumptions=["the hand-written SR2025 transcription is right; each rejection of a specification message was replayed and read against the standard before being listed as a finding"])
