"""C03 — every well-formed message of a supported type is accepted and reproduced exactly."""
import json, os, re
from common import *
import mtgen, engine, specgen

PROP = "C03"
COQ_TARGETS = ["Props/C03.vo"]
TRANSLATOR = ["layouts"]

TRUSTED = [
    "Coq 8.16.1 kernel; no axioms",
    "PARTIAL: proved = acceptance depends only on the tag sequence and the field parsers' verdicts, and accepted texts are reproduced exactly (Props/C03.v); NOT proved = inclusion of the specification's tag language in the accepted language; that part is enumeration of structures (bounded repetitions) on the library and the extracted model",
    "independent specification spec/mt_layouts.json (30 types) and spec/field_examples.json (87 tag/option keys), written by hand from SR2025; a transcription error there is a false alarm or a miss",
    "translator rs2v (layouts); the transcription of the byte-level extractor is tied by correspondence; that it realises the token cursor on canonical texts is proved (Engine/Factor.v) and every generated text of this stream is checked to be in that class",
]


def count_keys(j, key):
    n = 0
    if isinstance(j, dict):
        for k, v in j.items():
            if k == key:
                n += len(v) if isinstance(v, list) else 1
            n += count_keys(v, key)
    elif isinstance(j, list):
        for v in j:
            n += count_keys(v, key)
    return n


def run(ctx):
    ctx.rule = ("messages generated from the independent layout specification: optional fields in/out (p = 0.2/0.5/0.9), every option "
                "letter, 0..2 (thorough 0..3) repetitions of repetitive fields and sequences, each capped sequence at its maximum; "
                "contents = hand-written canonical examples; distinct = distinct (type, tag sequence)")
    standard_front(ctx, __import__("c03"))
    rng = ctx.rng
    known, _ = load_known(PROP)
    n = 150 if ctx.tier == "thorough" else 30
    reps = (0, 1, 2, 3) if ctx.tier == "thorough" else (0, 1, 2)
    # "the library's own canonical spelling": every example is passed once through the field's own
    # parser and printer (by the type the message's layout uses for that tag); an example of the documented
    # format that the parser rejects is reported (it makes every message containing it a rejection)
    layouts = engine.load_layouts()
    flat = {T: engine.flatten(ss, []) for T, ss in layouts.items()}
    pre, pmeta = [], []
    for c in mtgen.SUPPORTED:
        for key, exs in specgen.EXAMPLES.items():
            if key.startswith("_"):
                continue
            for ty, lk in engine.candidates(flat["MT" + c], key):
                for e in exs:
                    pre.append("fparse\t%s\t%s\t%s" % (ty, lk, hexs(e))); pmeta.append((c, key, e))
    canon = {}
    for (c, key, e), r in zip(pmeta, run_lib(ctx, pre, "c03canon")):
        if r.get("ok") and (r.get("printed") or {}).get("tag") == key and r.get("again_ser_equal"):
            canon.setdefault((c, key, e), r["printed"]["content"])
    msgs, meta = [], []
    for c in mtgen.SUPPORTED:
        T = "MT" + c
        for k in range(n):
            toks, trace = specgen.generate(T, rng, rng.choice([0.2, 0.5, 0.9]), reps)
            toks = [(t, canon.get((c, t, cn), cn)) for t, cn in toks]
            msgs.append((c, "\n" + mtgen.render(toks) + "\n")); meta.append(("spec", toks))
        toks = [(t, canon.get((c, t, cn), cn)) for t, cn in specgen.max_repeat(T, rng)]
        msgs.append((c, "\n" + mtgen.render(toks) + "\n")); meta.append(("spec-max", toks))
    for cdir in (os.path.join(ROOT, "corpus", PROP), os.path.join(ROOT, "corpus", PROP, "fixed")):
        for f in sorted(os.listdir(cdir)) if os.path.isdir(cdir) else []:
            if f.endswith(".b4"):
                text = open(os.path.join(cdir, f), encoding="utf-8").read()
                msgs.insert(0, (f[2:5], text)); meta.insert(0, ("corpus:" + f, mtgen.tokens(text.strip("\n"))))
    res = engine.run_engine(ctx, msgs, "c03")
    table = res[0]["table"] if res else {}
    acc = 0
    rej_by = {}
    for (c, text), (kind, toks), r in zip(msgs, meta, res):
        ctx.evaluations += 1
        lib, model = r["lib"], r["model"]
        replay = "body\tMT%s\t%s" % (c, hexs(text))
        tags = tuple(t for t, _ in toks)
        ctx.distinct.add((c, tags))
        if "panic" in lib or "crash" in lib:
            ctx.violations.append(("parse_from_block4 panicked on a well-formed MT%s: %s" % (c, str(lib)[:120]), replay)); continue
        lclass = "ACCEPT" if lib.get("ok") else engine.lib_error_class(lib)
        if not lib.get("ok"):
            # which token is the culprit (for attribution to listed findings)
            kid = None
            for k in known:
                m = k.get("match", {})
                if m.get("kind") == "spec_reject" and c in m.get("types", [c]):
                    if re.search(m.get("seq_re", ""), " ".join(tags)) and re.search(m.get("error_re", ""), lclass + " " + str(lib.get("display"))):
                        kid = k["id"]; break
            if kid:
                ctx.known_hits[kid] = ctx.known_hits.get(kid, 0) + 1
                wp = os.path.join(ROOT, "corpus", PROP, "MT%s_%s.b4" % (c, kid))
                if os.environ.get("VERIF_SAVE_WITNESS") and not [f for f in os.listdir(os.path.dirname(wp)) if f.endswith(kid + ".b4")]:
                    open(wp, "w", encoding="utf-8").write(text)
            else:
                rej_by.setdefault((c, lclass.split(",")[0]), 0)
                rej_by[(c, lclass.split(",")[0])] += 1
                ctx.stats.setdefault("rejection_samples", {}).setdefault("%s %s" % (c, lclass.split(",")[0]), " ".join(tags))
                ctx.violations.append(("well-formed MT%s rejected: %s | tags %s" % (c, (lclass + " " + str(lib.get("display")))[:200], " ".join(tags)), replay))
        else:
            acc += 1
            out = lib["block4"].replace("\r\n", "\n")
            if out != text.strip("\n"):
                kid = None
                in_toks = [(t, cn) for t, cn in toks]
                out_toks = engine.body_tokens(lib["block4"])
                for k in known:
                    m = k.get("match", {})
                    if m.get("kind") == "spec_reprint" and len(in_toks) == len(out_toks):
                        diff = [a[0] for a, b in zip(in_toks, out_toks) if a != b]
                        if diff and all(re.fullmatch(m["tag_re"], t) for t in diff):
                            kid = k["id"]; break
                if kid:
                    ctx.known_hits[kid] = ctx.known_hits.get(kid, 0) + 1
                    wp = os.path.join(ROOT, "corpus", PROP, "MT%s_%s.b4" % (c, kid))
                    if os.environ.get("VERIF_SAVE_WITNESS") and not [f for f in os.listdir(os.path.dirname(wp)) if f.endswith(kid + ".b4")]:
                        open(wp, "w", encoding="utf-8").write(text)
                else:
                    d = [(a, b) for a, b in zip(text.strip("\n").split("\n"), out.split("\n")) if a != b][:2]
                    ctx.violations.append(("well-formed MT%s accepted but not reproduced byte for byte: %s" % (c, d), replay))
        if model is not None:
            mclass = engine.model_class(model)
            if mclass != lclass:
                ctx.disagreements.append({"type": "MT" + c, "model": mclass, "library": lclass, "replay": replay})
        if len(ctx.samples) < 4:
            ctx.samples.append({"type": "MT" + c, "tags": " ".join(tags), "library": lclass})
    if ctx.disagreements:
        ctx.broken.append("correspondence: stream spec: %d disagreement(s), first: %s" % (len(ctx.disagreements), json.dumps({k: v for k, v in ctx.disagreements[0].items() if k != "replay"})[:300]))
    ctx.stats.update({"generated": len(msgs), "accepted": acc, "rejections_not_listed": {"%s %s" % k: v for k, v in rej_by.items()}})
    return finish(ctx, level="proof", trusted=TRUSTED,
                  assumptions=["the hand-written SR2025 transcription is right; each rejection of a specification message was replayed and read against the standard before being listed as a finding"])
