"""C13 — validation entry points are coherent, order-stable and side-effect free."""
import json, os, re
from common import *
import mtgen

PROP = "C13"
COQ_TARGETS = ["Props/C13.vo"]
TRANSLATOR = ["dispatch", "validators"]
# of the dispatch tables this property uses the two validation tables only
TRANSLATOR_RELEVANT = {"dispatch": r"validate|Validate|ParsedSwiftMessage|parsed_message"}

TRUSTED = [
    "Coq 8.16.1 kernel (coqc), vm_compute for gen_shapes_ok / gen_adapters_ok; no axioms (every theorem: Closed under the global context)",
    "translator rs2v module `validators`: determinism scan of every non-test function of the 30 message files except the codecs (parse_from_block4, to_mt_string): flags iteration over std HashSet/HashMap values (membership-only use is order-free and accepted), clock, RNG and interior mutability; it is syntactic and per file: helper code outside src/messages is not scanned",
    "translator rs2v module `validators`: reads the statement sequence of all 30 validate_network_rules bodies (two early-return idioms, callee order, whether the flag is passed), the body shape of callees that receive the flag, SwiftMessage::validate, the trait delegation, plugin validate_mt_message",
    "the rule functions themselves are universally quantified in the theorem (any Option / Vec result); a callee that receives the flag is modelled by its list of candidate errors, justified by the push/return shape the translator checks",
    "correspondence/oracle: the library's four entry points on generated valid and rule-violating messages (prefix, emptiness, adapters, repeat call, Debug unchanged)",
]


def run(ctx):
    ctx.rule = ("rule-violating bodies of all 30 types from the C04 enumeration (JSON level: presence toggles per sequence, codes, currencies, sums, "
                "repetition counts; many violate several rules at once), validated as values and again as MT text through SwiftMessage::validate, "
                "the auto-detected wrapper and the plugin; plus messages = shipped-scenario seeds of all 30 types and structural/content mutants of them that still parse "
                "(delete/duplicate/swap fields, duplicate sequence occurrences, change currencies, codes, amounts); "
                "non-trivial = at least one rule error reported; distinct = distinct (type, full code list, stop code list)")
    standard_front(ctx, __import__("c13"))
    rng = ctx.rng
    seeds = mtgen.load_seeds(limit=None if ctx.tier == "thorough" else 3)
    nmut = 60 if ctx.tier == "thorough" else 25
    msgs = []
    for c, lst in seeds.items():
        for name, text in lst:
            msgs.append((c, text, "seed:%s/%s" % (c, name)))
            sp = mtgen.split_message(text)
            if not sp:
                continue
            pre, body, post = sp
            toks = mtgen.tokens(body)
            for k in range(nmut):
                t2 = toks
                kinds = []
                for _ in range(rng.choice([1, 1, 2, 3, 5])):
                    r = mtgen.mutate(rng, t2, rng.choice(["delete", "dup", "ccy", "code", "amount", "dupseq", "swap", "ccy", "code", "copy", "copy"]))
                    if r:
                        kinds.append(r[0]); t2 = r[1]
                if kinds:
                    msgs.append((c, mtgen.rebuild(pre, t2, post), "mut:%s/%s:%s" % (c, name, "+".join(kinds))))
    # regression corpus (minimised earlier failures) runs with the generated messages
    cdir = os.path.join(ROOT, "corpus", PROP)
    for f in sorted(os.listdir(cdir)) if os.path.isdir(cdir) else []:
        if f.endswith(".mt"):
            text = open(os.path.join(cdir, f), encoding="utf-8").read()
            mm = re.search(r"\{2:[IO](\d{3})", text)
            msgs.insert(0, (mm.group(1) if mm else "103", text, "corpus:" + f))
    cases, idx = [], []
    for mi, (c, m, origin) in enumerate(msgs):
        hx = hexs(m)
        cases.append("typed\tMT%s\t%s" % (c, hx)); idx.append((mi, "typed"))
        cases.append("auto\t%s" % hx); idx.append((mi, "auto"))
        cases.append("pvalidate\t%s" % hx); idx.append((mi, "pvalidate"))
    res = run_lib(ctx, cases, "c13")
    by = {}
    for (mi, op), r in zip(idx, res):
        by.setdefault(mi, {})[op] = r
    known, _ = load_known(PROP)
    parsed = 0
    multi = 0
    dist = {}

    def viol(what, mi, op="typed"):
        c, m, origin = msgs[mi]
        ctx.violations.append(("%s [%s]" % (what, origin), "%s\tMT%s\t%s" % (op, c, hexs(m)) if op == "typed" else "%s\t%s" % (op, hexs(m))))

    def is_prefix(a, b):
        return len(a) <= len(b) and b[:len(a)] == a

    for mi, (c, m, origin) in enumerate(msgs):
        R = by[mi]
        t, a, pv = R["typed"], R["auto"], R["pvalidate"]
        ctx.evaluations += 1
        for op, r in R.items():
            if "panic" in r or "crash" in r:
                viol("%s panicked: %s" % (op, str(r)[:160]), mi, op)
        if not t.get("ok"):
            if pv.get("ok") and pv.get("valid") is not False:
                viol("plugin reports an unparsable message valid", mi, "pvalidate")
            continue
        parsed += 1
        full, stop = t["rules_json"], t["rules_stop_json"]
        codes = t["rules"]
        key = (c, tuple(codes), tuple(t["rules_stop"]))
        dist[",".join(codes) or "-"] = dist.get(",".join(codes) or "-", 0) + 1
        if codes:
            ctx.distinct.add(key)
        if len(codes) > 1:
            multi += 1
        if len(ctx.samples) < 6 and len(codes) > 1:
            ctx.samples.append({"origin": origin, "full": codes, "stop": t["rules_stop"]})
        if not is_prefix(stop, full):
            viol("stop-on-first-error list %s is not a prefix of the full list %s" % (t["rules_stop"], codes), mi)
        if (stop == []) != (full == []):
            viol("stop list empty=%s but full list empty=%s" % (stop == [], full == []), mi)
        if t["rules_json_again"] != full or t["rules_stop_json_again"] != stop:
            viol("validating the same message again gives different errors: %s vs %s" % (json.dumps(full)[:200], json.dumps(t["rules_json_again"])[:200]), mi)
        if not t.get("unchanged_by_validation"):
            viol("validation changed the message", mi)
        if t["is_valid"] != (full == []) or t["validate_rule_names"] != codes:
            viol("SwiftMessage::validate (%s, %s) disagrees with the full list %s" % (t["is_valid"], t["validate_rule_names"], codes), mi)
        if not a.get("ok") or a.get("is_valid") != t["is_valid"] or a.get("validate_rule_names") != t["validate_rule_names"]:
            viol("auto-detected wrapper validate() disagrees with typed validate(): %s" % str(a)[:160], mi, "auto")
        if not (pv.get("ok") and pv.get("valid") == (full == []) and len(pv.get("errors") or []) == len(full)):
            viol("plugin verdict %s / %d errors disagrees with the full list %s" % (pv.get("valid"), len(pv.get("errors") or []), codes), mi, "pvalidate")
    # ---- rule-violating bodies built by the C04 enumeration (JSON level), then the same bodies as MT text through every adapter
    import c04
    jcases, jmeta = c04.gen_cases(ctx, rng, ctx.tier == "thorough", scale=0.5)
    jres = run_lib(ctx, jcases, "c13j")
    tcases, tmeta = [], []
    jmulti = 0
    pt = {}
    for (c, label), r, case in zip(jmeta, jres, jcases):
        ctx.evaluations += 1
        if "panic" in r or "crash" in r:
            continue      # C04 / C07 matter
        if not r.get("ok"):
            continue
        full, stop, again = r["rules_json"], r["rules_stop_json"], r["rules_json_again"]
        codes = c04.errs(full)
        if codes:
            ctx.distinct.add((c, tuple(codes), tuple(c04.errs(stop))))
            dist[",".join(x.split(":")[0] for x in codes)] = dist.get(",".join(x.split(":")[0] for x in codes), 0) + 1
        if len(codes) > 1:
            jmulti += 1
        if not is_prefix(stop, full):
            ctx.violations.append(("MT%s (%s): stop-on-first-error list %s is not a prefix of the full list %s" % (c, label, c04.errs(stop), codes), case))
        if (stop == []) != (full == []):
            ctx.violations.append(("MT%s (%s): stop list empty=%s but full list empty=%s" % (c, label, stop == [], full == []), case))
        if again != full:
            ctx.violations.append(("MT%s (%s): validating the same value again gives %s, first %s" % (c, label, c04.errs(again), codes), case))
        pt[c] = pt.get(c, 0) + (1 if codes and r.get("mt") else 0)
        if codes and r.get("mt") and pt[c] <= (600 if ctx.tier == "thorough" else 120):
            text = "{1:F01BANKDEFFAXXX0000000000}{2:I%sBANKUS33XXXXN}{4:\n%s\n-}" % (c, r["mt"].replace("\r\n", "\n").strip("\n"))
            hx = hexs(text)
            tcases += ["typed\tMT%s\t%s" % (c, hx), "auto\t%s" % hx, "pvalidate\t%s" % hx]; tmeta.append((c, label, codes))
    tres = run_lib(ctx, tcases, "c13t")
    reparsed = 0
    for i, (c, label, codes) in enumerate(tmeta):
        t, a, pv = tres[3 * i], tres[3 * i + 1], tres[3 * i + 2]
        case = tcases[3 * i]
        if not t.get("ok"):
            continue
        reparsed += 1
        full = t["rules_json"]
        if not is_prefix(t["rules_stop_json"], full) or (t["rules_stop_json"] == []) != (full == []):
            ctx.violations.append(("MT%s (%s): stop list %s vs full list %s" % (c, label, t["rules_stop"], t["rules"]), case))
        if t["is_valid"] != (full == []) or t["validate_rule_names"] != t["rules"]:
            ctx.violations.append(("MT%s (%s): SwiftMessage::validate (%s, %s) disagrees with the full list %s" % (c, label, t["is_valid"], t["validate_rule_names"], t["rules"]), case))
        if not a.get("ok") or a.get("is_valid") != t["is_valid"] or a.get("validate_rule_names") != t["validate_rule_names"]:
            ctx.violations.append(("MT%s (%s): auto-detected wrapper validate() disagrees with typed validate(): %s" % (c, label, str(a)[:120]), tcases[3 * i + 1]))
        if not (pv.get("ok") and pv.get("valid") == (full == []) and len(pv.get("errors") or []) == len(full)):
            ctx.violations.append(("MT%s (%s): plugin verdict %s / %d errors disagrees with the full list %s" % (c, label, pv.get("valid"), len(pv.get("errors") or []), t["rules"]), tcases[3 * i + 2]))
    ctx.stats.update({"json_bodies": len(jcases), "json_bodies_with_2plus_errors": jmulti, "rule_violating_texts_through_adapters": reparsed})
    ctx.stats.update({"messages": len(msgs), "parsed": parsed, "with_2plus_errors": multi,
                      "error_code_sets": dict(sorted(dist.items(), key=lambda kv: -kv[1])[:40])})
    if not ctx.samples:
        ctx.samples = [{"origin": msgs[0][2], "full": by[0]["typed"].get("rules")}]
    return finish(ctx, level="proof", trusted=TRUSTED,
                  assumptions=["rule functions are pure functions of the message (no interior mutability, no global state); checked only by the repeat-call and Debug-unchanged observations",
                               "helper code outside src/messages (parser/utils.rs, field methods) is assumed deterministic; observed by the repeat-call comparison (7 repetitions)"])
