#!/usr/bin/env python3
"""prints the prompt given to a fresh sub-agent for seeding a property-breaking change"""
import json, sys
pid, wt, n = sys.argv[1], sys.argv[2], (sys.argv[3] if len(sys.argv) > 3 else "2")
for l in open('/verif/properties.jsonl'):
    p = json.loads(l)
    if p['id'] == pid:
        break
print(f"""You are working in a scratch git worktree of the Rust library GoPlasmatic/SwiftMTMessage at {wt} (a SWIFT MT message parser/serializer/validator). Work ONLY inside {wt}; do not touch /repo or /verif, and do not read anything under /verif. The sandbox has no network: always use `cargo ... --offline` (CARGO_NET_OFFLINE=true). Set CARGO_TARGET_DIR={wt}/target for every cargo command.

Here is a semantic property that the library is supposed to satisfy:

TITLE: {p['title']}
STATEMENT: {p['statement']}
QUANTIFIER: {p['quantifier']['text']}
RELEVANT FILES: {', '.join(p['anchors']['files'])}

Your task: produce {n} DIFFERENT, independent source changes ("mutants") to the library, each of which
 (a) still compiles,
 (b) still passes the complete existing test suite (`cargo test --offline` in {wt}: 274 unit tests + 1 end-to-end test + doc tests) — you must actually run it and confirm,
 (c) makes the library violate the property above in a way it did not before the change, and
 (d) is REALISTIC and SUBTLE: the kind of bug a maintainer could introduce during a refactor or an "optimisation". It must need something specific to manifest — an unusual input, a particular multi-step sequence of operations, a boundary value, or two cooperating sites that each look fine alone — not something ordinary use would expose at once. Do not add obviously malicious code, special-case magic constants without a plausible reason, or comments that reveal the bug.

Note: the unchanged library may already violate the property for some inputs; that does not matter. Your change must introduce a NEW violation: your demonstration must PASS on the unchanged code and FAIL with your change.

For each mutant k (1..{n}) deliver, in the directory {wt}/_out/m<k>/:
  - patch.diff : `git diff` of the change against HEAD (source changes under src/ only; no test edits),
  - demo.rs    : a demonstration, written as an integration test file that can be dropped into {wt}/tests/ (uses only the public API of the crate `swift_mt_message`), which passes without the change and fails with it,
  - meta.json  : {{"property": "{pid}", "summary": "...one paragraph: what was changed and why the property breaks...", "needs": "...what specific input/sequence is needed for it to manifest...", "ran": ["...the commands you ran and their outcome..."]}}.
Work on one mutant at a time: apply, build, run the full test suite, run the demo (must fail), `git stash`/revert, run the demo on clean code (must pass). Leave the worktree clean (git checkout -- . ; remove your demo from tests/) at the end, but keep {wt}/_out. Finally reply with a short summary of each mutant (file, idea, what input triggers it).""")
