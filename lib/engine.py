"""Shared pipeline for the text-block engine streams (C01, C02, C03, C09): for a list of
(message type, block-4 text) it runs
  1. the real field parsers on every (field type, option letter, content) the layout could ask
     for (this instantiates the model's parameter `fparse`),
  2. the extracted byte-level model (Engine/Extract.v + Engine/Layout.v on the regenerated layout),
  3. the library's parse_from_block4 / to_mt_string / re-parse,
and returns all three, canonicalised."""
import json, os, re
from common import *
import mtgen

LETTERS7 = ["A", "B", "C", "D", "F", "K", "L"]


def load_layouts():
    return json.load(open(os.path.join(COQ, "gen", "layouts.json")))


def flatten(ss, out):
    for s in ss:
        op = s["op"]
        if op in ("req", "opt", "reqv", "optv"):
            out.append(s)
        for k in ("body", "then", "else", "default"):
            if k in s:
                flatten(s[k], out)
        for a in s.get("arms", []):
            flatten(a["body"], out)
        if "call" in s:
            flatten([s["call"]], out)
    return out


def candidates(layout_flat, tag):
    """(field type/family, letter key) pairs a layout may use for a token with this tag"""
    c = []
    for s in layout_flat:
        if s["op"] in ("req", "opt"):
            if s["tag"] == tag:
                c.append((s["ty"], "_"))
        else:
            b = s["base"]
            if tag == b:
                c.append((s["fam"], "="))
            elif tag.startswith(b) and tag[len(b):] in LETTERS7:
                c.append((s["fam"], "=" + tag[len(b):]))
    return sorted(set(c))


def lib_error_class(r):
    """canonical error class of a library ParseError (serde JSON of the enum)"""
    e = r.get("err")
    if not isinstance(e, dict) or not e:
        return "Other(%s)" % str(e)[:60]
    k, v = next(iter(e.items()))
    if k == "MissingRequiredField":
        return "Missing(%s)" % v.get("field_tag")
    if k == "InvalidFieldFormat":
        return "BadField(%s,%s)" % (v.get("field_tag"), hexs(v.get("value", "")))
    if k == "InvalidFormat":
        m = v.get("message", "")
        if m.startswith("Duplicate field: "):
            return "Duplicate(%s)" % m[len("Duplicate field: "):]
        if m.startswith("Unparsed content remaining"):
            return "Unparsed"
        return "Failed"
    return "Other(%s)" % k


def model_class(line):
    if line is None:
        return None
    if line.startswith("ACCEPT"):
        return "ACCEPT"
    if line.startswith("REJECT\t"):
        e = line.split("\t", 1)[1]
        if e.startswith("Failed("):
            return "Failed"
        return e
    return line.split("\t")[0]


def model_items(line):
    """[(ty, letterkey, tag, content str)]"""
    parts = line.split("\t")
    if len(parts) < 2 or not parts[1]:
        return []
    out = []
    for it in parts[1].split(";"):
        ty, l, tag, hc = it.split("|")
        out.append((ty, l, tag, bytes.fromhex(hc).decode("utf-8", "replace")))
    return out


def run_engine(ctx, msgs, name="eng", rounds=8):
    """msgs: list of (MTnnn code, block4 text).  returns list of dicts:
       {lib: <harness body result>, model: <runner line>, table: {(ty,lk,content): fparse result}}"""
    layouts = load_layouts()
    flat = {T: flatten(ss, []) for T, ss in layouts.items()}
    # 1. candidate field parses
    need = [set() for _ in msgs]
    for i, (c, text) in enumerate(msgs):
        fl = flat.get("MT" + c, [])
        # candidate contents exactly as the extractor would cut them: lines split at \n only, inner \r kept,
        # trailing \n run then trailing \r run removed
        for tag, content in mtgen.tokens(text):
            tag = tag.rstrip("\r")
            cn = content.rstrip("\n")
            if cn.endswith("\n-") or cn.endswith("\n-\r"):
                cn = cn[:cn.rfind("\n-")]
            cn = cn.rstrip("\n").rstrip("\r")
            for ty, lk in candidates(fl, tag):
                need[i].add((ty, lk, cn))
    table = {}
    lib = run_lib(ctx, ["body\tMT%s\t%s" % (c, hexs(t)) for c, t in msgs], name + ".lib")
    model = [None] * len(msgs)
    for rnd in range(rounds):
        allneed = sorted(set().union(*need) - set(table)) if need else []
        if allneed:
            res = run_lib(ctx, ["fparse\t%s\t%s\t%s" % (ty, lk, hexs(cn)) for ty, lk, cn in allneed], name + ".fp%d" % rnd)
            for k, r in zip(allneed, res):
                table[k] = r
        todo = [i for i in range(len(msgs)) if model[i] is None or model[i].startswith("NEED")]
        if not todo:
            break
        cases = []
        for i in todo:
            c, text = msgs[i]
            tb = ";".join("%s|%s|%s|%d" % (ty, lk, hexs(cn), 1 if table[(ty, lk, cn)].get("ok") else 0) for ty, lk, cn in sorted(need[i]))
            cases.append("msg\t%s\t%s\t%s" % (hexs("MT" + c), hexs(text), tb))
        out = run_model(ctx, cases, name + ".model%d" % rnd)
        for i, l in zip(todo, out):
            model[i] = l
            if l and l.startswith("NEED\t"):
                ty, lk, hc = l.split("\t")[1].split("|")
                need[i].add((ty, lk, bytes.fromhex(hc).decode("utf-8", "replace")))
    # which texts are canonical in the sense of Engine/Factor.v (the class the byte-level theorems speak about):
    # decided by the extracted predicates themselves, the tokenisation below is only a proposal the model verifies
    ccases = []
    for c, text in msgs:
        crlf, toks = canon_parts(text)
        ccases.append("canon\t%s\t%d\t%s" % (hexs(text), 1 if crlf else 0, ";".join("%s|%s" % (hexs(t), hexs(x)) for t, x in toks)))
    cres = run_model(ctx, ccases, name + ".canon") if ccases else []
    canon = [(l or "").strip() == "CANON\t1" for l in cres]
    ctx.stats[name + "_texts"] = len(msgs)
    ctx.stats[name + "_texts_in_exec_factor_class"] = sum(canon)
    return [{"lib": lib[i], "model": model[i], "table": table, "need": need[i], "canon": canon[i] if i < len(canon) else False} for i in range(len(msgs))]


CANON_TAG = re.compile(r"^:([A-Za-z0-9]{2,4}):")


def canon_parts(text):
    """(crlf, [(tag, content)]) such that text may equal ws ++ render crlf toks (the model decides)"""
    rest = text.lstrip("\n\r ")
    crlf = "\r\n" in rest
    lines = rest.split("\n")
    if lines and lines[-1] == "":
        lines = lines[:-1]
    toks = []
    for ln in lines:
        m = CANON_TAG.match(ln)
        if m:
            toks.append([m.group(1), ln[m.end():]])
        elif toks:
            toks[-1][1] += "\n" + ln
        else:
            return crlf, []
    if crlf:
        for t in toks:
            if t[1].endswith("\r"):
                t[1] = t[1][:-1]
    return crlf, [(t, x) for t, x in toks]


NUM_RE = re.compile(r"(\d+),(\d*)")


def canon_content(s):
    """the property's 'canonical formatting of numbers and line endings'"""
    s = s.replace("\r\n", "\n").replace("\r", "\n")
    s = "\n".join(l.rstrip() for l in s.split("\n")).strip("\n")
    def num(m):
        i = m.group(1).lstrip("0") or "0"
        f = m.group(2).rstrip("0")
        return i + "," + f
    if re.fullmatch(r"\d{1,5}(/\d{1,5})?", s):          # statement / sequence / index numbers: leading zeros are spelling
        return "/".join(str(int(x)) for x in s.split("/"))
    return NUM_RE.sub(num, s)


def body_tokens(block4):
    t = block4.replace("\r\n", "\n")
    return mtgen.tokens(t)
