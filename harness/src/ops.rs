use crate::{unhex_str, with_field, with_mt};
use swift_mt_message::SwiftField;
use dataflow_rs::engine::{AsyncFunctionHandler, FunctionConfig, message::Message};
use serde_json::{Value, json};
use std::sync::Arc;
use swift_mt_message::{ParseError, SwiftMessage, SwiftMessageBody, SwiftParser};

fn err_json(e: &ParseError) -> Value {
    json!({ "ok": false, "err": serde_json::to_value(e).unwrap_or(Value::Null), "display": e.to_string() })
}

fn codes(v: &[swift_mt_message::errors::SwiftValidationError]) -> Vec<String> {
    v.iter().map(|e| e.error_code().to_string()).collect()
}

fn errs_json(v: &[swift_mt_message::errors::SwiftValidationError]) -> Vec<Value> {
    v.iter().map(|e| serde_json::to_value(e).unwrap_or(Value::Null)).collect()
}

fn vjson<T: SwiftMessageBody + serde::de::DeserializeOwned>(raw: &str) -> Value {
    match serde_json::from_str::<T>(raw) {
        Ok(m) => {
            let full = m.validate_network_rules(false);
            let stop = m.validate_network_rules(true);
            let full2 = m.validate_network_rules(false);
            json!({"ok": true, "json": serde_json::to_value(&m).unwrap_or(Value::Null),
                   "rules_json": errs_json(&full), "rules_stop_json": errs_json(&stop), "rules_json_again": errs_json(&full2),
                   "mt": m.to_mt_string()})
        }
        Err(e) => json!({"ok": false, "display": e.to_string()}),
    }
}

fn describe<T: SwiftMessageBody>(m: &SwiftMessage<T>) -> Value {
    let before = format!("{:?}", m);
    let full = m.fields.validate_network_rules(false);
    let stop = m.fields.validate_network_rules(true);
    // repeat several times and keep the first repetition that differs (an order that depends on a
    // per-instance hash seed shows up with probability 1/2 per repetition at least)
    let mut full2 = m.fields.validate_network_rules(false);
    let mut stop2 = m.fields.validate_network_rules(true);
    for _ in 0..6 {
        if errs_json(&full2) != errs_json(&full) || errs_json(&stop2) != errs_json(&stop) { break; }
        full2 = m.fields.validate_network_rules(false);
        stop2 = m.fields.validate_network_rules(true);
    }
    let vr = m.validate();
    let after = format!("{:?}", m);
    json!({
        "ok": true,
        "rules_json": errs_json(&full),
        "rules_stop_json": errs_json(&stop),
        "rules_json_again": errs_json(&full2),
        "rules_stop_json_again": errs_json(&stop2),
        "unchanged_by_validation": before == after,
        "json": serde_json::to_value(m).unwrap_or(Value::Null),
        "mt": m.to_mt_message(),
        "block4": m.fields.to_mt_string(),
        "rules": codes(&full),
        "rules_stop": codes(&stop),
        "is_valid": vr.is_valid,
        "validate_rule_names": vr.errors.iter().map(|e| match e {
            swift_mt_message::errors::ValidationError::BusinessRuleValidation { rule_name, .. } => rule_name.clone(),
            other => format!("{other:?}"),
        }).collect::<Vec<_>>(),
        "msg_type_field": m.message_type,
        "reject": m.has_reject_codes(),
        "return": m.has_return_codes(),
        "cover": m.is_cover_message(),
        "stp": m.is_stp_message(),
    })
}

fn typed<T: SwiftMessageBody>(raw: &str) -> Value {
    match SwiftParser::parse::<T>(raw) {
        Ok(m) => {
            let mut d = describe(&m);
            // message-level round trip (C02): parse the serialisation again
            let out = m.to_mt_message();
            let (ok2, eq2, fix2, err2) = match SwiftParser::parse::<T>(&out) {
                Ok(m2) => (true, serde_json::to_value(&m2).ok() == serde_json::to_value(&m).ok(), m2.to_mt_message() == out, None),
                Err(e) => (false, false, false, Some(e.to_string())),
            };
            if let Some(o) = d.as_object_mut() {
                o.insert("again_ok".into(), json!(ok2));
                o.insert("again_equal".into(), json!(eq2));
                o.insert("again_fixpoint".into(), json!(fix2));
                o.insert("again_err".into(), json!(err2));
            }
            d
        }
        Err(e) => err_json(&e),
    }
}

/// jrt: parse -> serde_json::to_value -> from_value -> compare (value again as JSON, Debug, MT text); also the same
/// through a JSON string (to_string / from_str)
fn jrt<T: SwiftMessageBody + serde::de::DeserializeOwned + PartialEq>(raw: &str) -> Value {
    match SwiftParser::parse::<T>(raw) {
        Ok(m) => {
            let v = serde_json::to_value(&m).unwrap_or(Value::Null);
            let mt = m.to_mt_message();
            let back: Result<swift_mt_message::SwiftMessage<T>, _> = serde_json::from_value(v.clone());
            let text = serde_json::to_string(&m).unwrap_or_default();
            let back2: Result<swift_mt_message::SwiftMessage<T>, _> = serde_json::from_str(&text);
            let f = |b: &Result<swift_mt_message::SwiftMessage<T>, serde_json::Error>| match b {
                Ok(b) => json!({"ok": true, "json_equal": serde_json::to_value(b).ok() == Some(v.clone()),
                                "debug_equal": format!("{:?}", b) == format!("{:?}", m), "fields_equal": b.fields == m.fields,
                                "mt_equal": b.to_mt_message() == mt, "mt": b.to_mt_message()}),
                Err(e) => json!({"ok": false, "display": e.to_string()}),
            };
            json!({"ok": true, "json": v, "mt": mt, "via_value": f(&back), "via_string": f(&back2)})
        }
        Err(e) => err_json(&e),
    }
}

thread_local! {
    /// the entry point being exercised (reported with a panic)
    pub static STAGE: std::cell::RefCell<String> = const { std::cell::RefCell::new(String::new()) };
}
fn stage(s: &str) {
    STAGE.with(|x| *x.borrow_mut() = s.to_string());
}

/// every way the library renders a ParseError
fn render(e: &ParseError, original: &str) -> usize {
    e.to_string().len() + e.debug_report().len() + e.brief_message().len() + e.format_with_context(original).len()
        + serde_json::to_string(e).map(|x| x.len()).unwrap_or(0) + format!("{:?}", e).len()
}

fn total_typed<T: SwiftMessageBody + serde::de::DeserializeOwned>(name: &str, t: &str, n: &mut (u64, u64)) {
    stage(&format!("SwiftParser::parse::<{name}>"));
    match SwiftParser::parse::<T>(t) {
        Ok(m) => {
            n.0 += 1;
            stage(&format!("{name}: to_mt_message")); let mt = m.to_mt_message();
            stage(&format!("{name}: validate")); let _ = m.validate();
            stage(&format!("{name}: to_value")); let v = serde_json::to_value(&m).unwrap_or(Value::Null);
            stage(&format!("{name}: from_value")); let _ = serde_json::from_value::<swift_mt_message::SwiftMessage<T>>(v);
            stage(&format!("{name}: reparse")); let _ = SwiftParser::parse::<T>(&mt);
        }
        Err(e) => { n.1 += 1; stage(&format!("{name}: render error")); render(&e, t); }
    }
    stage(&format!("{name}::parse_from_block4"));
    match <T as SwiftMessageBody>::parse_from_block4(t) {
        Ok(m) => {
            n.0 += 1;
            stage(&format!("{name}: to_mt_string")); let _ = m.to_mt_string();
            stage(&format!("{name}: validate_network_rules")); let a = m.validate_network_rules(false); let _ = m.validate_network_rules(true);
            for e in &a { let _ = (e.to_string(), e.error_code().to_string(), serde_json::to_value(e).ok()); }
            stage(&format!("{name}: body to_value")); let v = serde_json::to_value(&m).unwrap_or(Value::Null);
            stage(&format!("{name}: body from_value")); let _ = serde_json::from_value::<T>(v);
        }
        Err(e) => { n.1 += 1; stage(&format!("{name}: render error")); render(&e, t); }
    }
}

fn total_field<T: SwiftField>(name: &str, t: &str, n: &mut (u64, u64)) {
    for letter in [None, Some("A"), Some(""), Some("Z")] {
        stage(&format!("{name}::parse_with_variant({letter:?})"));
        let r = match letter { None => <T as SwiftField>::parse(t), l => <T as SwiftField>::parse_with_variant(t, l, None) };
        match r {
            Ok(v) => {
                n.0 += 1;
                stage(&format!("{name}: to_swift_string")); let _ = v.to_swift_string();
                stage(&format!("{name}: to_value")); let j = serde_json::to_value(&v).unwrap_or(Value::Null);
                stage(&format!("{name}: from_value")); let _ = serde_json::from_value::<T>(j);
                let _ = format!("{:?}", v);
            }
            Err(e) => { n.1 += 1; stage(&format!("{name}: render error")); render(&e, t); }
        }
    }
}

fn custom(name: &str, input: Value) -> FunctionConfig {
    FunctionConfig::Custom { name: name.to_string(), input }
}

fn plugin_run(
    rt: &tokio::runtime::Runtime,
    h: &dyn AsyncFunctionHandler,
    name: &str,
    msg: &mut Message,
    input: Value,
) -> Result<(), String> {
    let cfg = custom(name, input);
    let dl = Arc::new(datalogic_rs::DataLogic::new());
    rt.block_on(h.execute(msg, &cfg, dl)).map(|_| ()).map_err(|e| format!("{e:?}"))
}

pub fn run(rt: &tokio::runtime::Runtime, cols: &[&str]) -> Value {
    match cols[0] {
        // typed <MTnnn> <hex raw message>
        "typed" => {
            let raw = match unhex_str(cols[2]) {
                Ok(s) => s,
                Err(e) => return json!({"bad_case": e}),
            };
            with_mt!(cols[1], T => typed::<T>(&raw), json!({"bad_case": "unknown type"}))
        }
        // total <hex text> <msg|fields|all>: the text through every public entry point; every value that comes back through
        // serialisation, validation, JSON conversion, every error through every rendering
        "total" => {
            let t = match unhex_str(cols[1]) {
                Ok(s) => s,
                Err(e) => return json!({"bad_case": e}),
            };
            let mode = cols.get(2).copied().unwrap_or("all");
            let mut n = (0u64, 0u64);
            if mode != "fields" {
                stage("SwiftParser::parse_auto");
                match SwiftParser::parse_auto(&t) {
                    Ok(p) => { n.0 += 1; stage("auto: validate"); let _ = p.validate(); stage("auto: to_value"); let v = serde_json::to_value(&p).unwrap_or(Value::Null);
                               stage("auto: from_value"); let _ = serde_json::from_value::<swift_mt_message::ParsedSwiftMessage>(v); stage("auto: message_type"); let _ = p.message_type(); }
                    Err(e) => { n.1 += 1; stage("auto: render error"); render(&e, &t); }
                }
                for i in 0u8..=6 {
                    stage("SwiftParser::extract_block");
                    if let Err(e) = SwiftParser::extract_block(&t, i) { render(&e, &t); }
                }
                stage("BasicHeader::parse");
                match swift_mt_message::BasicHeader::parse(&t) { Ok(h) => { n.0 += 1; let _ = h.to_string(); let v = serde_json::to_value(&h).unwrap_or(Value::Null); let _ = serde_json::from_value::<swift_mt_message::BasicHeader>(v); } Err(e) => { n.1 += 1; render(&e, &t); } }
                stage("ApplicationHeader::parse");
                match swift_mt_message::ApplicationHeader::parse(&t) { Ok(h) => { n.0 += 1; let _ = (h.to_string(), h.message_type().to_string()); let v = serde_json::to_value(&h).unwrap_or(Value::Null); let _ = serde_json::from_value::<swift_mt_message::ApplicationHeader>(v); } Err(e) => { n.1 += 1; render(&e, &t); } }
                stage("UserHeader::parse");
                match swift_mt_message::UserHeader::parse(&t) { Ok(h) => { n.0 += 1; let _ = h.to_string(); let v = serde_json::to_value(&h).unwrap_or(Value::Null); let _ = serde_json::from_value::<swift_mt_message::UserHeader>(v); } Err(e) => { n.1 += 1; render(&e, &t); } }
                stage("Trailer::parse");
                match swift_mt_message::Trailer::parse(&t) { Ok(h) => { n.0 += 1; let _ = h.to_string(); let v = serde_json::to_value(&h).unwrap_or(Value::Null); let _ = serde_json::from_value::<swift_mt_message::Trailer>(v); } Err(e) => { n.1 += 1; render(&e, &t); } }
                for name in crate::mt::ALL {
                    with_mt!(*name, T => total_typed::<T>(name, &t, &mut n), ());
                }
                stage("parse_block4_fields");
                match swift_mt_message::parser::parse_block4_fields(&t) {
                    Ok(f) => {
                        n.0 += 1;
                        let mut tr = swift_mt_message::parser::FieldConsumptionTracker::new();
                        for tag in ["20", "21", "50", "52", "59", "32", "71", "23"] {
                            for vs in [None, Some(&["A", "F", "K"][..]), Some(&["C", "L"][..])] {
                                stage("find_field_with_variant_sequential_constrained");
                                let _ = swift_mt_message::parser::find_field_with_variant_sequential_constrained(&f, tag, &mut tr, vs);
                            }
                        }
                        for cfg in ["MT101", "MT104", "MT107", "MT110", "MT204", "MT999"] {
                            stage("split_into_sequences");
                            let _ = swift_mt_message::parser::split_into_sequences(&f, &swift_mt_message::parser::get_sequence_config(cfg));
                        }
                    }
                    Err(e) => { n.1 += 1; render(&e, &t); }
                }
                stage("extract_field_content");
                for tag in ["20", "50K", "72"] { let _ = swift_mt_message::parser::extract_field_content(&t, tag); }
            }
            if mode != "msg" {
                for name in crate::fields_gen::ALL {
                    with_field!(*name, T => total_field::<T>(name, &t, &mut n), ());
                }
                stage("swift_utils");
                let _ = swift_mt_message::fields::swift_utils::parse_amount(&t);
                let _ = swift_mt_message::fields::swift_utils::parse_bic(&t);
                let _ = swift_mt_message::fields::swift_utils::parse_date_yymmdd(&t);
                let _ = swift_mt_message::fields::swift_utils::parse_currency(&t);
            }
            stage("");
            json!({"ok": true, "values": n.0, "errors": n.1})
        }
        // jrt <MTnnn> <hex raw message>: JSON round trip of the parsed message
        "jrt" => {
            let raw = match unhex_str(cols[2]) {
                Ok(s) => s,
                Err(e) => return json!({"bad_case": e}),
            };
            with_mt!(cols[1], T => jrt::<T>(&raw), json!({"bad_case": "unknown type"}))
        }
        // vjson <MTnnn> <hex JSON of the message body>: serde_json::from_str::<T>, then validate_network_rules on the value
        "vjson" => {
            let raw = match unhex_str(cols[2]) {
                Ok(s) => s,
                Err(e) => return json!({"bad_case": e}),
            };
            with_mt!(cols[1], T => vjson::<T>(&raw), json!({"bad_case": "unknown type"}))
        }
        // auto <hex raw message>
        "auto" => {
            let raw = match unhex_str(cols[1]) {
                Ok(s) => s,
                Err(e) => return json!({"bad_case": e}),
            };
            match SwiftParser::parse_auto(&raw) {
                Ok(p) => {
                    let wj = serde_json::to_value(&p).unwrap_or(Value::Null);
                    let vr = p.validate();
                    json!({
                        "ok": true,
                        "wrapper_type": p.message_type(),
                        "wrapper_json": wj,
                        "is_valid": vr.is_valid,
                        "validate_rule_names": vr.errors.iter().map(|e| match e {
                            swift_mt_message::errors::ValidationError::BusinessRuleValidation { rule_name, .. } => rule_name.clone(),
                            other => format!("{other:?}"),
                        }).collect::<Vec<_>>(),
                    })
                }
                Err(e) => err_json(&e),
            }
        }
        // pparse <hex raw message>: plugin parse_mt with the message in data.src
        "pparse" => {
            let raw = match unhex_str(cols[1]) {
                Ok(s) => s,
                Err(e) => return json!({"bad_case": e}),
            };
            let mut m = Message::from_value(&json!({}));
            m.data_mut().as_object_mut().unwrap().insert("src".into(), json!(raw));
            m.invalidate_context_cache();
            match plugin_run(rt, &swift_mt_message::plugin::Parse, "parse_mt", &mut m, json!({"source": "src", "target": "out"})) {
                Ok(()) => json!({
                    "ok": true,
                    "json": m.data().get("out").cloned().unwrap_or(Value::Null),
                    "meta": m.metadata().get("out").cloned().unwrap_or(Value::Null),
                }),
                Err(e) => json!({"ok": false, "display": e}),
            }
        }
        // pvalidate <hex raw message>
        "pvalidate" => {
            let raw = match unhex_str(cols[1]) {
                Ok(s) => s,
                Err(e) => return json!({"bad_case": e}),
            };
            let mut m = Message::from_value(&json!({}));
            m.data_mut().as_object_mut().unwrap().insert("src".into(), json!(raw));
            m.invalidate_context_cache();
            match plugin_run(rt, &swift_mt_message::plugin::Validate, "validate_mt", &mut m, json!({"source": "src", "target": "out"})) {
                Ok(()) => {
                    let o = m.data().get("out").cloned().unwrap_or(Value::Null);
                    json!({
                        "ok": true,
                        "valid": o.get("valid").cloned().unwrap_or(Value::Null),
                        "errors": o.get("errors").cloned().unwrap_or(Value::Null),
                        "message_type": o.get("message_type").cloned().unwrap_or(Value::Null),
                    })
                }
                Err(e) => json!({"ok": false, "display": e}),
            }
        }
        // ppublish <hex type string> <hex json text of SwiftMessage>
        "ppublish" => {
            let ty = unhex_str(cols[1]).unwrap_or_default();
            let js = unhex_str(cols[2]).unwrap_or_default();
            let jv: Value = match serde_json::from_str(&js) {
                Ok(v) => v,
                Err(e) => return json!({"bad_case": format!("json: {e}")}),
            };
            let mut src = serde_json::Map::new();
            src.insert("json_data".into(), jv);
            src.insert("message_type".into(), json!(ty));
            let mut m = Message::from_value(&json!({}));
            m.data_mut().as_object_mut().unwrap().insert("src".into(), Value::Object(src));
            m.invalidate_context_cache();
            match plugin_run(rt, &swift_mt_message::plugin::Publish, "publish_mt", &mut m, json!({"source": "src", "target": "out"})) {
                Ok(()) => json!({"ok": true, "mt": m.data().get("out").cloned().unwrap_or(Value::Null)}),
                Err(e) => json!({"ok": false, "display": e}),
            }
        }
        // scenario <path of a scenario file>: one random draw through the same four plugins as tests/end2end.rs
        // (generate_mt -> publish_mt -> validate_mt -> parse_mt); every intermediate value is returned
        // scenario_json <hex scenario text>: the same with the scenario given inline (the check instantiates the
        // `fake` nodes of a shipped scenario with values it chose from the generators' languages; everything else
        // -- var, cat, substr, if, arithmetic -- is still evaluated by the library's own generator)
        "scenario" | "scenario_json" => {
            let text = if cols[0] == "scenario_json" {
                match unhex_str(cols[1]) {
                    Ok(t) => t,
                    Err(e) => return json!({"bad_case": e}),
                }
            } else {
                match std::fs::read_to_string(cols[1]) {
                    Ok(t) => t,
                    Err(e) => return json!({"bad_case": format!("read: {e}")}),
                }
            };
            let schema: Value = match serde_json::from_str(&text) {
                Ok(v) => v,
                Err(e) => return json!({"bad_case": format!("json: {e}")}),
            };
            let mut m = Message::from_value(&schema);
            m.invalidate_context_cache();
            if let Err(e) = plugin_run(rt, &swift_mt_message::plugin::Generate, "generate_mt", &mut m, json!({"target": "sample_json"})) {
                return json!({"ok": false, "stage": "generate", "display": e});
            }
            let sample = m.data().get("sample_json").cloned().unwrap_or(Value::Null);
            if let Err(e) = plugin_run(rt, &swift_mt_message::plugin::Publish, "publish_mt", &mut m, json!({"source": "sample_json", "target": "sample_mt"})) {
                return json!({"ok": false, "stage": "publish", "display": e, "sample_json": sample});
            }
            let mt = m.data().get("sample_mt").cloned().unwrap_or(Value::Null);
            if let Err(e) = plugin_run(rt, &swift_mt_message::plugin::Validate, "validate_mt", &mut m, json!({"source": "sample_mt", "target": "validation_result"})) {
                return json!({"ok": false, "stage": "validate", "display": e, "sample_json": sample, "sample_mt": mt});
            }
            let val = m.data().get("validation_result").cloned().unwrap_or(Value::Null);
            if let Err(e) = plugin_run(rt, &swift_mt_message::plugin::Parse, "parse_mt", &mut m, json!({"source": "sample_mt", "target": "mt_json"})) {
                return json!({"ok": false, "stage": "parse", "display": e, "sample_json": sample, "sample_mt": mt, "validation_result": val});
            }
            json!({"ok": true, "sample_json": sample, "sample_mt": mt, "validation_result": val, "mt_json": m.data().get("mt_json").cloned().unwrap_or(Value::Null)})
        }
        // fakegen <hex json array of arguments> <count>: that many values of datafake's `fake` operator
        // (validates the languages the scenario model assumes for the generators)
        "fakegen" => {
            let js = unhex_str(cols[1]).unwrap_or_default();
            let args: Vec<Value> = match serde_json::from_str(&js) {
                Ok(v) => v,
                Err(e) => return json!({"bad_case": format!("json: {e}")}),
            };
            let n: usize = cols.get(2).and_then(|c| c.parse().ok()).unwrap_or(1);
            let mut out = Vec::with_capacity(n);
            for _ in 0..n {
                match datafake_rs::operators::FakeOperator::generate(&args) {
                    Ok(v) => out.push(v),
                    Err(e) => return json!({"ok": false, "display": e.to_string()}),
                }
            }
            json!({"ok": true, "values": out})
        }
        // pipeline <hex json text>: a generated-looking JSON through publish_mt -> validate_mt -> parse_mt
        // (the last three plugins of tests/end2end.rs; the JSON is built outside from the scenario's template)
        "pipeline" => {
            let js = unhex_str(cols[1]).unwrap_or_default();
            let sample: Value = match serde_json::from_str(&js) {
                Ok(v) => v,
                Err(e) => return json!({"bad_case": format!("json: {e}")}),
            };
            let mut m = Message::from_value(&json!({}));
            m.data_mut().as_object_mut().unwrap().insert("sample_json".into(), sample);
            m.invalidate_context_cache();
            if let Err(e) = plugin_run(rt, &swift_mt_message::plugin::Publish, "publish_mt", &mut m, json!({"source": "sample_json", "target": "sample_mt"})) {
                return json!({"ok": false, "stage": "publish", "display": e});
            }
            let mt = m.data().get("sample_mt").cloned().unwrap_or(Value::Null);
            if let Err(e) = plugin_run(rt, &swift_mt_message::plugin::Validate, "validate_mt", &mut m, json!({"source": "sample_mt", "target": "validation_result"})) {
                return json!({"ok": false, "stage": "validate", "display": e, "sample_mt": mt});
            }
            let val = m.data().get("validation_result").cloned().unwrap_or(Value::Null);
            if let Err(e) = plugin_run(rt, &swift_mt_message::plugin::Parse, "parse_mt", &mut m, json!({"source": "sample_mt", "target": "mt_json"})) {
                return json!({"ok": false, "stage": "parse", "display": e, "sample_mt": mt, "validation_result": val});
            }
            json!({"ok": true, "sample_mt": mt, "validation_result": val, "mt_json": m.data().get("mt_json").cloned().unwrap_or(Value::Null)})
        }
        // sample <MTnnn> <scenario name or -> <scenario base dir>: one random draw of a shipped scenario
        "sample" => {
            let cfg = swift_mt_message::ScenarioConfig::with_paths(vec![std::path::PathBuf::from(cols[3])]);
            let scen = if cols[2] == "-" { None } else { Some(cols[2]) };
            with_mt!(cols[1], T => {
                match swift_mt_message::generate_sample_with_config::<T>(cols[1], scen, &cfg) {
                    Ok(m) => json!({"ok": true, "mt": m.to_mt_message(), "json": serde_json::to_value(&m).unwrap_or(Value::Null)}),
                    Err(e) => err_json(&e),
                }
            }, json!({"bad_case": "unknown type"}))
        }
        // pvf / povf <Family> <base> <hex text>: MessageParser::parse_variant_field / parse_optional_variant_field on a
        // cursor over the text (the code path every layout uses for a field with options)
        "pvf" | "povf" => {
            let text = match unhex_str(cols[3]) {
                Ok(s) => s,
                Err(e) => return json!({"bad_case": e}),
            };
            with_field!(cols[1], T => {
                let mut p = swift_mt_message::parser::MessageParser::new(&text, "103");
                let r: Result<Option<T>, swift_mt_message::errors::ParseError> = if cols[0] == "pvf" {
                    p.parse_variant_field::<T>(cols[2]).map(Some)
                } else {
                    p.parse_optional_variant_field::<T>(cols[2])
                };
                match r {
                    Ok(Some(v)) => json!({"ok": true, "present": true, "ser": v.to_swift_string(), "json": serde_json::to_value(&v).unwrap_or(Value::Null),
                                          "variant_tag": v.get_variant_tag(), "position": p.position(), "complete": p.is_complete()}),
                    Ok(None) => json!({"ok": true, "present": false, "position": p.position()}),
                    Err(e) => err_json(&e),
                }
            }, json!({"bad_case": "unknown field type"}))
        }
        // body <MTnnn> <hex block-4 text>: T::parse_from_block4
        "body" => {
            let raw = match unhex_str(cols[2]) {
                Ok(s) => s,
                Err(e) => return json!({"bad_case": e}),
            };
            with_mt!(cols[1], T => {
                match <T as SwiftMessageBody>::parse_from_block4(&raw) {
                    Ok(m) => {
                        let out = m.to_mt_string();
                        // second pass: re-parse the serialisation (C02)
                        let again = <T as SwiftMessageBody>::parse_from_block4(&out);
                        let (again_ok, again_out, again_eq) = match &again {
                            Ok(m2) => (true, m2.to_mt_string(), serde_json::to_value(m2).ok() == serde_json::to_value(&m).ok()),
                            Err(_) => (false, String::new(), false),
                        };
                        json!({"ok": true, "block4": out, "json": serde_json::to_value(&m).unwrap_or(Value::Null),
                               "again_ok": again_ok, "again_block4": again_out, "again_equal": again_eq,
                               "again_err": again.err().map(|e| e.to_string())})
                    }
                    Err(e) => err_json(&e),
                }
            }, json!({"bad_case": "unknown type"}))
        }
        // fparse <FieldType> <letter or _> <hex content>: T::parse / T::parse_with_variant
        "fparse" | "fparse_raw" => {
            let content = match unhex_str(cols[3]) {
                Ok(s) => s,
                Err(e) => return json!({"bad_case": e}),
            };
            // fparse: a letter means "as MessageParser::parse_named_variant does it" (no letter -> None, and the
            // value must print under the tag it was read from); fparse_raw passes Some(letter) straight through
            let raw = cols[0] == "fparse_raw";
            let letter = if cols[2] == "_" { None } else { Some(cols[2].trim_start_matches('=')) };
            with_field!(cols[1], T => {
                let r = match letter {
                    None => <T as SwiftField>::parse(&content),
                    Some(l) if raw => <T as SwiftField>::parse_with_variant(&content, Some(l), None),
                    Some(l) => <T as SwiftField>::parse_with_variant(&content, if l.is_empty() { None } else { Some(l) }, None),
                };
                if let (Ok(v), Some(l), false) = (&r, letter, raw) {
                    let ser = v.to_swift_string();
                    let tag: String = ser.strip_prefix(':').map(|x| x.split(':').next().unwrap_or("").to_string()).unwrap_or_default();
                    let pl: String = tag.chars().skip_while(|ch| ch.is_ascii_digit()).collect();
                    if pl != l {
                        return json!({"ok": false, "relabelled_to": tag, "display": format!("content is not a valid option '{}'", l)});
                    }
                }
                match r {
                    Ok(v) => {
                        let ser = v.to_swift_string();
                        let j = serde_json::to_value(&v).unwrap_or(Value::Null);
                        // re-parse what was printed (field-level round trip)
                        let split = ser.strip_prefix(':').and_then(|s| s.find(':').map(|i| (s[..i].to_string(), s[i + 1..].to_string())));
                        let body = match &split {
                            Some((tag, c)) => json!({"tag": tag, "content": c}),
                            None => Value::Null,
                        };
                        // field-level round trip: re-parse the printed content the way the message parser
                        // would (plain types: parse; families: parse_with_variant with the printed tag's letter)
                        let again = match (&split, letter) {
                            (Some((_, c)), None) => Some(<T as SwiftField>::parse(c)),
                            (Some((tag, c)), Some(_)) => {
                                let l: String = tag.chars().skip_while(|ch| ch.is_ascii_digit()).collect();
                                Some(<T as SwiftField>::parse_with_variant(c, if l.is_empty() && !raw { None } else { Some(&l) }, None))
                            }
                            _ => None,
                        };
                        let (again_ok, again_eq, again_ser) = match again {
                            Some(Ok(v2)) => (true, serde_json::to_value(&v2).ok() == Some(j.clone()), v2.to_swift_string() == ser),
                            _ => (false, false, false),
                        };
                        // JSON round trip of the field value (serde_json::Value level)
                        let json_rt = match serde_json::from_value::<T>(j.clone()) {
                            // the value itself (Debug), not only its two renderings: a date read back in another century prints the same
                            Ok(v3) => serde_json::to_value(&v3).ok() == Some(j.clone()) && v3.to_swift_string() == ser && format!("{:?}", v3) == format!("{:?}", v),
                            Err(_) => false,
                        };
                        json!({"ok": true, "ser": ser, "json": j, "printed": body, "variant_tag": v.get_variant_tag(), "debug": format!("{:?}", v), "json_rt": json_rt,
                               "again_ok": again_ok, "again_equal": again_eq, "again_ser_equal": again_ser})
                    }
                    Err(e) => err_json(&e),
                }
            }, json!({"bad_case": format!("unknown field type {}", cols[1])}))
        }
        // legacy field-map API
        "l_tokens" | "l_track" | "l_split" => {
            let t = unhex_str(cols[1]).unwrap_or_default();
            let fields = match swift_mt_message::parser::parse_block4_fields(&t) {
                Ok(f) => f,
                Err(e) => return err_json(&e),
            };
            let flat = |m: &std::collections::HashMap<String, Vec<(String, usize)>>| -> Vec<Value> {
                let mut v: Vec<(usize, String, String)> = Vec::new();
                for (tag, vals) in m { for (val, pos) in vals { v.push((*pos, tag.clone(), val.clone())); } }
                // stable order for equal stamps: by stamp, then by the order inside the tag's vector
                v.sort_by_key(|x| x.0);
                v.into_iter().map(|(p, t, val)| json!([t, val, p])).collect()
            };
            match cols[0] {
                "l_tokens" => {
                    // per-tag vectors keep insertion order: report them too
                    let mut per: Vec<(String, Vec<(String, usize)>)> = fields.iter().map(|(k, v)| (k.clone(), v.clone())).collect();
                    per.sort();
                    json!({"ok": true, "entries": flat(&fields), "per_tag": per})
                }
                "l_track" => {
                    let mut tracker = swift_mt_message::parser::FieldConsumptionTracker::new();
                    let mut outs = Vec::new();
                    for op in cols[2].split(';').filter(|s| !s.is_empty()) {
                        let mut it = op.split('|');
                        let tag = it.next().unwrap_or("");
                        let vs = it.next().unwrap_or("*");
                        let owned: Vec<&str> = vs.split(',').collect();
                        let valid: Option<&[&str]> = if vs == "*" { None } else { Some(&owned[..]) };
                        let r = swift_mt_message::parser::find_field_with_variant_sequential_constrained(&fields, tag, &mut tracker, valid);
                        outs.push(match r { Some((v, l, p)) => json!([v, l, p]), None => Value::Null });
                    }
                    json!({"ok": true, "outs": outs})
                }
                _ => {
                    // "cfg:<marker>:<0|1>:<c,fields>" builds a SequenceConfig directly (its fields are public)
                    let cfg = if let Some(rest) = cols[2].strip_prefix("cfg:") {
                        let p: Vec<&str> = rest.split(':').collect();
                        swift_mt_message::parser::SequenceConfig {
                            sequence_b_marker: p.first().unwrap_or(&"21").to_string(),
                            has_sequence_c: p.get(1) == Some(&"1"),
                            sequence_c_fields: p.get(2).map(|x| x.split(',').filter(|y| !y.is_empty()).map(|y| y.to_string()).collect()).unwrap_or_default(),
                        }
                    } else { swift_mt_message::parser::get_sequence_config(cols[2]) };
                    match swift_mt_message::parser::split_into_sequences(&fields, &cfg) {
                        Ok(p) => json!({"ok": true, "a": flat(&p.sequence_a), "b": flat(&p.sequence_b), "c": flat(&p.sequence_c)}),
                        Err(e) => err_json(&e),
                    }
                }
            }
        }
        // l_api <hex text> <cfg> <ops>: FieldConsumptionTracker's own interface over the whole map (f) and the maps of the split
        // (a b c), ONE tracker for all: M|tag|k, G|tag, C|part|tag (see runner/main.ml)
        "l_api" => {
            let t = unhex_str(cols[1]).unwrap_or_default();
            let fields = match swift_mt_message::parser::parse_block4_fields(&t) {
                Ok(f) => f,
                Err(e) => return err_json(&e),
            };
            let cfg = if let Some(rest) = cols[2].strip_prefix("cfg:") {
                let p: Vec<&str> = rest.split(':').collect();
                swift_mt_message::parser::SequenceConfig {
                    sequence_b_marker: p.first().unwrap_or(&"21").to_string(),
                    has_sequence_c: p.get(1) == Some(&"1"),
                    sequence_c_fields: p.get(2).map(|x| x.split(',').filter(|y| !y.is_empty()).map(|y| y.to_string()).collect()).unwrap_or_default(),
                }
            } else { swift_mt_message::parser::get_sequence_config(cols[2]) };
            let parts = match swift_mt_message::parser::split_into_sequences(&fields, &cfg) {
                Ok(p) => p,
                Err(e) => return err_json(&e),
            };
            let empty: Vec<(String, usize)> = Vec::new();
            let mut tracker = swift_mt_message::parser::FieldConsumptionTracker::new();
            let mut outs: Vec<Value> = Vec::new();
            for op in cols.get(3).copied().unwrap_or("").split(';').filter(|s| !s.is_empty()) {
                let p: Vec<&str> = op.split('|').collect();
                match p.as_slice() {
                    ["M", tag, k] => {
                        let vals = fields.get(*tag).unwrap_or(&empty);
                        if vals.is_empty() { outs.push(Value::Null); } else {
                            let pos = vals[k.parse::<usize>().unwrap_or(0) % vals.len()].1;
                            tracker.mark_consumed(tag, pos);
                            outs.push(json!(["m", pos]));
                        }
                    }
                    ["G", tag] => {
                        let vals = fields.get(*tag).unwrap_or(&empty);
                        outs.push(match tracker.get_next_available(tag, vals) { Some((v, pos)) => json!([v, pos]), None => Value::Null });
                    }
                    ["C", part, tag] => {
                        let m = match *part { "a" => &parts.sequence_a, "b" => &parts.sequence_b, "c" => &parts.sequence_c, _ => &fields };
                        let vals = m.get(*tag).unwrap_or(&empty);
                        let r = tracker.get_next_available(tag, vals).map(|(v, pos)| (v.to_string(), pos));
                        match r {
                            Some((v, pos)) => { tracker.mark_consumed(tag, pos); outs.push(json!([v, pos])); }
                            None => outs.push(Value::Null),
                        }
                    }
                    _ => outs.push(json!("?")),
                }
            }
            json!({"ok": true, "outs": outs})
        }
        // header codecs and block extraction
        "hdr1" => {
            let t = unhex_str(cols[1]).unwrap_or_default();
            match swift_mt_message::BasicHeader::parse(&t) {
                Ok(h) => json!({"ok": true, "display": h.to_string(), "sender_bic": h.sender_bic, "json": serde_json::to_value(&h).unwrap_or(Value::Null)}),
                Err(e) => err_json(&e),
            }
        }
        "hdr2" => {
            let t = unhex_str(cols[1]).unwrap_or_default();
            match swift_mt_message::ApplicationHeader::parse(&t) {
                Ok(h) => json!({"ok": true, "display": h.to_string(), "message_type": h.message_type(), "json": serde_json::to_value(&h).unwrap_or(Value::Null)}),
                Err(e) => err_json(&e),
            }
        }
        "hdr3" => {
            let t = unhex_str(cols[1]).unwrap_or_default();
            match swift_mt_message::UserHeader::parse(&t) {
                Ok(h) => json!({"ok": true, "display": h.to_string(), "json": serde_json::to_value(&h).unwrap_or(Value::Null)}),
                Err(e) => err_json(&e),
            }
        }
        "hdr5" => {
            let t = unhex_str(cols[1]).unwrap_or_default();
            match swift_mt_message::Trailer::parse(&t) {
                Ok(h) => json!({"ok": true, "display": h.to_string(), "json": serde_json::to_value(&h).unwrap_or(Value::Null)}),
                Err(e) => err_json(&e),
            }
        }
        "blocks" => {
            let t = unhex_str(cols[1]).unwrap_or_default();
            let v: Vec<Value> = (1u8..=5).map(|i| match SwiftParser::extract_block(&t, i) {
                Ok(Some(b)) => json!(b),
                Ok(None) => Value::Null,
                Err(e) => json!({"err": e.to_string()}),
            }).collect();
            json!({"ok": true, "blocks": v})
        }
        // amount <hex text>: swift_utils::parse_amount, the f64's bits, format_swift_amount for 0..4 decimals
        "amount" => {
            let t = unhex_str(cols[1]).unwrap_or_default();
            match swift_mt_message::fields::swift_utils::parse_amount(&t) {
                Ok(a) => {
                    let f: Vec<String> = (0..5).map(|k| swift_mt_message::fields::swift_utils::format_swift_amount(a, k)).collect();
                    json!({"ok": true, "bits": a.to_bits().to_string(), "fmt": f.join("|"), "finite": a.is_finite(), "nonneg": a >= 0.0,
                           "json": serde_json::to_value(a).unwrap_or(Value::Null)})
                }
                Err(e) => err_json(&e),
            }
        }
        // amountc <hex text> <hex currency>: parse_amount_with_currency
        "amountc" => {
            let t = unhex_str(cols[1]).unwrap_or_default();
            let c = unhex_str(cols[2]).unwrap_or_default();
            match swift_mt_message::fields::swift_utils::parse_amount_with_currency(&t, &c) {
                Ok(a) => json!({"ok": true, "bits": a.to_bits().to_string(), "decimals": swift_mt_message::fields::swift_utils::get_currency_decimals(&c),
                                "fmt": swift_mt_message::fields::swift_utils::format_swift_amount_for_currency(a, &c)}),
                Err(e) => err_json(&e),
            }
        }
        // fjson <FieldType> <hex json text>: serde_json::from_value::<T>
        "fjson" => {
            let js = unhex_str(cols[2]).unwrap_or_default();
            let jv: Value = match serde_json::from_str(&js) {
                Ok(v) => v,
                Err(e) => return json!({"bad_case": format!("json: {e}")}),
            };
            with_field!(cols[1], T => {
                match serde_json::from_value::<T>(jv) {
                    Ok(v) => json!({"ok": true, "ser": v.to_swift_string(), "json": serde_json::to_value(&v).unwrap_or(Value::Null), "debug": format!("{:?}", v)}),
                    Err(e) => json!({"ok": false, "display": e.to_string()}),
                }
            }, json!({"bad_case": format!("unknown field type {}", cols[1])}))
        }
        other => json!({"bad_case": format!("unknown op {other}")}),
    }
}
