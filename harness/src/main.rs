//! swiftmt-harness — runs the real library (built from /repo's working tree) on case files.
//!
//! usage: swiftmt-harness <casefile>
//! One case per line: `op<TAB>arg...`; byte strings are lower-case hex.  One JSON result per
//! line on stdout, in the same order.  Every call is wrapped in catch_unwind: a panic becomes
//! {"panic": "..."}.

mod mt;
mod fields_gen;
mod ops;

use std::io::{BufRead, Write};

pub fn unhex(s: &str) -> Vec<u8> {
    let b = s.as_bytes();
    let mut v = Vec::with_capacity(b.len() / 2);
    let d = |c: u8| -> u8 {
        match c {
            b'0'..=b'9' => c - b'0',
            b'a'..=b'f' => c - b'a' + 10,
            b'A'..=b'F' => c - b'A' + 10,
            _ => 0,
        }
    };
    let mut i = 0;
    while i + 1 < b.len() {
        v.push(d(b[i]) * 16 + d(b[i + 1]));
        i += 2;
    }
    v
}

pub fn hex(b: &[u8]) -> String {
    let mut s = String::with_capacity(b.len() * 2);
    for x in b {
        s.push_str(&format!("{:02x}", x));
    }
    s
}

pub fn unhex_str(s: &str) -> Result<String, String> {
    String::from_utf8(unhex(s)).map_err(|_| "input is not UTF-8".to_string())
}

fn main() {
    let args: Vec<String> = std::env::args().collect();
    if args.len() < 2 {
        eprintln!("usage: swiftmt-harness <casefile>");
        std::process::exit(2);
    }
    // silence the default panic message (the library is allowed to be noisy on stderr)
    std::panic::set_hook(Box::new(|_| {}));
    let f = std::fs::File::open(&args[1]).expect("open case file");
    let rt = tokio::runtime::Builder::new_current_thread().enable_all().build().expect("tokio");
    let out = std::io::stdout();
    let mut out = std::io::BufWriter::new(out.lock());
    for line in std::io::BufReader::new(f).lines() {
        let line = line.expect("read");
        if line.is_empty() || line.starts_with('#') {
            continue;
        }
        let cols: Vec<&str> = line.split('\t').collect();
        let t0 = std::time::Instant::now();
        let r = std::panic::catch_unwind(std::panic::AssertUnwindSafe(|| ops::run(&rt, &cols)));
        let mut v = match r {
            Ok(v) => v,
            Err(e) => {
                let msg = if let Some(s) = e.downcast_ref::<&str>() {
                    s.to_string()
                } else if let Some(s) = e.downcast_ref::<String>() {
                    s.clone()
                } else {
                    "panic".to_string()
                };
                serde_json::json!({ "panic": msg, "stage": ops::STAGE.with(|x| x.borrow().clone()) })
            }
        };
        if let Some(o) = v.as_object_mut() {
            o.insert("us".into(), serde_json::json!(t0.elapsed().as_micros() as u64));
        }
        writeln!(out, "{}", v).unwrap();
    }
    out.flush().unwrap();
}
