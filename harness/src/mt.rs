//! the 30 message body types, reachable by name (the harness's own list: a type missing from the
//! library is a compile error here, which the check driver reports as a broken correspondence)

pub const ALL: &[&str] = &["MT101", "MT103", "MT104", "MT107", "MT110", "MT111", "MT112", "MT190", "MT191", "MT192", "MT196", "MT199", "MT200", "MT202", "MT204", "MT205", "MT210", "MT290", "MT291", "MT292", "MT296", "MT299", "MT900", "MT910", "MT920", "MT935", "MT940", "MT941", "MT942", "MT950"];

#[macro_export]
macro_rules! with_mt {
    ($name:expr, $T:ident => $body:expr, $else:expr) => {
        match $name {
            "MT101" => { type $T = swift_mt_message::messages::MT101; $body }
            "MT103" => { type $T = swift_mt_message::messages::MT103; $body }
            "MT104" => { type $T = swift_mt_message::messages::MT104; $body }
            "MT107" => { type $T = swift_mt_message::messages::MT107; $body }
            "MT110" => { type $T = swift_mt_message::messages::MT110; $body }
            "MT111" => { type $T = swift_mt_message::messages::MT111; $body }
            "MT112" => { type $T = swift_mt_message::messages::MT112; $body }
            "MT190" => { type $T = swift_mt_message::messages::MT190; $body }
            "MT191" => { type $T = swift_mt_message::messages::MT191; $body }
            "MT192" => { type $T = swift_mt_message::messages::MT192; $body }
            "MT196" => { type $T = swift_mt_message::messages::MT196; $body }
            "MT199" => { type $T = swift_mt_message::messages::MT199; $body }
            "MT200" => { type $T = swift_mt_message::messages::MT200; $body }
            "MT202" => { type $T = swift_mt_message::messages::MT202; $body }
            "MT204" => { type $T = swift_mt_message::messages::MT204; $body }
            "MT205" => { type $T = swift_mt_message::messages::MT205; $body }
            "MT210" => { type $T = swift_mt_message::messages::MT210; $body }
            "MT290" => { type $T = swift_mt_message::messages::MT290; $body }
            "MT291" => { type $T = swift_mt_message::messages::MT291; $body }
            "MT292" => { type $T = swift_mt_message::messages::MT292; $body }
            "MT296" => { type $T = swift_mt_message::messages::MT296; $body }
            "MT299" => { type $T = swift_mt_message::messages::MT299; $body }
            "MT900" => { type $T = swift_mt_message::messages::MT900; $body }
            "MT910" => { type $T = swift_mt_message::messages::MT910; $body }
            "MT920" => { type $T = swift_mt_message::messages::MT920; $body }
            "MT935" => { type $T = swift_mt_message::messages::MT935; $body }
            "MT940" => { type $T = swift_mt_message::messages::MT940; $body }
            "MT941" => { type $T = swift_mt_message::messages::MT941; $body }
            "MT942" => { type $T = swift_mt_message::messages::MT942; $body }
            "MT950" => { type $T = swift_mt_message::messages::MT950; $body }
            _ => $else,
        }
    };
}
