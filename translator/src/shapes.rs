//! gen/Shapes.v — the serde shape of every `#[derive(Serialize, Deserialize)]` struct and enum of
//! src/messages, src/fields, src/headers, src/swift_message.rs, src/parsed_message.rs (property C08):
//! for a struct the members in order with their JSON key (rename / member name), or `flatten`, whether the
//! member is an Option / Vec, whether an absent Option is skipped or written as null, and custom
//! (de)serialisers (`with`, `serialize_with`, `deserialize_with`, `alias`, `default`);
//! for an enum the tagging mode and the variants' names and payload types.

use crate::common::*;
use std::path::PathBuf;

fn attr_str(attrs: &[syn::Attribute]) -> String {
    attrs.iter().map(|a| tokens(a)).filter(|t| t.contains("serde")).collect::<Vec<_>>().join(" ")
}

fn find_kv(t: &str, key: &str) -> Option<String> {
    let pat = format!("{key} = \"");
    t.find(&pat).and_then(|i| {
        let r = &t[i + pat.len()..];
        r.find('"').map(|j| r[..j].to_string())
    })
}

fn has_word(t: &str, w: &str) -> bool {
    t.split(|c: char| !(c.is_alphanumeric() || c == '_')).any(|x| x == w)
}

fn derives_serde(attrs: &[syn::Attribute]) -> bool {
    attrs.iter().any(|a| {
        let t = tokens(a);
        t.contains("derive") && t.contains("Serialize") && t.contains("Deserialize")
    })
}

/// Option<T> -> ("opt", T) ; Vec<T> -> ("vec", T) ; Option<Vec<T>> -> ("optvec", T) ; T -> ("req", T)
fn unwrap_ty(t: &str) -> (String, String) {
    let t = t.replace(' ', "");
    if let Some(inner) = t.strip_prefix("Option<").and_then(|s| s.strip_suffix('>')) {
        if let Some(i2) = inner.strip_prefix("Vec<").and_then(|s| s.strip_suffix('>')) {
            return ("optvec".into(), i2.to_string());
        }
        return ("opt".into(), inner.to_string());
    }
    if let Some(inner) = t.strip_prefix("Vec<").and_then(|s| s.strip_suffix('>')) {
        return ("vec".into(), inner.to_string());
    }
    ("req".into(), t)
}

pub fn run(repo: &PathBuf, out: &PathBuf) -> R<()> {
    let mut files: Vec<PathBuf> = Vec::new();
    for d in ["messages", "fields", "headers"] {
        let dir = repo.join("src").join(d);
        let mut fs: Vec<PathBuf> = std::fs::read_dir(&dir).map_err(|e| e.to_string())?.filter_map(|e| e.ok()).map(|e| e.path())
            .filter(|p| p.extension().map(|x| x == "rs").unwrap_or(false)).collect();
        fs.sort();
        files.extend(fs);
    }
    files.push(repo.join("src").join("swift_message.rs"));
    files.push(repo.join("src").join("parsed_message.rs"));
    let mut structs = Vec::new();
    let mut enums = Vec::new();
    let mut js = serde_json::Map::new();
    for p in &files {
        let file = parse_file(p)?;
        let fname = p.file_name().unwrap().to_string_lossy().to_string();
        for it in &file.items {
            match it {
                syn::Item::Struct(s) if derives_serde(&s.attrs) => {
                    let name = s.ident.to_string();
                    let mut members = Vec::new();
                    let mut jm = Vec::new();
                    if let syn::Fields::Named(n) = &s.fields {
                        for f in &n.named {
                            let a = attr_str(&f.attrs);
                            let member = f.ident.as_ref().unwrap().to_string();
                            let flatten = has_word(&a, "flatten");
                            let key = find_kv(&a, "rename").unwrap_or(member.clone());
                            let (wrap, inner) = unwrap_ty(&ty_string(&f.ty));
                            let skip = a.contains("skip_serializing_if");
                            let custom = find_kv(&a, "with").or(find_kv(&a, "serialize_with")).or(find_kv(&a, "deserialize_with")).unwrap_or_default();
                            let alias = find_kv(&a, "alias").unwrap_or_default();
                            members.push(format!(
                                "{{| m_key := {}; m_flatten := {}; m_wrap := {}; m_ty := {}; m_skip_none := {}; m_custom := {}; m_alias := {} |}}",
                                cq(&key), flatten,
                                match wrap.as_str() { "opt" => "WOpt", "vec" => "WVec", "optvec" => "WOptVec", _ => "WReq" },
                                cq(&inner), skip, cq(&custom), cq(&alias)
                            ));
                            jm.push(serde_json::json!({"member": member, "key": key, "flatten": flatten, "wrap": wrap, "ty": inner, "skip_none": skip, "custom": custom, "alias": alias}));
                        }
                    }
                    structs.push(format!("({}, [{}])", cq(&name), members.join("; ")));
                    js.insert(name, serde_json::json!({"kind": "struct", "file": fname, "members": jm}));
                }
                syn::Item::Enum(e) if derives_serde(&e.attrs) => {
                    let name = e.ident.to_string();
                    let a = attr_str(&e.attrs);
                    let mode = if has_word(&a, "untagged") { "EUntagged".to_string() } else if let Some(t) = find_kv(&a, "tag") { format!("EInternal {}", cq(&t)) } else { "EExternal".to_string() };
                    let mut vs = Vec::new();
                    let mut jv = Vec::new();
                    for v in &e.variants {
                        let va = attr_str(&v.attrs);
                        let key = find_kv(&va, "rename").unwrap_or(v.ident.to_string());
                        let payload = match &v.fields {
                            syn::Fields::Unnamed(u) if u.unnamed.len() == 1 => ty_string(&u.unnamed[0].ty),
                            syn::Fields::Unit => String::new(),
                            other => tokens(other),
                        };
                        vs.push(format!("({}, {})", cq(&key), cq(&payload)));
                        jv.push(serde_json::json!([key, payload]));
                    }
                    enums.push(format!("({}, ({}, [{}]))", cq(&name), mode, vs.join("; ")));
                    js.insert(name, serde_json::json!({"kind": "enum", "file": fname, "mode": mode, "variants": jv}));
                }
                _ => {}
            }
        }
    }
    let mut v = String::from(HEADER);
    v += "From SwiftMT Require Import Serde.Model.\n\n";
    v += &format!("Definition structs : list (bytes * list member) := [\n  {}\n].\n\n", structs.join(";\n  "));
    v += &format!("Definition enums : list (bytes * (emode * list (bytes * bytes))) := [\n  {}\n].\n", enums.join(";\n  "));
    write_out(out, "Shapes.v", &v)?;
    write_out(out, "shapes.json", &serde_json::to_string(&serde_json::Value::Object(js)).unwrap())?;
    Ok(())
}
