//! gen/Layouts.v — the body of every `parse_from_block4` as a program in the layout IR
//! (Engine/Layout.v), and gen/Serial.v — the body of every `to_mt_string`.
//!
//! Recognised: the six cursor calls (with `?`), with_duplicates, while/if over detect_field /
//! len / is_empty / is_some / is_none conditions, break, `return Err`, push, the field-50 peek
//! switch, the try/else idioms (`while let Ok`, `if let Ok .. else`), MT107's helper, the
//! completeness check.  Everything else that mentions `parser` is an error.

use crate::common::*;
use std::collections::HashSet;
use std::path::PathBuf;

#[derive(Debug, Clone)]
pub enum Cond {
    Detect(String),
    Or(Box<Cond>, Box<Cond>),
    And(Box<Cond>, Box<Cond>),
    Not(Box<Cond>),
    LenLt(String, u64),
    LenGe(String, u64),
    IsZero(String),  // is_empty / is_none
    NonZero(String), // !is_empty / is_some
    Complete,
    True,
}

#[derive(Debug, Clone)]
pub enum Dst {
    Let(String),
    Push(String),
    None,
}

#[derive(Debug, Clone)]
pub enum Stmt {
    Req { ty: String, tag: String, dst: Dst },
    Opt { ty: String, tag: String, dst: Dst },
    ReqV { fam: String, base: String, dst: Dst },
    OptV { fam: String, base: String, dst: Dst },
    Dup(bool),
    Push(String),
    While(Cond, Vec<Stmt>),
    If(Cond, Vec<Stmt>, Vec<Stmt>),
    Break,
    Fail(String),
    /// if let Some(variant) = parser.<peek>("base") { match variant.as_str() { arms.., _ => default } }
    Peek { all_letters: bool, base: String, arms: Vec<(Vec<String>, Vec<Stmt>)>, default: Vec<Stmt> },
    /// while let Ok(x) = <call without ?> { body }      (the error is swallowed)
    WhileLetOk(Box<Stmt>, Vec<Stmt>),
    /// if let Ok(x) = <call without ?> { th } else { el }   (some_only: `Ok(Some(x))`)
    TryElse { call: Box<Stmt>, some_only: bool, th: Vec<Stmt>, el: Vec<Stmt> },
    VerifyComplete,
    ReturnOk,
}

fn norm(s: &str) -> String {
    s.chars().filter(|c| !c.is_whitespace()).collect()
}
fn has_parser(s: &str) -> bool {
    let n = norm(s);
    n.contains("parser") || n.contains("trimmed")
}

struct Tx<'a> {
    file: &'a syn::File,
    what: String,
    zero_vars: HashSet<String>,
    unknown_vars: HashSet<String>,
}

impl<'a> Tx<'a> {
    fn err<T>(&self, msg: String) -> R<T> {
        Err(format!("{}: {}", self.what, msg))
    }

    fn parser_call(&self, e: &syn::Expr, dst: &Dst) -> R<Option<Stmt>> {
        if let syn::Expr::MethodCall(m) = e {
            if norm(&tokens(&*m.receiver)) == "parser" {
                let name = m.method.to_string();
                let ty = m.turbofish.as_ref().map(|t| t.args.iter().map(|a| norm(&tokens(a))).collect::<Vec<_>>().join(",")).unwrap_or_default();
                let arg = m.args.first().and_then(lit_str);
                return match (name.as_str(), arg) {
                    ("parse_field", Some(tag)) => Ok(Some(Stmt::Req { ty, tag, dst: dst.clone() })),
                    ("parse_optional_field", Some(tag)) => Ok(Some(Stmt::Opt { ty, tag, dst: dst.clone() })),
                    ("parse_variant_field", Some(tag)) => Ok(Some(Stmt::ReqV { fam: ty, base: tag, dst: dst.clone() })),
                    ("parse_optional_variant_field", Some(tag)) => Ok(Some(Stmt::OptV { fam: ty, base: tag, dst: dst.clone() })),
                    _ => Ok(None),
                };
            }
        }
        Ok(None)
    }

    fn cond(&mut self, e: &syn::Expr) -> R<Cond> {
        match e {
            syn::Expr::Paren(p) => self.cond(&p.expr),
            syn::Expr::Binary(b) => {
                let l = || -> R<(Cond, Cond)> { Err(String::new()) };
                let _ = l;
                match b.op {
                    syn::BinOp::Or(_) => Ok(Cond::Or(Box::new(self.cond(&b.left)?), Box::new(self.cond(&b.right)?))),
                    syn::BinOp::And(_) => Ok(Cond::And(Box::new(self.cond(&b.left)?), Box::new(self.cond(&b.right)?))),
                    syn::BinOp::Lt(_) | syn::BinOp::Ge(_) => {
                        let lhs = norm(&tokens(&*b.left));
                        let n: u64 = norm(&tokens(&*b.right)).parse().map_err(|_| format!("{}: bound {}", self.what, tokens(&*b.right)))?;
                        let v = lhs.strip_suffix(".len()").ok_or_else(|| format!("{}: comparison on {}", self.what, lhs))?.to_string();
                        self.check_var(&v)?;
                        Ok(if matches!(b.op, syn::BinOp::Lt(_)) { Cond::LenLt(v, n) } else { Cond::LenGe(v, n) })
                    }
                    _ => self.err(format!("unrecognised condition {}", tokens(e))),
                }
            }
            syn::Expr::Unary(u) if matches!(u.op, syn::UnOp::Not(_)) => Ok(Cond::Not(Box::new(self.cond(&u.expr)?))),
            syn::Expr::MethodCall(m) => {
                let recv = norm(&tokens(&*m.receiver));
                let name = m.method.to_string();
                if recv == "parser" && name == "detect_field" {
                    let tag = m.args.first().and_then(lit_str).ok_or_else(|| format!("{}: detect_field arg", self.what))?;
                    return Ok(Cond::Detect(tag));
                }
                if recv == "parser" && name == "is_complete" {
                    return Ok(Cond::Complete);
                }
                if recv == "trimmed" && name == "starts_with" {
                    let lit = m.args.first().and_then(lit_str).ok_or_else(|| format!("{}: starts_with arg", self.what))?;
                    let tag = lit.strip_prefix(':').and_then(|s| s.strip_suffix(':')).ok_or_else(|| format!("{}: starts_with literal {lit}", self.what))?;
                    return Ok(Cond::Detect(tag.to_string()));
                }
                if name == "is_empty" || name == "is_none" {
                    self.check_var(&recv)?;
                    return Ok(Cond::IsZero(recv));
                }
                if name == "is_some" {
                    self.check_var(&recv)?;
                    return Ok(Cond::NonZero(recv));
                }
                self.err(format!("unrecognised condition {}", tokens(e)))
            }
            _ => self.err(format!("unrecognised condition {}", tokens(e))),
        }
    }

    fn check_var(&self, v: &str) -> R<()> {
        if self.unknown_vars.contains(v) {
            return Err(format!("{}: condition refers to `{v}`, whose value the translator does not track", self.what));
        }
        Ok(())
    }

    fn block(&mut self, stmts: &[syn::Stmt], dst: &Dst) -> R<Vec<Stmt>> {
        let mut out = Vec::new();
        let n = stmts.len();
        let mut i = 0;
        while i < n {
            let s = &stmts[i];
            let last = i == n - 1;
            match s {
                syn::Stmt::Local(l) => {
                    let name = match &l.pat {
                        syn::Pat::Ident(pi) => pi.ident.to_string(),
                        syn::Pat::Type(pt) => norm(&tokens(&*pt.pat)).trim_start_matches("mut").to_string(),
                        other => norm(&tokens(other)),
                    };
                    match &l.init {
                        None => {}
                        Some(init) => {
                            let t = tokens(&*init.expr);
                            let nt0 = norm(&t);
                            if nt0 == "parser.remaining()" || nt0.starts_with("remaining.trim_start_matches(") {
                                // prelude of MT107::parse_field_50: `trimmed` is the input at the cursor
                            } else if !has_parser(&t) {
                                let nt = norm(&t);
                                if nt == "Vec::new()" || nt == "None" || nt == "HashMap::new()" {
                                    self.zero_vars.insert(name.clone());
                                    out.push(Stmt::Push(format!("~{name}")));
                                } else if nt.starts_with("parser.remaining()") || nt.starts_with("remaining.trim_start_matches") {
                                    // helper prelude of MT107::parse_field_50
                                } else if let Some(v) = self.some_if_nonempty(&init.expr) {
                                    // let x = if v.is_empty() { None } else { Some(v) }  : x is Some iff v non-empty
                                    out.push(Stmt::If(Cond::NonZero(v), vec![Stmt::Push(format!("={name}"))], vec![Stmt::Push(format!("~{name}"))]));
                                } else if let Some(src) = self.if_let_some_else(&init.expr, &name)? {
                                    out.extend(src);
                                } else {
                                    self.unknown_vars.insert(name.clone());
                                }
                            } else {
                                let d = Dst::Let(name.clone());
                                out.extend(self.expr(&init.expr, &d)?);
                            }
                        }
                    }
                }
                syn::Stmt::Expr(e, _) => {
                    // early-return idiom of helpers: if c { ...; return Ok(..) }  rest...
                    if let syn::Expr::If(ifx) = e {
                        if ifx.else_branch.is_none() && !last {
                            if let Some(syn::Stmt::Expr(syn::Expr::Return(r), _)) = ifx.then_branch.stmts.last() {
                                if r.expr.as_ref().map(|x| norm(&tokens(&**x)).starts_with("Ok(")).unwrap_or(false) {
                                    let c = self.cond(&ifx.cond)?;
                                    let th = self.block(&ifx.then_branch.stmts[..ifx.then_branch.stmts.len() - 1], &Dst::None)?;
                                    let el = self.block(&stmts[i + 1..], dst)?;
                                    out.push(Stmt::If(c, th, el));
                                    return Ok(out);
                                }
                            }
                        }
                    }
                    let d = if last { dst.clone() } else { Dst::None };
                    out.extend(self.expr(e, &d)?);
                }
                syn::Stmt::Macro(m) => {
                    if has_parser(&tokens(m)) {
                        return self.err(format!("macro statement mentions the parser: {}", tokens(m)));
                    }
                }
                syn::Stmt::Item(_) => {}
            }
            i += 1;
        }
        Ok(out)
    }

    /// `if v.is_empty() { None } else { Some(v) }`
    fn some_if_nonempty(&self, e: &syn::Expr) -> Option<String> {
        let n = norm(&tokens(e));
        let v = n.strip_prefix("if")?.split(".is_empty()").next()?.to_string();
        if n == format!("if{v}.is_empty(){{None}}else{{Some({v})}}") {
            Some(v)
        } else if n == format!("if!{}.is_empty(){{Some({})}}else{{None}}", v.trim_start_matches('!'), v.trim_start_matches('!')) {
            Some(v.trim_start_matches('!').to_string())
        } else {
            None
        }
    }

    /// `if let Some(x) = VAR { x } else { <expr with parser> }` with no parser in the scrutinee
    fn if_let_some_else(&mut self, _e: &syn::Expr, _name: &str) -> R<Option<Vec<Stmt>>> {
        Ok(None)
    }

    fn expr(&mut self, e: &syn::Expr, dst: &Dst) -> R<Vec<Stmt>> {
        let t = tokens(e);
        match e {
            syn::Expr::Try(tr) => {
                if let Some(s) = self.parser_call(&tr.expr, dst)? {
                    return Ok(vec![s]);
                }
                let n = norm(&tokens(&*tr.expr));
                if n == "verify_parser_complete(&parser)" || n == "crate::parser::utils::verify_parser_complete(&parser)" {
                    return Ok(vec![Stmt::VerifyComplete]);
                }
                if let Some(h) = n.strip_prefix("Self::").and_then(|s| s.strip_suffix("(&mutparser)")) {
                    return self.inline_helper(h);
                }
                if let Some(rest) = n.strip_prefix("parse_repeated_field::<") {
                    // utils::parse_repeated_field::<T>(&mut parser, "tag")?  = while detect { push(parse_field?) }
                    let ty = rest.split('>').next().unwrap_or("").to_string();
                    if let syn::Expr::Call(c) = &*tr.expr {
                        if let Some(tag) = c.args.iter().nth(1).and_then(lit_str) {
                            let v = match dst { Dst::Let(x) => x.clone(), _ => "_".into() };
                            return Ok(vec![Stmt::While(Cond::Detect(tag.clone()), vec![Stmt::Req { ty, tag, dst: Dst::Push(v) }])]);
                        }
                    }
                }
                self.err(format!("unrecognised `?` expression {t}"))
            }
            syn::Expr::Assign(a) => {
                let l = norm(&tokens(&*a.left));
                let r = norm(&tokens(&*a.right));
                if l == "parser" {
                    return match r.as_str() {
                        "parser.with_duplicates(true)" => Ok(vec![Stmt::Dup(true)]),
                        "parser.with_duplicates(false)" => Ok(vec![Stmt::Dup(false)]),
                        _ => self.err(format!("assignment to parser: {t}")),
                    };
                }
                if !has_parser(&r) {
                    self.unknown_vars.insert(l);
                    return Ok(vec![]);
                }
                self.expr(&a.right, &Dst::Let(l))
            }
            syn::Expr::While(w) => {
                if let syn::Expr::Let(l) = &*w.cond {
                    // while let Ok(x) = parser.parse_field::<T>(tag) { body }
                    let pat = norm(&tokens(&*l.pat));
                    let var = pat.strip_prefix("Ok(").and_then(|s| s.strip_suffix(")")).ok_or_else(|| format!("{}: while-let pattern {pat}", self.what))?.to_string();
                    let call = self.parser_call(&l.expr, &Dst::Let(var))?.ok_or_else(|| format!("{}: while-let scrutinee {}", self.what, tokens(&*l.expr)))?;
                    let body = self.block(&w.body.stmts, &Dst::None)?;
                    return Ok(vec![Stmt::WhileLetOk(Box::new(call), body)]);
                }
                let c = self.cond(&w.cond)?;
                let body = self.block(&w.body.stmts, &Dst::None)?;
                Ok(vec![Stmt::While(c, body)])
            }
            syn::Expr::If(ifx) => self.if_expr(ifx, dst),
            syn::Expr::Block(b) => self.block(&b.block.stmts, dst),
            syn::Expr::Paren(p) => self.expr(&p.expr, dst),
            syn::Expr::Break(_) => Ok(vec![Stmt::Break]),
            syn::Expr::Return(r) => {
                let inner = r.expr.as_ref().map(|x| tokens(&**x)).unwrap_or_default();
                if norm(&inner).starts_with("Err(") {
                    Ok(vec![Stmt::Fail(fail_message(&inner))])
                } else {
                    self.err(format!("unrecognised return {t}"))
                }
            }
            syn::Expr::Call(c) => {
                let f = norm(&tokens(&*c.func));
                if f == "Ok" && !has_parser(&t) {
                    return Ok(vec![Stmt::ReturnOk]);
                }
                if has_parser(&t) {
                    if c.args.len() == 1 && (f == "Some" || f.contains("::")) {
                        return self.expr(&c.args[0], dst);
                    }
                    return self.err(format!("unrecognised call {t}"));
                }
                Ok(vec![])
            }
            syn::Expr::MethodCall(m) => {
                let name = m.method.to_string();
                if name == "push" && m.args.len() == 1 {
                    let v = norm(&tokens(&*m.receiver));
                    if has_parser(&tokens(&m.args[0])) {
                        return self.expr(&m.args[0], &Dst::Push(v));
                    }
                    return Ok(vec![Stmt::Push(v)]);
                }
                if has_parser(&t) {
                    return self.err(format!("unrecognised method call {t}"));
                }
                Ok(vec![])
            }
            syn::Expr::Match(_) => self.err(format!("match outside a variant peek: {t}")),
            _ => {
                if has_parser(&t) {
                    self.err(format!("unrecognised expression {t}"))
                } else {
                    Ok(vec![])
                }
            }
        }
    }

    fn if_expr(&mut self, ifx: &syn::ExprIf, dst: &Dst) -> R<Vec<Stmt>> {
        let els = |this: &mut Self| -> R<Vec<Stmt>> {
            match &ifx.else_branch {
                None => Ok(vec![]),
                Some((_, e)) => this.expr(e, dst),
            }
        };
        if let syn::Expr::Let(l) = &*ifx.cond {
            let pat = norm(&tokens(&*l.pat));
            let scr = norm(&tokens(&*l.expr));
            // variant peek
            for (m, all) in [("parser.detect_variant_optional(", false), ("parser.peek_field_variant(", true)] {
                if scr.starts_with(m) && pat.starts_with("Some(") {
                    let base = if let syn::Expr::MethodCall(mc) = &*l.expr { mc.args.first().and_then(lit_str) } else { None }
                        .ok_or_else(|| format!("{}: peek argument", self.what))?;
                    let var = pat[5..pat.len() - 1].to_string();
                    // body must be a single match on var.as_str()
                    let body = &ifx.then_branch.stmts;
                    if body.len() != 1 {
                        return self.err("variant peek body is not a single match".into());
                    }
                    let mx = match &body[0] {
                        syn::Stmt::Expr(syn::Expr::Match(mx), _) => mx,
                        _ => return self.err("variant peek body is not a match".into()),
                    };
                    if norm(&tokens(&*mx.expr)) != format!("{var}.as_str()") {
                        return self.err(format!("variant peek matches on {}", tokens(&*mx.expr)));
                    }
                    let mut arms = Vec::new();
                    let mut default = Vec::new();
                    for arm in &mx.arms {
                        if let Some(lits) = pat_lit_strs(&arm.pat) {
                            arms.push((lits, self.expr(&arm.body, &Dst::None)?));
                        } else if let syn::Pat::Wild(_) = arm.pat {
                            default = self.expr(&arm.body, &Dst::None)?;
                        } else {
                            return self.err(format!("variant peek arm {}", tokens(&arm.pat)));
                        }
                    }
                    if ifx.else_branch.is_some() {
                        return self.err("variant peek with else branch".into());
                    }
                    return Ok(vec![Stmt::Peek { all_letters: all, base, arms, default }]);
                }
            }
            // if let Ok(x) = <parser call> {..} else {..}
            if pat.starts_with("Ok(") {
                let some_only = pat.starts_with("Ok(Some(");
                let var = pat.trim_start_matches("Ok(").trim_start_matches("Some(").trim_end_matches(')').to_string();
                if let Some(call) = self.parser_call(&l.expr, &Dst::Let(var))? {
                    let th = self.block(&ifx.then_branch.stmts, &Dst::None)?;
                    let el = els(self)?;
                    return Ok(vec![Stmt::TryElse { call: Box::new(call), some_only, th, el }]);
                }
            }
            // if let Some(x) = VAR { x } else { E }
            if pat.starts_with("Some(") && !has_parser(&scr) {
                self.check_var(&scr)?;
                let th = self.block(&ifx.then_branch.stmts, dst)?;
                let el = els(self)?;
                return Ok(vec![Stmt::If(Cond::NonZero(scr), th, el)]);
            }
            return self.err(format!("unrecognised if-let {} = {}", pat, scr));
        }
        let ct = tokens(&*ifx.cond);
        if !has_parser(&ct) && !has_parser(&tokens(&ifx.then_branch)) && ifx.else_branch.as_ref().map(|(_, e)| !has_parser(&tokens(&**e))).unwrap_or(true) {
            // parser-free if: only relevant when it can fail / break / push
            let th_t = norm(&tokens(&ifx.then_branch));
            let el_t = ifx.else_branch.as_ref().map(|(_, e)| norm(&tokens(&**e))).unwrap_or_default();
            if !(th_t.contains("return") || th_t.contains("break") || th_t.contains(".push(") || el_t.contains("return") || el_t.contains("break") || el_t.contains(".push(")) {
                return Ok(vec![]);
            }
        }
        // `!parser.is_complete()` => return Err : the inline completeness check
        if norm(&ct) == "!parser.is_complete()" && norm(&tokens(&ifx.then_branch)).starts_with("{returnErr(") && ifx.else_branch.is_none() {
            return Ok(vec![Stmt::VerifyComplete]);
        }
        let c = self.cond(&ifx.cond)?;
        let th = self.block(&ifx.then_branch.stmts, dst)?;
        let el = els(self)?;
        Ok(vec![Stmt::If(c, th, el)])
    }

    fn inline_helper(&mut self, name: &str) -> R<Vec<Stmt>> {
        let mut v = Vec::new();
        find_fns(&self.file.items, name, &mut v);
        if v.len() != 1 {
            return self.err(format!("helper {name}: {} definitions", v.len()));
        }
        let stmts = v[0].block.stmts.clone();
        let mut out = self.block(&stmts, &Dst::None)?;
        // a helper's final Ok(..) is not the end of the message
        out.retain(|s| !matches!(s, Stmt::ReturnOk));
        fn strip(v: &mut Vec<Stmt>) {
            v.retain(|s| !matches!(s, Stmt::ReturnOk));
            for s in v.iter_mut() {
                if let Stmt::If(_, a, b) = s {
                    strip(a);
                    strip(b);
                }
            }
        }
        strip(&mut out);
        Ok(out)
    }
}

fn fail_message(src: &str) -> String {
    // first string literal inside the Err(..)
    if let Some(i) = src.find('"') {
        let rest = &src[i + 1..];
        let mut out = String::new();
        let mut chars = rest.chars();
        while let Some(c) = chars.next() {
            if c == '\\' {
                if let Some(n) = chars.next() {
                    out.push(n);
                }
            } else if c == '"' {
                break;
            } else {
                out.push(c);
            }
        }
        return out;
    }
    String::new()
}

// ---------------------------------------------------------------- emit

fn cond_v(c: &Cond) -> String {
    match c {
        Cond::Detect(t) => format!("CDetect {}", cq(t)),
        Cond::Or(a, b) => format!("COr ({}) ({})", cond_v(a), cond_v(b)),
        Cond::And(a, b) => format!("CAnd ({}) ({})", cond_v(a), cond_v(b)),
        Cond::Not(a) => format!("CNot ({})", cond_v(a)),
        Cond::LenLt(v, n) => format!("CLenLt {} {}", cq(v), n),
        Cond::LenGe(v, n) => format!("CLenGe {} {}", cq(v), n),
        Cond::IsZero(v) => format!("CIsZero {}", cq(v)),
        Cond::NonZero(v) => format!("CNonZero {}", cq(v)),
        Cond::Complete => "CComplete".into(),
        Cond::True => "CTrue".into(),
    }
}
fn dst_v(d: &Dst) -> String {
    match d {
        Dst::Let(x) => format!("(DLet {})", cq(x)),
        Dst::Push(x) => format!("(DPush {})", cq(x)),
        Dst::None => "DNone".into(),
    }
}
fn stmts_v(v: &[Stmt], ind: usize) -> String {
    let pad = " ".repeat(ind);
    if v.is_empty() {
        return "[]".into();
    }
    let items: Vec<String> = v.iter().map(|s| format!("{pad}  {}", stmt_v(s, ind + 2))).collect();
    format!("[\n{}\n{pad}]", items.join(";\n"))
}
fn stmt_v(s: &Stmt, ind: usize) -> String {
    match s {
        Stmt::Req { ty, tag, dst } => format!("SReq {} {} {}", cq(ty), cq(tag), dst_v(dst)),
        Stmt::Opt { ty, tag, dst } => format!("SOpt {} {} {}", cq(ty), cq(tag), dst_v(dst)),
        Stmt::ReqV { fam, base, dst } => format!("SReqV {} {} {}", cq(fam), cq(base), dst_v(dst)),
        Stmt::OptV { fam, base, dst } => format!("SOptV {} {} {}", cq(fam), cq(base), dst_v(dst)),
        Stmt::Dup(b) => format!("SDup {b}"),
        Stmt::Push(v) => {
            if let Some(x) = v.strip_prefix('=') {
                format!("SSet {}", cq(x))
            } else if let Some(x) = v.strip_prefix('~') {
                format!("SZero {}", cq(x))
            } else {
                format!("SPush {}", cq(v))
            }
        }
        Stmt::While(c, b) => format!("SWhile ({}) {}", cond_v(c), stmts_v(b, ind)),
        Stmt::If(c, a, b) => format!("SIf ({}) {} {}", cond_v(c), stmts_v(a, ind), stmts_v(b, ind)),
        Stmt::Break => "SBreak".into(),
        Stmt::Fail(m) => format!("SFail {}", cq(m)),
        Stmt::Peek { all_letters, base, arms, default } => {
            let a: Vec<String> = arms.iter().map(|(ls, b)| format!("({}, {})", cq_list(ls), stmts_v(b, ind))).collect();
            format!("SPeek {} {} [{}] {}", all_letters, cq(base), a.join("; "), stmts_v(default, ind))
        }
        Stmt::WhileLetOk(c, b) => format!("SWhileLetOk ({}) {}", stmt_v(c, ind), stmts_v(b, ind)),
        Stmt::TryElse { call, some_only, th, el } => format!("STryElse ({}) {} {} {}", stmt_v(call, ind), some_only, stmts_v(th, ind), stmts_v(el, ind)),
        Stmt::VerifyComplete => "SVerifyComplete".into(),
        Stmt::ReturnOk => "SReturnOk".into(),
    }
}

fn cond_j(c: &Cond) -> serde_json::Value {
    use serde_json::json;
    match c {
        Cond::Detect(t) => json!({"detect": t}),
        Cond::Or(a, b) => json!({"or": [cond_j(a), cond_j(b)]}),
        Cond::And(a, b) => json!({"and": [cond_j(a), cond_j(b)]}),
        Cond::Not(a) => json!({"not": cond_j(a)}),
        Cond::LenLt(v, n) => json!({"len_lt": [v, n]}),
        Cond::LenGe(v, n) => json!({"len_ge": [v, n]}),
        Cond::IsZero(v) => json!({"is_zero": v}),
        Cond::NonZero(v) => json!({"non_zero": v}),
        Cond::Complete => json!("complete"),
        Cond::True => json!("true"),
    }
}
fn stmt_j(s: &Stmt) -> serde_json::Value {
    use serde_json::json;
    let d = |d: &Dst| match d {
        Dst::Let(x) => json!({"let": x}),
        Dst::Push(x) => json!({"push": x}),
        Dst::None => json!(null),
    };
    let l = |v: &[Stmt]| serde_json::Value::Array(v.iter().map(stmt_j).collect());
    match s {
        Stmt::Req { ty, tag, dst } => json!({"op": "req", "ty": ty, "tag": tag, "dst": d(dst)}),
        Stmt::Opt { ty, tag, dst } => json!({"op": "opt", "ty": ty, "tag": tag, "dst": d(dst)}),
        Stmt::ReqV { fam, base, dst } => json!({"op": "reqv", "fam": fam, "base": base, "dst": d(dst)}),
        Stmt::OptV { fam, base, dst } => json!({"op": "optv", "fam": fam, "base": base, "dst": d(dst)}),
        Stmt::Dup(b) => json!({"op": "dup", "b": b}),
        Stmt::Push(v) => json!({"op": "push", "v": v}),
        Stmt::While(c, b) => json!({"op": "while", "cond": cond_j(c), "body": l(b)}),
        Stmt::If(c, a, b) => json!({"op": "if", "cond": cond_j(c), "then": l(a), "else": l(b)}),
        Stmt::Break => json!({"op": "break"}),
        Stmt::Fail(m) => json!({"op": "fail", "msg": m}),
        Stmt::Peek { all_letters, base, arms, default } => json!({"op": "peek", "all": all_letters, "base": base,
            "arms": arms.iter().map(|(ls, b)| json!({"letters": ls, "body": l(b)})).collect::<Vec<_>>(), "default": l(default)}),
        Stmt::WhileLetOk(c, b) => json!({"op": "while_let_ok", "call": stmt_j(c), "body": l(b)}),
        Stmt::TryElse { call, some_only, th, el } => json!({"op": "try_else", "call": stmt_j(call), "some_only": some_only, "then": l(th), "else": l(el)}),
        Stmt::VerifyComplete => json!({"op": "verify_complete"}),
        Stmt::ReturnOk => json!({"op": "return_ok"}),
    }
}

pub fn run(repo: &PathBuf, out: &PathBuf) -> R<()> {
    let mut v = String::from(HEADER);
    v += "From SwiftMT Require Import Engine.Layout.\n\n";
    let mut names = Vec::new();
    let mut js = serde_json::Map::new();
    for (mt, p) in list_message_files(repo)? {
        let file = parse_file(&p)?;
        let mut fs = Vec::new();
        find_fns(&file.items, "parse_from_block4", &mut fs);
        // the implementation is the one that creates the MessageParser
        let cands: Vec<&FoundFn> = fs.iter().filter(|f| f.self_ty.as_deref() == Some(mt.as_str()) && norm(&tokens(f.block)).contains("MessageParser::new(block4,")).collect();
        if cands.len() != 1 {
            return Err(format!("{mt}: expected one parse_from_block4 creating a MessageParser, found {}", cands.len()));
        }
        let f = cands[0];
        // trait impl must delegate (or be the implementation itself)
        let tr: Vec<&FoundFn> = fs.iter().filter(|f| f.trait_.as_deref() == Some("SwiftMessageBody") && f.self_ty.as_deref() == Some(mt.as_str())).collect();
        let deleg_ok = tr.len() == 1 && (std::ptr::eq(tr[0].block, f.block) || {
            let b = norm(&tokens(tr[0].block));
            b == "{Self::parse_from_block4(block4)}" || b == format!("{{{mt}::parse_from_block4(block4)}}")
        });
        // first statement: let mut parser = MessageParser::new(block4, "nnn");
        let first = norm(&tokens(&f.block.stmts[0]));
        let code = mt.trim_start_matches("MT");
        let new_ok = first == format!("letmutparser=crate::parser::MessageParser::new(block4,\"{code}\");") || first == format!("letmutparser=MessageParser::new(block4,\"{code}\");");
        let mut tx = Tx { file: &file, what: format!("{mt}::parse_from_block4"), zero_vars: HashSet::new(), unknown_vars: HashSet::new() };
        let body = tx.block(&f.block.stmts[1..], &Dst::None)?;
        v += &format!("Definition layout_{mt} : list stmt := {}.\n\n", stmts_v(&body, 0));
        names.push((mt.clone(), deleg_ok && new_ok));
        js.insert(mt.clone(), serde_json::Value::Array(body.iter().map(stmt_j).collect()));
    }
    v += "Definition all_layouts : list (bytes * list stmt) := [\n  ";
    v += &names.iter().map(|(n, _)| format!("({}, layout_{n})", cq(n))).collect::<Vec<_>>().join(";\n  ");
    v += "\n].\n\n";
    v += "(* the trait method delegates to this body and the cursor is created over block4 with the type's own code *)\nDefinition layout_entry_ok : list (bytes * bool) := [\n  ";
    v += &names.iter().map(|(n, b)| format!("({}, {})", cq(n), b)).collect::<Vec<_>>().join(";\n  ");
    v += "\n].\n";
    // the option letters the cursor looks for (detect_variant, detect_variant_optional, peek_field_variant)
    let mp = parse_file(&src(repo, "parser/message_parser.rs"))?;
    for (fname, cname) in [("detect_variant", "cursor_letters_req"), ("detect_variant_optional", "cursor_letters_opt"), ("peek_field_variant", "cursor_letters_peek")] {
        let f = one_fn(&mp, fname, Some("MessageParser"), "message_parser.rs")?;
        let t = tokens(f.block);
        // first `vec ! [ "A" , ... ]` or `[ 'A' , ... ]` literal list of one-letter items
        let mut letters: Vec<String> = Vec::new();
        let b: Vec<char> = t.chars().collect();
        let mut i = 0;
        while i < b.len() {
            if b[i] == '[' {
                let mut j = i + 1;
                let mut cur = Vec::new();
                let mut ok = true;
                loop {
                    while j < b.len() && (b[j] == ' ' || b[j] == ',') { j += 1; }
                    if j < b.len() && b[j] == ']' { break; }
                    if j + 2 < b.len() && (b[j] == '"' || b[j] == '\'') && b[j + 1].is_ascii_uppercase() && b[j + 2] == b[j] {
                        cur.push(b[j + 1].to_string());
                        j += 3;
                    } else { ok = false; break; }
                }
                if ok && !cur.is_empty() { letters = cur; break; }
            }
            i += 1;
        }
        if letters.is_empty() {
            return Err(format!("message_parser.rs: no option-letter list found in {fname}"));
        }
        v += &format!("\nDefinition {cname} : list bytes := {}.\n", cq_list(&letters));
    }
    write_out(out, "Layouts.v", &v)?;
    write_out(out, "layouts.json", &serde_json::to_string(&serde_json::Value::Object(js)).unwrap())?;
    Ok(())
}
