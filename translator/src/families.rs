//! gen/Families.v — the multi-option field families (property C14): for every `pub enum FieldNN..`
//! in src/fields, its variants (name, payload type, serde name), the arms of `parse_with_variant`
//! (option letter -> payload parser -> variant, and what the fallback arm does), the control flow of the
//! letter-less heuristic `parse` as a small IR whose guards are opaque, whether `to_swift_string`
//! delegates to the payload, and for every payload type the tag literal its `to_swift_string` prints.

use crate::common::*;
use std::collections::BTreeMap;
use std::path::PathBuf;

#[derive(Clone, Debug)]
enum H {
    Try { g: usize, payload: String, vname: String, arg_input: bool, k: Box<H> },
    Must { payload: String, vname: String, arg_input: bool },
    If { g: usize, a: Box<H>, b: Box<H> },
    Fail,
}

fn norm(s: &str) -> String {
    s.chars().filter(|c| !c.is_whitespace()).collect()
}

struct Tr<'a> {
    ename: &'a str,
    next_g: usize,
    what: String,
}

/// `P::parse(arg)` -> (P, arg)
fn payload_parse_call(e: &syn::Expr) -> Option<(String, String)> {
    if let syn::Expr::Call(c) = e {
        if let syn::Expr::Path(p) = &*c.func {
            let segs: Vec<String> = p.path.segments.iter().map(|s| s.ident.to_string()).collect();
            if segs.len() == 2 && segs[1] == "parse" && c.args.len() == 1 {
                return Some((segs[0].clone(), norm(&tokens(&c.args[0]))));
            }
        }
    }
    None
}

/// `Ok(E::V(inner))` -> (V, inner)
fn ok_variant<'e>(e: &'e syn::Expr, ename: &str) -> Option<(String, &'e syn::Expr)> {
    if let syn::Expr::Call(c) = e {
        if norm(&tokens(&*c.func)) == "Ok" && c.args.len() == 1 {
            if let syn::Expr::Call(c2) = &c.args[0] {
                if let syn::Expr::Path(p) = &*c2.func {
                    let segs: Vec<String> = p.path.segments.iter().map(|s| s.ident.to_string()).collect();
                    if segs.len() == 2 && (segs[0] == ename || segs[0] == "Self") && c2.args.len() == 1 {
                        return Some((segs[1].clone(), &c2.args[0]));
                    }
                }
            }
        }
    }
    None
}

fn split_and<'e>(e: &'e syn::Expr, out: &mut Vec<&'e syn::Expr>) {
    match e {
        syn::Expr::Binary(b) if matches!(b.op, syn::BinOp::And(_)) => {
            split_and(&b.left, out);
            split_and(&b.right, out);
        }
        syn::Expr::Paren(p) => split_and(&p.expr, out),
        _ => out.push(e),
    }
}

impl<'a> Tr<'a> {
    fn fresh(&mut self) -> usize {
        self.next_g += 1;
        self.next_g
    }

    fn block(&mut self, stmts: &[syn::Stmt], k: H) -> R<H> {
        let mut k = k;
        for st in stmts.iter().rev() {
            k = self.stmt(st, k)?;
        }
        Ok(k)
    }

    fn stmt(&mut self, st: &syn::Stmt, k: H) -> R<H> {
        match st {
            syn::Stmt::Local(l) => {
                let t = norm(&tokens(l));
                if t.contains("::parse(") {
                    return Err(format!("{}: a `let` that calls a payload parser: {}", self.what, tokens(l)));
                }
                Ok(k)
            }
            syn::Stmt::Macro(_) => Ok(k),
            syn::Stmt::Item(_) => Ok(k),
            syn::Stmt::Expr(e, _) => self.expr(e, k),
        }
    }

    fn expr(&mut self, e: &syn::Expr, k: H) -> R<H> {
        match e {
            syn::Expr::If(ifx) => {
                let mut parts = Vec::new();
                split_and(&ifx.cond, &mut parts);
                let lets: Vec<&syn::ExprLet> = parts.iter().filter_map(|p| if let syn::Expr::Let(l) = p { Some(l) } else { None }).collect();
                if lets.len() > 1 {
                    return Err(format!("{}: several `let` in one condition", self.what));
                }
                if let Some(l) = lets.first() {
                    // [guards &&] let Ok(x) = P::parse(arg)  { return Ok(E::V(x)); }
                    let pat = norm(&tokens(&*l.pat));
                    let var = pat.strip_prefix("Ok(").and_then(|s| s.strip_suffix(')')).ok_or_else(|| format!("{}: let pattern {}", self.what, pat))?.to_string();
                    let (payload, arg) = payload_parse_call(&l.expr).ok_or_else(|| format!("{}: let initialiser {}", self.what, tokens(&*l.expr)))?;
                    if ifx.else_branch.is_some() || ifx.then_branch.stmts.len() != 1 {
                        return Err(format!("{}: `if let Ok(..)` with else / several statements", self.what));
                    }
                    let inner = match &ifx.then_branch.stmts[0] {
                        syn::Stmt::Expr(syn::Expr::Return(r), _) => r.expr.as_deref(),
                        syn::Stmt::Expr(x, None) => Some(x),
                        _ => None,
                    }
                    .ok_or_else(|| format!("{}: body of `if let Ok(..)`", self.what))?;
                    let (vname, a) = ok_variant(inner, self.ename).ok_or_else(|| format!("{}: `if let Ok(..)` does not return Ok(E::V(..)): {}", self.what, tokens(inner)))?;
                    if norm(&tokens(a)) != var {
                        return Err(format!("{}: variant {} wraps `{}`, not the value bound by the payload parser (`{}`)", self.what, vname, tokens(a), var));
                    }
                    let g = if parts.len() > 1 { self.fresh() } else { 0 };
                    return Ok(H::Try { g, payload, vname, arg_input: arg == "input", k: Box::new(k) });
                }
                let g = self.fresh();
                let a = self.block(&ifx.then_branch.stmts, k.clone())?;
                let b = match &ifx.else_branch {
                    None => k,
                    Some((_, eb)) => match &**eb {
                        syn::Expr::Block(b) => self.block(&b.block.stmts, k)?,
                        other => self.expr(other, k)?,
                    },
                };
                Ok(H::If { g, a: Box::new(a), b: Box::new(b) })
            }
            syn::Expr::ForLoop(f) => {
                // the body sees the same `input` on every iteration: one pass decides
                let g = self.fresh();
                let a = self.block(&f.body.stmts, k.clone())?;
                Ok(H::If { g, a: Box::new(a), b: Box::new(k) })
            }
            syn::Expr::Block(b) => self.block(&b.block.stmts, k),
            syn::Expr::Return(r) => match r.expr.as_deref() {
                Some(x) => self.expr(x, k),
                None => Err(format!("{}: bare return", self.what)),
            },
            // `some_check(input)?;` : an early error exit, otherwise continue
            syn::Expr::Try(t) => {
                if norm(&tokens(&*t.expr)).contains("::parse(") {
                    return Err(format!("{}: a `?` on a payload parser outside Ok(E::V(..)): {}", self.what, tokens(e)));
                }
                let g = self.fresh();
                Ok(H::If { g, a: Box::new(k), b: Box::new(H::Fail) })
            }
            syn::Expr::Break(_) => Ok(k),
            syn::Expr::Assign(_) => Ok(k),
            syn::Expr::Call(c) => {
                let f = norm(&tokens(&*c.func));
                if f == "Err" {
                    return Ok(H::Fail);
                }
                if let Some((vname, a)) = ok_variant(e, self.ename) {
                    // Ok(E::V(P::parse(arg)?))
                    if let syn::Expr::Try(t) = a {
                        if let Some((payload, arg)) = payload_parse_call(&t.expr) {
                            return Ok(H::Must { payload, vname, arg_input: arg == "input" });
                        }
                    }
                    return Err(format!("{}: Ok({}::{}(..)) wraps something else than `P::parse(..)?`: {}", self.what, self.ename, vname, tokens(a)));
                }
                Err(format!("{}: unrecognised call {}", self.what, tokens(e)))
            }
            other => Err(format!("{}: unrecognised expression {}", self.what, tokens(other))),
        }
    }
}

fn h_coq(h: &H) -> String {
    match h {
        H::Try { g, payload, vname, arg_input, k } => format!("HTry {} {} {} {} ({})", g, cq(payload), cq(vname), arg_input, h_coq(k)),
        H::Must { payload, vname, arg_input } => format!("HMust {} {} {}", cq(payload), cq(vname), arg_input),
        H::If { g, a, b } => format!("HIf {} ({}) ({})", g, h_coq(a), h_coq(b)),
        H::Fail => "HFail".to_string(),
    }
}

fn h_json(h: &H) -> serde_json::Value {
    match h {
        H::Try { g, payload, vname, arg_input, k } => serde_json::json!({"try": {"g": g, "payload": payload, "variant": vname, "arg_input": arg_input}, "then": h_json(k)}),
        H::Must { payload, vname, arg_input } => serde_json::json!({"must": {"payload": payload, "variant": vname, "arg_input": arg_input}}),
        H::If { g, a, b } => serde_json::json!({"if": g, "a": h_json(a), "b": h_json(b)}),
        H::Fail => serde_json::json!("fail"),
    }
}

fn serde_rename(attrs: &[syn::Attribute]) -> String {
    for a in attrs {
        let t = tokens(a);
        if t.contains("serde") {
            if let Some(i) = t.find("rename = \"") {
                let r = &t[i + 10..];
                if let Some(j) = r.find('"') {
                    return r[..j].to_string();
                }
            }
        }
    }
    String::new()
}

struct ImplFns<'a> {
    fns: BTreeMap<String, &'a syn::ImplItemFn>,
}

pub fn run(repo: &PathBuf, out: &PathBuf) -> R<()> {
    let dir = repo.join("src").join("fields");
    let mut files: Vec<PathBuf> = std::fs::read_dir(&dir).map_err(|e| e.to_string())?.filter_map(|e| e.ok()).map(|e| e.path())
        .filter(|p| p.file_name().and_then(|n| n.to_str()).map(|n| n.starts_with("field") && n.ends_with(".rs")).unwrap_or(false)).collect();
    files.sort();
    let mut v = String::from(HEADER);
    v += "From SwiftMT Require Import Family.Model.\n\n";
    let mut fams = Vec::new();
    let mut payload_tags: Vec<(String, String)> = Vec::new();
    let mut aliases: Vec<(String, String)> = Vec::new();
    let mut js = serde_json::Map::new();
    let tag_re = |body: &str| -> Option<String> {
        // first string literal that starts with ":NN[A]:" in the body of to_swift_string
        let b = body.as_bytes();
        let mut i = 0;
        while i + 5 < b.len() {
            if b[i] == b'"' && b[i + 1] == b':' && b[i + 2].is_ascii_digit() && b[i + 3].is_ascii_digit() {
                let mut j = i + 4;
                if j < b.len() && b[j].is_ascii_uppercase() {
                    j += 1;
                }
                if j < b.len() && b[j] == b':' {
                    return Some(body[i + 2..j].to_string());
                }
            }
            i += 1;
        }
        None
    };
    for p in &files {
        let file = parse_file(p)?;
        let fname = p.file_name().unwrap().to_string_lossy().to_string();
        // SwiftField impls of this file
        let mut impls: BTreeMap<String, ImplFns> = BTreeMap::new();
        for it in &file.items {
            match it {
                syn::Item::Impl(im) => {
                    if im.trait_.as_ref().map(|(_, p, _)| path_last(p)) == Some("SwiftField".to_string()) {
                        let mut fns = BTreeMap::new();
                        for ii in &im.items {
                            if let syn::ImplItem::Fn(f) = ii {
                                fns.insert(f.sig.ident.to_string(), f);
                            }
                        }
                        impls.insert(ty_string(&im.self_ty), ImplFns { fns });
                    }
                }
                syn::Item::Type(t) => aliases.push((t.ident.to_string(), ty_string(&t.ty))),
                _ => {}
            }
        }
        // payload tags: every struct type with a SwiftField impl
        for it in &file.items {
            if let syn::Item::Struct(s) = it {
                let n = s.ident.to_string();
                if let Some(im) = impls.get(&n) {
                    if let Some(f) = im.fns.get("to_swift_string") {
                        if let Some(t) = tag_re(&tokens(&f.block)) {
                            payload_tags.push((n.clone(), t));
                        }
                    }
                }
            }
        }
        for it in &file.items {
            let en = match it {
                syn::Item::Enum(e) if matches!(e.vis, syn::Visibility::Public(_)) && e.ident.to_string().starts_with("Field") => e,
                _ => continue,
            };
            let ename = en.ident.to_string();
            let im = match impls.get(&ename) {
                Some(i) => i,
                None => continue,
            };
            let what = format!("{fname}: {ename}");
            let mut variants = Vec::new();
            for va in &en.variants {
                let payload = match &va.fields {
                    syn::Fields::Unnamed(u) if u.unnamed.len() == 1 => ty_string(&u.unnamed[0].ty),
                    _ => return Err(format!("{what}: variant {} is not a one-field tuple", va.ident)),
                };
                variants.push((va.ident.to_string(), payload, serde_rename(&va.attrs)));
            }
            // parse_with_variant
            let mut arms: Vec<(Option<String>, String, String)> = Vec::new();
            let mut fallback_heur = true;
            let has_pwv = im.fns.contains_key("parse_with_variant");
            if let Some(f) = im.fns.get("parse_with_variant") {
                let m = tail_match(&f.block, &format!("{what}::parse_with_variant"))?;
                if norm(&tokens(&*m.expr)) != "variant" {
                    return Err(format!("{what}::parse_with_variant: match on {}", tokens(&*m.expr)));
                }
                let mut seen_fallback = false;
                for arm in &m.arms {
                    let pat = norm(&tokens(&arm.pat));
                    let body = norm(&tokens(&*arm.body));
                    if pat == "_" {
                        seen_fallback = true;
                        fallback_heur = body == "{Self::parse(value)}" || body == "Self::parse(value)";
                        if !fallback_heur && !(body.starts_with("{Err(") || body.starts_with("Err(")) {
                            return Err(format!("{what}::parse_with_variant: fallback arm {}", tokens(&*arm.body)));
                        }
                        continue;
                    }
                    let letter = if pat == "None" {
                        None
                    } else if let Some(l) = pat.strip_prefix("Some(\"").and_then(|s| s.strip_suffix("\")")) {
                        Some(l.to_string())
                    } else {
                        return Err(format!("{what}::parse_with_variant: pattern {}", pat));
                    };
                    // { let field = P::parse(value)?; Ok(E::V(field)) }
                    let mut found = None;
                    for (vn, pl, _) in &variants {
                        let want = format!("{{letfield={pl}::parse(value)?;Ok({ename}::{vn}(field))}}");
                        let want2 = format!("Ok({ename}::{vn}({pl}::parse(value)?))");
                        if body == want || body == want2 || body == format!("{{{want2}}}") {
                            found = Some((pl.clone(), vn.clone()));
                        }
                    }
                    match found {
                        Some((pl, vn)) => arms.push((letter, pl, vn)),
                        None => return Err(format!("{what}::parse_with_variant: arm {} => {}", pat, tokens(&*arm.body))),
                    }
                }
                if !seen_fallback {
                    return Err(format!("{what}::parse_with_variant: no fallback arm"));
                }
            }
            // heuristic parse
            let pf = im.fns.get("parse").ok_or_else(|| format!("{what}: no parse"))?;
            let mut tr = Tr { ename: &ename, next_g: 0, what: format!("{what}::parse") };
            let h = tr.block(&pf.block.stmts, H::Fail)?;
            // to_swift_string delegates per variant
            let mut delegates = false;
            if let Some(f) = im.fns.get("to_swift_string") {
                if let Ok(m) = tail_match(&f.block, "to_swift_string") {
                    delegates = norm(&tokens(&*m.expr)) == "self"
                        && m.arms.len() == variants.len()
                        && m.arms.iter().all(|a| {
                            let pat = norm(&tokens(&a.pat));
                            let body = norm(&tokens(&*a.body));
                            variants.iter().any(|(vn, _, _)| pat == format!("{ename}::{vn}(field)") && body == "field.to_swift_string()")
                        });
                }
            }
            js.insert(ename.clone(), serde_json::json!({
                "file": fname, "variants": variants.iter().map(|(a, b, c)| serde_json::json!([a, b, c])).collect::<Vec<_>>(),
                "has_pwv": has_pwv, "fallback_heur": fallback_heur, "arms": arms.iter().map(|(l, p, vn)| serde_json::json!([l, p, vn])).collect::<Vec<_>>(),
                "heur": h_json(&h), "print_delegates": delegates}));
            fams.push(format!(
                "{{| f_name := {}; f_variants := [{}]; f_has_pwv := {}; f_fallback_heur := {}; f_arms := [{}]; f_heur := {}; f_print_delegates := {} |}}",
                cq(&ename),
                variants.iter().map(|(a, b, c)| format!("({}, {}, {})", cq(a), cq(b), cq(c))).collect::<Vec<_>>().join("; "),
                has_pwv,
                fallback_heur,
                arms.iter().map(|(l, p, vn)| format!("({}, {}, {})", match l { Some(x) => format!("Some {}", cq(x)), None => "None".to_string() }, cq(p), cq(vn))).collect::<Vec<_>>().join("; "),
                h_coq(&h),
                delegates
            ));
        }
    }
    v += &format!("Definition families : list family := [\n  {}\n].\n\n", fams.join(";\n  "));
    v += &format!("(* the tag literal printed by each payload type's to_swift_string *)\nDefinition payload_tags : list (bytes * bytes) := {}.\n\n", cq_pairs(&payload_tags));
    v += &format!("(* pub type X = Y; in src/fields *)\nDefinition field_aliases : list (bytes * bytes) := {}.\n", cq_pairs(&aliases));
    js.insert("_payload_tags".into(), serde_json::json!(payload_tags));
    js.insert("_aliases".into(), serde_json::json!(aliases));
    write_out(out, "Families.v", &v)?;
    write_out(out, "families.json", &serde_json::to_string_pretty(&serde_json::Value::Object(js)).unwrap())?;
    Ok(())
}
