//! gen/Tables.v — literal tables of the library: get_currency_decimals (match arms),
//! COMMODITY_CURRENCIES.

use crate::common::*;
use std::path::PathBuf;

pub fn run(repo: &PathBuf, out: &PathBuf) -> R<()> {
    let mut v = String::from(HEADER);
    let su = parse_file(&src(repo, "fields/swift_utils.rs"))?;
    let f = one_fn(&su, "get_currency_decimals", None, "swift_utils.rs")?;
    let m = tail_match(f.block, "get_currency_decimals")?;
    if norm(&tokens(&*m.expr)) != "currency" {
        return Err(format!("get_currency_decimals matches on {}", tokens(&*m.expr)));
    }
    let mut rows = Vec::new();
    let mut default = None;
    for arm in &m.arms {
        let val: u64 = norm(&tokens(&*arm.body)).parse().map_err(|_| format!("get_currency_decimals: arm value {}", tokens(&*arm.body)))?;
        if let Some(lits) = pat_lit_strs(&arm.pat) {
            for l in lits {
                rows.push((l, val));
            }
        } else if let syn::Pat::Wild(_) = arm.pat {
            default = Some(val);
        } else {
            return Err(format!("get_currency_decimals: arm {}", tokens(&arm.pat)));
        }
    }
    v += "Definition currency_decimals : list (bytes * nat) := [\n  ";
    v += &rows.iter().map(|(c, n)| format!("({}, {})", cq(c), n)).collect::<Vec<_>>().join(";\n  ");
    v += "\n].\n";
    v += &format!("Definition currency_decimals_default : nat := {}.\n\n", default.ok_or("get_currency_decimals: no default arm")?);
    // COMMODITY_CURRENCIES
    let mut comm = None;
    for it in &su.items {
        if let syn::Item::Const(c) = it {
            if c.ident == "COMMODITY_CURRENCIES" {
                if let syn::Expr::Reference(r) = &*c.expr {
                    if let syn::Expr::Array(a) = &*r.expr {
                        comm = Some(a.elems.iter().filter_map(lit_str).collect::<Vec<_>>());
                    }
                }
            }
        }
    }
    v += &format!("Definition commodity_currencies : list bytes := {}.\n", cq_list(&comm.ok_or("COMMODITY_CURRENCIES not found")?));
    // the two formatting functions must print with the currency's decimals
    let f = one_fn(&su, "format_swift_amount_for_currency", None, "swift_utils.rs")?;
    let ok1 = norm(&tokens(f.block)) == "{letdecimals=get_currency_decimals(currency);format_swift_amount(amount,decimalsasusize)}";
    let f = one_fn(&su, "format_swift_amount", None, "swift_utils.rs")?;
    let ok2 = norm(&tokens(f.block)) == "{letformatted=format!(\"{:.width$}\",amount,width=decimals);formatted.replace('.',\",\")}";
    v += &format!("Definition format_for_currency_uses_table : bool := {}.\n", ok1 && ok2);
    write_out(out, "Tables.v", &v)
}

fn norm(s: &str) -> String {
    s.chars().filter(|c| !c.is_whitespace()).collect()
}
