//! rs2v — regenerates the tabular / structural part of the Coq model from the
//! current source of /repo.  usage: rs2v <repo-root> <out-dir>
//!
//! Every module recognises a deliberately narrow set of syntactic shapes and
//! fails loudly (exit 2, file, construct) on anything else: a translator
//! failure is handled by the check driver like a broken proof.

mod common;
mod dispatch;
mod validators;
mod layouts;
mod tables;
mod families;
mod shapes;

use std::path::PathBuf;

fn main() {
    let args: Vec<String> = std::env::args().collect();
    if args.len() < 3 {
        eprintln!("usage: rs2v <repo-root> <out-dir> [module ...]");
        std::process::exit(2);
    }
    let repo = PathBuf::from(&args[1]);
    let out = PathBuf::from(&args[2]);
    std::fs::create_dir_all(&out).expect("create out dir");
    let wanted: Vec<&str> = args[3..].iter().map(|s| s.as_str()).collect();
    let all = wanted.is_empty();
    let mut failed = false;
    let mut run = |name: &str, f: &dyn Fn(&PathBuf, &PathBuf) -> Result<(), String>| {
        if all || wanted.contains(&name) {
            match f(&repo, &out) {
                Ok(()) => println!("rs2v: {name} ok"),
                Err(e) => {
                    println!("rs2v: {name} FAILED: {e}");
                    failed = true;
                }
            }
        }
    };
    run("dispatch", &dispatch::run);
    run("validators", &validators::run);
    run("layouts", &layouts::run);
    run("tables", &tables::run);
    run("families", &families::run);
    run("shapes", &shapes::run);
    if failed {
        std::process::exit(2);
    }
}
