//! gen/ValidatorShapes.v — the group structure of every `validate_network_rules` (property C13):
//! which rule functions are called, in which order, by which of the two early-return idioms,
//! whether a callee receives `stop_on_first_error`, and (for those that do) whether the callee
//! itself has the sequential "push; if stop { return }" shape.  Also the adapters
//! SwiftMessage::validate and the trait impl delegation.

use crate::common::*;
use std::path::PathBuf;

#[derive(Debug)]
enum Group {
    Opt { name: String, checks_stop: bool },
    Vec { name: String, passes_flag: bool, checks_stop: bool },
}

fn norm(s: &str) -> String {
    s.chars().filter(|c| !c.is_whitespace()).collect()
}

fn self_call(e: &syn::Expr) -> Option<(String, Vec<String>)> {
    if let syn::Expr::MethodCall(m) = e {
        if norm(&tokens(&*m.receiver)) == "self" {
            return Some((m.method.to_string(), m.args.iter().map(|a| norm(&tokens(a))).collect()));
        }
    }
    None
}

fn parse_groups(block: &syn::Block, what: &str) -> R<Vec<Group>> {
    let mut gs = Vec::new();
    let st = &block.stmts;
    let mut i = 0;
    while i < st.len() {
        let s = &st[i];
        let t = norm(&tokens(s));
        if t == "letmutall_errors=Vec::new();" {
            i += 1;
            continue;
        }
        if i == st.len() - 1 && (t == "all_errors" || t == "Vec::new()") {
            i += 1;
            continue;
        }
        // if let Some(error) = self.NAME() { all_errors.push(error); [if stop { return all_errors; }] }
        if let syn::Stmt::Expr(syn::Expr::If(ifx), _) = s {
            if let syn::Expr::Let(l) = &*ifx.cond {
                if norm(&tokens(&*l.pat)) == "Some(error)" && ifx.else_branch.is_none() {
                    if let Some((name, args)) = self_call(&l.expr) {
                        if !args.is_empty() {
                            return Err(format!("{what}: Option-returning rule {name} takes arguments {:?}", args));
                        }
                        let body: Vec<String> = ifx.then_branch.stmts.iter().map(|x| norm(&tokens(x))).collect();
                        let checks = if body == vec!["all_errors.push(error);".to_string(), "ifstop_on_first_error{returnall_errors;}".to_string()] {
                            true
                        } else if body == vec!["all_errors.push(error);".to_string()] {
                            false
                        } else {
                            return Err(format!("{what}: unrecognised body of `if let Some(error) = self.{name}()`: {:?}", body));
                        };
                        gs.push(Group::Opt { name, checks_stop: checks });
                        i += 1;
                        continue;
                    }
                }
            }
        }
        // let X = self.NAME(args); all_errors.extend(X); [if stop && !all_errors.is_empty() { return all_errors; }]
        if let syn::Stmt::Local(l) = s {
            if let (syn::Pat::Ident(pi), Some(init)) = (&l.pat, &l.init) {
                if let Some((name, args)) = self_call(&init.expr) {
                    let var = pi.ident.to_string();
                    let passes = match args.as_slice() {
                        [] => false,
                        [a] if a == "stop_on_first_error" => true,
                        _ => return Err(format!("{what}: rule {name} called with unexpected arguments {:?}", args)),
                    };
                    if i + 1 < st.len() && norm(&tokens(&st[i + 1])) == format!("all_errors.extend({var});") {
                        let mut checks = false;
                        let mut adv = 2;
                        if i + 2 < st.len() && norm(&tokens(&st[i + 2])) == "ifstop_on_first_error&&!all_errors.is_empty(){returnall_errors;}" {
                            checks = true;
                            adv = 3;
                        }
                        gs.push(Group::Vec { name, passes_flag: passes, checks_stop: checks });
                        i += adv;
                        continue;
                    }
                }
            }
        }
        return Err(format!("{what}: unrecognised statement in validate_network_rules: {}", tokens(s)));
    }
    Ok(gs)
}

/// the sequential shape of a stop-aware callee: every `errors.push(..)` is immediately followed by
/// `if stop_on_first_error { return errors; }`, the flag is mentioned nowhere else, the result is `errors`.
fn stop_aware_ok(stmts: &[syn::Stmt], top: bool) -> bool {
    let mut i = 0;
    while i < stmts.len() {
        let s = &stmts[i];
        let t = norm(&tokens(s));
        if top && i == stmts.len() - 1 {
            return t == "errors";
        }
        match s {
            syn::Stmt::Local(_) => {
                if t.contains("stop_on_first_error") || t.contains("return") {
                    return false;
                }
            }
            syn::Stmt::Expr(syn::Expr::MethodCall(m), Some(_)) if norm(&tokens(&*m.receiver)) == "errors" && m.method == "push" => {
                if t.contains("stop_on_first_error") {
                    return false;
                }
                if i + 1 >= stmts.len() || norm(&tokens(&stmts[i + 1])) != "ifstop_on_first_error{returnerrors;}" {
                    return false;
                }
                i += 1;
            }
            syn::Stmt::Expr(syn::Expr::If(ifx), _) => {
                if norm(&tokens(&*ifx.cond)).contains("stop_on_first_error") {
                    return false;
                }
                if !stop_aware_ok(&ifx.then_branch.stmts, false) {
                    return false;
                }
                if let Some((_, e)) = &ifx.else_branch {
                    match &**e {
                        syn::Expr::Block(b) => {
                            if !stop_aware_ok(&b.block.stmts, false) {
                                return false;
                            }
                        }
                        _ => return false,
                    }
                }
            }
            syn::Stmt::Expr(syn::Expr::ForLoop(f), _) => {
                if norm(&tokens(&*f.expr)).contains("stop_on_first_error") || !stop_aware_ok(&f.body.stmts, false) {
                    return false;
                }
            }
            _ => return false,
        }
        i += 1;
    }
    !top
}

// ---------------------------------------------------------------------------------------------
// determinism scan: the theorems quantify over rule *functions* of the message.  That is justified
// when the rule code reads no clock / RNG / interior-mutable state and never iterates a container
// whose iteration order is unspecified (std HashSet / HashMap).  Membership-only use
// (insert / contains / get / len ...) of such a container is order-free and accepted.

const ORDER_FREE: [&str; 14] = ["insert", "contains", "contains_key", "get", "get_mut", "len", "is_empty", "remove", "entry", "clear", "reserve", "extend", "clone", "with_capacity"];
const IMPURE: [&str; 12] = ["thread_rng", "SystemTime", "Instant", "RefCell", "Cell", "AtomicUsize", "AtomicU64", "AtomicBool", "OnceLock", "OnceCell", "lazy_static", "now"];

struct Scan<'a> {
    unordered_fns: &'a [String],
    unordered_vars: Vec<String>,
    sites: Vec<String>,
    fname: String,
}

fn mentions_unordered(t: &str) -> bool {
    t.contains("HashSet") || t.contains("HashMap")
}

impl<'a> Scan<'a> {
    fn expr_is_unordered(&self, e: &syn::Expr) -> bool {
        let e = strip_ref(e);
        match e {
            syn::Expr::Path(p) => p.path.get_ident().map(|i| self.unordered_vars.contains(&i.to_string())).unwrap_or(false),
            syn::Expr::MethodCall(m) => {
                (self.unordered_fns.contains(&m.method.to_string()) && norm(&tokens(&*m.receiver)) == "self")
                    || (self.expr_is_unordered(&m.receiver) && ["clone", "iter", "into_iter", "keys", "values", "drain", "union", "intersection", "difference", "symmetric_difference"].contains(&m.method.to_string().as_str()))
            }
            syn::Expr::Call(c) => {
                let f = norm(&tokens(&*c.func));
                mentions_unordered(&f) || self.unordered_fns.iter().any(|u| f.ends_with(&format!("::{u}")) || &f == u)
            }
            syn::Expr::Paren(p) => self.expr_is_unordered(&p.expr),
            _ => false,
        }
    }
}

fn strip_ref(e: &syn::Expr) -> &syn::Expr {
    match e {
        syn::Expr::Reference(r) => strip_ref(&r.expr),
        syn::Expr::Paren(p) => strip_ref(&p.expr),
        _ => e,
    }
}

impl<'a, 'ast> syn::visit::Visit<'ast> for Scan<'a> {
    fn visit_local(&mut self, l: &'ast syn::Local) {
        let (name, ty) = match &l.pat {
            syn::Pat::Ident(pi) => (Some(pi.ident.to_string()), String::new()),
            syn::Pat::Type(pt) => (
                if let syn::Pat::Ident(pi) = &*pt.pat { Some(pi.ident.to_string()) } else { None },
                norm(&tokens(&*pt.ty)),
            ),
            _ => (None, String::new()),
        };
        if let Some(n) = name {
            let by_init = l.init.as_ref().map(|i| {
                let t = norm(&tokens(&*i.expr));
                self.expr_is_unordered(&i.expr) || t.starts_with("HashSet::") || t.starts_with("HashMap::") || t.starts_with("std::collections::HashSet::") || t.starts_with("std::collections::HashMap::")
                    || (t.ends_with(".collect()") && mentions_unordered(&ty))
                    || t.contains("collect::<HashSet") || t.contains("collect::<HashMap") || t.contains("collect::<std::collections::Hash")
            }).unwrap_or(false);
            if by_init || mentions_unordered(&ty) {
                self.unordered_vars.push(n);
            }
        }
        syn::visit::visit_local(self, l);
    }
    fn visit_expr_method_call(&mut self, m: &'ast syn::ExprMethodCall) {
        let name = m.method.to_string();
        if self.expr_is_unordered(&m.receiver) && !ORDER_FREE.contains(&name.as_str()) {
            self.sites.push(format!("{}: .{}() on an unordered container ({})", self.fname, name, norm(&tokens(&*m.receiver))));
        }
        if IMPURE.contains(&name.as_str()) {
            self.sites.push(format!("{}: call of {}", self.fname, name));
        }
        syn::visit::visit_expr_method_call(self, m);
    }
    fn visit_expr_for_loop(&mut self, f: &'ast syn::ExprForLoop) {
        if self.expr_is_unordered(&f.expr) {
            self.sites.push(format!("{}: for-loop over an unordered container ({})", self.fname, norm(&tokens(&*f.expr))));
        }
        syn::visit::visit_expr_for_loop(self, f);
    }
    fn visit_path(&mut self, p: &'ast syn::Path) {
        for seg in &p.segments {
            let s = seg.ident.to_string();
            if IMPURE.contains(&s.as_str()) && s != "now" && s != "Cell" {
                self.sites.push(format!("{}: mentions {}", self.fname, s));
            }
        }
        if let Some(last) = p.segments.last() {
            if last.ident == "now" {
                self.sites.push(format!("{}: reads the clock ({})", self.fname, norm(&tokens(p))));
            }
        }
        syn::visit::visit_path(self, p);
    }
}

/// sites in the non-test, non-codec functions of one message file where the result may depend on
/// more than the message
fn nondeterminism_sites(file: &syn::File) -> Vec<String> {
    use syn::visit::Visit;
    let mut fns: Vec<(String, &syn::Signature, &syn::Block)> = Vec::new();
    fn collect<'a>(items: &'a [syn::Item], out: &mut Vec<(String, &'a syn::Signature, &'a syn::Block)>) {
        for it in items {
            match it {
                syn::Item::Fn(f) => out.push((f.sig.ident.to_string(), &f.sig, &f.block)),
                syn::Item::Impl(im) => {
                    for ii in &im.items {
                        if let syn::ImplItem::Fn(f) = ii {
                            out.push((f.sig.ident.to_string(), &f.sig, &f.block));
                        }
                    }
                }
                syn::Item::Mod(m) => {
                    let is_test = m.attrs.iter().any(|a| tokens(a).contains("cfg (test)"));
                    if !is_test {
                        if let Some((_, items)) = &m.content {
                            collect(items, out);
                        }
                    }
                }
                _ => {}
            }
        }
    }
    collect(&file.items, &mut fns);
    let unordered_fns: Vec<String> = fns
        .iter()
        .filter(|(_, sig, _)| match &sig.output { syn::ReturnType::Type(_, t) => mentions_unordered(&norm(&tokens(&**t))), _ => false })
        .map(|(n, _, _)| n.clone())
        .collect();
    let mut sites = Vec::new();
    for (name, sig, block) in &fns {
        if name == "parse_from_block4" || name == "to_mt_string" || name == "to_ordered_fields" {
            continue;
        }
        let mut sc = Scan { unordered_fns: &unordered_fns, unordered_vars: Vec::new(), sites: Vec::new(), fname: name.clone() };
        for a in &sig.inputs {
            if let syn::FnArg::Typed(pt) = a {
                if mentions_unordered(&norm(&tokens(&*pt.ty))) {
                    if let syn::Pat::Ident(pi) = &*pt.pat {
                        sc.unordered_vars.push(pi.ident.to_string());
                    }
                }
            }
        }
        sc.visit_block(block);
        sites.extend(sc.sites);
    }
    sites
}

pub fn run(repo: &PathBuf, out: &PathBuf) -> R<()> {
    let mut v = String::from(HEADER);
    v += "Inductive vgroup :=\n| GOpt (name : bytes) (checks_stop : bool)\n| GVec (name : bytes) (passes_flag : bool) (checks_stop : bool).\n\n";
    let mut shapes = Vec::new();
    let mut delegs = Vec::new();
    let mut aware = Vec::new();
    let mut js = serde_json::Map::new();
    let mut nondet = Vec::new();
    for (mt, p) in list_message_files(repo)? {
        let file = parse_file(&p)?;
        nondet.push((mt.clone(), nondeterminism_sites(&file)));
        let mut fs = Vec::new();
        find_fns(&file.items, "validate_network_rules", &mut fs);
        let inherent: Vec<&FoundFn> = fs.iter().filter(|f| f.trait_.is_none() && f.self_ty.as_deref() == Some(mt.as_str())).collect();
        let tr: Vec<&FoundFn> = fs.iter().filter(|f| f.trait_.as_deref() == Some("SwiftMessageBody") && f.self_ty.as_deref() == Some(mt.as_str())).collect();
        let what = format!("{mt}::validate_network_rules");
        let groups = match inherent.as_slice() {
            [f] => parse_groups(f.block, &what)?,
            [] => {
                if tr.is_empty() {
                    Vec::new() // trait default: Vec::new()
                } else {
                    return Err(format!("{what}: trait impl without inherent fn"));
                }
            }
            _ => return Err(format!("{what}: several inherent definitions")),
        };
        let deleg_ok = match tr.as_slice() {
            [f] => norm(&tokens(f.block)) == format!("{{{mt}::validate_network_rules(self,stop_on_first_error)}}"),
            [] => inherent.is_empty(),
            _ => false,
        };
        delegs.push((mt.clone(), deleg_ok));
        let mut items = Vec::new();
        let mut jg = Vec::new();
        for g in &groups {
            match g {
                Group::Opt { name, checks_stop } => {
                    items.push(format!("GOpt {} {}", cq(name), checks_stop));
                    jg.push(serde_json::json!({"kind": "opt", "name": name, "checks_stop": checks_stop}));
                }
                Group::Vec { name, passes_flag, checks_stop } => {
                    items.push(format!("GVec {} {} {}", cq(name), passes_flag, checks_stop));
                    jg.push(serde_json::json!({"kind": "vec", "name": name, "passes_flag": passes_flag, "checks_stop": checks_stop}));
                    if *passes_flag {
                        let mut cs = Vec::new();
                        find_fns(&file.items, name, &mut cs);
                        let ok = cs.len() == 1 && stop_aware_ok(&cs[0].block.stmts, true);
                        aware.push((format!("{mt}.{name}"), ok));
                    }
                }
            }
        }
        js.insert(mt.clone(), serde_json::Value::Array(jg));
        shapes.push(format!("({}, [{}])", cq(&mt), items.join("; ")));
    }
    v += &format!("Definition validator_shapes : list (bytes * list vgroup) := [\n  {}\n].\n\n", shapes.join(";\n  "));
    v += &format!(
        "(* impl SwiftMessageBody for T delegates to T::validate_network_rules(self, stop_on_first_error) *)\nDefinition trait_delegates : list (bytes * bool) := [\n  {}\n].\n\n",
        delegs.iter().map(|(a, b)| format!("({}, {})", cq(a), b)).collect::<Vec<_>>().join(";\n  ")
    );
    v += &format!(
        "(* callees that receive the flag: body has the sequential push/return shape *)\nDefinition stop_aware_callees : list (bytes * bool) := [\n  {}\n].\n\n",
        aware.iter().map(|(a, b)| format!("({}, {})", cq(a), b)).collect::<Vec<_>>().join(";\n  ")
    );
    v += &format!(
        "(* rule code whose result may depend on more than the message: iteration over std HashSet/HashMap, clock, RNG, interior mutability *)\nDefinition nondeterminism_sites : list (bytes * list bytes) := [\n  {}\n].\n\n",
        nondet.iter().map(|(a, b)| format!("({}, [{}])", cq(a), b.iter().map(|x| cq(x)).collect::<Vec<_>>().join("; "))).collect::<Vec<_>>().join(";\n  ")
    );
    // adapters
    let sm = parse_file(&src(repo, "swift_message.rs"))?;
    let f = one_fn(&sm, "validate", Some("SwiftMessage"), "swift_message.rs")?;
    let b = norm(&tokens(f.block));
    let ok = b.starts_with("{letvalidation_errors=self.fields.validate_network_rules(false);leterrors:Vec<ValidationError>=validation_errors.into_iter().map(|swift_error|{")
        && b.contains("ValidationError::BusinessRuleValidation{rule_name:swift_error.error_code().to_string(),message,}}).collect();")
        && b.ends_with("ValidationResult{is_valid:errors.is_empty(),errors,warnings:Vec::new(),}}");
    v += &format!("Definition swift_message_validate_is_full_rules : bool := {}.\n", ok);
    let pv = parse_file(&src(repo, "plugin/validate.rs"))?;
    let f = one_fn(&pv, "validate_mt_message", Some("Validate"), "plugin/validate.rs")?;
    let b = norm(&tokens(f.block));
    let ok = b.contains("letis_valid=errors.is_empty();")
        && b.contains("if!validation_errors.is_empty(){forvalidation_errorinvalidation_errors{errors.push(self.format_validation_error(&validation_error));}}")
        && b.contains("Err(parse_error)=>{errors.push(format!(\"Parseerror:{}\",parse_error));");
    v += &format!("Definition plugin_validate_verdict_is_emptiness : bool := {}.\n", ok);
    write_out(out, "ValidatorShapes.v", &v)?;
    write_out(out, "validator_shapes.json", &serde_json::to_string_pretty(&serde_json::Value::Object(js)).unwrap())?;
    Ok(())
}
