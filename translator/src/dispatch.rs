//! gen/Dispatch.v — the message-type dispatch tables (property C12):
//!   parse_message_auto, ParsedSwiftMessage::{message_type, validate, into_*}, the enum itself,
//!   plugin parse / publish / validate, and every `fn message_type()` of a message body.

use crate::common::*;
use quote::ToTokens;
use std::path::PathBuf;
use syn::visit::Visit;

struct CallFinder {
    turbofish_parse_message: Vec<String>,
    wrapper_ctor: Vec<String>,
    into_calls: Vec<String>,
}
impl<'ast> Visit<'ast> for CallFinder {
    fn visit_expr_method_call(&mut self, m: &'ast syn::ExprMethodCall) {
        let name = m.method.to_string();
        if name == "parse_message" {
            if let Some(tf) = &m.turbofish {
                for a in &tf.args {
                    self.turbofish_parse_message.push(a.to_token_stream().to_string().replace(' ', ""));
                }
            }
        }
        if name.starts_with("into_mt") {
            self.into_calls.push(name);
        }
        syn::visit::visit_expr_method_call(self, m);
    }
    fn visit_expr_call(&mut self, c: &'ast syn::ExprCall) {
        if let syn::Expr::Path(p) = &*c.func {
            let segs: Vec<String> = p.path.segments.iter().map(|s| s.ident.to_string()).collect();
            if segs.len() == 2 && segs[0] == "ParsedSwiftMessage" {
                self.wrapper_ctor.push(segs[1].clone());
            }
        }
        syn::visit::visit_expr_call(self, c);
    }
}

fn variant_of_pat(p: &syn::Pat) -> Option<(String, Option<String>)> {
    // ParsedSwiftMessage::MT101(x)  ->  ("MT101", Some("x")) ; `_` binder -> None
    if let syn::Pat::TupleStruct(ts) = p {
        let segs: Vec<String> = ts.path.segments.iter().map(|s| s.ident.to_string()).collect();
        if segs.len() == 2 && segs[0] == "ParsedSwiftMessage" && ts.elems.len() == 1 {
            let b = match &ts.elems[0] {
                syn::Pat::Ident(i) => Some(i.ident.to_string()),
                syn::Pat::Wild(_) => None,
                _ => return None,
            };
            return Some((segs[1].clone(), b));
        }
    }
    None
}

pub fn run(repo: &PathBuf, out: &PathBuf) -> R<()> {
    let mut v = String::from(HEADER);
    let mut json = serde_json::Map::new();

    // ---- 1. parse_message_auto
    let sp = parse_file(&src(repo, "parser/swift_parser.rs"))?;
    let f = one_fn(&sp, "parse_message_auto", Some("SwiftParser"), "swift_parser.rs")?;
    let m = tail_match(f.block, "parse_message_auto")?;
    let scrut = tokens(&*m.expr);
    let mut auto: Vec<(String, String, String)> = Vec::new();
    let mut auto_fallback = String::new();
    for arm in &m.arms {
        if let Some(lits) = pat_lit_strs(&arm.pat) {
            let mut cf = CallFinder { turbofish_parse_message: vec![], wrapper_ctor: vec![], into_calls: vec![] };
            cf.visit_expr(&arm.body);
            if cf.turbofish_parse_message.len() != 1 || cf.wrapper_ctor.len() != 1 {
                return Err(format!("parse_message_auto: arm {:?} not of the shape parse_message::<T> + ParsedSwiftMessage::V(..): {}", lits, tokens(&*arm.body)));
            }
            let body = tokens(&*arm.body);
            if !body.contains("raw_message") {
                return Err(format!("parse_message_auto: arm {:?} does not pass raw_message", lits));
            }
            for l in lits {
                auto.push((l, cf.turbofish_parse_message[0].clone(), cf.wrapper_ctor[0].clone()));
            }
        } else if let syn::Pat::Wild(_) = arm.pat {
            let b = tokens(&*arm.body);
            auto_fallback = if b.contains("UnsupportedMessageType") { "Unsupported".into() } else { format!("Other:{b}") };
        } else {
            return Err(format!("parse_message_auto: unrecognised arm pattern {}", tokens(&arm.pat)));
        }
    }
    // scrutinee must be the application header's message type
    let f_src = tokens(f.block);
    let scrut_ok = scrut == "message_type"
        && f_src.contains("let message_type = application_header . message_type ()")
        && f_src.contains("let application_header = ApplicationHeader :: parse (& block2 . unwrap_or_default ()) ?")
        && f_src.contains("let block2 = Self :: extract_block (raw_message , 2) ?");
    v += &format!("Definition auto_scrutinee_is_header_type : bool := {}.\n", scrut_ok);
    v += "(* code literal -> (T of parse_message::<T>, wrapper variant) *)\nDefinition auto_arms : list (bytes * (bytes * bytes)) := [\n  ";
    v += &auto.iter().map(|(c, t, w)| format!("({}, ({}, {}))", cq(c), cq(t), cq(w))).collect::<Vec<_>>().join(";\n  ");
    v += "\n].\n";
    v += &format!("Definition auto_fallback_unsupported : bool := {}.\n\n", auto_fallback == "Unsupported");
    json.insert("auto_arms".into(), serde_json::json!(auto.iter().map(|(c, t, w)| vec![c, t, w]).collect::<Vec<_>>()));

    // ---- 1b. parse_message::<T>: the mismatch test
    let pm = one_fn(&sp, "parse_message", Some("SwiftParser"), "swift_parser.rs")?;
    let pm_src = tokens(pm.block);
    let mismatch_ok = pm_src.contains("if message_type != T :: message_type () { return Err (ParseError :: SwiftValidation (Box :: new (SwiftValidationError :: format_error (t_series :: T03")
        && pm_src.contains("let message_type = application_header . message_type () . to_string ()")
        && pm_src.contains("let fields = T :: parse_from_block4 (& block4 . unwrap_or_default ()) ?");
    // the mismatch test must come before the body parse
    let order_ok = match (pm_src.find("if message_type != T :: message_type ()"), pm_src.find("T :: parse_from_block4")) {
        (Some(a), Some(b)) => a < b,
        _ => false,
    };
    v += &format!("Definition typed_mismatch_guard_present : bool := {}.\n\n", mismatch_ok && order_ok);

    // ---- 2..4 parsed_message.rs
    let pmf = parse_file(&src(repo, "parsed_message.rs"))?;
    // enum
    let mut variants: Vec<(String, String, String)> = Vec::new(); // variant, serde rename, payload
    for it in &pmf.items {
        if let syn::Item::Enum(e) = it {
            if e.ident == "ParsedSwiftMessage" {
                for var in &e.variants {
                    let mut rename = String::new();
                    for a in &var.attrs {
                        let t = a.to_token_stream().to_string();
                        if let Some(i) = t.find("rename = \"") {
                            let rest = &t[i + 10..];
                            if let Some(j) = rest.find('"') {
                                rename = rest[..j].to_string();
                            }
                        }
                    }
                    let payload = match &var.fields {
                        syn::Fields::Unnamed(u) if u.unnamed.len() == 1 => ty_string(&u.unnamed[0].ty),
                        _ => return Err(format!("enum ParsedSwiftMessage: variant {} is not a 1-tuple", var.ident)),
                    };
                    let inner = payload
                        .strip_prefix("Box<SwiftMessage<")
                        .and_then(|s| s.strip_suffix(">>"))
                        .ok_or_else(|| format!("enum ParsedSwiftMessage: payload {payload} is not Box<SwiftMessage<T>>"))?
                        .to_string();
                    variants.push((var.ident.to_string(), rename, inner));
                }
            }
        }
    }
    if variants.is_empty() {
        return Err("enum ParsedSwiftMessage not found".into());
    }
    v += "(* wrapper variant -> payload body type ; wrapper variant -> serde tag *)\n";
    v += &format!("Definition wrapper_payload : list (bytes * bytes) := {}.\n", cq_pairs(&variants.iter().map(|(a, _, c)| (a.clone(), c.clone())).collect::<Vec<_>>()));
    v += &format!("Definition wrapper_serde_tag : list (bytes * bytes) := {}.\n", cq_pairs(&variants.iter().map(|(a, b, _)| (a.clone(), b.clone())).collect::<Vec<_>>()));

    let f = one_fn(&pmf, "message_type", Some("ParsedSwiftMessage"), "parsed_message.rs")?;
    let m = tail_match(f.block, "ParsedSwiftMessage::message_type")?;
    let mut wmt = Vec::new();
    for arm in &m.arms {
        let (var, _) = variant_of_pat(&arm.pat).ok_or_else(|| format!("ParsedSwiftMessage::message_type: arm {}", tokens(&arm.pat)))?;
        let lit = lit_str(&arm.body).ok_or_else(|| format!("ParsedSwiftMessage::message_type: body {}", tokens(&*arm.body)))?;
        wmt.push((var, lit));
    }
    v += &format!("Definition wrapper_message_type : list (bytes * bytes) := {}.\n", cq_pairs(&wmt));

    let f = one_fn(&pmf, "validate", Some("ParsedSwiftMessage"), "parsed_message.rs")?;
    let m = tail_match(f.block, "ParsedSwiftMessage::validate")?;
    let mut wval = Vec::new();
    for arm in &m.arms {
        let (var, b) = variant_of_pat(&arm.pat).ok_or_else(|| format!("ParsedSwiftMessage::validate: arm {}", tokens(&arm.pat)))?;
        let ok = b.map(|b| tokens(&*arm.body) == format!("{b} . validate ()")).unwrap_or(false);
        wval.push((var, ok));
    }
    v += "Definition wrapper_validate_delegates : list (bytes * bool) := [\n  ";
    v += &wval.iter().map(|(a, b)| format!("({}, {})", cq(a), b)).collect::<Vec<_>>().join(";\n  ");
    v += "\n].\n";

    // into_mtNNN
    let mut into: Vec<(String, String)> = Vec::new();
    for it in &pmf.items {
        if let syn::Item::Impl(im) = it {
            for ii in &im.items {
                if let syn::ImplItem::Fn(f) = ii {
                    let n = f.sig.ident.to_string();
                    if n.starts_with("into_mt") {
                        let m = tail_match(&f.block, &n)?;
                        let mut var = None;
                        for arm in &m.arms {
                            if let Some((vn, Some(b))) = variant_of_pat(&arm.pat) {
                                if tokens(&*arm.body) == format!("Some (* {b})") {
                                    var = Some(vn);
                                }
                            }
                        }
                        into.push((n.clone(), var.ok_or_else(|| format!("{n}: no `V(msg) => Some(*msg)` arm"))?));
                    }
                }
            }
        }
    }
    v += &format!("Definition into_arms : list (bytes * bytes) := {}.\n\n", cq_pairs(&into));

    // ---- 5. plugin/parse.rs
    let pp = parse_file(&src(repo, "plugin/parse.rs"))?;
    let f = one_fn(&pp, "parse_swift_mt", Some("Parse"), "plugin/parse.rs")?;
    let m = tail_match(f.block, "parse_swift_mt")?;
    let scr = tokens(&*m.expr);
    let fsrc = tokens(f.block);
    let pscr_ok = scr == "message_type . as_str ()"
        && fsrc.contains("let message_type = parsed_message . message_type () . to_string ()")
        && fsrc.contains("SwiftParser :: parse_auto (& payload)");
    let mut pparse = Vec::new();
    let mut pparse_fallback = false;
    for arm in &m.arms {
        if let Some(lits) = pat_lit_strs(&arm.pat) {
            let mut cf = CallFinder { turbofish_parse_message: vec![], wrapper_ctor: vec![], into_calls: vec![] };
            cf.visit_expr(&arm.body);
            if cf.into_calls.len() != 1 {
                return Err(format!("plugin parse: arm {:?}: expected one into_mt* call, got {:?}", lits, cf.into_calls));
            }
            let b = tokens(&*arm.body);
            // the JSON that is stored must be the converted message itself
            let bound = b.find("let Some (").and_then(|i| b[i + 10..].find(')').map(|j| b[i + 10..i + 10 + j].trim().to_string()));
            let to_value_ok = bound.as_ref().map(|x| b.contains(&format!("serde_json :: to_value (& {x})"))).unwrap_or(false);
            for l in lits {
                pparse.push((l, cf.into_calls[0].clone(), to_value_ok));
            }
        } else if let syn::Pat::Wild(_) = arm.pat {
            pparse_fallback = tokens(&*arm.body).contains("Unsupported message type");
        } else {
            return Err(format!("plugin parse: unrecognised arm {}", tokens(&arm.pat)));
        }
    }
    v += &format!("Definition plugin_parse_scrutinee_ok : bool := {}.\n", pscr_ok);
    v += "(* code literal -> (into_* method, stores serde_json::to_value of that message) *)\nDefinition plugin_parse_arms : list (bytes * (bytes * bool)) := [\n  ";
    v += &pparse.iter().map(|(c, t, w)| format!("({}, ({}, {}))", cq(c), cq(t), w)).collect::<Vec<_>>().join(";\n  ");
    v += "\n].\n";
    v += &format!("Definition plugin_parse_fallback_unsupported : bool := {}.\n\n", pparse_fallback);

    // ---- 6. plugin/publish.rs
    let pb = parse_file(&src(repo, "plugin/publish.rs"))?;
    let f = one_fn(&pb, "json_to_mt", None, "plugin/publish.rs")?;
    let m = tail_match(f.block, "json_to_mt")?;
    let mut ppub = Vec::new();
    let mut ppub_fallback = false;
    for arm in &m.arms {
        if let Some(lits) = pat_lit_strs(&arm.pat) {
            let b = tokens(&*arm.body);
            let t = b.strip_prefix("convert_json ! (").and_then(|s| s.strip_suffix(")")).ok_or_else(|| format!("json_to_mt: arm body {b}"))?.trim().to_string();
            for l in lits {
                ppub.push((l, t.clone()));
            }
        } else if let syn::Pat::Wild(_) = arm.pat {
            ppub_fallback = tokens(&*arm.body).contains("Unsupported message type");
        } else {
            return Err(format!("json_to_mt: unrecognised arm {}", tokens(&arm.pat)));
        }
    }
    let fsrc = tokens(f.block);
    let fsrc_n: String = fsrc.chars().filter(|c| !c.is_whitespace()).collect();
    let macro_ok = fsrc_n.contains("letmsg:SwiftMessage<$mt_type>=serde_json::from_value(json_value.clone())")
        && fsrc_n.contains("Ok(msg.to_mt_message())");
    if !macro_ok { eprintln!("json_to_mt body: {fsrc_n}"); }
    v += &format!("Definition plugin_publish_macro_ok : bool := {}.\n", macro_ok);
    v += &format!("Definition plugin_publish_arms : list (bytes * bytes) := {}.\n", cq_pairs(&ppub));
    v += &format!("Definition plugin_publish_fallback_unsupported : bool := {}.\n", ppub_fallback);
    // how the type string reaches json_to_mt
    let ex = one_fn(&pb, "execute", Some("Publish"), "plugin/publish.rs")?;
    let exs = tokens(ex.block);
    let strip_ok = exs.contains("json_data . get (\"message_type\") . and_then (Value :: as_str) . map (| mt | mt . trim_start_matches (\"MT\") . to_string ())")
        && exs.contains("json_to_mt (& message_type , & cleaned_data)");
    v += &format!("Definition plugin_publish_strips_mt_prefix : bool := {}.\n\n", strip_ok);

    // ---- 7. plugin/validate.rs
    let pv = parse_file(&src(repo, "plugin/validate.rs"))?;
    let f = one_fn(&pv, "validate_network_rules", Some("Validate"), "plugin/validate.rs")?;
    let m = tail_match(f.block, "Validate::validate_network_rules")?;
    let mut pval = Vec::new();
    for arm in &m.arms {
        let (var, b) = variant_of_pat(&arm.pat).ok_or_else(|| format!("plugin validate: arm {}", tokens(&arm.pat)))?;
        let ok = b.map(|b| tokens(&*arm.body) == format!("{b} . fields . validate_network_rules (false)")).unwrap_or(false);
        pval.push((var, ok));
    }
    v += "Definition plugin_validate_full_rules : list (bytes * bool) := [\n  ";
    v += &pval.iter().map(|(a, b)| format!("({}, {})", cq(a), b)).collect::<Vec<_>>().join(";\n  ");
    v += "\n].\n";
    let f = one_fn(&pv, "validate_mt_message", Some("Validate"), "plugin/validate.rs")?;
    let fs = tokens(f.block);
    let pv_ok = fs.contains("match SwiftParser :: parse_auto (mt_content)")
        && fs.contains("message_type = Some (parsed_message . message_type () . to_string ())")
        && fs.contains("let validation_errors = self . validate_network_rules (& parsed_message)");
    v += &format!("Definition plugin_validate_uses_auto : bool := {}.\n\n", pv_ok);

    // ---- 8. message bodies
    let mut body_mt = Vec::new();
    for (_, p) in list_message_files(repo)? {
        let file = parse_file(&p)?;
        let mut fs = Vec::new();
        find_fns(&file.items, "message_type", &mut fs);
        for f in fs {
            if f.trait_.as_deref() == Some("SwiftMessageBody") {
                let lit = match f.block.stmts.last() {
                    Some(syn::Stmt::Expr(e, None)) => lit_str(e),
                    _ => None,
                }
                .ok_or_else(|| format!("{}: message_type() body is not a string literal", p.display()))?;
                body_mt.push((f.self_ty.clone().unwrap_or_default(), lit));
            }
        }
    }
    v += &format!("(* impl SwiftMessageBody for T: message_type() *)\nDefinition body_message_type : list (bytes * bytes) := {}.\n", cq_pairs(&body_mt));

    json.insert("body_message_type".into(), serde_json::json!(body_mt));
    json.insert("wrapper_message_type".into(), serde_json::json!(wmt));
    json.insert("plugin_publish_arms".into(), serde_json::json!(ppub));
    write_out(out, "Dispatch.v", &v)?;
    write_out(out, "dispatch.json", &serde_json::to_string_pretty(&serde_json::Value::Object(json)).unwrap())?;
    Ok(())
}
