(* Headers/Hdr12Facts.v — C10 for blocks 1 and 2: an accepted header has exactly the shape of
   the format and is reproduced byte for byte; for ALL byte strings. *)

From Coq Require Import Strings.String.
From SwiftMT Require Import Base.Bytes Base.StrOps Headers.Hdr12.
From Coq Require Import Lia.

Lemma sub_length : forall s a b, b <= length s -> a <= b -> length (sub s a b) = b - a.
Proof. intros s a b Hb Ha. unfold sub. rewrite firstn_length, skipn_length. lia. Qed.

Lemma skipn_skipn' : forall A (l : list A) a b, skipn a (skipn b l) = skipn (b + a) l.
Proof.
  intros A l a b. revert l. induction b as [|b IH]; intro l; [reflexivity|].
  destruct l as [|x r]; [rewrite !skipn_nil; reflexivity|]. cbn [skipn plus]. apply IH.
Qed.

Lemma firstn_add' : forall A (l : list A) a b, firstn (a + b) l = firstn a l ++ firstn b (skipn a l).
Proof.
  intros A l a b. revert l. induction a as [|a IH]; intro l; [reflexivity|].
  destruct l as [|x r]; [rewrite !firstn_nil; reflexivity|]. cbn [firstn skipn plus app]. rewrite IH. reflexivity.
Qed.

Lemma sub_app : forall s a b c, a <= b -> b <= c -> c <= length s -> sub s a b ++ sub s b c = sub s a c.
Proof.
  intros s a b c Hab Hbc Hc. unfold sub.
  replace (skipn b s) with (skipn (b - a) (skipn a s)) by (rewrite skipn_skipn'; f_equal; lia).
  replace (c - a) with ((b - a) + (c - b)) by lia.
  rewrite firstn_add'. reflexivity.
Qed.

Lemma sub_all : forall s, sub s 0 (length s) = s.
Proof. intro s. unfold sub. cbn [skipn]. rewrite PeanoNat.Nat.sub_0_r. apply firstn_all. Qed.

Lemma norm12_id : forall s, length s = 12 -> norm12 s = s.
Proof. intros s H. unfold norm12. rewrite H. reflexivity. Qed.

Lemma zpad_id : forall k s, length s = k -> zpad k s = s.
Proof.
  intros k s H. unfold zpad. rewrite <- H. rewrite firstn_all. rewrite PeanoNat.Nat.sub_diag. reflexivity.
Qed.

Theorem b1_shape : forall s h, parse_b1 s = Some h -> length s = 25 /\ is_ascii s = true.
Proof.
  intros s h H. unfold parse_b1 in H.
  destruct (Nat.eqb (length s) 25 && is_ascii s) eqn:E; [|discriminate].
  apply andb_true_iff in E. destruct E as [E1 E2]. apply PeanoNat.Nat.eqb_eq in E1. split; assumption.
Qed.

Theorem b1_roundtrip : forall s h, parse_b1 s = Some h -> display_b1 h = s.
Proof.
  intros s h H. destruct (b1_shape s h H) as [L _]. unfold parse_b1 in H.
  destruct (Nat.eqb (length s) 25 && is_ascii s); [|discriminate]. inversion H; subst. clear H.
  unfold display_b1. cbn [bh_app bh_service bh_lt bh_session bh_seq].
  rewrite norm12_id by (rewrite sub_length; lia).
  rewrite (zpad_id 4) by (rewrite sub_length; lia). rewrite (zpad_id 6) by (rewrite sub_length; lia).
  rewrite (app_assoc (sub s 0 1)). rewrite sub_app by lia.
  rewrite (app_assoc (sub s 0 3)). rewrite sub_app by lia.
  rewrite (app_assoc (sub s 0 15)). rewrite sub_app by lia.
  rewrite sub_app by lia. rewrite <- L. apply sub_all.
Qed.

(* block 2: accepted => direction I with 17 / 18 / 21 bytes, or O with 46 / 47 bytes, ASCII *)
Theorem b2_shape : forall s h, parse_b2 s = Some h ->
  is_ascii s = true /\
  match h with
  | AInput _ => sub s 0 1 = bs "I"%string /\ (length s = 17 \/ length s = 18 \/ length s = 21)
  | AOutput _ => sub s 0 1 = bs "O"%string /\ (length s = 46 \/ length s = 47)
  end.
Proof.
  intros s h H. unfold parse_b2 in H.
  destruct (Nat.ltb (length s) 4 || negb (is_ascii s)) eqn:E0; [discriminate|].
  apply orb_false_iff in E0. destruct E0 as [_ Ea]. apply negb_false_iff in Ea. split; [exact Ea|].
  destruct (bytes_eqb (sub s 0 1) (bs "I"%string)) eqn:EI.
  - apply bytes_eqb_eq in EI.
    destruct (negb (Nat.eqb (length s) 17 || Nat.eqb (length s) 18 || Nat.eqb (length s) 21)) eqn:El; [discriminate|].
    apply negb_false_iff in El.
    destruct (Nat.leb 18 (length s) && negb (forallb ascii_alnum (sub s 17 18))); [discriminate|].
    inversion H; subst. split; [exact EI|].
    apply orb_true_iff in El. destruct El as [El|El]; [apply orb_true_iff in El; destruct El as [El|El]|];
      apply PeanoNat.Nat.eqb_eq in El; lia.
  - destruct (bytes_eqb (sub s 0 1) (bs "O"%string)) eqn:EO; [|discriminate]. apply bytes_eqb_eq in EO.
    destruct (Nat.ltb (length s) 46 || Nat.ltb 47 (length s)) eqn:El; [discriminate|].
    apply orb_false_iff in El. destruct El as [E1 E2].
    apply PeanoNat.Nat.ltb_ge in E1. apply PeanoNat.Nat.ltb_ge in E2.
    inversion H; subst. split; [exact EO|lia].
Qed.

Theorem b2_roundtrip : forall s h, parse_b2 s = Some h -> display_b2 h = s.
Proof.
  intros s h H. pose proof (b2_shape s h H) as [_ Sh]. unfold parse_b2 in H.
  destruct (Nat.ltb (length s) 4 || negb (is_ascii s)); [discriminate|].
  destruct (bytes_eqb (sub s 0 1) (bs "I"%string)) eqn:EI.
  - apply bytes_eqb_eq in EI.
    destruct (negb (Nat.eqb (length s) 17 || Nat.eqb (length s) 18 || Nat.eqb (length s) 21)); [discriminate|].
    destruct (Nat.leb 18 (length s) && negb (forallb ascii_alnum (sub s 17 18))); [discriminate|].
    inversion H; subst h. clear H. destruct Sh as [_ L]. unfold display_b2.
    cbn [ih_type ih_dest ih_priority ih_monitoring ih_obsolescence].
    rewrite <- EI. rewrite (zpad_id 3) by (rewrite sub_length; lia). rewrite norm12_id by (rewrite sub_length; lia).
    rewrite (app_assoc (sub s 0 1)). rewrite sub_app by lia.
    rewrite (app_assoc (sub s 0 4)). rewrite sub_app by lia.
    rewrite (app_assoc (sub s 0 16)). rewrite sub_app by lia.
    destruct L as [L|[L|L]]; rewrite L; cbn [Nat.leb opt_bytes].
    + rewrite !app_nil_r. rewrite <- L. apply sub_all.
    + rewrite app_nil_r. rewrite sub_app by lia. rewrite <- L. apply sub_all.
    + rewrite (app_assoc (sub s 0 17)). rewrite sub_app by lia. rewrite sub_app by lia. rewrite <- L. apply sub_all.
  - destruct (bytes_eqb (sub s 0 1) (bs "O"%string)) eqn:EO; [|discriminate]. apply bytes_eqb_eq in EO.
    destruct (Nat.ltb (length s) 46 || Nat.ltb 47 (length s)); [discriminate|].
    inversion H; subst h. clear H. destruct Sh as [_ L]. unfold display_b2.
    cbn [oh_type oh_input_time oh_mir_date oh_mir_lt oh_mir_session oh_mir_seq oh_out_date oh_out_time oh_priority].
    rewrite <- EO.
    rewrite (app_assoc (sub s 0 1)). rewrite sub_app by lia.
    rewrite (app_assoc (sub s 0 4)). rewrite sub_app by lia.
    rewrite (app_assoc (sub s 0 8)). rewrite sub_app by lia.
    rewrite (app_assoc (sub s 0 14)). rewrite sub_app by lia.
    rewrite (app_assoc (sub s 0 26)). rewrite sub_app by lia.
    rewrite (app_assoc (sub s 0 30)). rewrite sub_app by lia.
    rewrite (app_assoc (sub s 0 36)). rewrite sub_app by lia.
    rewrite (app_assoc (sub s 0 42)). rewrite sub_app by lia.
    destruct L as [L|L]; rewrite L; cbn [Nat.leb opt_bytes].
    + rewrite app_nil_r. rewrite <- L. apply sub_all.
    + rewrite sub_app by lia. rewrite <- L. apply sub_all.
Qed.
