(* Headers/Blocks.v — SwiftParser::extract_block / find_matching_brace (parser/swift_parser.rs)
   and the trailer's Display with its flag tags. *)

From Coq Require Import Strings.String.
From SwiftMT Require Import Base.Bytes Base.StrOps Headers.Hdr12 Headers.Hdr35 Headers.B3.

Fixpoint fmb_go (r : bytes) (i depth : nat) : option nat :=
  match r with
  | [] => None
  | c :: r' =>
      if N.eqb c lbrace then fmb_go r' (S i) (S depth)
      else if N.eqb c rbrace then (if Nat.eqb depth 1 then Some i else fmb_go r' (S i) (pred depth))
      else fmb_go r' (S i) depth
  end.
Definition find_matching_brace (text : bytes) : option nat :=
  match text with
  | c :: r => if N.eqb c lbrace then fmb_go r 1 1 else None
  | [] => None
  end.

Definition block_marker (idx : N) : bytes := [lbrace; (48 + idx)%N; colon].

(* Ok(Some(content)) / Ok(None) *)
Definition extract_block (raw : bytes) (idx : N) : option bytes :=
  match find (block_marker idx) raw with
  | None => None
  | Some start =>
      let cs := start + 3 in
      let tail := skipn start raw in
      let e := if N.eqb idx 1 || N.eqb idx 2 then find [rbrace] tail
               else if N.eqb idx 3 || N.eqb idx 5 then find_matching_brace tail
               else find [dash; rbrace] tail in
      match e with
      | Some e => Some (sub raw cs (start + e))
      | None => None
      end
  end.

(* Trailer::parse then Display: CHK, {TNG}, {DLM}, MAC (PDE / MRF are never produced by parse) *)
Definition trailer_display (b : bytes) : bytes :=
  (match read_tag (bs "CHK") b with Some v => group (bs "CHK", v) | None => [] end)
  ++ (if contains (bs "{TNG}") b then bs "{TNG}" else [])
  ++ (if contains (bs "{DLM}") b then bs "{DLM}" else [])
  ++ (match read_tag (bs "MAC") b with Some v => group (bs "MAC", v) | None => [] end).

Definition user_header_display (b : bytes) : bytes := parse_display b3_order b.
