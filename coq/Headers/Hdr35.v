(* Headers/Hdr35.v — user header (block 3) and trailer (block 5) tag readers:
   headers/mod.rs UserHeader::parse / Trailer::parse locate "{ttt:" with str::find and read up
   to the next '}'.  Model and the theorem that, on a block built from brace-free values,
   every tag reads back exactly its value (whatever the other tags and their order). *)

From SwiftMT Require Import Base.Bytes Base.StrOps Base.FindFacts Headers.Hdr12 Headers.Hdr12Facts.
From Coq Require Import Lia.

Definition lbrace : N := 123.
Definition open_tag (t : bytes) : bytes := lbrace :: t ++ [colon].

(* if let Some(start) = b.find("{ttt:") && let Some(end) = b[start..].find('}') { b[start+5..start+end] } *)
Definition read_tag (t b : bytes) : option bytes :=
  match find (open_tag t) b with
  | Some st =>
      match find [rbrace] (skipn st b) with
      | Some e => Some (sub b (st + length (open_tag t)) (st + e))
      | None => None
      end
  | None => None
  end.

Definition group (tv : bytes * bytes) : bytes := open_tag (fst tv) ++ snd tv ++ [rbrace].
Definition render (tvs : list (bytes * bytes)) : bytes := concat (map group tvs).

Definition no_brace (b : N) : bool := negb (N.eqb b lbrace) && negb (N.eqb b rbrace).
Definition clean (v : bytes) : bool := forallb no_brace v.
Definition tag_ok (t : bytes) : bool := Nat.eqb (length t) 3 && forallb ascii_alnum t.
Definition group_ok (tv : bytes * bytes) : bool := tag_ok (fst tv) && clean (snd tv).

Lemma alnum_no_brace : forall b, ascii_alnum b = true -> no_brace b = true /\ b <> colon.
Proof.
  intros b H. unfold ascii_alnum, ascii_digit, ascii_upper, ascii_lower in H. unfold no_brace, lbrace, rbrace, colon.
  repeat (apply orb_true_iff in H; destruct H as [H|H]);
    apply andb_true_iff in H; destruct H as [H1 H2]; apply N.leb_le in H1; apply N.leb_le in H2;
    (split; [apply andb_true_iff; split; apply negb_true_iff; apply N.eqb_neq; lia|lia]).
Qed.

(* a '{' can only be the first byte of a group *)
Lemma group_inner_no_lbrace : forall tv, group_ok tv = true ->
  forall j, 0 < j -> j < length (group tv) -> nth_error (group tv) j <> Some lbrace.
Proof.
  intros [t v] H j Hj0 Hj. unfold group_ok in H. apply andb_true_iff in H. destruct H as [Ht Hv].
  unfold tag_ok in Ht. apply andb_true_iff in Ht. destruct Ht as [Hl Ha]. cbn [fst snd] in *.
  unfold group, open_tag in *. cbn [fst snd app] in *.
  destruct j as [|j]; [lia|]. cbn [nth_error].
  intro E. apply nth_error_In in E.
  rewrite <- app_assoc in E. apply in_app_or in E. destruct E as [E|E].
  - rewrite forallb_forall in Ha. destruct (alnum_no_brace _ (Ha _ E)) as [Hn _].
    unfold no_brace in Hn. rewrite N.eqb_refl in Hn. discriminate.
  - cbn [app] in E. destruct E as [E|E]; [unfold colon, lbrace in E; discriminate|].
    apply in_app_or in E. destruct E as [E|E].
    + unfold clean in Hv. rewrite forallb_forall in Hv. specialize (Hv _ E). unfold no_brace in Hv.
      rewrite N.eqb_refl in Hv. discriminate.
    + destruct E as [E|[]]. unfold rbrace, lbrace in E. discriminate.
Qed.

Lemma starts_with_needs_head : forall p x s j, nth_error s j <> Some x -> starts_with (x :: p) (skipn j s) = false.
Proof.
  intros p x s j H. destruct (skipn j s) as [|y r] eqn:E; [reflexivity|].
  cbn [starts_with]. destruct (N.eqb x y) eqn:Exy; [|reflexivity]. apply N.eqb_eq in Exy. subst y.
  exfalso. apply H. clear H. revert s E. induction j as [|j IH]; intros s E.
  - cbn in E. subst. reflexivity.
  - destruct s as [|z s]; [discriminate|]. cbn [skipn] in E. cbn [nth_error]. apply IH. exact E.
Qed.

Lemma nth_error_app_l : forall A (a b : list A) j, j < length a -> nth_error (a ++ b) j = nth_error a j.
Proof. intros. apply nth_error_app1. assumption. Qed.

(* no opening tag matches strictly inside a group *)
Lemma no_match_inside : forall tv rest t, group_ok tv = true ->
  forall j, 0 < j -> j < length (group tv) -> starts_with (open_tag t) (skipn j (group tv ++ rest)) = false.
Proof.
  intros tv rest t H j Hj0 Hj. unfold open_tag. apply starts_with_needs_head.
  rewrite nth_error_app_l by exact Hj. apply group_inner_no_lbrace; assumption.
Qed.

Lemma starts_with_eq_len : forall a b r, length a = length b -> starts_with a (b ++ r) = bytes_eqb a b.
Proof.
  induction a as [|x a IH]; intros [|y b] r H; cbn in H; try discriminate; [destruct r; reflexivity|].
  cbn [starts_with app bytes_eqb]. rewrite IH by lia. reflexivity.
Qed.

Lemma match_at_zero : forall tv rest t, tag_ok (fst tv) = true -> tag_ok t = true ->
  starts_with (open_tag t) (group tv ++ rest) = bytes_eqb t (fst tv).
Proof.
  intros [t0 v0] rest t H0 Ht. cbn [fst] in *. unfold tag_ok in *.
  apply andb_true_iff in H0. destruct H0 as [L0 _]. apply andb_true_iff in Ht. destruct Ht as [Lt _].
  apply PeanoNat.Nat.eqb_eq in L0. apply PeanoNat.Nat.eqb_eq in Lt.
  unfold group, open_tag. cbn [fst snd app starts_with]. rewrite N.eqb_refl. cbn [andb].
  rewrite <- !app_assoc.
  destruct t as [|a [|b [|c [|? ?]]]]; cbn in Lt; try lia.
  destruct t0 as [|a0 [|b0 [|c0 [|? ?]]]]; cbn in L0; try lia.
  cbn [app starts_with bytes_eqb]. rewrite N.eqb_refl. rewrite !andb_true_r. reflexivity.
Qed.

(* the first '}' of a group is its last byte *)
Lemma first_rbrace : forall tv rest, group_ok tv = true ->
  find [rbrace] (group tv ++ rest) = Some (length (open_tag (fst tv)) + length (snd tv)).
Proof.
  intros [t v] rest H. unfold group_ok in H. apply andb_true_iff in H. destruct H as [Ht Hv]. cbn [fst snd] in *.
  unfold group. cbn [fst snd].
  assert (Hno : forall pre, forallb (fun b => negb (N.eqb b rbrace)) pre = true ->
          forall r, find [rbrace] (pre ++ rbrace :: r) = Some (length pre)).
  { induction pre as [|x pre IH]; intros Hp r.
    - cbn [app length find starts_with]. rewrite N.eqb_refl. reflexivity.
    - cbn [forallb] in Hp. apply andb_true_iff in Hp. destruct Hp as [Hx Hp].
      cbn [app find starts_with length]. apply negb_true_iff in Hx. rewrite N.eqb_sym in Hx. rewrite Hx. cbn [andb].
      rewrite (IH Hp r). reflexivity. }
  replace ((open_tag t ++ v ++ [rbrace]) ++ rest) with ((open_tag t ++ v) ++ rbrace :: rest)
    by (rewrite <- !app_assoc; reflexivity).
  rewrite Hno; [rewrite app_length; reflexivity|].
  rewrite forallb_app. apply andb_true_iff. split.
  - unfold open_tag. cbn [forallb]. unfold tag_ok in Ht. apply andb_true_iff in Ht. destruct Ht as [_ Ha].
    apply andb_true_iff. split; [reflexivity|]. rewrite forallb_app. apply andb_true_iff. split; [|reflexivity].
    rewrite forallb_forall in Ha |- *. intros x Hx. destruct (alnum_no_brace _ (Ha _ Hx)) as [Hn _].
    unfold no_brace in Hn. apply andb_true_iff in Hn. exact (proj2 Hn).
  - unfold clean in Hv. rewrite forallb_forall in Hv |- *. intros x Hx. specialize (Hv _ Hx).
    unfold no_brace in Hv. apply andb_true_iff in Hv. exact (proj2 Hv).
Qed.

Fixpoint lookup_first (t : bytes) (tvs : list (bytes * bytes)) : option bytes :=
  match tvs with
  | [] => None
  | (t0, v0) :: r => if bytes_eqb t t0 then Some v0 else lookup_first t r
  end.

Lemma sub_shift : forall (g rest : bytes) a b, sub (g ++ rest) (length g + a) (length g + b) = sub rest a b.
Proof.
  intros g rest a b. unfold sub. replace (length g + b - (length g + a)) with (b - a) by lia.
  f_equal. rewrite <- skipn_skipn'. rewrite skipn_app_exact. reflexivity.
Qed.

(* reading past a group that does not carry the tag *)
Lemma read_tag_skip : forall tv rest t, group_ok tv = true -> tag_ok t = true -> bytes_eqb t (fst tv) = false ->
  read_tag t (group tv ++ rest) = read_tag t rest.
Proof.
  intros tv rest t Hg Ht Hne. unfold read_tag.
  assert (Hgo := Hg). unfold group_ok in Hgo. apply andb_true_iff in Hgo. destruct Hgo as [Htv _].
  assert (Hlen : 0 < length (group tv)) by (unfold group, open_tag; cbn; lia).
  rewrite (find_skip (open_tag t) (group tv ++ rest) (length (group tv))).
  - rewrite skipn_app_exact. destruct (find (open_tag t) rest) as [i|] eqn:F; [|reflexivity].
    rewrite <- skipn_skipn'. rewrite skipn_app_exact.
    destruct (find [rbrace] (skipn i rest)) as [e|]; [|reflexivity].
    rewrite <- !PeanoNat.Nat.add_assoc. rewrite sub_shift. reflexivity.
  - rewrite app_length. lia.
  - intros j Hj. destruct j as [|j].
    + cbn [skipn]. rewrite (match_at_zero tv rest t Htv Ht). exact Hne.
    + apply no_match_inside; [exact Hg|lia|exact Hj].
Qed.

Theorem read_render : forall tvs t, forallb group_ok tvs = true -> tag_ok t = true ->
  read_tag t (render tvs) = lookup_first t tvs.
Proof.
  induction tvs as [|[t0 v0] r IH]; intros t H Ht.
  - unfold render, read_tag. cbn. destruct (starts_with (open_tag t) []) eqn:E; [|reflexivity].
    unfold open_tag in E. discriminate.
  - cbn [forallb] in H. apply andb_true_iff in H. destruct H as [Hg Hr].
    unfold render. cbn [map concat]. fold (render r). cbn [lookup_first].
    destruct (bytes_eqb t t0) eqn:E.
    + apply bytes_eqb_eq in E. subst t0. unfold read_tag.
      assert (F0 : find (open_tag t) (group (t, v0) ++ render r) = Some 0).
      { unfold group. cbn [fst snd]. rewrite <- app_assoc. apply find_at_zero. }
      rewrite F0. cbn [skipn]. rewrite (first_rbrace (t, v0) (render r) Hg). cbn [fst snd plus].
      f_equal. unfold sub, group. cbn [fst snd skipn].
      rewrite <- app_assoc. rewrite skipn_app_exact.
      replace (length (open_tag t) + length v0 - length (open_tag t)) with (length v0) by lia.
      rewrite <- app_assoc. rewrite firstn_app. rewrite firstn_all. rewrite PeanoNat.Nat.sub_diag. cbn [firstn].
      apply app_nil_r.
    + rewrite (read_tag_skip (t0, v0) (render r) t Hg Ht E). apply IH; assumption.
Qed.
