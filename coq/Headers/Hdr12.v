(* Headers/Hdr12.v — basic header (block 1) and application header (block 2):
   headers/mod.rs BasicHeader::parse / Display, ApplicationHeader::parse / Display
   (after fix: commits f574f92, 6180e00, b1a66b2).  Byte offsets as in the code. *)

From Coq Require Import Strings.String.
From SwiftMT Require Import Base.Bytes Base.StrOps.

Definition is_ascii (s : bytes) : bool := forallb (fun b => N.ltb b 128) s.
Definition sub (s : bytes) (a b : nat) : bytes := firstn (b - a) (skipn a s).   (* &s[a..b] on ASCII *)

(* format!("{:X<12}", s) / truncation to 12 *)
Definition norm12 (s : bytes) : bytes :=
  if Nat.ltb 12 (length s) then firstn 12 s
  else if Nat.ltb (length s) 12 then s ++ repeat 88%N (12 - length s) else s.
(* format!("{:0>k}", &s[..min(len,k)]) *)
Definition zpad (k : nat) (s : bytes) : bytes :=
  let t := firstn k s in repeat 48%N (k - length t) ++ t.

Record basic_header := {
  bh_app : bytes; bh_service : bytes; bh_lt : bytes; bh_sender_bic : bytes; bh_session : bytes; bh_seq : bytes
}.

Definition bic_of_lt (lt : bytes) : bytes :=
  if Nat.eqb (length lt) 12 then
    let last4 := sub lt 8 12 in
    if bytes_eqb last4 (bs "XXXX"%string) || bytes_eqb (sub last4 1 4) (bs "XXX"%string) then sub lt 0 8
    else let br := sub lt 8 11 in
         if forallb ascii_alnum br && negb (bytes_eqb br (bs "XXX"%string)) then sub lt 0 11 else sub lt 0 8
  else if Nat.leb 11 (length lt) then sub lt 0 11
  else if Nat.leb 8 (length lt) then sub lt 0 8 else lt.

Definition parse_b1 (s : bytes) : option basic_header :=
  if Nat.eqb (length s) 25 && is_ascii s then
    let lt := sub s 3 15 in
    Some {| bh_app := sub s 0 1; bh_service := sub s 1 3; bh_lt := lt; bh_sender_bic := bic_of_lt lt;
            bh_session := sub s 15 19; bh_seq := sub s 19 25 |}
  else None.

Definition display_b1 (h : basic_header) : bytes :=
  bh_app h ++ bh_service h ++ norm12 (bh_lt h) ++ zpad 4 (bh_session h) ++ zpad 6 (bh_seq h).

(* ---- block 2 *)
Record input_header := {
  ih_type : bytes; ih_dest : bytes; ih_receiver_bic : bytes; ih_priority : bytes;
  ih_monitoring : option bytes; ih_obsolescence : option bytes
}.
Record output_header := {
  oh_type : bytes; oh_input_time : bytes; oh_mir_date : bytes; oh_mir_lt : bytes; oh_mir_branch : bytes;
  oh_mir_session : bytes; oh_mir_seq : bytes; oh_out_date : bytes; oh_out_time : bytes; oh_priority : option bytes
}.
Inductive app_header := AInput (h : input_header) | AOutput (h : output_header).

Definition parse_b2 (s : bytes) : option app_header :=
  if Nat.ltb (length s) 4 || negb (is_ascii s) then None else
  let dir := sub s 0 1 in
  let mt := sub s 1 4 in
  if bytes_eqb dir (bs "I"%string) then
    if negb (Nat.eqb (length s) 17 || Nat.eqb (length s) 18 || Nat.eqb (length s) 21) then None else
    let dest := sub s 4 16 in
    if Nat.leb 18 (length s) && negb (forallb ascii_alnum (sub s 17 18)) then None else
    let mon := if Nat.leb 18 (length s) then Some (sub s 17 18) else None in
    let obs := match mon with Some _ => if Nat.leb 21 (length s) then Some (sub s 18 21) else None | None => None end in
    Some (AInput {| ih_type := mt; ih_dest := dest; ih_receiver_bic := bic_of_lt dest; ih_priority := sub s 16 17;
                    ih_monitoring := mon; ih_obsolescence := obs |})
  else if bytes_eqb dir (bs "O"%string) then
    if Nat.ltb (length s) 46 || Nat.ltb 47 (length s) then None else
    let lt := sub s 14 26 in
    Some (AOutput {| oh_type := mt; oh_input_time := sub s 4 8; oh_mir_date := sub s 8 14; oh_mir_lt := lt;
                     oh_mir_branch := (if Nat.leb 12 (length lt) then sub lt 9 12 else bs "XXX"%string);
                     oh_mir_session := sub s 26 30; oh_mir_seq := sub s 30 36; oh_out_date := sub s 36 42;
                     oh_out_time := sub s 42 46;
                     oh_priority := if Nat.leb 47 (length s) then Some (sub s 46 47) else None |})
  else None.

Definition opt_bytes (o : option bytes) : bytes := match o with Some b => b | None => [] end.

Definition display_b2 (h : app_header) : bytes :=
  match h with
  | AInput i => bs "I"%string ++ zpad 3 (ih_type i) ++ norm12 (ih_dest i) ++ ih_priority i
                ++ opt_bytes (ih_monitoring i) ++ opt_bytes (ih_obsolescence i)
  | AOutput o => bs "O"%string ++ oh_type o ++ oh_input_time o ++ oh_mir_date o ++ oh_mir_lt o ++ oh_mir_session o
                 ++ oh_mir_seq o ++ oh_out_date o ++ oh_out_time o ++ opt_bytes (oh_priority o)
  end.

Definition message_type_of (h : app_header) : bytes :=
  match h with AInput i => ih_type i | AOutput o => oh_type o end.
