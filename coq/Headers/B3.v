(* Headers/B3.v — UserHeader::parse / Display and Trailer::parse / Display as "read every known tag,
   print the kept ones in the library's order" (after fix bd1d608), and the theorem that a
   block built from documented tags with brace-free values keeps every tag and value through
   parse -> print -> parse, whatever subset and order was written. *)

From Coq Require Import Strings.String.
From SwiftMT Require Import Base.Bytes Base.StrOps Base.FindFacts Headers.Hdr12 Headers.Hdr12Facts Headers.Hdr35.
From Coq Require Import Lia.

(* what parse keeps of a tag's value (None: the tag is dropped) *)
Definition code3 (v : bytes) : option bytes :=
  if Nat.leb 3 (List.length v) then
    if Nat.ltb 4 (List.length v) && match nth_error v 3 with Some c => N.eqb c 47 | None => false end
    then Some v else Some (firstn 3 v)
  else None.

Definition keep (t v : bytes) : option bytes :=
  if bytes_eqb t (bs "423") then (if Nat.leb 12 (List.length v) then Some v else None)
  else if bytes_eqb t (bs "106") then (if Nat.leb 28 (List.length v) then Some v else None)
  else if bytes_eqb t (bs "165") || bytes_eqb t (bs "433") || bytes_eqb t (bs "434") then code3 v
  else Some v.

(* Display order of UserHeader *)
Definition b3_order : list bytes :=
  map bs ["103"; "113"; "108"; "119"; "423"; "106"; "424"; "121"; "111"; "115"; "434"; "165"; "433"]%string.
(* Trailer: CHK and MAC carry values; {TNG} / {DLM} are flags matched literally *)
Definition b5_order : list bytes := map bs ["CHK"; "MAC"]%string.

Fixpoint reprint (order : list bytes) (b : bytes) : list (bytes * bytes) :=
  match order with
  | [] => []
  | t :: r => match read_tag t b with
              | Some v => match keep t v with Some v' => (t, v') :: reprint r b | None => reprint r b end
              | None => reprint r b
              end
  end.

(* to_string(parse(b)) restricted to the valued tags *)
Definition parse_display (order : list bytes) (b : bytes) : bytes := render (reprint order b).

Definition simple_tag (t : bytes) : bool :=
  mem t (map bs ["103"; "113"; "108"; "119"; "424"; "121"; "111"; "115"; "CHK"; "MAC"]%string).

Lemma keep_simple : forall t v, simple_tag t = true -> keep t v = Some v.
Proof.
  intros t v H. unfold keep.
  destruct (bytes_eqb t (bs "423")) eqn:E1; [apply bytes_eqb_eq in E1; subst; vm_compute in H; discriminate|].
  destruct (bytes_eqb t (bs "106")) eqn:E2; [apply bytes_eqb_eq in E2; subst; vm_compute in H; discriminate|].
  destruct (bytes_eqb t (bs "165")) eqn:E3; [apply bytes_eqb_eq in E3; subst; vm_compute in H; discriminate|].
  destruct (bytes_eqb t (bs "433")) eqn:E4; [apply bytes_eqb_eq in E4; subst; vm_compute in H; discriminate|].
  destruct (bytes_eqb t (bs "434")) eqn:E5; [apply bytes_eqb_eq in E5; subst; vm_compute in H; discriminate|].
  reflexivity.
Qed.

Lemma keep_clean : forall t v v', clean v = true -> keep t v = Some v' -> clean v' = true.
Proof.
  intros t v v' Hc H. unfold keep in H.
  assert (Hf : clean (firstn 3 v) = true).
  { unfold clean in *. rewrite forallb_forall in Hc |- *. intros x Hx. apply Hc.
    rewrite <- (firstn_skipn 3 v). apply in_or_app. left. exact Hx. }
  repeat match type of H with
  | (if ?c then _ else _) = _ => destruct c
  end; try discriminate; try (inversion H; subst; assumption).
  unfold code3 in H.
  repeat match type of H with
  | (if ?c then _ else _) = _ => destruct c
  end; try discriminate; inversion H; subst; assumption.
Qed.

Lemma lookup_first_clean : forall tvs t v, forallb group_ok tvs = true -> lookup_first t tvs = Some v -> clean v = true.
Proof.
  induction tvs as [|[t0 v0] r IH]; intros t v H L; [discriminate|].
  cbn [forallb] in H. apply andb_true_iff in H. destruct H as [Hg Hr]. cbn [lookup_first] in L.
  destruct (bytes_eqb t t0).
  - inversion L; subst. unfold group_ok in Hg. apply andb_true_iff in Hg. exact (proj2 Hg).
  - eapply IH; eassumption.
Qed.

Lemma reprint_ok : forall order tvs, forallb tag_ok order = true -> forallb group_ok tvs = true ->
  forallb group_ok (reprint order (render tvs)) = true.
Proof.
  induction order as [|t r IH]; intros tvs Ho Hg; [reflexivity|].
  cbn [forallb] in Ho. apply andb_true_iff in Ho. destruct Ho as [Ht Hr]. cbn [reprint].
  rewrite (read_render tvs t Hg Ht).
  destruct (lookup_first t tvs) as [v|] eqn:L; [|apply IH; assumption].
  destruct (keep t v) as [v'|] eqn:K; [|apply IH; assumption].
  cbn [forallb]. apply andb_true_iff. split; [|apply IH; assumption].
  unfold group_ok. cbn [fst snd]. rewrite Ht. cbn [andb].
  eapply keep_clean; [|exact K]. eapply lookup_first_clean; eassumption.
Qed.

Lemma lookup_reprint_notin : forall order b t, ~ In t order -> lookup_first t (reprint order b) = None.
Proof.
  induction order as [|t0 r IH]; intros b t H; [reflexivity|]. cbn [reprint].
  assert (Hne : bytes_eqb t t0 = false) by (apply bytes_eqb_neq; intro E; apply H; left; auto).
  assert (Hr : ~ In t r) by (intro E; apply H; right; exact E).
  destruct (read_tag t0 b) as [v|]; [|apply IH; exact Hr].
  destruct (keep t0 v) as [v'|]; [|apply IH; exact Hr].
  cbn [lookup_first]. rewrite Hne. apply IH. exact Hr.
Qed.

Lemma lookup_reprint : forall order b t, NoDup order -> In t order ->
  lookup_first t (reprint order b) = match read_tag t b with Some v => keep t v | None => None end.
Proof.
  induction order as [|t0 r IH]; intros b t Hnd Hin; [destruct Hin|].
  inversion Hnd as [|? ? Hnotin Hnd']; subst. cbn [reprint].
  destruct (bytes_eq_dec t t0) as [->|Hne].
  - destruct (read_tag t0 b) as [v|]; [|apply lookup_reprint_notin; exact Hnotin].
    destruct (keep t0 v) as [v'|]; [|apply lookup_reprint_notin; exact Hnotin].
    cbn [lookup_first]. rewrite bytes_eqb_refl. reflexivity.
  - assert (Hin' : In t r) by (destruct Hin as [E|E]; [congruence|exact E]).
    assert (Hb : bytes_eqb t t0 = false) by (apply bytes_eqb_neq; exact Hne).
    destruct (read_tag t0 b) as [v|]; [|apply IH; assumption].
    destruct (keep t0 v) as [v'|]; [|apply IH; assumption].
    cbn [lookup_first]. rewrite Hb. apply IH; assumption.
Qed.

(* every documented tag written in a block (any subset, any order, brace-free values) reads the
   same after parse -> print; simple tags keep their value exactly *)
Theorem tags_preserved : forall order tvs t, NoDup order -> forallb tag_ok order = true -> In t order ->
  forallb group_ok tvs = true ->
  read_tag t (parse_display order (render tvs)) =
  match lookup_first t tvs with Some v => keep t v | None => None end.
Proof.
  intros order tvs t Hnd Ho Hin Hg. unfold parse_display.
  assert (Ht : tag_ok t = true) by (rewrite forallb_forall in Ho; apply Ho; exact Hin).
  rewrite (read_render _ t (reprint_ok order tvs Ho Hg) Ht).
  rewrite (lookup_reprint order (render tvs) t Hnd Hin).
  rewrite (read_render tvs t Hg Ht). reflexivity.
Qed.

Corollary simple_tags_preserved : forall order tvs t, NoDup order -> forallb tag_ok order = true -> In t order ->
  simple_tag t = true -> forallb group_ok tvs = true ->
  read_tag t (parse_display order (render tvs)) = lookup_first t tvs.
Proof.
  intros order tvs t Hnd Ho Hin Hs Hg. rewrite (tags_preserved order tvs t Hnd Ho Hin Hg).
  destruct (lookup_first t tvs) as [v|]; [apply keep_simple; exact Hs|reflexivity].
Qed.

Lemma b3_order_ok : NoDup b3_order /\ forallb tag_ok b3_order = true.
Proof. split; [apply nodupb_NoDup; vm_compute; reflexivity|vm_compute; reflexivity]. Qed.
Lemma b5_order_ok : NoDup b5_order /\ forallb tag_ok b5_order = true.
Proof. split; [apply nodupb_NoDup; vm_compute; reflexivity|vm_compute; reflexivity]. Qed.
