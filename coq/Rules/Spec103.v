(* Rules/Spec103.v — MT103 and MT101: documented rules as predicates, and the equivalence proofs. *)

From Coq Require Import Strings.String ZArith Bool.
From SwiftMT Require Import Base.Bytes Base.StrOps Num.Amount Rules.Msg Rules.Small Rules.Big Rules.All Rules.SpecLib Rules.Spec Valid.Aggregate.
Local Open Scope string_scope.
Local Open Scope list_scope.

Ltac close := try reflexivity; try (vm_compute; reflexivity).
(* two different literals cannot both equal the same code *)
Ltac excl :=
  match goal with
  | H1 : is ?c ?a = true, H2 : is ?c ?b = true |- _ =>
      exfalso; unfold is in H1, H2; apply bytes_eqb_eq in H1; apply bytes_eqb_eq in H2; rewrite H1 in H2; vm_compute in H2; discriminate H2
  end.

Definition b23 (m : jv) : bytes := code (m ./ "23B").
Definition chg (m : jv) : bytes := jstr (m ./ "71A" ./ "code").

(* ---- field 23B: one of the five bank operation codes (T36) *)
Theorem mt103_f23b_spec : forall m, has_code "T36" (opt_l (mt103_f23b m)) = negb (one_of (b23 m) mt103_valid_23b).
Proof. intro m. unfold mt103_f23b, b23. destruct (one_of _ _); close. Qed.

(* ---- C1 (D75): "if 33B is present and its currency differs from 32A's, 36 must be present, otherwise 36 is not allowed" *)
Definition ok103_c1 (m : jv) : bool :=
  if present (m ./ "33B") && negb (bytes_eqb (cur (m ./ "32A")) (cur (m ./ "33B"))) then present (m ./ "36") else negb (present (m ./ "36")).
Theorem mt103_c1_spec : forall m, has_code "D75" (opt_l (mt103_c1 m)) = negb (ok103_c1 m).
Proof. intro m. unfold mt103_c1, ok103_c1, absent. bool_cases; close. Qed.

(* ---- C3 (E01, E02): "23B = SPRI: 23E may contain only SDVA, TELB, PHOB, INTC; 23B = SSTD or SPAY: 23E must not be used" *)
Theorem mt103_c3_E01_spec : forall m,
  has_code "E01" (mt103_c3 m) = is (b23 m) "SPRI" && existsb (fun c => negb (one_of c mt103_spri_allowed)) (codes23e m).
Proof.
  intro m. unfold mt103_c3, b23. cbv zeta. destruct (is (code (m ./ "23B")) "SPRI") eqn:S; cbn [andb].
  - rewrite has_code_flat_map. apply existsb_ext. intro c. destruct (one_of c _); close.
  - destruct (is _ "SSTD" || is _ "SPAY"); [|close]. unfold when. destruct (present _); close.
Qed.
Theorem mt103_c3_E02_spec : forall m,
  has_code "E02" (mt103_c3 m) = (is (b23 m) "SSTD" || is (b23 m) "SPAY") && present (m ./ "23E").
Proof.
  intro m. unfold mt103_c3, b23. cbv zeta. destruct (is (code (m ./ "23B")) "SPRI") eqn:S.
  - destruct (is (code (m ./ "23B")) "SSTD") eqn:S1; [excl|]. destruct (is (code (m ./ "23B")) "SPAY") eqn:S2; [excl|].
    cbn [orb andb]. rewrite has_code_flat_map.
    transitivity (existsb (fun _ : bytes => false) (codes23e m)); [|apply existsb_false].
    apply existsb_ext. intro c. destruct (one_of c _); close.
  - destruct (is _ "SSTD" || is _ "SPAY"); [|close]. unfold when. destruct (present _); close.
Qed.

(* ---- C4 (E06): "if 55a is present, both 53a and 54a must also be present" *)
Theorem mt103_c4_spec : forall m,
  has_code "E06" (opt_l (mt103_c4 m)) = negb (implb (any_key m k55abd) (any_key m k53abd && any_key m k54abd)).
Proof. intro m. unfold mt103_c4, implb. bool_cases; close. Qed.

(* ---- C6 (E16): "if 23B contains SPRI, 56a must not be present" *)
Theorem mt103_c6_spec : forall m, has_code "E16" (opt_l (mt103_c6 m)) = (is (b23 m) "SPRI" && any_key m k56acd).
Proof.
  intro m. unfold mt103_c6, b23. cbv zeta. destruct (is (code (m ./ "23B")) "SPRI" && any_key m k56acd); [close|].
  destruct ((is (code (m ./ "23B")) "SSTD" || is (code (m ./ "23B")) "SPAY") && present (m ./ "56D")); close.
Qed.
(* ---- C6 (E17): "if 23B contains SSTD or SPAY, 56a may be used with option A or C only" (the options are A, C, D) *)
Lemma is_excl : forall c a b, bytes_eqb (bs a) (bs b) = false -> is c a = true -> is c b = false.
Proof.
  intros c a b N H. unfold is in *. apply bytes_eqb_eq in H. subst c. exact N.
Qed.
Theorem mt103_c6_E17_spec : forall m,
  has_code "E17" (opt_l (mt103_c6 m)) = ((is (b23 m) "SSTD" || is (b23 m) "SPAY") && present (m ./ "56D")).
Proof.
  intro m. unfold mt103_c6, b23. cbv zeta.
  destruct (is (code (m ./ "23B")) "SPRI") eqn:P.
  - rewrite (is_excl _ "SPRI" "SSTD" eq_refl P), (is_excl _ "SPRI" "SPAY" eq_refl P). cbn [orb andb].
    destruct (any_key m k56acd); close.
  - cbn [andb]. destruct ((is (code (m ./ "23B")) "SSTD" || is (code (m ./ "23B")) "SPAY") && present (m ./ "56D")); close.
Qed.

(* ---- C7 (E13, D50, E15): "71A = OUR: 71F not allowed; SHA: 71G not allowed; BEN: 71F mandatory, 71G not allowed" *)
Theorem mt103_c7_E13_spec : forall m, has_code "E13" (mt103_c7 m) = (is (chg m) "OUR" && has71f m).
Proof.
  intro m. unfold mt103_c7, chg, when. cbv zeta. destruct (is _ "OUR") eqn:A; cbn [andb]; [destruct (has71f m); close|].
  destruct (is _ "SHA"); [destruct (present _); close|]. destruct (is _ "BEN"); [|close].
  destruct (has71f m); destruct (present _); close.
Qed.
Theorem mt103_c7_D50_spec : forall m, has_code "D50" (mt103_c7 m) = (is (chg m) "SHA" && present (m ./ "71G")).
Proof.
  intro m. unfold mt103_c7, chg, when. cbv zeta. destruct (is _ "OUR") eqn:A.
  - destruct (is _ "SHA") eqn:B; [excl|]. destruct (has71f m); close.
  - destruct (is _ "SHA"); cbn [andb]; [destruct (present _); close|]. destruct (is _ "BEN"); [|close].
    destruct (has71f m); destruct (present _); close.
Qed.
Theorem mt103_c7_E15_spec : forall m,
  has_code "E15" (mt103_c7 m) = (is (chg m) "BEN" && (negb (has71f m) || present (m ./ "71G"))).
Proof.
  intro m. unfold mt103_c7, chg, when. cbv zeta. destruct (is _ "OUR") eqn:A.
  - destruct (is _ "BEN") eqn:B; [excl|]. destruct (has71f m); close.
  - destruct (is _ "SHA") eqn:B.
    + destruct (is _ "BEN") eqn:C; [excl|]. destruct (present _); close.
    + destruct (is _ "BEN"); [|close]. destruct (has71f m); destruct (present _); close.
Qed.

(* ---- C8 (D51): "if either 71F or 71G is present, 33B is mandatory" *)
Theorem mt103_c8_spec : forall m,
  has_code "D51" (opt_l (mt103_c8 m)) = negb (implb (has71f m || present (m ./ "71G")) (present (m ./ "33B"))).
Proof. intro m. unfold mt103_c8, implb, absent. destruct (has71f m); bool_cases; close. Qed.

(* ---- C9 (C02): "the currency code in fields 71G and 32A must be the same" *)
Theorem mt103_c9_spec : forall m,
  has_code "C02" (opt_l (mt103_c9 m)) = negb (implb (present (m ./ "71G")) (bytes_eqb (cur (m ./ "32A")) (cur (m ./ "71G")))).
Proof. intro m. unfold mt103_c9, implb. bool_cases; close. Qed.

(* ---- C13 (E18): "if any 23E contains CHQB, subfield 1 (Account) of 59a is not allowed" *)
Definition has_59_account (m : jv) : bool := present (m ./ "59" ./ "account") || present (m ./ "59A" ./ "account").
Theorem mt103_c13_spec : forall m,
  has_code "E18" (opt_l (mt103_c13 m)) = (existsb (fun c => is c "CHQB") (codes23e m) && has_59_account m).
Proof.
  intro m. unfold mt103_c13, has_59_account.
  destruct (present (m ./ "23E")) eqn:P.
  - cbn [andb]. destruct (existsb _ _); destruct (present (m ./ "59" ./ "account")); destruct (present (m ./ "59A" ./ "account")); close.
  - assert (H : m ./ "23E" = JNull) by (destruct (m ./ "23E"); try discriminate; reflexivity).
    unfold codes23e, f23e. rewrite H. close.
Qed.

(* ---- C16 (E44), C17 (E45): "if 56a (57a) is not present, no 23E may contain TELI or PHOI (TELE or PHON)" *)
Theorem mt103_c16_spec : forall m,
  has_code "E44" (mt103_c16 m) = (negb (any_key m k56acd) && existsb (fun c => is c "TELI" || is c "PHOI") (codes23e m)).
Proof.
  intro m. unfold mt103_c16. destruct (any_key m k56acd); cbn [negb andb]; [close|].
  rewrite has_code_flat_map. apply existsb_ext. intro c. destruct (is c "TELI" || is c "PHOI"); close.
Qed.
Theorem mt103_c17_spec : forall m,
  has_code "E45" (mt103_c17 m) = (negb (any_key m k57abcd) && existsb (fun c => is c "TELE" || is c "PHON") (codes23e m)).
Proof.
  intro m. unfold mt103_c17. destruct (any_key m k57abcd); cbn [negb andb]; [close|].
  rewrite has_code_flat_map. apply existsb_ext. intro c. destruct (is c "TELE" || is c "PHON"); close.
Qed.

(* ---- field 23E list rules: T48 unknown code, D97 additional information where not allowed, E46 a code twice,
        D98 order, D67 forbidden combinations *)
Definition dup_free (l : list bytes) : bool := nodupb l.
Lemma bytes_eqb_sym : forall a b, bytes_eqb a b = bytes_eqb b a.
Proof.
  intros a b. destruct (bytes_eqb a b) eqn:E1; destruct (bytes_eqb b a) eqn:E2; try reflexivity.
  - apply bytes_eqb_eq in E1. subst. rewrite bytes_eqb_refl in E2. discriminate.
  - apply bytes_eqb_eq in E2. subst. rewrite bytes_eqb_refl in E1. discriminate.
Qed.
Lemma existsb_orb : forall (A : Type) (p q : A -> bool) l, existsb (fun x => p x || q x) l = existsb p l || existsb q l.
Proof.
  intros A p q l. induction l as [|x r IH]; cbn [existsb]; [reflexivity|]. rewrite IH.
  destruct (p x); destruct (q x); destruct (existsb p r); destruct (existsb q r); reflexivity.
Qed.
Lemma seen_cons : forall x seen l,
  existsb (fun c => mem c (x :: seen)) l = mem x l || existsb (fun c => mem c seen) l.
Proof.
  intros x seen l. unfold mem at 1. cbn [existsb].
  rewrite (existsb_orb _ (fun c => bytes_eqb c x) (fun c => existsb (bytes_eqb c) seen)). f_equal.
  unfold mem. apply existsb_ext. intro c. apply bytes_eqb_sym.
Qed.
Lemma has_code_when : forall k b c fl, has_code k (when b (E c fl)) = (b && is (bs k) c).
Proof.
  intros k b c fl. unfold when. destruct b; cbn; [|reflexivity]. unfold is. rewrite orb_false_r. apply bytes_eqb_sym.
Qed.

Lemma loop103_codes : forall k l seen,
  has_code k (mt103_loop l seen)
  = existsb (fun f => (is (bs k) "T48" && negb (one_of (code f) mt103_valid_23e))
                      || (is (bs k) "D97" && (has_info f && negb (one_of (code f) mt103_with_info)))) l
    || (is (bs k) "E46" && (negb (nodupb (map code l)) || existsb (fun c => mem c seen) (map code l))).
Proof.
  intros k l. induction l as [|f r IH]; intro seen; cbn [mt103_loop existsb map nodupb].
  - cbn. rewrite andb_false_r. reflexivity.
  - cbv zeta. rewrite !has_code_app, IH, !has_code_when, seen_cons. clear IH.
    destruct (is (bs k) "T48"); destruct (is (bs k) "D97"); destruct (is (bs k) "E46");
      destruct (negb (one_of (code f) mt103_valid_23e)); destruct (has_info f && negb (one_of (code f) mt103_with_info));
      destruct (mem (code f) seen); destruct (mem (code f) (map code r)); destruct (nodupb (map code r));
      cbn [andb orb negb]; rewrite ?orb_true_r, ?orb_false_r, ?andb_true_r, ?andb_false_r; cbn [andb orb negb];
      try reflexivity;
      repeat match goal with |- context [existsb ?p ?l] => destruct (existsb p l) end; reflexivity.
Qed.

Ltac evis := repeat match goal with
  | |- context [is (bs ?a) ?b] => let v := eval vm_compute in (is (bs a) b) in change (is (bs a) b) with v
  | |- context [bytes_eqb (ecode (E ?a ?f)) (bs ?b)] =>
      let v := eval vm_compute in (bytes_eqb (ecode (E a f)) (bs b)) in change (bytes_eqb (ecode (E a f)) (bs b)) with v
  end.
Lemma absent_arr : forall v, present v = false -> jarr v = [].
Proof. intros v H. destruct v; try discriminate; reflexivity. Qed.

Definition positions103 (m : jv) : list nat :=
  flat_map (fun c => match index_of c mt103_order 0 with Some i => [i] | None => [] end) (codes23e m).
Definition forbidden_pair (table : list (string * list string)) (codes : list bytes) : bool :=
  existsb (fun c => existsb (fun bf => is c (fst bf) && existsb (fun o => one_of o (snd bf)) codes) table) codes.

Lemma combos_pos : forall table codes, negb (Nat.eqb (combos table codes) 0) = forbidden_pair table codes.
Proof.
  intros table codes. unfold combos, forbidden_pair.
  assert (G : forall (A : Type) (l : list A), negb (Nat.eqb (List.length l) 0) = match l with [] => false | _ => true end)
    by (intros A [|x l]; reflexivity).
  rewrite G.
  assert (F : forall (A B : Type) (f : A -> list B) l,
            (match flat_map f l with [] => false | _ => true end) = existsb (fun x => match f x with [] => false | _ => true end) l).
  { intros A B f l. induction l as [|x r IH]; cbn [flat_map existsb]; [reflexivity|]. destruct (f x); cbn [app]; [exact IH|reflexivity]. }
  rewrite F. apply existsb_ext. intro c. rewrite F. apply existsb_ext. intros [b forb]. cbn [fst snd].
  destruct (is c b); cbn [andb]; [|reflexivity].
  induction codes as [|o r IH]; cbn [filter existsb]; [reflexivity|]. destruct (one_of o forb); cbn [orb]; [reflexivity|exact IH].
Qed.

Ltac tidy := repeat (progress (cbn [andb orb negb]; rewrite ?andb_false_r, ?andb_true_r, ?orb_false_r, ?orb_true_r)).
Lemma no_jv : forall l : list jv, existsb (fun _ => false) l = false.
Proof. intro l. apply existsb_false. Qed.
Lemma none_seen : forall l : list bytes, existsb (fun c => mem c []) l = false.
Proof. induction l; cbn; auto. Qed.
Ltac f23e_open P :=
  rewrite !has_code_app, loop103_codes, has_code_when, has_code_repeat; evis; rewrite ?none_seen; tidy.

Theorem mt103_f23e_T48_spec : forall m,
  has_code "T48" (mt103_f23e m) = existsb (fun f => negb (one_of (code f) mt103_valid_23e)) (f23e m).
Proof.
  intro m. unfold mt103_f23e, absent. destruct (present (m ./ "23E")) eqn:P; cbn [negb].
  - f23e_open P. apply existsb_ext. intro f. tidy. reflexivity.
  - unfold f23e. rewrite (absent_arr _ P). reflexivity.
Qed.
Theorem mt103_f23e_D97_spec : forall m,
  has_code "D97" (mt103_f23e m) = existsb (fun f => has_info f && negb (one_of (code f) mt103_with_info)) (f23e m).
Proof.
  intro m. unfold mt103_f23e, absent. destruct (present (m ./ "23E")) eqn:P; cbn [negb].
  - f23e_open P. apply existsb_ext. intro f. tidy. reflexivity.
  - unfold f23e. rewrite (absent_arr _ P). reflexivity.
Qed.
(* E46: "when 23E is repeated, the same code must not be present more than once" *)
Theorem mt103_f23e_E46_spec : forall m, has_code "E46" (mt103_f23e m) = negb (dup_free (codes23e m)).
Proof.
  intro m. unfold mt103_f23e, absent, dup_free, codes23e. destruct (present (m ./ "23E")) eqn:P; cbn [negb].
  - f23e_open P. rewrite no_jv. reflexivity.
  - unfold f23e. rewrite (absent_arr _ P). reflexivity.
Qed.
(* D98: "when 23E is repeated, the codes must appear in the order SDVA INTC REPA CORT HOLD CHQB PHOB TELB PHON TELE PHOI TELI" *)
Theorem mt103_f23e_D98_spec : forall m, has_code "D98" (mt103_f23e m) = descends (positions103 m).
Proof.
  intro m. unfold mt103_f23e, absent, positions103. destruct (present (m ./ "23E")) eqn:P; cbn [negb].
  - f23e_open P. rewrite no_jv. reflexivity.
  - unfold codes23e, f23e. rewrite (absent_arr _ P). reflexivity.
Qed.
(* D67: the forbidden combinations of the table *)
Theorem mt103_f23e_D67_spec : forall m, has_code "D67" (mt103_f23e m) = forbidden_pair mt103_invalid_combos (codes23e m).
Proof.
  intro m. unfold mt103_f23e, absent. destruct (present (m ./ "23E")) eqn:P; cbn [negb].
  - f23e_open P. rewrite no_jv. cbn [orb]. apply combos_pos.
  - unfold codes23e, f23e. rewrite (absent_arr _ P). reflexivity.
Qed.

(* ================================================================== MT101 *)
Ltac per_tx_open := unfold per_tx; rewrite has_code_flat_map; apply existsb_ext; intro t.

(* C1 (D54): "if field 36 is present, field 21F must be present" — in every occurrence of sequence B *)
Theorem mt101_c1_spec : forall m,
  has_code "D54" (mt101_c1 m) = existsb (fun t => negb (implb (present (t ./ "36")) (present (t ./ "21F")))) (seqs m).
Proof. intro m. unfold mt101_c1. per_tx_open. unfold implb, absent, when. bool_cases; close. Qed.

(* C2 (D60): "if 33B is present and the amount in 32B is not zero, 36 must be present, otherwise 36 is not allowed" *)
Definition ok101_c2 (t : jv) : bool :=
  if present (t ./ "33B") && negb (amount_is_zero (t ./ "32B")) then present (t ./ "36") else negb (present (t ./ "36")).
Theorem mt101_c2_spec : forall m, has_code "D60" (mt101_c2 m) = existsb (fun t => negb (ok101_c2 t)) (seqs m).
Proof.
  intro m. unfold mt101_c2. per_tx_open. unfold ok101_c2, absent, when.
  destruct (present (t ./ "33B")); destruct (amount_is_zero (t ./ "32B")); destruct (present (t ./ "36")); close.
Qed.

(* C3 (D61): "50a (F, G, H) must be present either in sequence A or in every occurrence of sequence B, not in both" *)
Definition placed_once (m : jv) (keys : list string) : bool :=
  let a := any_key m keys in
  (a && negb (any_tx m (fun t => any_key t keys))) || (negb a && all_tx m (fun t => any_key t keys)).
Theorem mt101_c3_spec : forall m, has_code "D61" (opt_l (mt101_c3 m)) = negb (placed_once m k50fgh).
Proof.
  intro m. unfold mt101_c3, placed_once. cbv zeta.
  destruct (any_key m k50fgh); destruct (all_tx m _); destruct (any_tx m _); close.
Qed.
(* C4 (D62), C6 (D64): "may be present in sequence A or in sequence B, but not in both" *)
Theorem mt101_c4_spec : forall m,
  has_code "D62" (opt_l (mt101_c4 m)) = (any_key m k50cl && any_tx m (fun t => any_key t k50cl)).
Proof. intro m. unfold mt101_c4. destruct (any_key m k50cl); destruct (any_tx m _); close. Qed.
Theorem mt101_c6_spec : forall m,
  has_code "D64" (opt_l (mt101_c6 m)) = (any_key m k52ac && any_tx m (fun t => any_key t k52ac)).
Proof. intro m. unfold mt101_c6. destruct (any_key m k52ac); destruct (any_tx m _); close. Qed.
(* C5 (D68): "if 33B is present, its currency code must differ from the one in 32B" *)
Theorem mt101_c5_spec : forall m,
  has_code "D68" (mt101_c5 m)
  = existsb (fun t => negb (implb (present (t ./ "33B")) (negb (bytes_eqb (cur (t ./ "32B")) (cur (t ./ "33B")))))) (seqs m).
Proof. intro m. unfold mt101_c5. per_tx_open. unfold implb, when. bool_cases; close. Qed.
(* C9 (E54): "if the amount in 32B is zero: with 23E EQUI, 33B is mandatory; without it, 33B and 21F are not allowed" *)
Definition has_equi (t : jv) : bool := present (t ./ "23E") && existsb (fun c => is c "EQUI") (codes23e t).
Definition ok101_c9 (t : jv) : bool :=
  implb (amount_is_zero (t ./ "32B"))
        (if has_equi t then present (t ./ "33B") else negb (present (t ./ "33B")) && negb (present (t ./ "21F"))).
Theorem mt101_c9_spec : forall m, has_code "E54" (mt101_c9 m) = existsb (fun t => negb (ok101_c9 t)) (seqs m).
Proof.
  intro m. unfold mt101_c9. per_tx_open. unfold ok101_c9, has_equi, implb, absent, when.
  destruct (amount_is_zero (t ./ "32B")); [|close]. cbn [negb orb].
  destruct (present (t ./ "23E") && existsb _ _); destruct (present (t ./ "33B")); destruct (present (t ./ "21F")); close.
Qed.

(* field 23E per transaction: T47 unknown code, D66 additional information where not allowed,
   E46 a code other than OTHR twice, D67 forbidden combinations *)
Definition not_othr (l : list bytes) : list bytes := filter (fun c => negb (is c "OTHR")) l.
Lemma loop101_codes : forall k l seen,
  has_code k (mt101_loop l seen)
  = existsb (fun f => (is (bs k) "T47" && negb (one_of (code f) mt101_valid_23e))
                      || (is (bs k) "D66" && (has_info f && negb (one_of (code f) mt101_with_info)))) l
    || (is (bs k) "E46" && (negb (nodupb (not_othr (map code l))) || existsb (fun c => mem c seen) (not_othr (map code l)))).
Proof.
  intros k l. induction l as [|f r IH]; intro seen; cbn [mt101_loop existsb map not_othr filter].
  - cbn. rewrite andb_false_r. reflexivity.
  - cbv zeta. rewrite !has_code_app, !has_code_when. fold (not_othr (map code r)).
    destruct (is (code f) "OTHR") eqn:O; cbn [negb].
    + rewrite IH. clear IH.
      destruct (is (bs k) "T47"); destruct (is (bs k) "D66"); destruct (is (bs k) "E46");
        destruct (negb (one_of (code f) mt101_valid_23e)); destruct (has_info f && negb (one_of (code f) mt101_with_info));
        cbn [andb orb negb]; rewrite ?orb_true_r, ?orb_false_r, ?andb_true_r, ?andb_false_r; cbn [andb orb negb]; try reflexivity;
        repeat match goal with |- context [existsb ?p ?l] => destruct (existsb p l) end; reflexivity.
    + rewrite has_code_app, has_code_when, IH, seen_cons. clear IH. cbn [nodupb existsb].
      destruct (is (bs k) "T47"); destruct (is (bs k) "D66"); destruct (is (bs k) "E46");
        destruct (negb (one_of (code f) mt101_valid_23e)); destruct (has_info f && negb (one_of (code f) mt101_with_info));
        destruct (mem (code f) seen); destruct (mem (code f) (not_othr (map code r))); destruct (nodupb (not_othr (map code r)));
        cbn [andb orb negb]; rewrite ?orb_true_r, ?orb_false_r, ?andb_true_r, ?andb_false_r; cbn [andb orb negb]; try reflexivity;
        repeat match goal with |- context [existsb ?p ?l] => destruct (existsb p l) end; reflexivity.
Qed.
Ltac f23e101_open :=
  rewrite !has_code_app, loop101_codes, has_code_repeat; evis; rewrite ?none_seen; tidy.
Theorem mt101_f23e_T47_spec : forall m,
  has_code "T47" (mt101_f23e m) = existsb (fun t => existsb (fun f => negb (one_of (code f) mt101_valid_23e)) (f23e t)) (seqs m).
Proof.
  intro m. unfold mt101_f23e. per_tx_open. unfold absent. destruct (present (t ./ "23E")) eqn:P; cbn [negb].
  - f23e101_open. apply existsb_ext. intro f. tidy. reflexivity.
  - unfold f23e. rewrite (absent_arr _ P). reflexivity.
Qed.
Theorem mt101_f23e_D66_spec : forall m,
  has_code "D66" (mt101_f23e m)
  = existsb (fun t => existsb (fun f => has_info f && negb (one_of (code f) mt101_with_info)) (f23e t)) (seqs m).
Proof.
  intro m. unfold mt101_f23e. per_tx_open. unfold absent. destruct (present (t ./ "23E")) eqn:P; cbn [negb].
  - f23e101_open. apply existsb_ext. intro f. tidy. reflexivity.
  - unfold f23e. rewrite (absent_arr _ P). reflexivity.
Qed.
Theorem mt101_f23e_E46_spec : forall m,
  has_code "E46" (mt101_f23e m) = existsb (fun t => negb (dup_free (not_othr (codes23e t)))) (seqs m).
Proof.
  intro m. unfold mt101_f23e. per_tx_open. unfold absent, dup_free, codes23e. destruct (present (t ./ "23E")) eqn:P; cbn [negb].
  - f23e101_open. rewrite no_jv. reflexivity.
  - unfold f23e. rewrite (absent_arr _ P). reflexivity.
Qed.
Theorem mt101_f23e_D67_spec : forall m,
  has_code "D67" (mt101_f23e m) = existsb (fun t => forbidden_pair mt101_invalid_combos (codes23e t)) (seqs m).
Proof.
  intro m. unfold mt101_f23e. per_tx_open. unfold absent. destruct (present (t ./ "23E")) eqn:P; cbn [negb].
  - f23e101_open. rewrite no_jv. cbn [orb]. apply combos_pos.
  - unfold codes23e, f23e. rewrite (absent_arr _ P). reflexivity.
Qed.
