(* Rules/Spec.v — each documented network rule as a predicate written from the rule text (the doc comment
   of the rule function, which quotes SR 2025), and the proof that the transcribed rule function reports
   the rule's error code exactly when the predicate says the message violates the rule.

   Conventions: [m] is the message body, [seqs m] its repetitive sequence occurrences, [implb a b] is
   "if a then b must hold".  A rule "X must be present when Y" reads  ok := implb Y X;  the theorem is
     has_code CODE (rule m) = negb (ok m). *)

From Coq Require Import Strings.String ZArith Bool.
From SwiftMT Require Import Base.Bytes Base.StrOps Num.Amount Rules.Msg Rules.Small Rules.Big Rules.All Rules.SpecLib Valid.Aggregate.
Local Open Scope string_scope.
Local Open Scope list_scope.

Ltac close := try reflexivity; try (vm_compute; reflexivity).

(* ================================================================== MT202 / MT205 / MT103 C5 / MT101 C7
   "If field 56a is present, then field 57a must also be present" *)
Definition ok_56_needs_57 (x : jv) : bool := implb (any_key x k56acd) (any_key x k57abcd).

Theorem mt202_c1_spec : forall m, has_code "C81" (opt_l (mt202_c1 m)) = negb (ok_56_needs_57 m).
Proof. intro m. unfold mt202_c1, ok_56_needs_57, implb. bool_cases; close. Qed.
Theorem mt202_c2_spec : forall m, has_code "C68" (opt_l (mt202_c2 m)) = negb (ok_56_needs_57 (m ./ "#")).
Proof. intro m. unfold mt202_c2, ok_56_needs_57, implb. bool_cases; close. Qed.
Theorem mt205_c1_spec : forall m, has_code "C81" (opt_l (mt205_c1 m)) = negb (ok_56_needs_57 m).
Proof. intro m. unfold mt205_c1, ok_56_needs_57, implb. bool_cases; close. Qed.
Theorem mt103_c5_spec : forall m, has_code "C81" (opt_l (mt103_c5 m)) = negb (ok_56_needs_57 m).
Proof. intro m. unfold mt103_c5, ok_56_needs_57, implb. bool_cases; close. Qed.
Theorem mt101_c7_spec : forall m, has_code "D65" (mt101_c7 m) = existsb (fun t => negb (ok_56_needs_57 t)) (seqs m).
Proof.
  intro m. unfold mt101_c7, per_tx. rewrite has_code_flat_map. apply existsb_ext. intro t.
  unfold ok_56_needs_57, implb, when. bool_cases; close.
Qed.

(* ================================================================== MT910 C1 / MT210 C2
   "Either field 50a or field 52a must be present" / "... but not both" *)
Theorem mt910_c1_spec : forall m, has_code "C06" (opt_l (mt910_c1 m)) = negb (any_key m k50afk || any_key m k52ad).
Proof. intro m. unfold mt910_c1. bool_cases; close. Qed.
Theorem mt210_c2_spec : forall m,
  has_code "C06" (mt210_c2 m) = existsb (fun t => negb (xorb (any_key t k50ncf) (any_key t k52ad))) (seqs m).
Proof.
  intro m. unfold mt210_c2. rewrite has_code_flat_map. apply existsb_ext. intro t. bool_cases; close.
Qed.

(* ================================================================== repetition limits (T10) *)
Theorem mt110_c1_spec : forall m, has_code "T10" (opt_l (mt110_c1 m)) = Nat.ltb 10 (List.length (seqs m)).
Proof. intro m. unfold mt110_c1. destruct (Nat.ltb 10 _); close. Qed.
Theorem mt204_c3_spec : forall m, has_code "T10" (opt_l (mt204_c3 m)) = Nat.ltb 10 (List.length (seqs m)).
Proof. intro m. unfold mt204_c3. destruct (Nat.ltb 10 _); close. Qed.
Theorem mt210_c1_spec : forall m, has_code "T10" (opt_l (mt210_c1 m)) = Nat.ltb 10 (List.length (seqs m)).
Proof. intro m. unfold mt210_c1. destruct (Nat.ltb 10 _); close. Qed.
(* "must appear at least once, but not more than ten times" *)
Theorem mt935_c1_spec : forall m,
  has_code "T10" (opt_l (mt935_c1 m)) = negb (Nat.leb 1 (List.length (seqs m)) && Nat.leb (List.length (seqs m)) 10).
Proof.
  intro m. unfold mt935_c1. destruct (List.length (seqs m)) as [|n]; [close|].
  cbn [Nat.eqb Nat.leb andb]. destruct n as [|[|[|[|[|[|[|[|[|[|n]]]]]]]]]]; close.
Qed.

(* ================================================================== "the currency code must be the same for all occurrences" *)
Definition all_same (l : list bytes) : bool :=
  match l with [] => true | x :: r => forallb (fun y => bytes_eqb y x) r end.
Lemma first_other_none : forall (A : Type) (key : A -> bytes) l,
  (match first_other key l with Some _ => false | None => true end) = all_same (map key l).
Proof.
  intros A key [|x r]; [reflexivity|]. cbn [first_other map all_same].
  induction r as [|y r IH]; cbn [List.find map forallb]; [reflexivity|].
  destruct (bytes_eqb (key y) (key x)); cbn [negb andb]; [exact IH | reflexivity].
Qed.
Theorem mt110_c2_spec : forall m, has_code "C02" (opt_l (mt110_c2 m)) = negb (all_same (map cheque_cur (seqs m))).
Proof. intro m. unfold mt110_c2. rewrite <- first_other_none. destruct (first_other _ _); close. Qed.
Theorem mt210_c3_spec : forall m,
  has_code "C02" (opt_l (mt210_c3 m)) = negb (all_same (map (fun t => cur (t ./ "32B")) (seqs m))).
Proof. intro m. unfold mt210_c3. rewrite <- first_other_none. destruct (first_other _ _); close. Qed.
(* MT101 C8: "if field 21R is present, all transactions must have the same currency in field 32B" *)
Theorem mt101_c8_spec : forall m,
  has_code "D98" (opt_l (mt101_c8 m)) = negb (implb (present (m ./ "21R")) (all_same (map (fun t => cur (t ./ "32B")) (seqs m)))).
Proof.
  intro m. unfold mt101_c8, implb, absent. destruct (present (m ./ "21R")); cbn [negb orb]; [|close].
  rewrite <- first_other_none. destruct (first_other _ _); close.
Qed.
(* MT204 C2 counts distinct currencies *)
Lemma distinct_le1 : forall l, Nat.ltb 1 (List.length (distinct l)) = negb (all_same l).
Proof.
  intros [|x r]; [reflexivity|]. cbn [all_same].
  assert (G : forall r x, forallb (fun y => bytes_eqb y x) r = true -> distinct (x :: r) = [x]).
  { induction r0 as [|y r0 IH]; intros x0 H; [reflexivity|]. cbn [forallb] in H. apply andb_true_iff in H. destruct H as [E H].
    apply bytes_eqb_eq in E. subst y. cbn [distinct]. cbn [mem existsb]. rewrite bytes_eqb_refl. cbn [orb]. apply IH. exact H. }
  destruct (forallb (fun y => bytes_eqb y x) r) eqn:F.
  - rewrite (G r x F). reflexivity.
  - cbn [negb].
    (* some y <> x in r: distinct keeps (the last occurrences of) both *)
    assert (H2 : forall l a b, In a l -> In b l -> a <> b -> (2 <= List.length (distinct l))%nat).
    { induction l as [|z l IH]; intros a b Ha Hb Hab; [destruct Ha|]. cbn [distinct].
      destruct (mem z l) eqn:M.
      - apply mem_in in M. apply (IH a b); [| |exact Hab].
        + destruct Ha as [Ha|Ha]; [subst; exact M | exact Ha].
        + destruct Hb as [Hb|Hb]; [subst; exact M | exact Hb].
      - cbn [List.length].
        assert (Hne : exists w, In w l).
        { destruct Ha as [Ha|Ha]; destruct Hb as [Hb|Hb]; try (eexists; eassumption). subst. contradiction. }
        destruct Hne as [w Hw].
        assert (Hd : forall l w, In w l -> (1 <= List.length (distinct l))%nat).
        { induction l0 as [|q l0 IHd]; intros w0 Hw0; [destruct Hw0|]. cbn [distinct]. destruct (mem q l0) eqn:Mq.
          - apply mem_in in Mq. apply (IHd q Mq).
          - cbn [List.length]. apply le_n_S. apply Nat.le_0_l. }
        apply le_n_S. apply (Hd l w Hw). }
    assert (Hy : exists y, In y r /\ y <> x).
    { clear G H2. induction r as [|y r IH]; [discriminate|]. cbn [forallb] in F. destruct (bytes_eqb y x) eqn:E.
      - cbn [andb] in F. destruct (IH F) as [y' [Hi Hn]]. exists y'. split; [right; exact Hi | exact Hn].
      - exists y. split; [left; reflexivity | apply bytes_eqb_neq; exact E]. }
    destruct Hy as [y [Hy Hn]].
    pose proof (H2 (x :: r) x y (or_introl eq_refl) (or_intror Hy) (fun E => Hn (eq_sym E))) as L.
    apply Nat.ltb_lt. exact L.
Qed.
Theorem mt204_c2_spec : forall m,
  has_code "C02" (opt_l (mt204_c2 m)) = negb (all_same (map (fun t => cur (t ./ "32B")) (seqs m))).
Proof. intro m. unfold mt204_c2. rewrite distinct_le1. destruct (all_same _); close. Qed.

(* ================================================================== sums of amounts
   MT204 C1: "the amount in field 19 must equal the sum of amounts in all occurrences of field 32B";
   the library compares binary64 values with a tolerance of 0.01 (see the known finding on the tolerance) *)
Definition sum_of (m : jv) : b64 := b64_sum (map (fun t => amount (t ./ "32B")) (seqs m)).
Definition differs_by_more_than_a_cent (a b : b64) : bool := b64_lt b64_cent (b64_abs (b64_sub a b)).
Theorem mt204_c1_spec : forall m,
  has_code "C01" (opt_l (mt204_c1 m))
  = negb (match seqs m with [] => true | _ => false end) && differs_by_more_than_a_cent (amount (m ./ "19")) (sum_of m).
Proof.
  intro m. unfold mt204_c1, sum_of, differs_by_more_than_a_cent. destruct (seqs m) as [|t r]; [close|].
  cbn [negb andb]. destruct (b64_lt _ _); close.
Qed.

(* ================================================================== MT192 / MT292 / MT296 / MT196: field 79 or a copy of fields *)
Theorem mt192_c1_spec : forall m, has_code "C25" (opt_l (mt192_c1 m)) = negb (present (m ./ "79")).
Proof. intro m. unfold mt192_c1, absent. bool_cases; close. Qed.
Theorem mt292_c1_spec : forall m,
  has_code "C25" (opt_l (mt292_c1 m)) = negb (present (m ./ "79") || extra_keys m ["20"; "21"; "11S"; "79"]).
Proof. intro m. unfold mt292_c1, absent. bool_cases; destruct (extra_keys _ _); close. Qed.
(* "either field 79 or a copy of fields, but not both" *)
Theorem mt296_c1_spec : forall m,
  has_code "C31" (opt_l (mt296_c1 m)) = (present (m ./ "79") && extra_keys m ["20"; "21"; "76"; "77A"; "11R"; "11S"; "79"]).
Proof. intro m. unfold mt296_c1. bool_cases; destruct (extra_keys _ _); close. Qed.
(* MT196 has the same rule text and a struct without a place for copied fields: the function reports nothing *)
Theorem mt196_c1_reports_nothing : forall m, mt196_c1 m = None.
Proof. reflexivity. Qed.
Theorem mt192_codes_spec : forall m,
  has_code "T47" (mt192_codes m) = match code_79 m with Some c => negb (one_of c mt192_valid_79) | None => false end.
Proof. intro m. unfold mt192_codes. destruct (code_79 m) as [c|]; [|close]. destruct (one_of c _); close. Qed.

(* ================================================================== MT200 T80: a field-72 line carries the code word REJT or RETN *)
Theorem mt200_t80_spec : forall m,
  has_code "T80" (mt200_t80 m)
  = existsb (fun l => match code_72_line (jstr l) with Some c => one_of c ["REJT"; "RETN"] | None => false end)
            (jarr (m ./ "72" ./ "information")).
Proof.
  intro m. unfold mt200_t80. rewrite has_code_flat_map. apply existsb_ext. intro l.
  destruct (code_72_line (jstr l)) as [c|]; [|close]. destruct (one_of c _); close.
Qed.

(* ================================================================== MT920 *)
Theorem mt920_t88_spec : forall m,
  has_code "T88" (mt920_t88 m) = existsb (fun s => negb (one_of (jstr (s ./ "12" ./ "type_code")) ["940"; "941"; "942"; "950"])) (seqs m).
Proof. intro m. unfold mt920_t88. rewrite has_code_flat_map. apply existsb_ext. intro s. destruct (one_of _ _); close. Qed.
(* C1: "if field 12 contains 942, at least field 34F Debit/(Debit and Credit) must be present" *)
Theorem mt920_c1_spec : forall m,
  has_code "C22" (mt920_c1 m) = existsb (fun s => negb (implb (str_is (s ./ "12" ./ "type_code") "942") (present (s ./ "34F_1")))) (seqs m).
Proof.
  intro m. unfold mt920_c1. rewrite has_code_flat_map. apply existsb_ext. intro s. unfold implb, absent.
  destruct (str_is _ _); destruct (present _); close.
Qed.
(* C2: "when only one 34F is present the D/C mark must not be used; when both are present the first must have D, the second C" *)
Definition ok_34f_marks (d c : jv) : bool :=
  if present d && present c then str_is (ind d) "D" && str_is (ind c) "C"
  else if present d then negb (present (ind d)) else true.
Theorem mt920_c2_spec : forall m,
  has_code "C23" (mt920_c2 m) = existsb (fun s => negb (ok_34f_marks (s ./ "34F_1") (s ./ "34F_2"))) (seqs m).
Proof.
  intro m. unfold mt920_c2. rewrite has_code_flat_map. apply existsb_ext. intro s. unfold ok_34f_marks, absent.
  destruct (present (s ./ "34F_1")); destruct (present (s ./ "34F_2")); cbn [andb negb];
    try destruct (present (ind _)); try destruct (str_is (ind (s ./ "34F_1")) "D"); try destruct (str_is (ind (s ./ "34F_2")) "C"); close.
Qed.
(* MT942: the debit floor limit is a mandatory field of the struct *)
Theorem mt942_c2_spec : forall m, present (m ./ "34F_debit") = true ->
  has_code "C23" (opt_l (mt942_c2 m)) = negb (ok_34f_marks (m ./ "34F_debit") (m ./ "34F_credit")).
Proof.
  intros m D. unfold mt942_c2, ok_34f_marks. rewrite D. cbn [andb].
  destruct (present (m ./ "34F_credit")).
  - destruct (str_is (ind (m ./ "34F_debit")) "D"); cbn [negb andb]; [|close].
    destruct (str_is (ind (m ./ "34F_credit")) "C"); close.
  - destruct (present (ind (m ./ "34F_debit"))); close.
Qed.
(* C3: "currency code must be the same for each occurrence of field 34F within each sequence" *)
Theorem mt920_c3_spec : forall m,
  has_code "C40" (mt920_c3 m)
  = existsb (fun s => present (s ./ "34F_1") && present (s ./ "34F_2") && negb (bytes_eqb (cur (s ./ "34F_1")) (cur (s ./ "34F_2")))) (seqs m).
Proof.
  intro m. unfold mt920_c3. rewrite has_code_flat_map. apply existsb_ext. intro s.
  destruct (present (s ./ "34F_1")); destruct (present (s ./ "34F_2")); destruct (bytes_eqb _ _); close.
Qed.

(* ================================================================== MT935 *)
Theorem mt935_c2_spec : forall m,
  has_code "C83" (mt935_c2 m) = existsb (fun s => negb (xorb (present (s ./ "23")) (present (s ./ "25")))) (seqs m).
Proof. intro m. unfold mt935_c2. rewrite has_code_flat_map. apply existsb_ext. intro s. bool_cases; close. Qed.
(* 37H: "indicator must be C or D (T51); sign must not be used if rate is zero (T14)" *)
Theorem mt935_f37h_T51_spec : forall m,
  has_code "T51" (mt935_f37h m)
  = existsb (fun s => existsb (fun h => negb (str_is (h ./ "rate_indicator") "C" || str_is (h ./ "rate_indicator") "D")) (jarr (s ./ "37H"))) (seqs m).
Proof.
  intro m. unfold mt935_f37h. rewrite has_code_flat_map. apply existsb_ext. intro s.
  rewrite has_code_flat_map. apply existsb_ext. intro h. rewrite has_code_app.
  destruct (str_is (h ./ "rate_indicator") "C"); destruct (str_is (h ./ "rate_indicator") "D"); cbn [orb negb];
    destruct (jnum (h ./ "rate")) as [r|]; try destruct (b64_lt _ _ && _); close.
Qed.
Theorem mt935_f37h_T14_spec : forall m,
  has_code "T14" (mt935_f37h m)
  = existsb (fun s => existsb (fun h => match jnum (h ./ "rate") with
                                        | Some r => b64_lt (b64_abs r) b64_1e5 && present (h ./ "is_negative")
                                        | None => false end) (jarr (s ./ "37H"))) (seqs m).
Proof.
  intro m. unfold mt935_f37h. rewrite has_code_flat_map. apply existsb_ext. intro s.
  rewrite has_code_flat_map. apply existsb_ext. intro h. rewrite has_code_app.
  destruct (str_is (h ./ "rate_indicator") "C" || str_is (h ./ "rate_indicator") "D");
    destruct (jnum (h ./ "rate")) as [r|]; try destruct (b64_lt _ _ && _); close.
Qed.

(* 23: "3!a[2!n]11x: currency (three letters), number of days only for NOTICE, function one of the seven code words" *)
Definition f23_value (f : jv) : bytes := jstr (f ./ "function_code") ++ days_text (f ./ "days") ++ jstr (f ./ "reference").
Definition f23_functions : list string := ["BASE"; "CALL"; "COMMERCIAL"; "CURRENT"; "DEPOSIT"; "NOTICE"; "PRIME"].
Definition f23_ok (v : bytes) : bool :=
  Nat.leb 4 (List.length v)
  && forallb (fun c => ascii_upper c || ascii_lower c) (firstn 3 v)
  && (let rest := skipn 3 v in
      if Nat.leb 2 (List.length rest) && forallb ascii_digit (firstn 2 rest)
      then is (skipn 2 rest) "NOTICE"
      else one_of rest f23_functions).
Lemma notice_is_function : forall x, is x "NOTICE" = true -> one_of x f23_functions = true.
Proof. intros x H. unfold one_of, f23_functions. cbn [existsb]. rewrite H. repeat rewrite orb_true_r. reflexivity. Qed.
Theorem mt935_f23_T26_spec : forall m,
  has_code "T26" (mt935_f23 m) = existsb (fun s => present (s ./ "23") && negb (f23_ok (f23_value (s ./ "23")))) (seqs m).
Proof.
  intro m. unfold mt935_f23. rewrite has_code_flat_map. apply existsb_ext. intro s.
  destruct (present (s ./ "23")); [|reflexivity]. cbn [andb].
  unfold mt935_f23_one, f23_ok. fold (f23_value (s ./ "23")). cbv zeta.
  set (v := f23_value (s ./ "23")).
  rewrite Nat.ltb_antisym. destruct (Nat.leb 4 (List.length v)); cbn [negb andb]; [|reflexivity].
  rewrite !has_code_app. fold f23_functions.
  destruct (forallb (fun c => ascii_upper c || ascii_lower c) (firstn 3 v)); cbn [andb];
    [|reflexivity].
  destruct (Nat.leb 2 (List.length (skipn 3 v)) && forallb ascii_digit (firstn 2 (skipn 3 v))); cbn [andb].
  - destruct (is (skipn 2 (skipn 3 v)) "NOTICE") eqn:EN.
    + rewrite (notice_is_function _ EN). reflexivity.
    + destruct (one_of (skipn 2 (skipn 3 v)) f23_functions); reflexivity.
  - destruct (one_of (skipn 3 v) f23_functions); reflexivity.
Qed.

(* MT940 C1 / MT942 C3 (repetition limits) are enforced by the parser, the validation functions report nothing *)
Theorem mt940_c1_reports_nothing : forall m, mt940_c1 m = [].
Proof. reflexivity. Qed.
Theorem mt942_c3_reports_nothing : forall m, mt942_c3 m = [].
Proof. reflexivity. Qed.

(* ================================================================== statements: C27 "the first two characters of the currency
   code in fields ... must be the same" *)
Theorem mt940_c2_spec : forall m,
  has_code "C27" (mt940_c2 m)
  = negb (bytes_eqb (pfx (cur (m ./ "62F"))) (pfx (cur (m ./ "60F")))
          && implb (present (m ./ "64")) (bytes_eqb (pfx (cur (m ./ "64"))) (pfx (cur (m ./ "60F"))))
          && forallb (fun f => bytes_eqb (pfx (cur f)) (pfx (cur (m ./ "60F")))) (jarr (m ./ "65"))).
Proof.
  intro m. unfold mt940_c2, implb. rewrite !has_code_app, has_code_flat_map.
  destruct (bytes_eqb (pfx (cur (m ./ "62F"))) _); destruct (present (m ./ "64")); destruct (bytes_eqb (pfx (cur (m ./ "64"))) _);
    cbn [negb andb orb has_code existsb];
    try (vm_compute; reflexivity);
    induction (jarr (m ./ "65")) as [|f r IH]; cbn [existsb forallb]; try reflexivity;
    destruct (bytes_eqb (pfx (cur f)) _); cbn [negb andb orb]; try exact IH; try (vm_compute; reflexivity).
Qed.
Theorem mt950_c1_spec : forall m,
  has_code "C27" (mt950_c1 m)
  = negb (bytes_eqb (pfx2 (cur (bal (m ./ "62")))) (pfx2 (cur (bal (m ./ "60"))))
          && implb (present (m ./ "64")) (bytes_eqb (pfx2 (cur (m ./ "64"))) (pfx2 (cur (bal (m ./ "60")))))).
Proof.
  intro m. unfold mt950_c1, implb. rewrite !has_code_app.
  destruct (bytes_eqb (pfx2 (cur (bal (m ./ "62")))) _); destruct (present (m ./ "64")); destruct (bytes_eqb (pfx2 (cur (m ./ "64"))) _); close.
Qed.
Theorem mt942_c1_spec : forall m,
  has_code "C27" (mt942_c1 m)
  = negb (forallb (fun k => implb (present (m ./ k)) (bytes_eqb (pfx2 (cur (m ./ k))) (pfx2 (cur (m ./ "34F_debit"))))) ["34F_credit"; "90D"; "90C"]).
Proof.
  intro m. unfold mt942_c1, implb. rewrite !has_code_app. cbn [forallb].
  destruct (present (m ./ "34F_credit")); destruct (bytes_eqb (pfx2 (cur (m ./ "34F_credit"))) _);
  destruct (present (m ./ "90D")); destruct (bytes_eqb (pfx2 (cur (m ./ "90D"))) _);
  destruct (present (m ./ "90C")); destruct (bytes_eqb (pfx2 (cur (m ./ "90C"))) _); close.
Qed.
(* MT941 (stop-aware): the full list *)
Theorem mt941_c1_spec : forall m,
  has_code "C27" (all_somes err (mt941_c1_cands m))
  = negb (forallb (fun k => implb (present (m ./ k)) (bytes_eqb (pfx2 (cur (m ./ k))) (pfx2 (cur (m ./ "62F"))))) ["60F"; "90D"; "90C"; "64"]
          && forallb (fun f => bytes_eqb (pfx2 (cur f)) (pfx2 (cur (m ./ "62F")))) (jarr (m ./ "65"))).
Proof.
  intro m. unfold mt941_c1_cands, implb. cbn [forallb app].
  destruct (present (m ./ "60F")); destruct (bytes_eqb (pfx2 (cur (m ./ "60F"))) _);
  destruct (present (m ./ "90D")); destruct (bytes_eqb (pfx2 (cur (m ./ "90D"))) _);
  destruct (present (m ./ "90C")); destruct (bytes_eqb (pfx2 (cur (m ./ "90C"))) _);
  destruct (present (m ./ "64")); destruct (bytes_eqb (pfx2 (cur (m ./ "64"))) _);
  cbn [andb negb orb all_somes has_code existsb];
  try (vm_compute; reflexivity);
  induction (jarr (m ./ "65")) as [|f r IH]; cbn [map all_somes forallb existsb]; try reflexivity;
  destruct (bytes_eqb (pfx2 (cur f)) _); cbn [all_somes existsb negb andb orb]; try exact IH; try (vm_compute; reflexivity).
Qed.
