(* Rules/Spec104.v — MT104 and MT107: documented rules as predicates, and the equivalence proofs. *)

From Coq Require Import Strings.String ZArith Bool.
From SwiftMT Require Import Base.Bytes Base.StrOps Num.Amount Rules.Msg Rules.Small Rules.Big Rules.All Rules.SpecLib Rules.Spec Rules.Spec103 Valid.Aggregate.
Local Open Scope string_scope.
Local Open Scope list_scope.

Ltac close := try reflexivity; try (vm_compute; reflexivity).

Lemma not_all : forall (A : Type) (p : A -> bool) l, negb (forallb p l) = existsb (fun x => negb (p x)) l.
Proof. intros A p l. induction l as [|x r IH]; cbn; [reflexivity|]. rewrite negb_andb, IH. reflexivity. Qed.
Lemma has_code_when' : forall k b c fl, has_code k (when b (E c fl)) = (b && is (bs k) c).
Proof. exact has_code_when. Qed.

(* ---- MT104 C1 (C75): "23E in A with RFDD: 23E in every occurrence of B; 23E in A without RFDD: 23E in no occurrence of B;
        no 23E in A: 23E in every occurrence of B" *)
Definition ok104_c1 (m : jv) : bool :=
  if present (m ./ "23E") then
    if is (code (m ./ "23E")) "RFDD" then forallb (fun t => present (t ./ "23E")) (seqs m)
    else forallb (fun t => negb (present (t ./ "23E"))) (seqs m)
  else forallb (fun t => present (t ./ "23E")) (seqs m).
Theorem mt104_c1_spec : forall m, has_code "C75" (mt104_c1 m) = negb (ok104_c1 m).
Proof.
  intro m. unfold mt104_c1, ok104_c1, per_tx.
  destruct (present (m ./ "23E")); [destruct (is _ "RFDD")|]; rewrite has_code_flat_map, not_all; apply existsb_ext; intro t;
    unfold absent, when; destruct (present (t ./ "23E")); close.
Qed.

(* ---- C2 (C76): "50a (A or K) must be present either in sequence A or in each occurrence of sequence B, but not in both" *)
Theorem mt104_c2_spec : forall m, has_code "C76" (opt_l (mt104_c2 m)) = negb (placed_once m k50ak).
Proof.
  intro m. unfold mt104_c2, placement, placed_once. cbv zeta.
  destruct (any_key m k50ak); destruct (all_tx m _); destruct (any_tx m _); close.
Qed.

(* ---- C3 (D73): "when present in sequence A, 21E, 26T, 52a, 71A, 77B and 50a (C or L) must not be present in any occurrence of B, and vice versa" *)
Theorem mt104_c3_spec : forall m,
  has_code "D73" (mt104_c3 m)
  = (both m ["21E"] || both m ["26T"] || both m k52acd || both m ["71A"] || both m ["77B"] || both m k50cl).
Proof.
  intro m. unfold mt104_c3. rewrite !has_code_app, !has_code_when. evis. tidy.
  destruct (both m ["21E"]); destruct (both m ["26T"]); destruct (both m k52acd); destruct (both m ["71A"]);
    destruct (both m ["77B"]); destruct (both m k50cl); reflexivity.
Qed.

(* ---- C4 (D77): "if 21E is present, 50a (A or K) must be present in the same sequence" *)
Definition ok_21e_needs_creditor (x : jv) : bool := implb (present (x ./ "21E")) (any_key x k50ak).
Theorem mt104_c4_spec : forall m,
  has_code "D77" (mt104_c4 m) = (negb (ok_21e_needs_creditor m) || existsb (fun t => negb (ok_21e_needs_creditor t)) (seqs m)).
Proof.
  intro m. unfold mt104_c4, per_tx. rewrite has_code_app, has_code_when, has_code_flat_map. evis. tidy.
  f_equal.
  - unfold ok_21e_needs_creditor, implb. destruct (present _); destruct (any_key _ _); reflexivity.
  - apply existsb_ext. intro t. rewrite has_code_when. evis. tidy.
    unfold ok_21e_needs_creditor, implb. destruct (present _); destruct (any_key _ _); reflexivity.
Qed.

(* ---- C5 (C82): "if 23E in sequence A contains RTND, 72 must be present, otherwise 72 is not allowed" *)
Theorem mt104_c5_spec : forall m, has_code "C82" (opt_l (mt104_c5 m)) = negb (Bool.eqb (a23e_is m "RTND") (present (m ./ "72"))).
Proof. intro m. unfold mt104_c5. cbv zeta. destruct (a23e_is m "RTND"); destruct (present (m ./ "72")); close. Qed.

(* ---- C6 (D79): "71F (71G) present in one or more occurrences of B <-> present in C" *)
Definition charges_ok (m : jv) : bool :=
  Bool.eqb (any_tx m (fun t => present (t ./ "71F"))) (present (m ./ "71F"))
  && Bool.eqb (any_tx m (fun t => present (t ./ "71G"))) (present (m ./ "71G")).
Theorem mt104_c6_spec : forall m, has_code "D79" (mt104_c6 m) = negb (charges_ok m).
Proof.
  intro m. unfold mt104_c6, charges, charges_ok. cbv zeta. rewrite !has_code_app, !has_code_when. evis. tidy.
  destruct (any_tx m (fun t => present (t ./ "71F"))); destruct (present (m ./ "71F"));
    destruct (any_tx m (fun t => present (t ./ "71G"))); destruct (present (m ./ "71G")); reflexivity.
Qed.

(* ---- C7 (D21): "if 33B is present, the currency code or the amount, or both, must differ between 33B and 32B" *)
Definition ok_d21 (t : jv) : bool :=
  implb (present (t ./ "33B")) (negb (bytes_eqb (cur (t ./ "32B")) (cur (t ./ "33B")) && near (amount (t ./ "32B")) (amount (t ./ "33B")))).
Theorem d21_spec : forall m, has_code "D21" (d21 m) = existsb (fun t => negb (ok_d21 t)) (seqs m).
Proof.
  intro m. unfold d21. per_tx_open. rewrite has_code_when. evis. tidy. unfold ok_d21, implb.
  destruct (present _); destruct (bytes_eqb _ _); destruct (near _ _); reflexivity.
Qed.

(* ---- C8 (D75): "if 33B is present and the currency codes differ, 36 must be present, otherwise 36 must not be present" *)
Definition ok_d75 (t : jv) : bool :=
  if present (t ./ "33B") && negb (bytes_eqb (cur (t ./ "32B")) (cur (t ./ "33B"))) then present (t ./ "36") else negb (present (t ./ "36")).
Theorem d75_spec : forall m, has_code "D75" (d75 m) = existsb (fun t => negb (ok_d75 t)) (seqs m).
Proof.
  intro m. unfold d75. per_tx_open. unfold ok_d75, absent, when.
  destruct (present (t ./ "33B")); destruct (bytes_eqb _ _); destruct (present (t ./ "36")); close.
Qed.

(* ---- C9 (D80): "if sequence C is present: its 32B equals the sum of the 32B of B -> 19 must not be present; otherwise 19 must be present" *)
Definition ok104_c9 (m : jv) : bool :=
  implb (seq_c m) (Bool.eqb (near (amount (m ./ "32B")) (sum32b m)) (negb (present (m ./ "19")))).
Theorem mt104_c9_spec : forall m, has_code "D80" (opt_l (mt104_c9 m)) = negb (ok104_c9 m).
Proof.
  intro m. unfold mt104_c9, ok104_c9, implb, absent. cbv zeta. destruct (seq_c m); [|close]. cbn [negb orb].
  destruct (near _ _); destruct (present (m ./ "19")); close.
Qed.
(* ---- C10 (C01): "if 19 is present it must equal the sum of the amounts in all occurrences of 32B in B" (tolerance 0.01) *)
Theorem mt104_c10_spec : forall m,
  has_code "C01" (opt_l (mt104_c10 m)) = (present (m ./ "19") && differs_by_more_than_a_cent (amount (m ./ "19")) (sum32b m)).
Proof. intro m. unfold mt104_c10, differs_by_more_than_a_cent. destruct (present _ && b64_lt _ _); close. Qed.

(* ---- C11 (C02): "the currency code in 32B (71G, 71F) must be the same for all occurrences in the message" *)
Definition curs_of (m : jv) (k : string) : list bytes :=
  flat_map (fun t => if present (t ./ k) then [cur (t ./ k)] else []) (seqs m) ++ (if present (m ./ k) then [cur (m ./ k)] else []).
Lemma once_other_spec : forall l e k, has_code k (once_other l e) = (negb (all_same l) && bytes_eqb (ecode e) (bs k)).
Proof.
  intros l e k. unfold once_other. pose proof (first_other_none bytes (fun x => x) l) as H. rewrite map_id in H.
  rewrite <- H. destruct (first_other _ l); cbn; [rewrite orb_false_r|]; reflexivity.
Qed.
Theorem mt104_c11_spec : forall m,
  has_code "C02" (mt104_c11 m)
  = negb (all_same (map (fun t => cur (t ./ "32B")) (seqs m) ++ (if present (m ./ "32B") then [cur (m ./ "32B")] else []))
          && all_same (curs_of m "71G") && all_same (curs_of m "71F")).
Proof.
  intro m. unfold mt104_c11, curs_of. rewrite !has_code_app, !once_other_spec. evis. tidy.
  repeat match goal with |- context [all_same ?l] => destruct (all_same l) end; reflexivity.
Qed.

(* ---- C12 (C96): "23E in A = RFDD: 21E, 50a (A or K), 52a, 71F, 71G not in B and no sequence C;
        otherwise: 21R must not be present and sequence C must be present" *)
Definition ok104_c12 (m : jv) : bool :=
  if a23e_is m "RFDD" then
    forallb (fun t => negb (present (t ./ "21E")) && negb (any_key t k50ak) && negb (any_key t k52acd)
                      && negb (present (t ./ "71F")) && negb (present (t ./ "71G"))) (seqs m)
    && negb (seq_c m)
  else negb (present (m ./ "21R")) && seq_c m.
Theorem mt104_c12_spec : forall m, has_code "C96" (mt104_c12 m) = negb (ok104_c12 m).
Proof.
  intro m. unfold mt104_c12, ok104_c12. destruct (a23e_is m "RFDD").
  - rewrite has_code_app, has_code_when. evis. tidy. rewrite negb_andb, negb_involutive. f_equal.
    unfold per_tx. rewrite has_code_flat_map, not_all. apply existsb_ext. intro t.
    rewrite !has_code_app, !has_code_when. evis. tidy.
    destruct (present (t ./ "21E")); destruct (any_key t k50ak); destruct (any_key t k52acd);
      destruct (present (t ./ "71F")); destruct (present (t ./ "71G")); reflexivity.
  - rewrite has_code_app, !has_code_when. evis. tidy. destruct (present _); destruct (seq_c m); reflexivity.
Qed.

(* ---- field 23E: T47 code not allowed in this sequence, D81 additional information only with OTHR *)
Lemma f23e_one_codes : forall k valid f,
  has_code k (f23e_one valid f)
  = (present f && ((is (bs k) "T47" && negb (one_of (code f) valid)) || (is (bs k) "D81" && (has_info f && negb (is (code f) "OTHR"))))).
Proof.
  intros k valid f. unfold f23e_one. destruct (present f); [|reflexivity]. rewrite has_code_app, !has_code_when. cbn [andb].
  destruct (is (bs k) "T47"); destruct (is (bs k) "D81"); destruct (negb (one_of _ _)); destruct (has_info f && _); reflexivity.
Qed.
Theorem mt104_f23e_a_T47_spec : forall m,
  has_code "T47" (mt104_f23e_a m) = (present (m ./ "23E") && negb (one_of (code (m ./ "23E")) ["AUTH"; "NAUT"; "OTHR"; "RFDD"; "RTND"])).
Proof. intro m. unfold mt104_f23e_a. rewrite f23e_one_codes. evis. tidy. reflexivity. Qed.
Theorem mt104_f23e_a_D81_spec : forall m,
  has_code "D81" (mt104_f23e_a m) = (present (m ./ "23E") && (has_info (m ./ "23E") && negb (is (code (m ./ "23E")) "OTHR"))).
Proof. intro m. unfold mt104_f23e_a. rewrite f23e_one_codes. evis. tidy. reflexivity. Qed.
Theorem mt104_f23e_b_T47_spec : forall m,
  has_code "T47" (mt104_f23e_b m) = existsb (fun t => present (t ./ "23E") && negb (one_of (code (t ./ "23E")) ["AUTH"; "NAUT"; "OTHR"])) (seqs m).
Proof. intro m. unfold mt104_f23e_b. per_tx_open. rewrite f23e_one_codes. evis. tidy. reflexivity. Qed.
Theorem mt104_f23e_b_D81_spec : forall m,
  has_code "D81" (mt104_f23e_b m) = existsb (fun t => present (t ./ "23E") && (has_info (t ./ "23E") && negb (is (code (t ./ "23E")) "OTHR"))) (seqs m).
Proof. intro m. unfold mt104_f23e_b. per_tx_open. rewrite f23e_one_codes. evis. tidy. reflexivity. Qed.

(* ================================================================== MT107 *)
(* C1 (D86): "23E and 50a (A or K) must each be present either in sequence A or in each occurrence of sequence B, but not in both" *)
Definition placed_once_p (m : jv) (inA : bool) (inT : jv -> bool) : bool :=
  (inA && negb (any_tx m inT)) || (negb inA && all_tx m inT).
Theorem mt107_c1_spec : forall m,
  has_code "D86" (mt107_c1 m)
  = negb (placed_once_p m (present (m ./ "23E")) (fun t => present (t ./ "23E")) && placed_once m k50ak).
Proof.
  intro m. unfold mt107_c1, placement1, placed_once_p, placed_once. cbv zeta. rewrite has_code_app.
  destruct (present (m ./ "23E")); destruct (all_tx m (fun t => present (t ./ "23E"))); destruct (any_tx m (fun t => present (t ./ "23E")));
    destruct (any_key m k50ak); destruct (all_tx m (fun t => any_key t k50ak)); destruct (any_tx m (fun t => any_key t k50ak)); close.
Qed.
Theorem mt107_c2_spec : forall m,
  has_code "D73" (mt107_c2 m)
  = (both m ["21E"] || both m ["26T"] || both m ["77B"] || both m ["71A"] || both m k52acd || both m k50cl).
Proof.
  intro m. unfold mt107_c2. rewrite !has_code_app, !has_code_when. evis. tidy.
  destruct (both m ["21E"]); destruct (both m ["26T"]); destruct (both m k52acd); destruct (both m ["71A"]);
    destruct (both m ["77B"]); destruct (both m k50cl); reflexivity.
Qed.
Theorem mt107_c3_spec : forall m,
  has_code "D77" (mt107_c3 m) = (negb (ok_21e_needs_creditor m) || existsb (fun t => negb (ok_21e_needs_creditor t)) (seqs m)).
Proof. exact mt104_c4_spec. Qed.
(* C4 (C82): "in sequence A, if 23E contains RTND then 72 must be present, otherwise 72 is not allowed" *)
Theorem mt107_c4_spec : forall m, has_code "C82" (opt_l (mt107_c4 m)) = negb (Bool.eqb (a23e_is m "RTND") (present (m ./ "72"))).
Proof.
  intro m. unfold mt107_c4, a23e_is, absent. cbv zeta.
  destruct (present (m ./ "23E")); cbn [andb]; [destruct (is _ "RTND")|]; destruct (present (m ./ "72")); close.
Qed.
Theorem mt107_c5_spec : forall m, has_code "D79" (mt107_c5 m) = negb (charges_ok m).
Proof.
  intro m. unfold mt107_c5, charges_ok. cbv zeta. rewrite !has_code_app, !has_code_when. evis. tidy.
  destruct (any_tx m (fun t => present (t ./ "71F"))); destruct (present (m ./ "71F"));
    destruct (any_tx m (fun t => present (t ./ "71G"))); destruct (present (m ./ "71G")); reflexivity.
Qed.
Theorem mt107_c6_spec : forall m, has_code "D21" (mt107_c6 m) = existsb (fun t => negb (ok_d21 t)) (seqs m).
Proof. exact d21_spec. Qed.
Theorem mt107_c7_spec : forall m, has_code "D75" (mt107_c7 m) = existsb (fun t => negb (ok_d75 t)) (seqs m).
Proof. exact d75_spec. Qed.

(* C8 (D80, C01): "the sum of the amounts of 32B in B must be in 32B of C when no charges (71F/71G in B) are included, and then 19
   must not be present; with charges the sum must be in 19 of C" *)
Definition charged (m : jv) : bool := any_tx m (fun t => present (t ./ "71F")) || any_tx m (fun t => present (t ./ "71G")).
Theorem mt107_c8_D80_spec : forall m,
  has_code "D80" (mt107_c8 m)
  = (negb (match seqs m with [] => true | _ => false end)
     && (if charged m then negb (present (m ./ "19"))
         else far (amount (m ./ "32B")) (sum32b m) || present (m ./ "19"))).
Proof.
  intro m. unfold mt107_c8, charged. destruct (seqs m) as [|t0 r] eqn:S; [close|]. cbn [negb andb]. cbv zeta.
  destruct (any_tx m (fun t => present (t ./ "71F")) || any_tx m (fun t => present (t ./ "71G"))).
  - destruct (present (m ./ "19")); [|close]. rewrite has_code_when. evis. tidy. reflexivity.
  - rewrite has_code_app, !has_code_when. evis. tidy. reflexivity.
Qed.
Theorem mt107_c8_C01_spec : forall m,
  has_code "C01" (mt107_c8 m)
  = (negb (match seqs m with [] => true | _ => false end) && charged m && present (m ./ "19") && far (amount (m ./ "19")) (sum32b m)).
Proof.
  intro m. unfold mt107_c8, charged. destruct (seqs m) as [|t0 r] eqn:S; [close|]. cbn [negb andb]. cbv zeta.
  destruct (any_tx m (fun t => present (t ./ "71F")) || any_tx m (fun t => present (t ./ "71G"))); cbn [andb].
  - destruct (present (m ./ "19")); [|close]. rewrite has_code_when. evis. tidy. reflexivity.
  - rewrite has_code_app, !has_code_when. evis. tidy. reflexivity.
Qed.

(* C9 (C02): "the currency codes in 32B and 71G must be the same for all occurrences in the message; the currency code in 71F
   must be the same for all occurrences" — checked against sequence C's 32B / 71F / 71G *)
Definition ok107_c9_tx (m t : jv) : bool :=
  bytes_eqb (cur (t ./ "32B")) (cur (m ./ "32B"))
  && implb (present (t ./ "71F") && present (m ./ "71F")) (bytes_eqb (cur (t ./ "71F")) (cur (m ./ "71F")))
  && implb (present (t ./ "71G")) (bytes_eqb (cur (t ./ "71G")) (cur (m ./ "32B"))
                                    && implb (present (m ./ "71G")) (bytes_eqb (cur (t ./ "71G")) (cur (m ./ "71G")))).
Theorem mt107_c9_spec : forall m, has_code "C02" (mt107_c9 m) = existsb (fun t => negb (ok107_c9_tx m t)) (seqs m).
Proof.
  intro m. unfold mt107_c9. destruct (seqs m) as [|t0 r] eqn:S; [reflexivity|]. cbv zeta.
  unfold per_tx. rewrite S, has_code_flat_map. apply existsb_ext. intro t.
  unfold ok107_c9_tx, implb. rewrite !has_code_app, !has_code_when. evis. tidy.
  destruct (bytes_eqb (cur (t ./ "32B")) _); destruct (present (t ./ "71F")); destruct (present (m ./ "71F"));
    destruct (bytes_eqb (cur (t ./ "71F")) _); destruct (present (t ./ "71G")); cbn [andb orb negb];
    rewrite ?has_code_app, ?has_code_when; evis; tidy;
    try destruct (bytes_eqb (cur (t ./ "71G")) (cur (m ./ "32B"))); try destruct (present (m ./ "71G"));
    try destruct (bytes_eqb (cur (t ./ "71G")) (cur (m ./ "71G"))); close.
Qed.

Theorem mt107_f23e_T47_spec : forall m,
  has_code "T47" (mt107_f23e m)
  = ((present (m ./ "23E") && negb (one_of (code (m ./ "23E")) mt107_valid_23e))
     || existsb (fun t => present (t ./ "23E") && negb (one_of (code (t ./ "23E")) mt107_valid_23e)) (seqs m)).
Proof.
  intro m. unfold mt107_f23e. rewrite has_code_app, f23e_one_codes. evis. tidy. f_equal.
  unfold per_tx. rewrite has_code_flat_map. apply existsb_ext. intro t. rewrite f23e_one_codes. evis. tidy. reflexivity.
Qed.
Theorem mt107_f23e_D81_spec : forall m,
  has_code "D81" (mt107_f23e m)
  = ((present (m ./ "23E") && (has_info (m ./ "23E") && negb (is (code (m ./ "23E")) "OTHR")))
     || existsb (fun t => present (t ./ "23E") && (has_info (t ./ "23E") && negb (is (code (t ./ "23E")) "OTHR"))) (seqs m)).
Proof.
  intro m. unfold mt107_f23e. rewrite has_code_app, f23e_one_codes. evis. tidy. f_equal.
  unfold per_tx. rewrite has_code_flat_map. apply existsb_ext. intro t. rewrite f23e_one_codes. evis. tidy. reflexivity.
Qed.

(* ================================================================== documented rules the code does not report (known findings) *)
Definition o (kv : list (string * jv)) : jv := JObj (map (fun p => (bs (fst p), snd p)) kv).
Definition s (x : string) : jv := JStr (bs x).
Definition n (x : string) : jv := JNum (bs x).

(* MT204 C1 "the amount in field 19 must equal the sum of the amounts in all occurrences of field 32B":
   19 = 0.03 against one 32B of 0.02 is a one-cent mismatch, and nothing is reported, because the binary64
   difference 0.03 - 0.02 = 0.009999999999999998 is not > 0.01 (0.04 against 0.03 is reported) *)
Definition mt204_one_cent : jv :=
  o [("19", o [("amount", n "0.03")]); ("20", o [("reference", s "REF")]); ("30", o [("execution_date", s "2026-09-30")]);
     ("#", JArr [o [("20", o [("reference", s "TX1")]); ("32B", o [("amount", n "0.02"); ("currency", s "EUR")])]])].
Theorem mt204_c1_one_cent_refuted :
  jnum_dec (bs "0.03") <> jnum_dec (bs "0.02") /\ validate_rules (bs "MT204") mt204_one_cent false = [].
Proof. split; [vm_compute; discriminate | vm_compute; reflexivity]. Qed.
Definition mt204_one_cent_reported : jv :=
  o [("19", o [("amount", n "0.04")]); ("20", o [("reference", s "REF")]); ("30", o [("execution_date", s "2026-09-30")]);
     ("#", JArr [o [("20", o [("reference", s "TX1")]); ("32B", o [("amount", n "0.03"); ("currency", s "EUR")])]])].
Theorem mt204_c1_other_cent_reported : has_code "C01" (validate_rules (bs "MT204") mt204_one_cent_reported false) = true.
Proof. vm_compute. reflexivity. Qed.

(* MT103 C6, E17: option D of 56a with 23B = SSTD is reported (it was not before fix: f23b9de) *)
Definition mt103_sstd_56d : jv :=
  o [("20", o [("reference", s "REF")]); ("23B", o [("instruction_code", s "SSTD")]);
     ("32A", o [("amount", n "1000.0"); ("currency", s "USD"); ("value_date", s "2026-09-30")]);
     ("50K", o [("account", s "1"); ("name_and_address", JArr [s "JOHN"])]);
     ("56D", o [("name_and_address", JArr [s "BANK"]); ("party_identifier", JNull)]);
     ("57A", o [("bic", s "DEUTDEFF")]); ("59", o [("account", s "2"); ("name_and_address", JArr [s "JANE"])]);
     ("71A", o [("code", s "SHA")])].
Theorem mt103_e17_reported : has_code "E17" (validate_rules (bs "MT103") mt103_sstd_56d false) = true.
Proof. vm_compute. reflexivity. Qed.
