(* Rules/Msg.v — the view of a message on which the network rules are stated: the message body as the
   library itself serialises it (serde), i.e. a JSON tree whose keys are the field tags ("32A", "52A",
   "#" for a repeated sequence) and whose leaves are the components the rule functions read.  A Rust
   `self.field_33b.currency` is `m ./ "33B" ./ "currency"` here.  The correspondence run hands the
   library's own serialisation of each message to the model (stream `rules`). *)

From Coq Require Import Strings.String.
From SwiftMT Require Import Base.Bytes Base.StrOps Headers.Hdr12 Num.Amount.
From Coq Require Import ZArith.
Local Open Scope Z_scope.

Inductive jv :=
| JNull | JBool (b : bool) | JNum (text : bytes) | JStr (s : bytes)
| JArr (l : list jv) | JObj (kv : list (bytes * jv)).

Record err := { ecode : bytes; efield : bytes }.
Definition E (c f : string) : err := {| ecode := bs c; efield := bs f |}.

(* m / "key": JNull when absent (serde writes an absent Option as null or omits the key) *)
Definition jget (v : jv) (k : string) : jv :=
  match v with
  | JObj kv => match lookup (bs k) kv with Some x => x | None => JNull end
  | _ => JNull
  end.
Notation "v ./ k" := (jget v k) (at level 40, left associativity).
Definition present (v : jv) : bool := match v with JNull => false | _ => true end.
Definition absent (v : jv) : bool := negb (present v).
(* an Option<enum> flattened into its parent: present when any of its variant keys is *)
Definition any_key (v : jv) (keys : list string) : bool := existsb (fun k => present (v ./ k)) keys.
Definition first_key (v : jv) (keys : list string) : jv :=
  match List.find (fun k => present (v ./ k)) keys with Some k => v ./ k | None => JNull end.
Definition jstr (v : jv) : bytes := match v with JStr s => s | _ => [] end.
Definition jarr (v : jv) : list jv := match v with JArr l => l | _ => [] end.    (* Option<Vec<T>>: null = no element *)
Definition is (c : bytes) (s : string) : bool := bytes_eqb c (bs s).
Definition one_of (c : bytes) (l : list string) : bool := existsb (is c) l.
Definition str_is (v : jv) (s : string) : bool := match v with JStr x => is x s | _ => false end.

(* a JSON number as serde_json prints an f64 (ryu): [-]digits[.digits][e[+-]digits] *)
Fixpoint span_digits (s : bytes) : bytes * bytes :=
  match s with
  | b :: r => if ascii_digit b then let '(d, rest) := span_digits r in (b :: d, rest) else ([], s)
  | [] => ([], [])
  end.
Definition jnum_dec (s : bytes) : option (bool * Z * Z) :=      (* negative, n, k : value = n * 10^k *)
  let '(neg, s1) := match s with 45%N :: r => (true, r) | _ => (false, s) end in
  let '(ip, s2) := span_digits s1 in
  match ip with [] => None | _ =>
  let '(fp, s3) := match s2 with 46%N :: r => span_digits r | _ => ([], s2) end in
  let n := digits_val (ip ++ fp) in
  let k0 := - Z.of_nat (List.length fp) in
  match s3 with
  | [] => Some (neg, n, k0)
  | e :: r =>
      if N.eqb e 101 || N.eqb e 69 then
        let '(eneg, r1) := match r with 45%N :: r' => (true, r') | 43%N :: r' => (false, r') | _ => (false, r) end in
        let '(ed, r2) := span_digits r1 in
        match ed, r2 with
        | _ :: _, [] => Some (neg, n, k0 + (if eneg then - digits_val ed else digits_val ed))
        | _, _ => None
        end
      else None
  end end.
Definition jnum (v : jv) : option b64 :=
  match v with
  | JNum t =>
      match jnum_dec t with
      | Some (neg, n, k) =>
          let r := if 0 <=? k then round53 (n * 10 ^ k) 1 else round53 n (10 ^ (- k)) in
          Some {| mant := (if neg then - mant r else mant r); expo := expo r |}
      | None => None
      end
  | _ => None
  end.

(* str::lines(): split at "\n", a "\r" before it goes too; a final empty piece is no line *)
Fixpoint lines_go (s cur : bytes) : list bytes :=
  match s with
  | [] => match cur with [] => [] | _ => [rev cur] end
  | b :: r =>
      if N.eqb b nl then
        rev (match cur with c :: cur' => if N.eqb c cr then cur' else cur | [] => cur end) :: lines_go r []
      else lines_go r (b :: cur)
  end.
Definition lines (s : bytes) : list bytes := lines_go s [].



(* exact comparison of binary64 values m * 2^e (all values here are finite and >= 0 or differences) *)
Definition b64_cmp (x y : b64) : comparison :=
  let e := Z.min (expo x) (expo y) in
  Z.compare (mant x * 2 ^ (expo x - e)) (mant y * 2 ^ (expo y - e)).
Definition b64_zero : b64 := {| mant := 0; expo := 0 |}.
(* IEEE addition / subtraction: the exact result rounded to nearest-even (round53 on the exact rational) *)
Definition b64_of_exact (n : Z) (e : Z) : b64 :=      (* n * 2^e, n any sign *)
  if n =? 0 then b64_zero else
  let r := if 0 <=? e then round53 (Z.abs n * 2 ^ e) 1 else round53 (Z.abs n) (2 ^ (- e)) in
  {| mant := (if n <? 0 then - mant r else mant r); expo := expo r |}.
Definition b64_add (x y : b64) : b64 :=
  let e := Z.min (expo x) (expo y) in
  b64_of_exact (mant x * 2 ^ (expo x - e) + mant y * 2 ^ (expo y - e)) e.
Definition b64_neg (x : b64) : b64 := {| mant := - mant x; expo := expo x |}.
Definition b64_sub (x y : b64) : b64 := b64_add x (b64_neg y).
Definition b64_abs (x : b64) : b64 := {| mant := Z.abs (mant x); expo := expo x |}.
Definition b64_lt (x y : b64) : bool := match b64_cmp x y with Lt => true | _ => false end.
Definition b64_le (x y : b64) : bool := match b64_cmp x y with Gt => false | _ => true end.
(* the literal 0.01 *)
Definition b64_cent : b64 := round53 1 100.
(* Iterator::sum::<f64>(): left fold from 0.0 (the std impl adds in order starting from -0.0/0.0) *)
Definition b64_sum (l : list b64) : b64 := fold_left b64_add l b64_zero.
