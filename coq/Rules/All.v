(* Rules/All.v — the network validation of a message of type T: the hand-transcribed rule functions
   (Rules/Small.v, Rules/Big.v) plugged by name into the aggregation regenerated from the source
   (gen/ValidatorShapes.v, Valid/Aggregate.v). *)

From Coq Require Import Strings.String.
From SwiftMT Require Import Base.Bytes Rules.Msg Rules.Small Rules.Big Valid.Aggregate.
Local Open Scope string_scope.
Local Open Scope list_scope.

Inductive rulefn :=
| ROpt (f : jv -> option err)
| RVec (f : jv -> list err)
| RCands (f : jv -> list (option err)).

Definition rule_table : list (string * list (string * rulefn)) := [
  ("MT101", [("validate_c1_fx_deal_reference", RVec mt101_c1); ("validate_c2_amount_exchange", RVec mt101_c2);
             ("validate_c3_ordering_customer", ROpt mt101_c3); ("validate_c4_instructing_party", ROpt mt101_c4);
             ("validate_c5_currency_codes", RVec mt101_c5); ("validate_c6_account_servicing", ROpt mt101_c6);
             ("validate_c7_intermediary", RVec mt101_c7); ("validate_c8_currency_consistency", ROpt mt101_c8);
             ("validate_c9_zero_amount", RVec mt101_c9); ("validate_field_23e", RVec mt101_f23e)]);
  ("MT103", [("validate_field_23b", ROpt mt103_f23b); ("validate_field_23e", RVec mt103_f23e);
             ("validate_c1_currency_exchange", ROpt mt103_c1); ("validate_c3_bank_op_instruction_codes", RVec mt103_c3);
             ("validate_c4_third_reimbursement", ROpt mt103_c4); ("validate_c5_intermediary", ROpt mt103_c5);
             ("validate_c6_field_56_restrictions", ROpt mt103_c6); ("validate_c7_charges", RVec mt103_c7);
             ("validate_c8_charges_instructed_amount", ROpt mt103_c8); ("validate_c9_receiver_charges_currency", ROpt mt103_c9);
             ("validate_c13_chqb_beneficiary_account", ROpt mt103_c13); ("validate_c16_teli_phoi_restriction", RVec mt103_c16);
             ("validate_c17_tele_phon_restriction", RVec mt103_c17)]);
  ("MT104", [("validate_c1_field_23e_dependencies", RVec mt104_c1); ("validate_c2_creditor_field", ROpt mt104_c2);
             ("validate_c3_mutual_exclusivity", RVec mt104_c3); ("validate_c4_registration_reference", RVec mt104_c4);
             ("validate_c5_field_72_rtnd", ROpt mt104_c5); ("validate_c6_charges_dependencies", RVec mt104_c6);
             ("validate_c7_currency_amount_difference", RVec mt104_c7); ("validate_c8_exchange_rate", RVec mt104_c8);
             ("validate_c9_field_19", ROpt mt104_c9); ("validate_c10_field_19_amount", ROpt mt104_c10);
             ("validate_c11_currency_consistency", RVec mt104_c11); ("validate_c12_rfdd_comprehensive", RVec mt104_c12);
             ("validate_field_23e_seq_a", RVec mt104_f23e_a); ("validate_field_23e_seq_b", RVec mt104_f23e_b)]);
  ("MT107", [("validate_c1_23e_and_creditor_placement", RVec mt107_c1); ("validate_c2_seq_a_b_mutual_exclusivity", RVec mt107_c2);
             ("validate_c3_registration_creditor_dependency", RVec mt107_c3); ("validate_c4_rtnd_field_72_dependency", ROpt mt107_c4);
             ("validate_c5_charges_fields_consistency", RVec mt107_c5); ("validate_c6_field_33b_32b_comparison", RVec mt107_c6);
             ("validate_c7_exchange_rate_dependency", RVec mt107_c7); ("validate_c8_sum_of_amounts", RVec mt107_c8);
             ("validate_c9_currency_consistency", RVec mt107_c9); ("validate_field_23e", RVec mt107_f23e)]);
  ("MT110", [("validate_c1_max_repetitions", ROpt mt110_c1); ("validate_c2_currency_consistency", ROpt mt110_c2)]);
  ("MT111", []); ("MT112", []); ("MT190", []); ("MT191", []);
  ("MT192", [("validate_c1_field_79_or_copy", ROpt mt192_c1); ("validate_field_79_codes", RVec mt192_codes)]);
  ("MT196", [("validate_c1_field_79_or_copy", ROpt mt196_c1)]);
  ("MT199", []);
  ("MT200", [("validate_t80_field_72_special_codes", RVec mt200_t80)]);
  ("MT202", [("validate_c1_intermediary_seq_a", ROpt mt202_c1); ("validate_c2_intermediary_seq_b", ROpt mt202_c2)]);
  ("MT204", [("validate_c1_sum_of_amounts", ROpt mt204_c1); ("validate_c2_currency_consistency", ROpt mt204_c2);
             ("validate_c3_max_sequences", ROpt mt204_c3)]);
  ("MT205", [("validate_c1_intermediary_account_with", ROpt mt205_c1)]);
  ("MT210", [("validate_c1_repetitive_sequence_count", ROpt mt210_c1); ("validate_c2_mutual_exclusivity", RVec mt210_c2);
             ("validate_c3_currency_consistency", ROpt mt210_c3)]);
  ("MT290", []); ("MT291", []);
  ("MT292", [("validate_c1_field_79_or_original_fields", ROpt mt292_c1)]);
  ("MT296", [("validate_c1_field_79_or_copy", ROpt mt296_c1)]);
  ("MT299", []); ("MT900", []);
  ("MT910", [("validate_c1_ordering_party", ROpt mt910_c1)]);
  ("MT920", [("validate_t88_message_type", RVec mt920_t88); ("validate_c1_field_34f_requirement", RVec mt920_c1);
             ("validate_c2_dc_mark_usage", RVec mt920_c2); ("validate_c3_currency_consistency", RVec mt920_c3)]);
  ("MT935", [("validate_c1_sequence_occurrence", ROpt mt935_c1); ("validate_c2_field_23_25_mutual_exclusivity", RVec mt935_c2);
             ("validate_field_23", RVec mt935_f23); ("validate_field_37h", RVec mt935_f37h)]);
  ("MT940", [("validate_c1_field_86_follows_61", RVec mt940_c1); ("validate_c2_currency_consistency", RVec mt940_c2)]);
  ("MT941", [("validate_c1_currency_consistency", RCands mt941_c1_cands)]);
  ("MT942", [("validate_c1_currency_consistency", RVec mt942_c1); ("validate_c2_floor_limit_dc_mark", ROpt mt942_c2);
             ("validate_c3_field_86_positioning", RVec mt942_c3)]);
  ("MT950", [("validate_c1_currency_consistency", RVec mt950_c1)])
].

Definition rules_of (T : bytes) : list (bytes * rulefn) :=
  match List.find (fun p => bytes_eqb T (bs (fst p))) rule_table with
  | Some p => map (fun q => (bs (fst q), snd q)) (snd p)
  | None => []
  end.

Definition opt_of (T : bytes) (m : jv) (name : bytes) : option err :=
  match lookup name (rules_of T) with Some (ROpt f) => f m | _ => None end.
Definition vec_of (T : bytes) (m : jv) (name : bytes) : list err :=
  match lookup name (rules_of T) with Some (RVec f) => f m | _ => [] end.
Definition cands_of (T : bytes) (m : jv) (name : bytes) : list (option err) :=
  match lookup name (rules_of T) with Some (RCands f) => f m | _ => [] end.

Definition shape_of (T : bytes) : list vgroup := match lookup T validator_shapes with Some g => g | None => [] end.

(* MTnnn::validate_network_rules(&m, stop) *)
Definition validate_rules (T : bytes) (m : jv) (stop : bool) : list err :=
  validate err (opt_of T m) (vec_of T m) (cands_of T m) (shape_of T) stop.

(* every rule function the regenerated aggregation calls has a transcription of the right kind *)
Definition group_modelled (T : bytes) (g : vgroup) : bool :=
  match g with
  | GOpt n _ => match lookup n (rules_of T) with Some (ROpt _) => true | _ => false end
  | GVec n pf _ => match lookup n (rules_of T) with
                   | Some (RVec _) => negb pf
                   | Some (RCands _) => pf
                   | _ => false end
  end.
Definition all_rules_modelled : bool :=
  forallb (fun p => forallb (group_modelled (fst p)) (snd p)) validator_shapes
  && forallb (fun p => match lookup (bs (fst p)) validator_shapes with
                       | Some gs => Nat.eqb (List.length gs) (List.length (snd p)) | None => false end) rule_table.

Lemma gen_all_rules_modelled : all_rules_modelled = true.
Proof. vm_compute. reflexivity. Qed.
