(* Rules/SpecLib.v — reasoning about which error codes a rule function reports. *)

From Coq Require Import Strings.String ZArith Bool.
From SwiftMT Require Import Base.Bytes Base.StrOps Num.Amount Rules.Msg Rules.Small Rules.Big Rules.All Valid.Aggregate.
Local Open Scope string_scope.
Local Open Scope list_scope.

(* does the list report error code k (on field f)? *)
Definition has_code (k : string) (l : list err) : bool := existsb (fun e => bytes_eqb (ecode e) (bs k)) l.
Definition has_err (k f : string) (l : list err) : bool :=
  existsb (fun e => bytes_eqb (ecode e) (bs k) && bytes_eqb (efield e) (bs f)) l.
Definition opt_l {A} (o : option A) : list A := match o with Some x => [x] | None => [] end.

Lemma has_code_app : forall k a b, has_code k (a ++ b) = has_code k a || has_code k b.
Proof. intros. unfold has_code. apply existsb_app. Qed.
Lemma has_err_app : forall k f a b, has_err k f (a ++ b) = has_err k f a || has_err k f b.
Proof. intros. unfold has_err. apply existsb_app. Qed.

Lemma existsb_flat_map : forall (A B : Type) (p : B -> bool) (f : A -> list B) l,
  existsb p (flat_map f l) = existsb (fun x => existsb p (f x)) l.
Proof.
  intros A B p f l. induction l as [|x r IH]; cbn [flat_map existsb]; [reflexivity|].
  rewrite existsb_app, IH. reflexivity.
Qed.
Lemma has_code_flat_map : forall (A : Type) k (f : A -> list err) l,
  has_code k (flat_map f l) = existsb (fun x => has_code k (f x)) l.
Proof. intros. unfold has_code. apply existsb_flat_map. Qed.
Lemma has_err_flat_map : forall (A : Type) k fl (f : A -> list err) l,
  has_err k fl (flat_map f l) = existsb (fun x => has_err k fl (f x)) l.
Proof. intros. unfold has_err. apply existsb_flat_map. Qed.

Lemma existsb_ext : forall (A : Type) (f g : A -> bool) l, (forall x, f x = g x) -> existsb f l = existsb g l.
Proof. intros A f g l H. induction l as [|x r IH]; cbn; [reflexivity|]. rewrite H, IH. reflexivity. Qed.
Lemma existsb_ext_in : forall (A : Type) (f g : A -> bool) l, (forall x, In x l -> f x = g x) -> existsb f l = existsb g l.
Proof.
  intros A f g l H. induction l as [|x r IH]; cbn; [reflexivity|].
  rewrite H by (left; reflexivity). rewrite IH; [reflexivity|]. intros y Hy. apply H. right. exact Hy.
Qed.
Lemma existsb_false : forall (A : Type) (l : list A), existsb (fun _ => false) l = false.
Proof. induction l; cbn; auto. Qed.

Lemma has_code_repeat : forall k e n, has_code k (repeat e n) = (bytes_eqb (ecode e) (bs k) && negb (Nat.eqb n 0)).
Proof.
  intros k e n. destruct n as [|n]; cbn [repeat has_code existsb Nat.eqb negb]; [rewrite andb_false_r; reflexivity|].
  fold (has_code k (repeat e n)). destruct (bytes_eqb (ecode e) (bs k)) eqn:E; cbn; [reflexivity|].
  induction n as [|n IH]; cbn; [reflexivity|]. rewrite E. exact IH.
Qed.

(* the full (stop = false) run of an aggregation is the concatenation of its rule functions' results *)
Section Full.
Variable errT : Type.
Variable o : bytes -> option errT.
Variable v : bytes -> list errT.
Variable c : bytes -> list (option errT).
Definition group_out (g : vgroup) : list errT :=
  match g with
  | GOpt n _ => opt_l (o n)
  | GVec n pf _ => if pf then all_somes errT (c n) else v n
  end.
Lemma exec_full : forall gs acc, exec errT o v c gs false acc = acc ++ flat_map group_out gs.
Proof.
  induction gs as [|g r IH]; intro acc; cbn [exec flat_map].
  - rewrite app_nil_r. reflexivity.
  - destruct g as [n ch | n pf ch]; cbn [group_out].
    + destruct (o n) as [e|]; cbn [opt_l].
      * rewrite andb_false_r. rewrite IH. rewrite <- app_assoc. reflexivity.
      * rewrite IH. reflexivity.
    + rewrite andb_false_r. cbn [andb]. rewrite IH. unfold run_vec. rewrite <- app_assoc. reflexivity.
Qed.
Lemma validate_full : forall gs, validate errT o v c gs false = flat_map group_out gs.
Proof. intro gs. unfold validate. rewrite exec_full. reflexivity. Qed.
End Full.

Definition implb (a b : bool) : bool := negb a || b.

(* case analysis over every boolean test in the goal, then computation *)
Ltac split_ifs :=
  repeat match goal with
         | |- context [if ?b then _ else _] =>
             match b with
             | context [if _ then _ else _] => fail 1
             | _ => destruct b eqn:?
             end
         end.
Ltac bool_cases :=
  repeat match goal with
         | |- context [present ?x] => let H := fresh "P" in destruct (present x) eqn:H
         | |- context [absent ?x] => unfold absent
         | |- context [any_key ?x ?k] => let H := fresh "K" in destruct (any_key x k) eqn:H
         | |- context [bytes_eqb ?a ?b] =>
             match a with
             | context [bs _] => fail 1
             | _ => match b with context [bs _] => fail 1 | _ => let H := fresh "Q" in destruct (bytes_eqb a b) eqn:H end
             end
         | |- context [is ?a ?s] => let H := fresh "I" in destruct (is a s) eqn:H
         | |- context [one_of ?a ?s] => let H := fresh "O" in destruct (one_of a s) eqn:H
         end.

(* ---- the full validation of a type is the concatenation, in the regenerated order, of its rule functions *)
Definition rule_out (T : bytes) (m : jv) (g : vgroup) : list err :=
  group_out err (opt_of T m) (vec_of T m) (cands_of T m) g.
Lemma validate_rules_full : forall T m, validate_rules T m false = flat_map (rule_out T m) (shape_of T).
Proof. intros T m. unfold validate_rules. apply validate_full. Qed.
Lemma has_code_validate : forall k T m,
  has_code k (validate_rules T m false) = existsb (fun g => has_code k (rule_out T m g)) (shape_of T).
Proof. intros k T m. rewrite validate_rules_full. apply has_code_flat_map. Qed.
Lemma flat_map_nil : forall (A B : Type) (f : A -> list B) l, flat_map f l = [] <-> forall x, In x l -> f x = [].
Proof.
  intros A B f l. induction l as [|x r IH]; cbn [flat_map]; split; intro H.
  - intros y [].
  - reflexivity.
  - apply app_eq_nil in H. destruct H as [H1 H2]. intros y [E|Hy]; [subst; exact H1 | apply IH; assumption].
  - rewrite (H x (or_introl eq_refl)). cbn [app]. apply IH. intros y Hy. apply H. right. exact Hy.
Qed.
Lemma validate_rules_empty : forall T m,
  validate_rules T m false = [] <-> forall g, In g (shape_of T) -> rule_out T m g = [].
Proof. intros T m. rewrite validate_rules_full. apply flat_map_nil. Qed.
