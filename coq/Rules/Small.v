(* Rules/Small.v — the network-rule functions of the message types with few rules, transcribed function by
   function from src/messages/mt*.rs over the JSON view of Rules/Msg.v.  Names are the Rust names: the
   aggregation order, early returns and the stop flag come from the regenerated gen/ValidatorShapes.v. *)

From Coq Require Import Strings.String ZArith.
From SwiftMT Require Import Base.Bytes Base.StrOps Headers.Hdr12 Num.Amount Legacy.Block4Map Rules.Msg.
Local Open Scope string_scope.
Local Open Scope list_scope.

(* serde keys of the flattened option families *)
Definition k50afk := ["50A"; "50F"; "50K"].
Definition k50ncf := ["50"; "50C"; "50F"].
Definition k50fgh := ["50F"; "50G"; "50H"].
Definition k50cl := ["50C"; "50L"].
Definition k50ak := ["50A"; "50K"].
Definition k52ad := ["52A"; "52D"].
Definition k52ac := ["52A"; "52C"].
Definition k52acd := ["52A"; "52C"; "52D"].
Definition k52abd := ["52A"; "52B"; "52D"].
Definition k53abd := ["53A"; "53B"; "53D"].
Definition k54abd := ["54A"; "54B"; "54D"].
Definition k55abd := ["55A"; "55B"; "55D"].
Definition k56acd := ["56A"; "56C"; "56D"].
Definition k56ad := ["56A"; "56D"].
Definition k57abcd := ["57A"; "57B"; "57C"; "57D"].
Definition k57abd := ["57A"; "57B"; "57D"].
Definition k58ad := ["58A"; "58D"].
Definition k59 := ["59"; "59A"; "59F"].
Definition k59d := ["59"; "59A"].

Definition seqs (m : jv) : list jv := jarr (m ./ "#").
Definition cur (f : jv) : bytes := jstr (f ./ "currency").
Definition amount (f : jv) : b64 := match jnum (f ./ "amount") with Some x => x | None => b64_zero end.

(* first element (after the first) whose key differs from the first one's *)
Definition first_other {A} (key : A -> bytes) (l : list A) : option A :=
  match l with
  | [] => None
  | x :: r => List.find (fun y => negb (bytes_eqb (key y) (key x))) r
  end.

(* ------------------------------------------------------------------ MT110 *)
Definition cheque_cur (c : jv) : bytes := cur (first_key c ["32A"; "32B"]).
Definition mt110_c1 (m : jv) : option err :=
  if Nat.ltb 10 (List.length (seqs m)) then Some (E "T10" "21-59a") else None.
Definition mt110_c2 (m : jv) : option err :=
  match first_other cheque_cur (seqs m) with Some _ => Some (E "C02" "32a") | None => None end.

(* ------------------------------------------------------------------ MT192 / 196 / 292 / 296 *)
Definition mt192_valid_79 := ["AGNT"; "AM09"; "COVR"; "CURR"; "CUST"; "CUTA"; "DUPL"; "FRAD"; "TECH"; "UPAY"].
Definition slash : N := 47.
Fixpoint until_slash (s : bytes) : bytes :=
  match s with [] => [] | b :: r => if N.eqb b slash then [] else b :: until_slash r end.
(* first_line.starts_with('/') ; parts = split('/') ; parts[1].len() == 4 *)
Definition code_79 (m : jv) : option bytes :=
  match jarr (m ./ "79" ./ "information") with
  | JStr l :: _ =>
      match l with
      | b :: r => if N.eqb b slash then
                    let c := until_slash r in
                    if Nat.eqb (List.length c) 4 then Some c else None
                  else None
      | [] => None
      end
  | _ => None
  end.
Definition mt192_c1 (m : jv) : option err := if absent (m ./ "79") then Some (E "C25" "79") else None.
Definition mt192_codes (m : jv) : list err :=
  match code_79 m with
  | Some c => if one_of c mt192_valid_79 then [] else [E "T47" "79"]
  | None => []
  end.
Definition mt196_c1 (m : jv) : option err := None.

(* #[serde(flatten)] original_fields: HashMap — every key that is not a declared field *)
Definition extra_keys (m : jv) (known : list string) : bool :=
  match m with
  | JObj kv => existsb (fun p => negb (existsb (fun k => bytes_eqb (fst p) (bs k)) known)) kv
  | _ => false
  end.
Definition mt292_c1 (m : jv) : option err :=
  if absent (m ./ "79") && negb (extra_keys m ["20"; "21"; "11S"; "79"]) then Some (E "C25" "79") else None.
Definition mt296_c1 (m : jv) : option err :=
  if present (m ./ "79") && extra_keys m ["20"; "21"; "76"; "77A"; "11R"; "11S"; "79"] then Some (E "C31" "79") else None.

(* ------------------------------------------------------------------ MT200 *)
Definition ascii_up (b : N) : N := if ascii_lower b then (b - 32)%N else b.
Fixpoint until_ws (fuel : nat) (s : bytes) : bytes :=
  match fuel with
  | O => []
  | S f => match s with
           | [] => []
           | b :: r => match ws_len s with O => b :: until_ws f r | _ => [] end
           end
  end.
Definition code_72_line (line : bytes) : option bytes :=
  match trim line with
  | b :: r =>
      if N.eqb b slash then
        if existsb (N.eqb slash) r then Some (map ascii_up (until_slash r))
        else match r with [] => None | _ => Some (map ascii_up (until_ws (List.length r) r)) end
      else None
  | [] => None
  end.
Definition mt200_t80 (m : jv) : list err :=
  flat_map (fun l => match code_72_line (jstr l) with
                     | Some c => if one_of c ["REJT"; "RETN"] then [E "T80" "72"] else []
                     | None => [] end)
           (jarr (m ./ "72" ./ "information")).

(* ------------------------------------------------------------------ MT202 / 205 *)
Definition mt202_c1 (m : jv) : option err :=
  if any_key m k56acd && negb (any_key m k57abcd) then Some (E "C81" "57a") else None.
Definition mt202_c2 (m : jv) : option err :=
  let b := m ./ "#" in
  if any_key b k56acd && negb (any_key b k57abcd) then Some (E "C68" "57a") else None.
Definition mt205_c1 (m : jv) : option err :=
  if any_key m k56acd && negb (any_key m k57abcd) then Some (E "C81" "57a") else None.

(* ------------------------------------------------------------------ MT204 *)
Fixpoint distinct (l : list bytes) : list bytes :=
  match l with [] => [] | x :: r => if mem x r then distinct r else x :: distinct r end.
Definition mt204_c1 (m : jv) : option err :=
  match seqs m with
  | [] => None
  | txs => let s := b64_sum (map (fun t => amount (t ./ "32B")) txs) in
           if b64_lt b64_cent (b64_abs (b64_sub (amount (m ./ "19")) s)) then Some (E "C01" "19") else None
  end.
Definition mt204_c2 (m : jv) : option err :=
  if Nat.ltb 1 (List.length (distinct (map (fun t => cur (t ./ "32B")) (seqs m)))) then Some (E "C02" "32B") else None.
Definition mt204_c3 (m : jv) : option err :=
  if Nat.ltb 10 (List.length (seqs m)) then Some (E "T10" "Sequence B") else None.

(* ------------------------------------------------------------------ MT210 *)
Definition mt210_c1 (m : jv) : option err :=
  if Nat.ltb 10 (List.length (seqs m)) then Some (E "T10" "21") else None.
Definition mt210_c2 (m : jv) : list err :=
  flat_map (fun t => let c := any_key t k50ncf in let i := any_key t k52ad in
                     if (c && i) || (negb c && negb i) then [E "C06" "50a/52a"] else []) (seqs m).
Definition mt210_c3 (m : jv) : option err :=
  match first_other (fun t => cur (t ./ "32B")) (seqs m) with Some _ => Some (E "C02" "32B") | None => None end.

(* ------------------------------------------------------------------ MT910 *)
Definition mt910_c1 (m : jv) : option err :=
  if negb (any_key m k50afk) && negb (any_key m k52ad) then Some (E "C06" "50a/52a") else None.

(* ------------------------------------------------------------------ MT920 *)
Definition mt920_t88 (m : jv) : list err :=
  flat_map (fun s => if one_of (jstr (s ./ "12" ./ "type_code")) ["940"; "941"; "942"; "950"] then [] else [E "T88" "12"]) (seqs m).
Definition mt920_c1 (m : jv) : list err :=
  flat_map (fun s => if str_is (s ./ "12" ./ "type_code") "942" && absent (s ./ "34F_1") then [E "C22" "34F"] else []) (seqs m).
Definition ind (f : jv) : jv := f ./ "indicator".
Definition mt920_c2 (m : jv) : list err :=
  flat_map (fun s =>
    let d := s ./ "34F_1" in let c := s ./ "34F_2" in
    if present d && absent c then (if present (ind d) then [E "C23" "34F"] else [])
    else if present d && present c then
      (if str_is (ind d) "D" then [] else [E "C23" "34F"]) ++ (if str_is (ind c) "C" then [] else [E "C23" "34F"])
    else []) (seqs m).
Definition mt920_c3 (m : jv) : list err :=
  flat_map (fun s =>
    let d := s ./ "34F_1" in let c := s ./ "34F_2" in
    if present d && present c && negb (bytes_eqb (cur d) (cur c)) then [E "C40" "34F"] else []) (seqs m).

(* ------------------------------------------------------------------ MT935 *)
Definition mt935_c1 (m : jv) : option err :=
  let n := List.length (seqs m) in
  if Nat.eqb n 0 then Some (E "T10" "RateChangeSequence")
  else if Nat.ltb 10 n then Some (E "T10" "RateChangeSequence") else None.
Definition mt935_c2 (m : jv) : list err :=
  flat_map (fun s => let a := present (s ./ "23") in let b := present (s ./ "25") in
                     if (a && b) || (negb a && negb b) then [E "C83" "23/25"] else []) (seqs m).
Definition two_digits (n : Z) : bytes :=
  if (n <? 10)%Z then [48%N; Z.to_N (48 + n)] else show_nat n.
Definition days_text (d : jv) : bytes :=
  match d with
  | JNum t => match jnum_dec t with Some (_, n, k) => two_digits (n * 10 ^ k) | None => [] end
  | _ => []
  end.
Definition mt935_f23_one (f : jv) : list err :=
  let value := jstr (f ./ "function_code") ++ days_text (f ./ "days") ++ jstr (f ./ "reference") in
  if Nat.ltb (List.length value) 4 then [E "T26" "23"] else
  let currency := firstn 3 value in
  let remaining := skipn 3 value in
  let with_days := Nat.leb 2 (List.length remaining) && forallb ascii_digit (firstn 2 remaining) in
  let function := if with_days then skipn 2 remaining else remaining in
  (if forallb (fun c => ascii_upper c || ascii_lower c) currency then [] else [E "T26" "23"])
  ++ (if one_of function ["BASE"; "CALL"; "COMMERCIAL"; "CURRENT"; "DEPOSIT"; "NOTICE"; "PRIME"] then [] else [E "T26" "23"])
  ++ (if with_days && negb (is function "NOTICE") then [E "T26" "23"] else []).
Definition mt935_f23 (m : jv) : list err :=
  flat_map (fun s => if present (s ./ "23") then mt935_f23_one (s ./ "23") else []) (seqs m).
Definition b64_1e5 : b64 := round53 1 100000.
Definition mt935_f37h (m : jv) : list err :=
  flat_map (fun s => flat_map (fun h =>
    let i := h ./ "rate_indicator" in
    (if str_is i "C" || str_is i "D" then [] else [E "T51" "37H"])
    ++ (match jnum (h ./ "rate") with
        | Some r => if b64_lt (b64_abs r) b64_1e5 && present (h ./ "is_negative") then [E "T14" "37H"] else []
        | None => [] end)) (jarr (s ./ "37H"))) (seqs m).

(* ------------------------------------------------------------------ MT940 / 941 / 942 / 950 *)
Definition pfx (c : bytes) : bytes := if Nat.leb 2 (List.length c) then firstn 2 c else c.   (* get_currency_prefix *)
Definition pfx2 (c : bytes) : bytes := firstn 2 c.                                           (* &currency[0..2] *)
Definition mt940_c1 (m : jv) : list err := [].
Definition mt940_c2 (m : jv) : list err :=
  let r := pfx (cur (m ./ "60F")) in
  (if bytes_eqb (pfx (cur (m ./ "62F"))) r then [] else [E "C27" "62F"])
  ++ (if present (m ./ "64") && negb (bytes_eqb (pfx (cur (m ./ "64"))) r) then [E "C27" "64"] else [])
  ++ flat_map (fun f => if bytes_eqb (pfx (cur f)) r then [] else [E "C27" "65"]) (jarr (m ./ "65")).
(* stop-aware: the candidates in program order *)
Definition mt941_c1_cands (m : jv) : list (option err) :=
  let base := pfx2 (cur (m ./ "62F")) in
  let chk (k : string) := if present (m ./ k) && negb (bytes_eqb (pfx2 (cur (m ./ k))) base) then Some (E "C27" k) else None in
  [chk "60F"; chk "90D"; chk "90C"; chk "64"]
  ++ map (fun f => if bytes_eqb (pfx2 (cur f)) base then None else Some (E "C27" "65")) (jarr (m ./ "65")).
Definition mt942_c1 (m : jv) : list err :=
  let base := pfx2 (cur (m ./ "34F_debit")) in
  (if present (m ./ "34F_credit") && negb (bytes_eqb (pfx2 (cur (m ./ "34F_credit"))) base) then [E "C27" "34F"] else [])
  ++ (if present (m ./ "90D") && negb (bytes_eqb (pfx2 (cur (m ./ "90D"))) base) then [E "C27" "90D"] else [])
  ++ (if present (m ./ "90C") && negb (bytes_eqb (pfx2 (cur (m ./ "90C"))) base) then [E "C27" "90C"] else []).
Definition mt942_c2 (m : jv) : option err :=
  let d := m ./ "34F_debit" in let c := m ./ "34F_credit" in
  if present c then
    if negb (str_is (ind d) "D") then Some (E "C23" "34F")
    else if negb (str_is (ind c) "C") then Some (E "C23" "34F") else None
  else if present (ind d) then Some (E "C23" "34F") else None.
Definition mt942_c3 (m : jv) : list err := [].
Definition bal (f : jv) : jv := first_key f ["F"; "M"].
Definition mt950_c1 (m : jv) : list err :=
  let base := pfx2 (cur (bal (m ./ "60"))) in
  (if bytes_eqb (pfx2 (cur (bal (m ./ "62")))) base then [] else [E "C27" "62a"])
  ++ (if present (m ./ "64") && negb (bytes_eqb (pfx2 (cur (m ./ "64"))) base) then [E "C27" "64"] else []).
