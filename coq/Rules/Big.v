(* Rules/Big.v — the network-rule functions of MT101, MT103, MT104 and MT107, transcribed function by
   function from src/messages/mt10*.rs over the JSON view of Rules/Msg.v. *)

From Coq Require Import Strings.String ZArith.
From SwiftMT Require Import Base.Bytes Base.StrOps Num.Amount Rules.Msg Rules.Small.
Local Open Scope string_scope.
Local Open Scope list_scope.

Definition code (f : jv) : bytes := jstr (f ./ "instruction_code").
Definition has_info (f : jv) : bool := present (f ./ "additional_info").
Definition per_tx {A} (m : jv) (f : jv -> list A) : list A := flat_map f (seqs m).
Definition any_tx (m : jv) (p : jv -> bool) : bool := existsb p (seqs m).
Definition all_tx (m : jv) (p : jv -> bool) : bool := negb (match seqs m with [] => true | _ => false end) && forallb p (seqs m).
Definition amount_is_zero (f : jv) : bool := b64_lt (b64_abs (amount f)) b64_cent.     (* amount.abs() < 0.01 *)
Definition near (a b : b64) : bool := b64_lt (b64_abs (b64_sub a b)) b64_cent.       (* (a - b).abs() < 0.01 *)
Definition when {A} (c : bool) (e : A) : list A := if c then [e] else [].

(* the E46 loop: one error for every occurrence of a code seen before (seen_codes set) *)
Fixpoint repeats (skip : bytes -> bool) (l seen : list bytes) : nat :=
  match l with
  | [] => 0
  | c :: r => if skip c then repeats skip r seen
              else (if mem c seen then 1 else 0) + repeats skip r (c :: seen)
  end.
(* the D67 double loop: for code in codes, for (base, forbidden) in table, if code == base, for other in codes,
   if other in forbidden: one error *)
Definition combos (table : list (string * list string)) (codes : list bytes) : nat :=
  List.length (flat_map (fun c =>
     flat_map (fun bf => if is c (fst bf) then filter (fun o => one_of o (snd bf)) codes else []) table) codes).

(* ------------------------------------------------------------------ MT103 *)
Definition mt103_valid_23b := ["CRED"; "CRTS"; "SPAY"; "SPRI"; "SSTD"].
Definition mt103_valid_23e := ["CHQB"; "CORT"; "HOLD"; "INTC"; "PHOB"; "PHOI"; "PHON"; "REPA"; "SDVA"; "TELB"; "TELE"; "TELI"].
Definition mt103_with_info := ["PHON"; "PHOB"; "PHOI"; "TELE"; "TELB"; "TELI"; "HOLD"; "REPA"].
Definition mt103_spri_allowed := ["SDVA"; "TELB"; "PHOB"; "INTC"].
Definition mt103_invalid_combos : list (string * list string) :=
  [("SDVA", ["HOLD"; "CHQB"]); ("INTC", ["HOLD"; "CHQB"]); ("REPA", ["HOLD"; "CHQB"; "CORT"]); ("CORT", ["HOLD"; "CHQB"]);
   ("HOLD", ["CHQB"]); ("PHOB", ["TELB"]); ("PHON", ["TELE"]); ("PHOI", ["TELI"])].
Definition mt103_order := ["SDVA"; "INTC"; "REPA"; "CORT"; "HOLD"; "CHQB"; "PHOB"; "TELB"; "PHON"; "TELE"; "PHOI"; "TELI"].

Fixpoint index_of (c : bytes) (l : list string) (i : nat) : option nat :=
  match l with [] => None | x :: r => if is c x then Some i else index_of c r (S i) end.
Fixpoint descends (l : list nat) : bool :=
  match l with
  | a :: ((b :: _) as r) => Nat.ltb b a || descends r
  | _ => false
  end.

Definition f23e (m : jv) : list jv := jarr (m ./ "23E").
Definition codes23e (m : jv) : list bytes := map code (f23e m).
Definition has71f (m : jv) : bool := match jarr (m ./ "71F") with [] => false | _ => true end.

Fixpoint mt103_loop (l : list jv) (seen : list bytes) : list err :=
  match l with
  | [] => []
  | f :: r => let c := code f in
              when (negb (one_of c mt103_valid_23e)) (E "T48" "23E")
              ++ when (has_info f && negb (one_of c mt103_with_info)) (E "D97" "23E")
              ++ when (mem c seen) (E "E46" "23E")
              ++ mt103_loop r (c :: seen)
  end.
Definition mt103_f23b (m : jv) : option err :=
  if one_of (code (m ./ "23B")) mt103_valid_23b then None else Some (E "T36" "23B").
Definition mt103_f23e (m : jv) : list err :=
  if absent (m ./ "23E") then [] else
  (* first loop: per field T48, D97, E46 in this order *)
  mt103_loop (f23e m) []
  ++ when (descends (flat_map (fun c => match index_of c mt103_order 0 with Some i => [i] | None => [] end) (codes23e m))) (E "D98" "23E")
  ++ repeat (E "D67" "23E") (combos mt103_invalid_combos (codes23e m)).
Definition mt103_c1 (m : jv) : option err :=
  if present (m ./ "33B") then
    if negb (bytes_eqb (cur (m ./ "32A")) (cur (m ./ "33B")))
    then (if absent (m ./ "36") then Some (E "D75" "36") else None)
    else (if present (m ./ "36") then Some (E "D75" "36") else None)
  else (if present (m ./ "36") then Some (E "D75" "36") else None).
Definition mt103_c3 (m : jv) : list err :=
  let b := code (m ./ "23B") in
  if is b "SPRI" then
    flat_map (fun c => when (negb (one_of c mt103_spri_allowed)) (E "E01" "23E")) (codes23e m)
  else if is b "SSTD" || is b "SPAY" then when (present (m ./ "23E")) (E "E02" "23E")
  else [].
Definition mt103_c4 (m : jv) : option err :=
  if any_key m k55abd && (negb (any_key m k53abd) || negb (any_key m k54abd)) then Some (E "E06" "55a") else None.
Definition mt103_c5 (m : jv) : option err :=
  if any_key m k56acd && negb (any_key m k57abcd) then Some (E "C81" "57a") else None.
Definition mt103_c6 (m : jv) : option err :=
  if is (code (m ./ "23B")) "SPRI" && any_key m k56acd then Some (E "E16" "56a")
  else if (is (code (m ./ "23B")) "SSTD" || is (code (m ./ "23B")) "SPAY") && present (m ./ "56D") then Some (E "E17" "56a")
  else None.
Definition mt103_c7 (m : jv) : list err :=
  let c := jstr (m ./ "71A" ./ "code") in
  if is c "OUR" then when (has71f m) (E "E13" "71F")
  else if is c "SHA" then when (present (m ./ "71G")) (E "D50" "71G")
  else if is c "BEN" then when (negb (has71f m)) (E "E15" "71F") ++ when (present (m ./ "71G")) (E "E15" "71G")
  else [].
Definition mt103_c8 (m : jv) : option err :=
  if (has71f m || present (m ./ "71G")) && absent (m ./ "33B") then Some (E "D51" "33B") else None.
Definition mt103_c9 (m : jv) : option err :=
  if present (m ./ "71G") && negb (bytes_eqb (cur (m ./ "32A")) (cur (m ./ "71G"))) then Some (E "C02" "71G") else None.
Definition mt103_c13 (m : jv) : option err :=
  if present (m ./ "23E") && existsb (fun c => is c "CHQB") (codes23e m)
     && (present (m ./ "59" ./ "account") || present (m ./ "59A" ./ "account"))
  then Some (E "E18" "59a") else None.
Definition mt103_c16 (m : jv) : list err :=
  if negb (any_key m k56acd) then flat_map (fun c => when (is c "TELI" || is c "PHOI") (E "E44" "23E")) (codes23e m) else [].
Definition mt103_c17 (m : jv) : list err :=
  if negb (any_key m k57abcd) then flat_map (fun c => when (is c "TELE" || is c "PHON") (E "E45" "23E")) (codes23e m) else [].

(* ------------------------------------------------------------------ MT101 *)
Definition mt101_valid_23e := ["CHQB"; "CMSW"; "CMTO"; "CMZB"; "CORT"; "EQUI"; "INTC"; "NETS"; "OTHR"; "PHON"; "REPA"; "RTGS"; "URGP"].
Definition mt101_with_info := ["CMTO"; "PHON"; "OTHR"; "REPA"].
Definition mt101_invalid_combos : list (string * list string) :=
  [("CHQB", ["CMSW"; "CMTO"; "CMZB"; "CORT"; "NETS"; "PHON"; "REPA"; "RTGS"; "URGP"]); ("CMSW", ["CMTO"; "CMZB"]); ("CMTO", ["CMZB"]);
   ("CORT", ["CMSW"; "CMTO"; "CMZB"; "REPA"]); ("EQUI", ["CMSW"; "CMTO"; "CMZB"]); ("NETS", ["RTGS"])].
Fixpoint mt101_loop (l : list jv) (seen : list bytes) : list err :=
  match l with
  | [] => []
  | f :: r => let c := code f in
              when (negb (one_of c mt101_valid_23e)) (E "T47" "23E")
              ++ when (has_info f && negb (one_of c mt101_with_info)) (E "D66" "23E")
              ++ (if is c "OTHR" then mt101_loop r seen else when (mem c seen) (E "E46" "23E") ++ mt101_loop r (c :: seen))
  end.
Definition mt101_c1 (m : jv) : list err :=
  per_tx m (fun t => when (present (t ./ "36") && absent (t ./ "21F")) (E "D54" "21F")).
Definition mt101_c2 (m : jv) : list err :=
  per_tx m (fun t =>
    if present (t ./ "33B") then
      if amount_is_zero (t ./ "32B") then when (present (t ./ "36")) (E "D60" "36") else when (absent (t ./ "36")) (E "D60" "36")
    else when (present (t ./ "36")) (E "D60" "36")).
Definition mt101_c3 (m : jv) : option err :=
  let a := any_key m k50fgh in
  let allb := all_tx m (fun t => any_key t k50fgh) in
  let anyb := any_tx m (fun t => any_key t k50fgh) in
  if a && anyb then Some (E "D61" "50a") else if negb a && negb allb then Some (E "D61" "50a") else None.
Definition mt101_c4 (m : jv) : option err :=
  if any_key m k50cl && any_tx m (fun t => any_key t k50cl) then Some (E "D62" "50a") else None.
Definition mt101_c5 (m : jv) : list err :=
  per_tx m (fun t => when (present (t ./ "33B") && bytes_eqb (cur (t ./ "32B")) (cur (t ./ "33B"))) (E "D68" "33B")).
Definition mt101_c6 (m : jv) : option err :=
  if any_key m k52ac && any_tx m (fun t => any_key t k52ac) then Some (E "D64" "52a") else None.
Definition mt101_c7 (m : jv) : list err :=
  per_tx m (fun t => when (any_key t k56acd && negb (any_key t k57abcd)) (E "D65" "57a")).
Definition mt101_c8 (m : jv) : option err :=
  if absent (m ./ "21R") then None else
  match first_other (fun t => cur (t ./ "32B")) (seqs m) with Some _ => Some (E "D98" "32B") | None => None end.
Definition mt101_c9 (m : jv) : list err :=
  per_tx m (fun t =>
    if amount_is_zero (t ./ "32B") then
      if present (t ./ "23E") && existsb (fun c => is c "EQUI") (codes23e t)
      then when (absent (t ./ "33B")) (E "E54" "33B")
      else when (present (t ./ "33B")) (E "E54" "33B") ++ when (present (t ./ "21F")) (E "E54" "21F")
    else []).
Definition mt101_f23e (m : jv) : list err :=
  per_tx m (fun t =>
    if absent (t ./ "23E") then [] else
    mt101_loop (f23e t) []
    ++ repeat (E "D67" "23E") (combos mt101_invalid_combos (codes23e t))).

(* ------------------------------------------------------------------ MT104 / MT107 (shared shapes) *)
Definition a23e_is (m : jv) (c : string) : bool := present (m ./ "23E") && is (code (m ./ "23E")) c.
Definition seq_c (m : jv) : bool := present (m ./ "32B").
Definition sum32b (m : jv) : b64 := b64_sum (map (fun t => amount (t ./ "32B")) (seqs m)).

Definition mt104_c1 (m : jv) : list err :=
  if present (m ./ "23E") then
    if is (code (m ./ "23E")) "RFDD" then per_tx m (fun t => when (absent (t ./ "23E")) (E "C75" "23E"))
    else per_tx m (fun t => when (present (t ./ "23E")) (E "C75" "23E"))
  else per_tx m (fun t => when (absent (t ./ "23E")) (E "C75" "23E")).
Definition placement (m : jv) (keys : list string) (e : err) : list err :=
  let a := any_key m keys in
  let allb := all_tx m (fun t => any_key t keys) in
  let anyb := any_tx m (fun t => any_key t keys) in
  if a && anyb then [e] else if negb a && negb allb then [e] else [].
Definition mt104_c2 (m : jv) : option err :=
  match placement m k50ak (E "C76" "50a") with e :: _ => Some e | [] => None end.
Definition both (m : jv) (keys : list string) : bool := any_key m keys && any_tx m (fun t => any_key t keys).
Definition mt104_c3 (m : jv) : list err :=
  when (both m ["21E"]) (E "D73" "21E") ++ when (both m ["26T"]) (E "D73" "26T") ++ when (both m k52acd) (E "D73" "52a")
  ++ when (both m ["71A"]) (E "D73" "71A") ++ when (both m ["77B"]) (E "D73" "77B") ++ when (both m k50cl) (E "D73" "50a").
Definition mt104_c4 (m : jv) : list err :=
  when (present (m ./ "21E") && negb (any_key m k50ak)) (E "D77" "50a")
  ++ per_tx m (fun t => when (present (t ./ "21E") && negb (any_key t k50ak)) (E "D77" "50a")).
Definition mt104_c5 (m : jv) : option err :=
  let r := a23e_is m "RTND" in let h := present (m ./ "72") in
  if r && negb h then Some (E "C82" "72") else if negb r && h then Some (E "C82" "72") else None.
Definition charges (m : jv) : list err :=
  let fb := any_tx m (fun t => present (t ./ "71F")) in let fc := present (m ./ "71F") in
  let gb := any_tx m (fun t => present (t ./ "71G")) in let gc := present (m ./ "71G") in
  when (fb && negb fc) (E "D79" "71F") ++ when (negb fb && fc) (E "D79" "71F")
  ++ when (gb && negb gc) (E "D79" "71G") ++ when (negb gb && gc) (E "D79" "71G").
Definition mt104_c6 := charges.
Definition d21 (m : jv) : list err :=
  per_tx m (fun t => when (present (t ./ "33B") && bytes_eqb (cur (t ./ "32B")) (cur (t ./ "33B"))
                           && near (amount (t ./ "32B")) (amount (t ./ "33B"))) (E "D21" "33B")).
Definition mt104_c7 := d21.
Definition d75 (m : jv) : list err :=
  per_tx m (fun t =>
    if present (t ./ "33B") then
      if negb (bytes_eqb (cur (t ./ "32B")) (cur (t ./ "33B"))) then when (absent (t ./ "36")) (E "D75" "36")
      else when (present (t ./ "36")) (E "D75" "36")
    else when (present (t ./ "36")) (E "D75" "36")).
Definition mt104_c8 := d75.
Definition mt104_c9 (m : jv) : option err :=
  if negb (seq_c m) then None else
  let eq := near (amount (m ./ "32B")) (sum32b m) in
  if eq && present (m ./ "19") then Some (E "D80" "19")
  else if negb eq && absent (m ./ "19") then Some (E "D80" "19") else None.
Definition mt104_c10 (m : jv) : option err :=
  if present (m ./ "19") && b64_lt b64_cent (b64_abs (b64_sub (amount (m ./ "19")) (sum32b m))) then Some (E "C01" "19") else None.
Definition once_other (l : list bytes) (e : err) : list err :=
  match first_other (fun x => x) l with Some _ => [e] | None => [] end.
Definition mt104_c11 (m : jv) : list err :=
  once_other (map (fun t => cur (t ./ "32B")) (seqs m) ++ (if present (m ./ "32B") then [cur (m ./ "32B")] else [])) (E "C02" "32B")
  ++ once_other (flat_map (fun t => if present (t ./ "71G") then [cur (t ./ "71G")] else []) (seqs m)
                 ++ (if present (m ./ "71G") then [cur (m ./ "71G")] else [])) (E "C02" "71G")
  ++ once_other (flat_map (fun t => if present (t ./ "71F") then [cur (t ./ "71F")] else []) (seqs m)
                 ++ (if present (m ./ "71F") then [cur (m ./ "71F")] else [])) (E "C02" "71F").
Definition mt104_c12 (m : jv) : list err :=
  if a23e_is m "RFDD" then
    per_tx m (fun t => when (present (t ./ "21E")) (E "C96" "21E") ++ when (any_key t k50ak) (E "C96" "50a")
                       ++ when (any_key t k52acd) (E "C96" "52a") ++ when (present (t ./ "71F")) (E "C96" "71F")
                       ++ when (present (t ./ "71G")) (E "C96" "71G"))
    ++ when (seq_c m) (E "C96" "32B")
  else when (present (m ./ "21R")) (E "C96" "21R") ++ when (negb (seq_c m)) (E "C96" "32B").
Definition f23e_one (valid : list string) (f : jv) : list err :=
  if present f then
    when (negb (one_of (code f) valid)) (E "T47" "23E") ++ when (has_info f && negb (is (code f) "OTHR")) (E "D81" "23E")
  else [].
Definition mt104_f23e_a (m : jv) : list err := f23e_one ["AUTH"; "NAUT"; "OTHR"; "RFDD"; "RTND"] (m ./ "23E").
Definition mt104_f23e_b (m : jv) : list err := per_tx m (fun t => f23e_one ["AUTH"; "NAUT"; "OTHR"] (t ./ "23E")).

Definition mt107_valid_23e := ["AUTH"; "NAUT"; "OTHR"; "RTND"].
Definition placement1 (m : jv) (inA : bool) (inT : jv -> bool) (e : err) : list err :=
  let allb := all_tx m inT in let anyb := any_tx m inT in
  if inA && anyb then [e] else if negb inA && negb allb then [e] else [].
Definition mt107_c1 (m : jv) : list err :=
  placement1 m (present (m ./ "23E")) (fun t => present (t ./ "23E")) (E "D86" "23E")
  ++ placement1 m (any_key m k50ak) (fun t => any_key t k50ak) (E "D86" "50a").
Definition mt107_c2 (m : jv) : list err :=
  when (both m ["21E"]) (E "D73" "21E") ++ when (both m ["26T"]) (E "D73" "26T") ++ when (both m ["77B"]) (E "D73" "77B")
  ++ when (both m ["71A"]) (E "D73" "71A") ++ when (both m k52acd) (E "D73" "52a") ++ when (both m k50cl) (E "D73" "50a").
Definition mt107_c3 := mt104_c4.
Definition mt107_c4 (m : jv) : option err :=
  if present (m ./ "23E") then
    let r := is (code (m ./ "23E")) "RTND" in
    if r && absent (m ./ "72") then Some (E "C82" "72")
    else if negb r && present (m ./ "72") then Some (E "C82" "72") else None
  else if present (m ./ "72") then Some (E "C82" "72") else None.
Definition mt107_c5 (m : jv) : list err :=
  let fb := any_tx m (fun t => present (t ./ "71F")) in let fc := present (m ./ "71F") in
  let gb := any_tx m (fun t => present (t ./ "71G")) in let gc := present (m ./ "71G") in
  when (fb && negb fc) (E "D79" "71F") ++ when (fc && negb fb) (E "D79" "71F")
  ++ when (gb && negb gc) (E "D79" "71G") ++ when (gc && negb gb) (E "D79" "71G").
Definition mt107_c6 := d21.
Definition mt107_c7 := d75.
Definition far (a b : b64) : bool := b64_le b64_cent (b64_abs (b64_sub a b)).     (* (a - b).abs() >= 0.01 *)
Definition mt107_c8 (m : jv) : list err :=
  match seqs m with [] => [] | _ =>
  let s := sum32b m in
  if any_tx m (fun t => present (t ./ "71F")) || any_tx m (fun t => present (t ./ "71G")) then
    if present (m ./ "19") then when (far (amount (m ./ "19")) s) (E "C01" "19") else [E "D80" "19"]
  else when (far (amount (m ./ "32B")) s) (E "D80" "32B") ++ when (present (m ./ "19")) (E "D80" "19")
  end.
Definition mt107_c9 (m : jv) : list err :=
  match seqs m with [] => [] | _ =>
  let sc := cur (m ./ "32B") in
  per_tx m (fun t =>
    when (negb (bytes_eqb (cur (t ./ "32B")) sc)) (E "C02" "32B")
    ++ when (present (t ./ "71F") && present (m ./ "71F") && negb (bytes_eqb (cur (t ./ "71F")) (cur (m ./ "71F")))) (E "C02" "71F")
    ++ (if present (t ./ "71G") then
          when (negb (bytes_eqb (cur (t ./ "71G")) sc)) (E "C02" "71G")
          ++ when (present (m ./ "71G") && negb (bytes_eqb (cur (t ./ "71G")) (cur (m ./ "71G")))) (E "C02" "71G")
        else []))
  end.
Definition mt107_f23e (m : jv) : list err :=
  f23e_one mt107_valid_23e (m ./ "23E") ++ per_tx m (fun t => f23e_one mt107_valid_23e (t ./ "23E")).
