(* Dates/DateTime.v — the date and time code of the library over bytes:
   swift_utils::{parse_date_yymmdd, parse_time_hhmm}, the inline date code of fields
   11/11R/11S, the serde codecs of field 13C/13D (time_format, date_format), the 13C/13D
   UTC offset check, and chrono's `%y%m%d` / `%H%M` formatting.
   chrono::NaiveDate::from_ymd_opt / NaiveTime::from_hms_opt are modelled by the Gregorian
   validity predicate below (chrono itself is in the trusted base). *)

From SwiftMT Require Import Base.Bytes Base.StrOps.
Local Open Scope N_scope.

Definition dval (b : N) : N := b - 48.
Definition num2 (a b : N) : N := 10 * dval a + dval b.

Definition leap (y : N) : bool :=
  N.eqb (y mod 4) 0 && (negb (N.eqb (y mod 100) 0) || N.eqb (y mod 400) 0).
Definition days_in_month (y m : N) : N :=
  match m with
  | 1 | 3 | 5 | 7 | 8 | 10 | 12 => 31
  | 4 | 6 | 9 | 11 => 30
  | 2 => if leap y then 29 else 28
  | _ => 0
  end%N.
(* NaiveDate::from_ymd_opt(y, m, d).is_some() *)
Definition valid_date (y m d : N) : bool :=
  N.leb 1 m && N.leb m 12 && N.leb 1 d && N.leb d (days_in_month y m).

Record date := { yr : N; mo : N; dy : N }.
Record time := { hh : N; mi : N }.

(* the library's century window *)
Definition window (yy : N) : N := if N.leb yy 49 then 2000 + yy else 1900 + yy.

Definition mk_date (a b c d e f : N) : option date :=
  let y := window (num2 a b) in
  let m := num2 c d in
  let dd := num2 e f in
  if valid_date y m dd then Some {| yr := y; mo := m; dy := dd |} else None.

(* swift_utils::parse_date_yymmdd (after the fix: commit 146857b: ASCII digits only) *)
Definition parse_date_yymmdd (s : bytes) : option date :=
  match s with
  | [a; b; c; d; e; f] => if forallb ascii_digit s then mk_date a b c d e f else None
  | _ => None
  end.

(* fields 11 / 11R / 11S: parse_swift_digits on the 6 bytes, then the same window (fix dd75b3c) *)
Definition parse_date_11 (s : bytes) : option date :=
  match s with
  | [a; b; c; d; e; f] => if forallb ascii_digit s then mk_date a b c d e f else None
  | _ => None
  end.

(* field 13D JSON: date_format::deserialize (fixes dd75b3c, da32d95) *)
Definition json_date_13d (s : bytes) : option date :=
  match s with
  | [a; b; c; d; e; f] =>
      if forallb ascii_digit s then
        let yy := num2 a b in
        let y := if N.leb 50 yy then 1900 + yy else 2000 + yy in
        let m := num2 c d in let dd := num2 e f in
        if valid_date y m dd then Some {| yr := y; mo := m; dy := dd |} else None
      else None
  | _ => None
  end.

(* swift_utils::parse_time_hhmm ; NaiveTime::from_hms_opt(h, m, 0) *)
Definition parse_time_hhmm (s : bytes) : option time :=
  match s with
  | [a; b; c; d] =>
      if forallb ascii_digit s then
        let h := num2 a b in let m := num2 c d in
        if N.leb h 23 && N.leb m 59 then Some {| hh := h; mi := m |} else None
      else None
  | _ => None
  end.
Definition json_time_13 (s : bytes) : option time := parse_time_hhmm s.

(* 13C / 13D offset: 4 ASCII digits, hours <= 14, minutes <= 59; kept as the string *)
Definition offset_ok (s : bytes) : bool :=
  match s with
  | [a; b; c; d] => forallb ascii_digit s && N.leb (num2 a b) 14 && N.leb (num2 c d) 59
  | _ => false
  end.

(* chrono format("%y%m%d") and format("%H%M") *)
Definition dig (n : N) : N := 48 + n.
Definition two (n : N) : bytes := [dig (n / 10); dig (n mod 10)].
Definition format_yymmdd (d : date) : bytes := two (yr d mod 100) ++ two (mo d) ++ two (dy d).
Definition format_hhmm (t : time) : bytes := two (hh t) ++ two (mi t).

(* the date component of every date-bearing field, by field name; [s] is the six bytes the
   field hands to its date code *)
Inductive date_field := F11 | F11R | F11S | F13D | F30 | F32A | F32C | F32D | F60F | F60M | F61 | F62F | F62M | F64 | F65
                      | F13D_json.
Definition date_of (f : date_field) (s : bytes) : option date :=
  match f with
  | F11 | F11R | F11S => parse_date_11 s
  | F13D_json => json_date_13d s
  | _ => parse_date_yymmdd s
  end.
