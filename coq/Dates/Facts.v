(* Dates/Facts.v — C11 for the date/time model: for ALL byte strings (no enumeration). *)

From SwiftMT Require Import Base.Bytes Base.StrOps Dates.DateTime.
From Coq Require Import Lia.

Lemma ascii_digit_spec : forall b, ascii_digit b = true -> exists n, (n < 10)%N /\ b = (48 + n)%N.
Proof.
  intros b H. unfold ascii_digit in H. apply andb_true_iff in H. destruct H as [H1 H2].
  apply N.leb_le in H1. apply N.leb_le in H2. exists (b - 48)%N. split; lia.
Qed.

Lemma dval_dig : forall n, dval (48 + n) = n.
Proof. intro n. unfold dval. lia. Qed.

Lemma two_num2 : forall x y, (x < 10)%N -> (y < 10)%N -> two (num2 (48 + x) (48 + y)) = [(48 + x)%N; (48 + y)%N].
Proof.
  intros x y Hx Hy. unfold two, num2, dig. rewrite !dval_dig.
  replace ((10 * x + y) / 10)%N with x by (apply N.div_unique with y; lia).
  replace ((10 * x + y) mod 10)%N with y by (apply N.mod_unique with x; lia).
  reflexivity.
Qed.

Lemma window_mod : forall yy, (yy < 100)%N -> (window yy mod 100 = yy)%N.
Proof.
  intros yy H. unfold window. destruct (N.leb yy 49).
  - symmetry. apply N.mod_unique with 20%N; lia.
  - symmetry. apply N.mod_unique with 19%N; lia.
Qed.

Lemma num2_lt100 : forall x y, (x < 10)%N -> (y < 10)%N -> (num2 (48 + x) (48 + y) < 100)%N.
Proof. intros x y Hx Hy. unfold num2. rewrite !dval_dig. lia. Qed.

(* six ASCII digits, decomposed *)
Lemma six_digits : forall a b c d e f, forallb ascii_digit [a; b; c; d; e; f] = true ->
  exists a' b' c' d' e' f', (a' < 10 /\ b' < 10 /\ c' < 10 /\ d' < 10 /\ e' < 10 /\ f' < 10)%N /\
  a = (48 + a')%N /\ b = (48 + b')%N /\ c = (48 + c')%N /\ d = (48 + d')%N /\ e = (48 + e')%N /\ f = (48 + f')%N.
Proof.
  intros a b c d e f H. cbn [forallb] in H.
  repeat (apply andb_true_iff in H; let H1 := fresh "D" in destruct H as [H1 H]).
  destruct (ascii_digit_spec _ D) as [a' [? ?]]. destruct (ascii_digit_spec _ D0) as [b' [? ?]].
  destruct (ascii_digit_spec _ D1) as [c' [? ?]]. destruct (ascii_digit_spec _ D2) as [d' [? ?]].
  destruct (ascii_digit_spec _ D3) as [e' [? ?]]. destruct (ascii_digit_spec _ D4) as [f' [? ?]].
  exists a', b', c', d', e', f'. repeat split; assumption.
Qed.

(* ---- accepted only if six digits denoting a real calendar date in the window *)
Theorem date_valid : forall s d, parse_date_yymmdd s = Some d ->
  length s = 6 /\ forallb ascii_digit s = true /\
  valid_date (yr d) (mo d) (dy d) = true /\ (1950 <= yr d <= 2049)%N.
Proof.
  intros s d H. unfold parse_date_yymmdd in H.
  destruct s as [|a [|b [|c [|x [|e [|f [|g r]]]]]]]; try discriminate.
  destruct (forallb ascii_digit [a; b; c; x; e; f]) eqn:Hd; [|discriminate].
  unfold mk_date in H.
  destruct (valid_date (window (num2 a b)) (num2 c x) (num2 e f)) eqn:Hv; [|discriminate].
  inversion H; subst. cbn [yr mo dy]. repeat split; try reflexivity; try exact Hv.
  - destruct (six_digits _ _ _ _ _ _ Hd) as [a' [b' [c' [d' [e' [f' [[Ha [Hb _]] [-> [-> _]]]]]]]]].
    pose proof (num2_lt100 a' b' Ha Hb). unfold window. destruct (N.leb _ 49) eqn:E; [|apply N.leb_gt in E]; lia.
  - destruct (six_digits _ _ _ _ _ _ Hd) as [a' [b' [c' [d' [e' [f' [[Ha [Hb _]] [-> [-> _]]]]]]]]].
    pose proof (num2_lt100 a' b' Ha Hb). unfold window. destruct (N.leb _ 49) eqn:E; [apply N.leb_le in E|]; lia.
Qed.

(* ---- serialising a parsed date reproduces the digits that were read *)
Theorem date_roundtrip : forall s d, parse_date_yymmdd s = Some d -> format_yymmdd d = s.
Proof.
  intros s d H. unfold parse_date_yymmdd in H.
  destruct s as [|a [|b [|c [|x [|e [|f [|g r]]]]]]]; try discriminate.
  destruct (forallb ascii_digit [a; b; c; x; e; f]) eqn:Hd; [|discriminate].
  unfold mk_date in H.
  destruct (valid_date (window (num2 a b)) (num2 c x) (num2 e f)) eqn:Hv; [|discriminate].
  inversion H; subst. unfold format_yymmdd. cbn [yr mo dy].
  destruct (six_digits _ _ _ _ _ _ Hd) as [a' [b' [c' [d' [e' [f' [[Ha [Hb [Hc [Hx [He Hf]]]]] [-> [-> [-> [-> [-> ->]]]]]]]]]]]].
  rewrite window_mod by (apply num2_lt100; assumption).
  rewrite !two_num2 by assumption. reflexivity.
Qed.

(* ---- one meaning everywhere: every date-bearing field, MT and JSON, reads the same date *)
Theorem one_meaning : forall f g s, date_of f s = date_of g s.
Proof.
  assert (H11 : forall s, parse_date_11 s = parse_date_yymmdd s) by reflexivity.
  assert (HJ : forall s, json_date_13d s = parse_date_yymmdd s).
  { intro s. unfold json_date_13d, parse_date_yymmdd.
    destruct s as [|a [|b [|c [|x [|e [|f [|g r]]]]]]]; try reflexivity.
    destruct (forallb ascii_digit [a; b; c; x; e; f]); [|reflexivity].
    unfold mk_date, window.
    destruct (N.leb 50 (num2 a b)) eqn:E1; destruct (N.leb (num2 a b) 49) eqn:E2;
      try reflexivity; [apply N.leb_le in E1; apply N.leb_le in E2; lia|
                        apply N.leb_gt in E1; apply N.leb_gt in E2; lia]. }
  intros f g s. destruct f; destruct g; cbn [date_of]; rewrite ?H11, ?HJ; reflexivity.
Qed.

(* ---- times *)
Theorem time_valid : forall s t, parse_time_hhmm s = Some t ->
  length s = 4 /\ forallb ascii_digit s = true /\ (hh t <= 23)%N /\ (mi t <= 59)%N.
Proof.
  intros s t H. unfold parse_time_hhmm in H.
  destruct s as [|a [|b [|c [|d [|e r]]]]]; try discriminate.
  destruct (forallb ascii_digit [a; b; c; d]) eqn:Hd; [|discriminate].
  destruct (N.leb (num2 a b) 23 && N.leb (num2 c d) 59) eqn:Hv; [|discriminate].
  inversion H; subst. cbn [hh mi]. apply andb_true_iff in Hv. destruct Hv as [H1 H2].
  apply N.leb_le in H1. apply N.leb_le in H2. repeat split; try reflexivity; assumption.
Qed.

Theorem time_roundtrip : forall s t, parse_time_hhmm s = Some t -> format_hhmm t = s.
Proof.
  intros s t H. unfold parse_time_hhmm in H.
  destruct s as [|a [|b [|c [|d [|e r]]]]]; try discriminate.
  destruct (forallb ascii_digit [a; b; c; d]) eqn:Hd; [|discriminate].
  destruct (N.leb (num2 a b) 23 && N.leb (num2 c d) 59); [|discriminate].
  inversion H; subst. unfold format_hhmm. cbn [hh mi].
  cbn [forallb] in Hd. repeat (apply andb_true_iff in Hd; let H1 := fresh "D" in destruct Hd as [H1 Hd]).
  destruct (ascii_digit_spec _ D) as [a' [? ->]]. destruct (ascii_digit_spec _ D0) as [b' [? ->]].
  destruct (ascii_digit_spec _ D1) as [c' [? ->]]. destruct (ascii_digit_spec _ D2) as [d' [? ->]].
  rewrite !two_num2 by assumption. reflexivity.
Qed.

(* ---- offsets *)
Theorem offset_valid : forall s, offset_ok s = true ->
  exists a b c d, s = [a; b; c; d] /\ forallb ascii_digit s = true /\ (num2 a b <= 14)%N /\ (num2 c d <= 59)%N.
Proof.
  intros s H. unfold offset_ok in H.
  destruct s as [|a [|b [|c [|d [|e r]]]]]; try discriminate.
  apply andb_true_iff in H. destruct H as [H H3]. apply andb_true_iff in H. destruct H as [H1 H2].
  exists a, b, c, d. apply N.leb_le in H2. apply N.leb_le in H3. repeat split; assumption.
Qed.

Lemma recompose : forall n, (10 * (48 + n / 10 - 48) + (48 + n mod 10 - 48) = n)%N.
Proof.
  intro n. pose proof (N.div_mod' n 10) as H.
  generalize dependent (n / 10)%N. generalize dependent (n mod 10)%N. intros. lia.
Qed.

Lemma window_of_mod : forall y, (1950 <= y <= 2049)%N -> window (y mod 100) = y.
Proof.
  intros y Hy. pose proof (N.div_mod' y 100) as H.
  assert (H1 : (19 <= y / 100)%N) by (apply N.div_le_lower_bound; lia).
  assert (H2 : (y / 100 < 21)%N) by (apply N.div_lt_upper_bound; lia).
  assert (H3 : (y mod 100 < 100)%N) by (apply N.mod_upper_bound; lia).
  unfold window. destruct (N.leb (y mod 100) 49) eqn:E; [apply N.leb_le in E|apply N.leb_gt in E];
    generalize dependent (y / 100)%N; generalize dependent (y mod 100)%N; intros; lia.
Qed.

(* ---- completeness: every real date of the window, written as six digits, is accepted *)
Theorem date_complete : forall y m d, (1950 <= y <= 2049)%N -> valid_date y m d = true ->
  parse_date_yymmdd (format_yymmdd {| yr := y; mo := m; dy := d |}) = Some {| yr := y; mo := m; dy := d |}.
Proof.
  intros y m d Hy Hv. unfold format_yymmdd, two, dig. cbn [yr mo dy app].
  pose proof Hv as Hv0.
  unfold valid_date in Hv. repeat (apply andb_true_iff in Hv; destruct Hv as [Hv ?]).
  repeat match goal with H : N.leb _ _ = true |- _ => apply N.leb_le in H end.
  assert (Hm : (m <= 12)%N) by assumption.
  assert (Hd31 : (d <= 31)%N).
  { assert (days_in_month y m <= 31)%N; [|lia].
    unfold days_in_month. destruct (leap y); destruct m as [|p]; try lia;
      repeat (match goal with q : positive |- _ => destruct q end; try lia). }
  unfold parse_date_yymmdd.
  assert (Hdk : forall k, (k < 10)%N -> ascii_digit (48 + k) = true).
  { intros k Hk. unfold ascii_digit. apply andb_true_iff. split; apply N.leb_le; lia. }
  assert (Hdig : forall n, (n < 100)%N -> ascii_digit (48 + n / 10) = true /\ ascii_digit (48 + n mod 10) = true).
  { intros n Hn. split; apply Hdk.
    - apply N.div_lt_upper_bound; lia.
    - apply N.mod_upper_bound. lia. }
  assert (Hy100 : (y mod 100 < 100)%N) by (apply N.mod_upper_bound; lia).
  assert (Hm100 : (m < 100)%N) by lia. assert (Hd100 : (d < 100)%N) by lia.
  destruct (Hdig _ Hy100) as [A1 A2]. destruct (Hdig m Hm100) as [B1 B2]. destruct (Hdig d Hd100) as [C1 C2].
  cbn [forallb]. rewrite A1, A2, B1, B2, C1, C2. cbn [andb].
  unfold mk_date, num2, dval. rewrite !recompose. rewrite (window_of_mod y Hy). rewrite Hv0. reflexivity.
Qed.
