(* Scenario/Instance.v — the fit of every constrained leaf of every shipped scenario, computed on the regenerated
   gen/Scenarios.v and lifted to every draw with Scenario/Sound.v. *)

From Coq Require Import List NArith ZArith Bool Lia.
From SwiftMT Require Import Base.Bytes Scenario.Lang Scenario.Sound gen.Scenarios.
Import ListNotations.

(* the abstract value of every generator, computed once *)
Definition kinds_abs : list aval := Eval vm_compute in map aklang kinds.

Lemma gen_kinds_abs : map aklang kinds = kinds_abs.
Proof. vm_cast_no_check (eq_refl kinds_abs). Qed.

(* the leaves that do not fit, for the diagnosis: index, lower and upper length *)
Definition failing_leaves : list (N * N * N) :=
  flat_map (fun il => let '(i, l) := il in
    if leaf_ok kinds_abs reqs l then [] else
      let '(_, _, t) := l in
      match abs kinds_abs t with
      | V a => [(N.of_nat i, N.of_nat (v_lo a), N.of_nat (v_hi a))]
      | _ => [(N.of_nat i, 0%N, 0%N)]
      end) (combine (seq 0 (length distinct_leaves)) distinct_leaves).

Lemma gen_leaves_ok : forallb (leaf_ok kinds_abs reqs) distinct_leaves = true.
Proof. vm_cast_no_check (eq_refl true). Qed.

Lemma gen_indices_ok : indices_ok (length distinct_leaves) scenario_leaves = true.
Proof. vm_cast_no_check (eq_refl true). Qed.

(* every constrained leaf of every scenario file, in every draw, meets one of the shapes its component requires *)
Definition every_leaf_fits :=
  table_fits kinds kinds_abs distinct_leaves reqs scenario_leaves gen_kinds_abs gen_leaves_ok gen_indices_ok.

(* not vacuous: generators occur among the leaves, under a cut *)
Example some_leaf_has_a_generator :
  existsb (fun l => match l with (_, _, TSub (TFake _) _ _) => true | _ => false end) distinct_leaves = true.
Proof. vm_cast_no_check (eq_refl true). Qed.
