(* Scenario/Sound.v — the abstraction of Scenario/Lang.v is sound: every value a template can take in some draw lies in
   the abstract value computed for it, and an abstract value that fits a requirement keeps every such value inside it. *)

From Coq Require Import List NArith ZArith Bool Lia.
From SwiftMT Require Import Base.Bytes Scenario.Lang.
Import ListNotations.

Lemma tb_bit b : tb (bit b) b = true.
Proof. unfold tb, bit. rewrite N.shiftl_1_l. apply N.pow2_bits_true. Qed.

Lemma tb_lor a b x : tb (N.lor a b) x = tb a x || tb b x.
Proof. unfold tb. apply N.lor_spec. Qed.

Lemma tb_lor_l a b x : tb a x = true -> tb (N.lor a b) x = true.
Proof. intro H. rewrite tb_lor, H. reflexivity. Qed.

Lemma tb_lor_r a b x : tb b x = true -> tb (N.lor a b) x = true.
Proof. intro H. rewrite tb_lor, H. apply orb_true_r. Qed.

Lemma mask_of_in w b : In b w -> tb (mask_of w) b = true.
Proof.
  induction w as [|c w IH]; cbn [mask_of fold_right In]; [tauto|]. intros [E|Hin].
  - subst. apply tb_lor_l, tb_bit.
  - apply tb_lor_r. apply IH, Hin.
Qed.

Lemma sub_mask_spec a b x : sub_mask a b = true -> tb a x = true -> tb b x = true.
Proof.
  unfold sub_mask, tb. intros H Ha. apply N.eqb_eq in H.
  assert (E : N.testbit (N.ldiff a b) x = false) by (rewrite H; apply N.bits_0).
  rewrite N.ldiff_spec, Ha in E. cbn in E. destruct (N.testbit b x); [reflexivity|discriminate].
Qed.

Lemma last_opt_in w b : last_opt w = Some b -> In b w.
Proof.
  induction w as [|c w IH]; cbn [last_opt]; [discriminate|].
  destruct w as [|d w']; intro H.
  - injection H as ->. left. reflexivity.
  - right. apply IH, H.
Qed.

Lemma last_opt_app w1 w2 : last_opt (w1 ++ w2) = match w2 with [] => last_opt w1 | _ => last_opt w2 end.
Proof.
  induction w1 as [|c w1 IH]; cbn [app].
  - destruct w2; reflexivity.
  - destruct w2 as [|d w2]; [rewrite app_nil_r; reflexivity|].
    assert (Hne : w1 ++ d :: w2 <> []) by (destruct w1; discriminate).
    cbn [last_opt]. destruct (w1 ++ d :: w2) as [|e l]; [contradiction|]. exact IH.
Qed.

Lemma last_opt_skipn a w b : last_opt (skipn a w) = Some b -> last_opt w = Some b.
Proof.
  revert w; induction a as [|a IH]; intros w H; [exact H|].
  destruct w as [|c w]; [discriminate|]. cbn [skipn] in H. apply IH in H.
  cbn [last_opt]. destruct w; [discriminate|exact H].
Qed.

Lemma in_firstn (n : nat) (w : bytes) b : In b (firstn n w) -> In b w.
Proof.
  revert w; induction n as [|n IH]; intros [|c w]; cbn [firstn In]; try tauto.
  intros [E|H]; [left; exact E|right; apply IH, H].
Qed.

Lemma in_skipn (n : nat) (w : bytes) b : In b (skipn n w) -> In b w.
Proof.
  revert w; induction n as [|n IH]; intros [|c w]; cbn [skipn]; try tauto.
  intro H. right. apply IH, H.
Qed.

(* ---- single words, joins, concatenation, cuts *)

Lemma aword_sound w : Gv (aword w) w.
Proof.
  unfold Gv, aword; cbn [v_cs v_lo v_hi v_fst v_lst v_one]. repeat split; try lia.
  - apply Forall_forall. intros b Hb. apply mask_of_in, Hb.
  - intros b H. destruct w as [|c w]; [discriminate|]. injection H as ->. apply tb_bit.
  - intros b H. rewrite H. apply tb_bit.
  - intros b ->. apply tb_bit.
Qed.

Lemma Forall_tb_lor_l a b w : Forall (fun x => tb a x = true) w -> Forall (fun x => tb (N.lor a b) x = true) w.
Proof. intro H. eapply Forall_impl; [|exact H]. intros x Hx. apply tb_lor_l, Hx. Qed.

Lemma Forall_tb_lor_r a b w : Forall (fun x => tb b x = true) w -> Forall (fun x => tb (N.lor a b) x = true) w.
Proof. intro H. eapply Forall_impl; [|exact H]. intros x Hx. apply tb_lor_r, Hx. Qed.

Lemma ajoin_sound_l x y w : G x w -> G (ajoin x y) w.
Proof.
  destruct x as [| |a]; cbn [G ajoin]; [tauto| |].
  - destruct y; cbn [G]; tauto.
  - destruct y as [| |b]; cbn [G]; [tauto|tauto|].
    intros (Hc & Hl & Hf & Hz & Ho). unfold Gv; cbn [v_cs v_lo v_hi v_fst v_lst v_one]. repeat split; try lia.
    + apply Forall_tb_lor_l, Hc.
    + intros c Hh. apply tb_lor_l, Hf, Hh.
    + intros c Hh. apply tb_lor_l, Hz, Hh.
    + intros c Hh. apply tb_lor_l, Ho, Hh.
Qed.

Lemma ajoin_sound_r x y w : G y w -> G (ajoin x y) w.
Proof.
  destruct y as [| |b]; cbn [G].
  - tauto.
  - destruct x; cbn [G ajoin]; tauto.
  - destruct x as [| |a]; cbn [G ajoin]; [tauto|tauto|].
    intros (Hc & Hl & Hf & Hz & Ho). unfold Gv; cbn [v_cs v_lo v_hi v_fst v_lst v_one]. repeat split; try lia.
    + apply Forall_tb_lor_r, Hc.
    + intros c Hh. apply tb_lor_r, Hf, Hh.
    + intros c Hh. apply tb_lor_r, Hz, Hh.
    + intros c Hh. apply tb_lor_r, Ho, Hh.
Qed.

Lemma acat_sound x y w1 w2 : G x w1 -> G y w2 -> G (acat x y) (w1 ++ w2).
Proof.
  destruct x as [| |a]; cbn [G acat]; [tauto| |].
  - destruct y; cbn [G]; tauto.
  - destruct y as [| |b]; cbn [G]; [tauto|tauto|].
    intros (Hc1 & Hl1 & Hf1 & Hz1 & Ho1) (Hc2 & Hl2 & Hf2 & Hz2 & Ho2).
    unfold Gv; cbn [v_cs v_lo v_hi v_fst v_lst v_one]. rewrite app_length. repeat split; try lia.
    + apply Forall_app. split; [apply Forall_tb_lor_l, Hc1|apply Forall_tb_lor_r, Hc2].
    + intros c Hh. destruct w1 as [|d w1].
      * cbn [app] in Hh. cbn [length] in Hl1. replace (v_lo a) with 0 by lia. cbn [Nat.eqb].
        apply tb_lor_r, Hf2, Hh.
      * cbn [app hd_error] in Hh. assert (Hd : tb (v_fst a) c = true) by (apply Hf1; exact Hh).
        destruct (Nat.eqb (v_lo a) 0); [apply tb_lor_l, Hd|exact Hd].
    + intros c Hh. rewrite last_opt_app in Hh. destruct w2 as [|d w2].
      * cbn [length] in Hl2. replace (v_lo b) with 0 by lia. cbn [Nat.eqb]. apply tb_lor_l, Hz1, Hh.
      * assert (Hd : tb (v_lst b) c = true) by (apply Hz2; exact Hh).
        destruct (Nat.eqb (v_lo b) 0); [apply tb_lor_r, Hd|exact Hd].
    + intros c Hh. destruct w1 as [|d w1].
      * cbn [app] in Hh. cbn [length] in Hl1. replace (v_lo a) with 0 by lia. cbn [Nat.eqb].
        apply tb_lor_r, Ho2, Hh.
      * cbn [app] in Hh. injection Hh as -> Hnil. apply app_eq_nil in Hnil. destruct Hnil as [-> ->].
        cbn [length] in Hl2. replace (v_lo b) with 0 by lia. cbn [Nat.eqb]. apply tb_lor_l, Ho1. reflexivity.
Qed.

Lemma asub_sound x a n w : G x w -> G (asub x a n) (firstn n (skipn a w)).
Proof.
  destruct x as [| |v]; cbn [G asub]; [tauto|tauto|].
  intros (Hc & Hl & Hf & Hz & Ho).
  assert (Hin : forall b, In b (firstn n (skipn a w)) -> tb (v_cs v) b = true).
  { intros b Hb. apply in_firstn, in_skipn in Hb. rewrite Forall_forall in Hc. apply Hc, Hb. }
  unfold Gv; cbn [v_cs v_lo v_hi v_fst v_lst v_one]. rewrite firstn_length, skipn_length. repeat split; try lia.
  - apply Forall_forall. exact Hin.
  - intros b Hh. destruct (Nat.eqb a 0) eqn:Ea.
    + apply Nat.eqb_eq in Ea. subst a. cbn [skipn] in Hh. apply Hf.
      destruct n; [discriminate|]. destruct w; [discriminate|exact Hh].
    + apply Hin. destruct (firstn n (skipn a w)); [discriminate|]. injection Hh as ->. left. reflexivity.
  - intros b Hh. destruct (Nat.leb (v_hi v) (a + n)) eqn:El.
    + apply Nat.leb_le in El. rewrite firstn_all2 in Hh by (rewrite skipn_length; lia).
      apply Hz. eapply last_opt_skipn, Hh.
    + apply Hin, last_opt_in, Hh.
  - intros b Hh. destruct (Nat.eqb a 0 && Nat.leb (v_hi v) n) eqn:El.
    + apply andb_true_iff in El. destruct El as [Ea El]. apply Nat.eqb_eq in Ea. apply Nat.leb_le in El. subst a.
      cbn [skipn] in Hh. rewrite firstn_all2 in Hh by lia. apply Ho, Hh.
    + apply Hin. rewrite Hh. left. reflexivity.
Qed.

(* ---- numbers *)

Lemma val_acc_bounds w : forallb digit w = true -> forall a, (0 <= a)%Z ->
  (a * 10 ^ Z.of_nat (length w) <= val_acc a w < (a + 1) * 10 ^ Z.of_nat (length w))%Z.
Proof.
  induction w as [|b w IH]; intros Hd a Ha.
  - cbn. lia.
  - cbn [forallb] in Hd. apply andb_true_iff in Hd. destruct Hd as [Hb Hw].
    unfold digit in Hb. apply andb_true_iff in Hb. destruct Hb as [H1 H2].
    apply N.leb_le in H1, H2.
    unfold val_acc. cbn [fold_left]. fold (val_acc (10 * a + (Z.of_N b - 48)) w).
    assert (Hr : (0 <= Z.of_N b - 48 <= 9)%Z) by lia.
    specialize (IH Hw (10 * a + (Z.of_N b - 48))%Z ltac:(lia)).
    change (length (b :: w)) with (S (length w)). rewrite Nat2Z.inj_succ, Z.pow_succ_r by lia.
    set (p := (10 ^ Z.of_nat (length w))%Z) in *. assert (0 < p)%Z by (apply Z.pow_pos_nonneg; lia).
    nia.
Qed.

Lemma numeral_len_upper w h b : numeral w -> (val w <= h)%Z -> (h < 10 ^ Z.of_nat b)%Z -> 1 <= b -> length w <= b.
Proof.
  intros [Hd [E|(d & r & E & Hnz)]] Hv Hh Hb; subst w; [cbn; lia|].
  cbn [forallb] in Hd. apply andb_true_iff in Hd. destruct Hd as [Hdd Hr].
  assert (Hdig : (1 <= Z.of_N d - 48)%Z).
  { unfold digit in Hdd. apply andb_true_iff in Hdd. destruct Hdd as [H1 H2]. apply N.leb_le in H1, H2. lia. }
  unfold val, val_acc in Hv. cbn [fold_left] in Hv. fold (val_acc (10 * 0 + (Z.of_N d - 48)) r) in Hv.
  pose proof (val_acc_bounds r Hr (10 * 0 + (Z.of_N d - 48))%Z ltac:(lia)) as [Hlo _].
  assert (Hp : (10 ^ Z.of_nat (length r) < 10 ^ Z.of_nat b)%Z).
  { assert (0 < 10 ^ Z.of_nat (length r))%Z by (apply Z.pow_pos_nonneg; lia). nia. }
  apply Z.pow_lt_mono_r_iff in Hp; [|lia|lia]. cbn [length]. lia.
Qed.

Lemma numeral_len_lower w l a : numeral w -> (l <= val w)%Z -> (10 ^ Z.of_nat (a - 1) <= l)%Z -> a <= length w.
Proof.
  intros [Hd _] Hv Hl.
  pose proof (val_acc_bounds w Hd 0%Z ltac:(lia)) as [_ Hhi]. fold (val w) in Hhi.
  assert (Hp : (10 ^ Z.of_nat (a - 1) < 10 ^ Z.of_nat (length w))%Z) by lia.
  apply Z.pow_lt_mono_r_iff in Hp; lia.
Qed.

Lemma numeral_nonempty w : numeral w -> 1 <= length w.
Proof. intros [_ [E|(d & r & E & _)]]; subst; cbn; lia. Qed.

Lemma digit_in_mask b : digit b = true -> tb digits_mask b = true.
Proof.
  unfold digit. intro H. apply andb_true_iff in H. destruct H as [H1 H2]. apply N.leb_le in H1, H2.
  apply mask_of_in. cbn [In].
  assert (b = 48 \/ b = 49 \/ b = 50 \/ b = 51 \/ b = 52 \/ b = 53 \/ b = 54 \/ b = 55 \/ b = 56 \/ b = 57)%N by lia.
  intuition auto.
Qed.

Lemma anum_sound l h w : numeral w -> (l <= val w <= h)%Z -> G (anum l h) w.
Proof.
  intros Hn [Hl Hh]. unfold anum.
  destruct ((0 <=? l)%Z && (l <=? h)%Z && (Nat.eqb (ndig 40 l) 1 || (10 ^ Z.of_nat (ndig 40 l - 1) <=? l)%Z)
            && (h <? 10 ^ Z.of_nat (ndig 40 h))%Z && Nat.leb 1 (ndig 40 h)) eqn:E; [|exact I].
  repeat (apply andb_true_iff in E; destruct E as [E ?]).
  match goal with H : Nat.leb 1 _ = true |- _ => apply Nat.leb_le in H; rename H into Hb1 end.
  match goal with H : (h <? _)%Z = true |- _ => apply Z.ltb_lt in H; rename H into Hhb end.
  match goal with H : (_ || _) = true |- _ => rename H into Hlo end.
  assert (Hall : forall b, In b w -> tb digits_mask b = true).
  { destruct Hn as [Hd _]. rewrite forallb_forall in Hd. intros b Hb. apply digit_in_mask, Hd, Hb. }
  cbn [G]. unfold Gv; cbn [v_cs v_lo v_hi v_fst v_lst v_one]. repeat split.
  - apply Forall_forall. exact Hall.
  - apply orb_true_iff in Hlo. destruct Hlo as [H1|H1].
    + apply Nat.eqb_eq in H1. rewrite H1. apply numeral_nonempty, Hn.
    + apply Z.leb_le in H1. eapply numeral_len_lower; eauto.
  - eapply numeral_len_upper; eauto.
  - intros b Hb. apply Hall. destruct w; [discriminate|]. injection Hb as ->. left. reflexivity.
  - intros b Hb. apply Hall, last_opt_in, Hb.
  - intros b ->. apply Hall. left. reflexivity.
Qed.

(* ---- slots, alternatives, generators, templates *)

Lemma awords_sound ws w : In w ws -> G (fold_right (fun w x => ajoin (V (aword w)) x) Bot ws) w.
Proof.
  induction ws as [|u ws IH]; cbn [fold_right In]; [tauto|]. intros [E|H].
  - subst. apply ajoin_sound_l. apply aword_sound.
  - apply ajoin_sound_r, IH, H.
Qed.

Lemma aslot_sound s w : in_slot s w -> G (aslot s) w.
Proof.
  intros [ws u Hin|alpha l h u Hall Hlen|l h u Hn Hv]; cbn [aslot].
  - apply awords_sound, Hin.
  - destruct (Nat.leb l h) eqn:E; [|apply Nat.leb_gt in E; lia].
    destruct (Nat.eqb h 0) eqn:E0.
    + apply Nat.eqb_eq in E0. destruct u; [apply aword_sound|cbn [length] in Hlen; lia].
    + assert (Hm : forall b, In b u -> tb (mask_of alpha) b = true).
      { rewrite Forall_forall in Hall. intros b Hb. apply mask_of_in, Hall, Hb. }
      cbn [G]. unfold Gv; cbn [v_cs v_lo v_hi v_fst v_lst v_one]. repeat split; try lia.
      * apply Forall_forall. exact Hm.
      * intros b Hb. apply Hm. destruct u; [discriminate|]. injection Hb as ->. left. reflexivity.
      * intros b Hb. apply Hm, last_opt_in, Hb.
      * intros b ->. apply Hm. left. reflexivity.
  - apply anum_sound; assumption.
Qed.

Lemma aalt_sound a w : in_alt a w -> G (aalt a) w.
Proof.
  induction 1 as [|s a w v Hs Ha IH]; cbn [aalt fold_right].
  - apply aword_sound.
  - apply acat_sound; [apply aslot_sound, Hs|exact IH].
Qed.

Lemma aklang_sound k w : in_klang k w -> G (aklang k) w.
Proof.
  intros (a & Hin & Ha). induction k as [|b k IH]; cbn [aklang fold_right]; [destruct Hin|].
  destruct Hin as [E|Hin].
  - subst. apply ajoin_sound_l, aalt_sound, Ha.
  - apply ajoin_sound_r, IH, Hin.
Qed.

Theorem abs_sound kinds t w : den kinds t w -> G (abs (map aklang kinds) t) w.
Proof.
  induction 1; cbn [abs].
  - apply aword_sound.
  - change Bot with (aklang []). rewrite map_nth. apply aklang_sound. assumption.
  - apply acat_sound; assumption.
  - apply asub_sound; assumption.
  - apply ajoin_sound_l; assumption.
  - apply ajoin_sound_r; assumption.
  - exact I.
Qed.

Theorem fits_sound x r w : fits x r = true -> G x w -> Gv r w.
Proof.
  destruct x as [| |a]; cbn [fits G]; [tauto|discriminate|].
  intros H (Hc & Hl & Hf & Hz & Ho).
  apply andb_true_iff in H. destruct H as [H H1].
  apply andb_true_iff in H. destruct H as [H Hlst].
  apply andb_true_iff in H. destruct H as [H Hfst].
  apply andb_true_iff in H. destruct H as [H Hhi].
  apply andb_true_iff in H. destruct H as [Hcs Hlo].
  apply Nat.leb_le in Hhi, Hlo.
  unfold Gv. repeat split; try lia.
  - eapply Forall_impl; [|exact Hc]. intros b Hb. eapply sub_mask_spec; eauto.
  - intros b Hb. eapply sub_mask_spec; [exact Hfst|apply Hf, Hb].
  - intros b Hb. eapply sub_mask_spec; [exact Hlst|apply Hz, Hb].
  - intros b Hb. apply orb_true_iff in H1. destruct H1 as [H1|H1].
    + apply Nat.leb_le in H1. subst w. cbn [length] in Hl. lia.
    + eapply sub_mask_spec; [exact H1|apply Ho, Hb].
Qed.

(* every value of the template, in every draw, meets the requirement *)
Corollary fits_every_draw kinds t r : fits (abs (map aklang kinds) t) r = true -> forall w, den kinds t w -> Gv r w.
Proof. intros H w Hd. eapply fits_sound; [exact H|apply abs_sound, Hd]. Qed.

(* ---- tables of leaves (the shape of gen/Scenarios.v) *)

Fixpoint req_of (tag key : bytes) (t : list (bytes * bytes * list av)) : option (list av) :=
  match t with
  | [] => None
  | (tg, k, rs) :: r => if bytes_eqb tag tg && bytes_eqb key k then Some rs else req_of tag key r
  end.

Definition leaf_ok (tbl : list aval) (reqs : list (bytes * bytes * list av)) (l : bytes * bytes * tm) : bool :=
  let '(tag, key, t) := l in
  match req_of tag key reqs with
  | Some rs => let a := abs tbl t in existsb (fits a) rs
  | None => false
  end.

Definition indices_ok (n : nat) (sl : list (bytes * list nat)) : bool :=
  forallb (fun fl => forallb (fun i => Nat.ltb i n) (snd fl)) sl.

Theorem table_fits kinds tbl (leaves : list (bytes * bytes * tm)) reqs (sl : list (bytes * list nat)) :
  map aklang kinds = tbl ->
  forallb (leaf_ok tbl reqs) leaves = true -> indices_ok (length leaves) sl = true ->
  forall file idxs i, In (file, idxs) sl -> In i idxs ->
  exists tag key t rs, nth_error leaves i = Some (tag, key, t) /\ req_of tag key reqs = Some rs /\
    forall w, den kinds t w -> exists r, In r rs /\ Gv r w.
Proof.
  intros Htbl HL HI file idxs i Hf Hi. subst tbl.
  unfold indices_ok in HI. rewrite forallb_forall in HI.
  specialize (HI _ Hf). cbn [snd] in HI. rewrite forallb_forall in HI. specialize (HI _ Hi).
  apply Nat.ltb_lt in HI.
  destruct (nth_error leaves i) as [[[tag key] t]|] eqn:E; [|apply nth_error_None in E; lia].
  rewrite forallb_forall in HL. specialize (HL _ (nth_error_In _ _ E)). unfold leaf_ok in HL.
  destruct (req_of tag key reqs) as [rs|] eqn:Er; [|discriminate].
  exists tag, key, t, rs. split; [reflexivity|]. split; [exact Er|].
  intros w Hd. apply existsb_exists in HL. destruct HL as (r & Hr & Hfit).
  exists r. split; [exact Hr|]. exact (fits_every_draw kinds t r Hfit w Hd).
Qed.
