(* Scenario/Lang.v — the shipped scenario files as languages (C15).

   A scenario file is a JSON template; `datafake-rs` evaluates it once per draw.  What varies between draws is the value
   of the `fake` nodes.  Each `fake` kind is, in the sources of the crates (`fake`, `datafake-rs`), a product of
   independent choices: a word of a word list, some characters of an alphabet, a number of a range.  That is what a
   `klang` says: a list of alternatives, each a list of slots.  A template `tm` combines them with the operators the
   scenario files use (var — inlined by the translator —, cat, substr, if); `den t w` says that `w` is a value the
   template can take in some draw.  Definitions only. *)

From Coq Require Import List NArith ZArith Bool Lia.
From SwiftMT Require Import Base.Bytes.
Import ListNotations.

(* ---- slots and the languages of the generators *)

Inductive slot :=
| SWords (ws : list bytes)                      (* one word of the list *)
| SChars (alpha : bytes) (lo hi : nat)          (* lo..hi characters of the alphabet *)
| SNum (lo hi : Z).                             (* the decimal numeral of a number of lo..hi *)

Definition alt := list slot.
Definition klang := list alt.

Definition digit (b : N) : bool := (48 <=? b)%N && (b <=? 57)%N.

(* the value of a string of digits *)
Definition val_acc (a : Z) (w : bytes) : Z := fold_left (fun a b => 10 * a + (Z.of_N b - 48))%Z w a.
Definition val (w : bytes) : Z := val_acc 0 w.

(* the decimal numerals as the formatting of an integer writes them: no sign, no leading zero *)
Definition numeral (w : bytes) : Prop :=
  forallb digit w = true /\ (w = [48%N] \/ exists d r, w = d :: r /\ d <> 48%N).

Inductive in_slot : slot -> bytes -> Prop :=
| in_words ws w : In w ws -> in_slot (SWords ws) w
| in_chars alpha lo hi w : Forall (fun b => In b alpha) w -> lo <= length w <= hi -> in_slot (SChars alpha lo hi) w
| in_num lo hi w : numeral w -> (lo <= val w <= hi)%Z -> in_slot (SNum lo hi) w.

Inductive in_alt : alt -> bytes -> Prop :=
| in_alt_nil : in_alt [] []
| in_alt_cons s a w v : in_slot s w -> in_alt a v -> in_alt (s :: a) (w ++ v).

Definition in_klang (k : klang) (w : bytes) : Prop := exists a, In a k /\ in_alt a w.

(* ---- templates *)

Inductive tm :=
| TLit (w : bytes)
| TFake (k : nat)                               (* the k-th generator of the table of the scenario files *)
| TCat (t1 t2 : tm)
| TSub (t : tm) (start len : nat)               (* substr: `len` characters from `start` *)
| TAny (t1 t2 : tm)                             (* if: either branch *)
| TTop.                                         (* anything (an operator the model does not read) *)

Inductive den (kinds : list klang) : tm -> bytes -> Prop :=
| den_lit w : den kinds (TLit w) w
| den_fake k w : in_klang (nth k kinds []) w -> den kinds (TFake k) w
| den_cat t1 t2 w1 w2 : den kinds t1 w1 -> den kinds t2 w2 -> den kinds (TCat t1 t2) (w1 ++ w2)
| den_sub t a n w : den kinds t w -> den kinds (TSub t a n) (firstn n (skipn a w))
| den_any_l t1 t2 w : den kinds t1 w -> den kinds (TAny t1 t2) w
| den_any_r t1 t2 w : den kinds t2 w -> den kinds (TAny t1 t2) w
| den_top w : den kinds TTop w.

(* ---- the abstraction: characters, length bounds, first and last character, and which one-character strings occur *)

Record av := { v_cs : N; v_lo : nat; v_hi : nat; v_fst : N; v_lst : N; v_one : N }.
Inductive aval := Bot | Top | V (a : av).

Definition tb (m b : N) : bool := N.testbit m b.
Definition bit (b : N) : N := N.shiftl 1 b.
Definition mask_of (w : bytes) : N := fold_right (fun b m => N.lor (bit b) m) 0%N w.
Definition sub_mask (a b : N) : bool := N.eqb (N.ldiff a b) 0.

Fixpoint last_opt (w : bytes) : option N :=
  match w with [] => None | [b] => Some b | _ :: r => last_opt r end.

Definition Gv (a : av) (w : bytes) : Prop :=
  Forall (fun b => tb (v_cs a) b = true) w /\ v_lo a <= length w <= v_hi a /\
  (forall b, hd_error w = Some b -> tb (v_fst a) b = true) /\
  (forall b, last_opt w = Some b -> tb (v_lst a) b = true) /\
  (forall b, w = [b] -> tb (v_one a) b = true).

Definition G (x : aval) (w : bytes) : Prop :=
  match x with Bot => False | Top => True | V a => Gv a w end.

Definition aword (w : bytes) : av :=
  {| v_cs := mask_of w; v_lo := length w; v_hi := length w;
     v_fst := match w with [] => 0%N | b :: _ => bit b end;
     v_lst := match last_opt w with None => 0%N | Some b => bit b end;
     v_one := match w with [b] => bit b | _ => 0%N end |}.

Definition ajoin (x y : aval) : aval :=
  match x, y with
  | Bot, z | z, Bot => z
  | Top, _ | _, Top => Top
  | V a, V b => V {| v_cs := N.lor (v_cs a) (v_cs b); v_lo := Nat.min (v_lo a) (v_lo b); v_hi := Nat.max (v_hi a) (v_hi b);
                     v_fst := N.lor (v_fst a) (v_fst b); v_lst := N.lor (v_lst a) (v_lst b);
                     v_one := N.lor (v_one a) (v_one b) |}
  end.

Definition acat (x y : aval) : aval :=
  match x, y with
  | Bot, _ | _, Bot => Bot
  | Top, _ | _, Top => Top
  | V a, V b => V {| v_cs := N.lor (v_cs a) (v_cs b); v_lo := v_lo a + v_lo b; v_hi := v_hi a + v_hi b;
                     v_fst := if Nat.eqb (v_lo a) 0 then N.lor (v_fst a) (v_fst b) else v_fst a;
                     v_lst := if Nat.eqb (v_lo b) 0 then N.lor (v_lst a) (v_lst b) else v_lst b;
                     v_one := N.lor (if Nat.eqb (v_lo b) 0 then v_one a else 0%N) (if Nat.eqb (v_lo a) 0 then v_one b else 0%N) |}
  end.

(* substr: the first character survives a cut from 0; the last one only when nothing can be cut *)
Definition asub (x : aval) (start len : nat) : aval :=
  match x with
  | Bot => Bot | Top => Top
  | V a => V {| v_cs := v_cs a; v_lo := Nat.min (v_lo a - start) len; v_hi := Nat.min (v_hi a - start) len;
                v_fst := if Nat.eqb start 0 then v_fst a else v_cs a;
                v_lst := if Nat.leb (v_hi a) (start + len) then v_lst a else v_cs a;
                v_one := if Nat.eqb start 0 && Nat.leb (v_hi a) len then v_one a else v_cs a |}
  end.

Fixpoint ndig (fuel : nat) (z : Z) : nat :=
  match fuel with
  | O => 1
  | S f => if (z <? 10)%Z then 1 else S (ndig f (z / 10))
  end.

Definition digits_mask : N := mask_of [48; 49; 50; 51; 52; 53; 54; 55; 56; 57]%N.

(* a number slot: the lengths come from an unverified digit count, the two inequalities that make them right are checked *)
Definition anum (l h : Z) : aval :=
  let a := ndig 40 l in let b := ndig 40 h in
  if ((0 <=? l) && (l <=? h) && ((Nat.eqb a 1) || (10 ^ Z.of_nat (a - 1) <=? l)) && (h <? 10 ^ Z.of_nat b) && Nat.leb 1 b)%Z
  then V {| v_cs := digits_mask; v_lo := a; v_hi := b; v_fst := digits_mask; v_lst := digits_mask; v_one := digits_mask |}
  else Top.

Definition aslot (s : slot) : aval :=
  match s with
  | SWords ws => fold_right (fun w x => ajoin (V (aword w)) x) Bot ws
  | SChars alpha l h =>
      if Nat.leb l h then
        if Nat.eqb h 0 then V (aword [])
        else V {| v_cs := mask_of alpha; v_lo := l; v_hi := h; v_fst := mask_of alpha; v_lst := mask_of alpha; v_one := mask_of alpha |}
      else Bot
  | SNum l h => anum l h
  end.

Definition aalt (a : alt) : aval := fold_right (fun s x => acat (aslot s) x) (V (aword [])) a.
Definition aklang (k : klang) : aval := fold_right (fun a x => ajoin (aalt a) x) Bot k.

(* tbl: the abstract values of the generators, computed once (map aklang kinds) *)
Fixpoint abs (tbl : list aval) (t : tm) : aval :=
  match t with
  | TLit w => V (aword w)
  | TFake k => nth k tbl Bot
  | TCat t1 t2 => acat (abs tbl t1) (abs tbl t2)
  | TSub t a n => asub (abs tbl t) a n
  | TAny t1 t2 => ajoin (abs tbl t1) (abs tbl t2)
  | TTop => Top
  end.

(* a requirement is an abstract value too: what a component of a field accepts *)
Definition fits (x : aval) (r : av) : bool :=
  match x with
  | Bot => true
  | Top => false
  | V a => sub_mask (v_cs a) (v_cs r) && Nat.leb (v_lo r) (v_lo a) && Nat.leb (v_hi a) (v_hi r)
           && sub_mask (v_fst a) (v_fst r) && sub_mask (v_lst a) (v_lst r) && (Nat.leb 2 (v_lo a) || sub_mask (v_one a) (v_one r))
  end.
