(* Base/Bytes.v — Rust `&str` as a list of UTF-8 bytes.

   bytes := list N (every element < 256 for well-formed inputs).  All string
   operations of the library that the models use (len, byte slicing, find,
   starts_with, trim, lines) are defined over this representation in
   Base/StrOps.v; this file holds the representation itself, literals and
   decidable equality. *)

From Coq Require Export List NArith ZArith Bool Lia.
From Coq Require Import Ascii String.
Export ListNotations.

Definition bytes := list N.

(* literals: (bs "103") — used by hand-written tables and by the translator *)
Fixpoint bs (s : string) : bytes :=
  match s with
  | EmptyString => []
  | String c r => N_of_ascii c :: bs r
  end.

Fixpoint bytes_eqb (a b : bytes) : bool :=
  match a, b with
  | [], [] => true
  | x :: a', y :: b' => N.eqb x y && bytes_eqb a' b'
  | _, _ => false
  end.

Lemma bytes_eqb_eq : forall a b, bytes_eqb a b = true <-> a = b.
Proof.
  induction a as [|x a IH]; intros [|y b]; cbn [bytes_eqb]; split; intro H;
    try reflexivity; try discriminate.
  - apply andb_true_iff in H. destruct H as [Hxy Hab].
    apply N.eqb_eq in Hxy. apply IH in Hab. subst. reflexivity.
  - inversion H; subst. apply andb_true_iff. split.
    + apply N.eqb_refl.
    + apply IH. reflexivity.
Qed.

Lemma bytes_eqb_refl : forall a, bytes_eqb a a = true.
Proof. intro a. apply bytes_eqb_eq. reflexivity. Qed.

Lemma bytes_eqb_neq : forall a b, bytes_eqb a b = false <-> a <> b.
Proof.
  intros a b. split.
  - intros H E. apply bytes_eqb_eq in E. congruence.
  - intro H. destruct (bytes_eqb a b) eqn:E; [|reflexivity].
    apply bytes_eqb_eq in E. contradiction.
Qed.

Definition bytes_eq_dec (a b : bytes) : {a = b} + {a <> b}.
Proof.
  destruct (bytes_eqb a b) eqn:E.
  - left. apply bytes_eqb_eq. exact E.
  - right. apply bytes_eqb_neq. exact E.
Defined.

(* association lists keyed by byte strings: the shape of every regenerated table *)
Fixpoint lookup {A : Type} (k : bytes) (t : list (bytes * A)) : option A :=
  match t with
  | [] => None
  | (k', v) :: r => if bytes_eqb k k' then Some v else lookup k r
  end.

Lemma lookup_some_in : forall (A : Type) k (t : list (bytes * A)) v,
  lookup k t = Some v -> In (k, v) t.
Proof.
  intros A k t. induction t as [|[k' v'] r IH]; cbn [lookup]; intros v H.
  - discriminate.
  - destruct (bytes_eqb k k') eqn:E.
    + apply bytes_eqb_eq in E. inversion H; subst. left. reflexivity.
    + right. apply IH. exact H.
Qed.

Lemma lookup_none_notin : forall (A : Type) k (t : list (bytes * A)),
  lookup k t = None -> ~ In k (map fst t).
Proof.
  intros A k t. induction t as [|[k' v'] r IH]; cbn [lookup map fst]; intros H HI.
  - destruct HI.
  - destruct (bytes_eqb k k') eqn:E; [discriminate|].
    destruct HI as [HI|HI].
    + apply bytes_eqb_neq in E. apply E. symmetry. exact HI.
    + exact (IH H HI).
Qed.

Lemma lookup_in_some : forall (A : Type) k (t : list (bytes * A)),
  In k (map fst t) -> exists v, lookup k t = Some v.
Proof.
  intros A k t. induction t as [|[k' v'] r IH]; cbn [lookup map fst]; intros HI.
  - destruct HI.
  - destruct (bytes_eqb k k') eqn:E.
    + eexists. reflexivity.
    + destruct HI as [HI|HI].
      * apply bytes_eqb_neq in E. exfalso. apply E. symmetry. exact HI.
      * apply IH. exact HI.
Qed.

Definition mem (k : bytes) (l : list bytes) : bool := existsb (bytes_eqb k) l.

Lemma mem_in : forall k l, mem k l = true <-> In k l.
Proof.
  intros k l. unfold mem. rewrite existsb_exists. split.
  - intros [x [Hx E]]. apply bytes_eqb_eq in E. subst. exact Hx.
  - intro H. exists k. split; [exact H|apply bytes_eqb_refl].
Qed.

Fixpoint nodupb (l : list bytes) : bool :=
  match l with
  | [] => true
  | x :: r => negb (mem x r) && nodupb r
  end.

Lemma nodupb_NoDup : forall l, nodupb l = true -> NoDup l.
Proof.
  induction l as [|x r IH]; cbn [nodupb]; intro H.
  - constructor.
  - apply andb_true_iff in H. destruct H as [Hx Hr]. constructor.
    + intro HI. apply mem_in in HI. rewrite HI in Hx. discriminate.
    + apply IH. exact Hr.
Qed.
