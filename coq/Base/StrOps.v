(* Base/StrOps.v — the Rust `str` operations the library uses, over UTF-8 byte lists.
   Offsets are byte offsets, as in Rust.  All functions are total; where Rust would
   panic (slice off a char boundary / out of range) the models that need it use
   [slice], which returns None. *)

From SwiftMT Require Import Base.Bytes.

Fixpoint starts_with (p s : bytes) : bool :=
  match p, s with
  | [], _ => true
  | x :: p', y :: s' => N.eqb x y && starts_with p' s'
  | _ :: _, [] => false
  end.

(* str::find(pat): byte offset of the first occurrence *)
Fixpoint find (p s : bytes) : option nat :=
  if starts_with p s then Some 0 else
  match s with
  | [] => None
  | _ :: s' => match find p s' with Some i => Some (S i) | None => None end
  end.

Definition contains (p s : bytes) : bool := match find p s with Some _ => true | None => false end.

Definition ends_with (p s : bytes) : bool := starts_with (rev p) (rev s).

(* is this byte a UTF-8 continuation byte? *)
Definition is_cont (b : N) : bool := N.leb 128 b && N.ltb b 192.
(* is offset i (0 <= i <= len) a char boundary of s *)
Definition is_boundary (s : bytes) (i : nat) : bool :=
  match nth_error s i with
  | None => Nat.eqb i (length s)
  | Some b => negb (is_cont b)
  end.

(* &s[a..b]: None models the panic *)
Definition slice (s : bytes) (a b : nat) : option bytes :=
  if Nat.leb a b && Nat.leb b (length s) && is_boundary s a && is_boundary s b
  then Some (firstn (b - a) (skipn a s)) else None.

(* char::is_whitespace (Unicode White_Space), recognised on the UTF-8 encoding:
   byte length of a leading white-space character, 0 if the string does not start with one *)
Definition ws_len (s : bytes) : nat :=
  match s with
  | b :: r =>
      if (N.leb 9 b && N.leb b 13) || N.eqb b 32 then 1
      else if N.eqb b 194 then
        match r with c :: _ => if N.eqb c 133 || N.eqb c 160 then 2 else 0 | [] => 0 end
      else if N.eqb b 225 then
        match r with 154%N :: 128%N :: _ => 3 | _ => 0 end
      else if N.eqb b 226 then
        match r with
        | 128%N :: c :: _ => if (N.leb 128 c && N.leb c 138) || N.eqb c 168 || N.eqb c 169 || N.eqb c 175 then 3 else 0
        | 129%N :: 159%N :: _ => 3
        | _ => 0
        end
      else if N.eqb b 227 then
        match r with 128%N :: 128%N :: _ => 3 | _ => 0 end
      else 0
  | [] => 0
  end.

(* trim_start_matches(char::is_whitespace) / trim_start() *)
Fixpoint trim_start_fuel (fuel : nat) (s : bytes) : bytes :=
  match fuel with
  | 0 => s
  | S f => match ws_len s with 0 => s | n => trim_start_fuel f (skipn n s) end
  end.
Definition trim_start (s : bytes) : bytes := trim_start_fuel (length s) s.

Definition all_ws (s : bytes) : bool := match trim_start s with [] => true | _ => false end.

(* trim_end_matches(c) for a single ASCII byte c *)
Fixpoint drop_while_eq (c : N) (s : bytes) : bytes :=
  match s with
  | x :: r => if N.eqb x c then drop_while_eq c r else s
  | [] => []
  end.
Definition trim_end_byte (c : N) (s : bytes) : bytes := rev (drop_while_eq c (rev s)).

(* UTF-8 decoding into code points (total: malformed sequences decode byte-wise) *)
Fixpoint decode_fuel (fuel : nat) (s : bytes) : list N :=
  match fuel with
  | 0 => []
  | S f =>
    match s with
    | [] => []
    | b :: r =>
      if N.ltb b 128 then b :: decode_fuel f r
      else if N.ltb b 224 then
        match r with
        | c :: r' => ((b - 192) * 64 + (c - 128))%N :: decode_fuel f r'
        | _ => [b]
        end
      else if N.ltb b 240 then
        match r with
        | c :: d :: r' => ((b - 224) * 4096 + (c - 128) * 64 + (d - 128))%N :: decode_fuel f r'
        | _ => [b]
        end
      else
        match r with
        | c :: d :: e :: r' => ((b - 240) * 262144 + (c - 128) * 4096 + (d - 128) * 64 + (e - 128))%N :: decode_fuel f r'
        | _ => [b]
        end
    end
  end.
Definition chars (s : bytes) : list N := decode_fuel (length s) s.

(* character classes: exact below 128; above, the table the correspondence harness validates
   against Rust (Latin-1 letters, Greek, Cyrillic, Arabic-Indic and fullwidth digits, circled digits) *)
Definition ascii_digit (c : N) : bool := N.leb 48 c && N.leb c 57.
Definition ascii_upper (c : N) : bool := N.leb 65 c && N.leb c 90.
Definition ascii_lower (c : N) : bool := N.leb 97 c && N.leb c 122.
Definition ascii_alnum (c : N) : bool := ascii_digit c || ascii_upper c || ascii_lower c.

Definition in_range (c lo hi : N) : bool := N.leb lo c && N.leb c hi.
Definition u_alpha_hi (c : N) : bool :=
  N.eqb c 170 || N.eqb c 181 || N.eqb c 186
  || (in_range c 192 255 && negb (N.eqb c 215) && negb (N.eqb c 247))
  || in_range c 256 687
  || in_range c 913 929 || in_range c 931 1013
  || in_range c 1024 1153 || in_range c 19968 40959.
Definition u_num_hi (c : N) : bool :=
  N.eqb c 178 || N.eqb c 179 || N.eqb c 185 || in_range c 188 190
  || in_range c 1632 1641 || in_range c 9312 9371 || in_range c 65296 65305.
Definition is_alphanumeric (c : N) : bool :=
  if N.ltb c 128 then ascii_alnum c else u_alpha_hi c || u_num_hi c.
Definition is_numeric (c : N) : bool :=
  if N.ltb c 128 then ascii_digit c else u_num_hi c.
Definition is_alphabetic (c : N) : bool :=
  if N.ltb c 128 then ascii_upper c || ascii_lower c else u_alpha_hi c.

Definition nl : N := 10.
Definition cr : N := 13.
Definition colon : N := 58.
Definition dash : N := 45.
Definition rbrace : N := 125.
