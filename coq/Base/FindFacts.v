(* Base/FindFacts.v — specification lemmas for str::find / starts_with over byte lists. *)

From SwiftMT Require Import Base.Bytes Base.StrOps.
From Coq Require Import Lia.

Lemma starts_with_app : forall p r, starts_with p (p ++ r) = true.
Proof. induction p as [|x p IH]; intro r; cbn; [reflexivity|]. rewrite N.eqb_refl. apply IH. Qed.

Lemma starts_with_nil : forall s, starts_with [] s = true.
Proof. destruct s; reflexivity. Qed.

Lemma starts_with_prefix : forall p s, starts_with p s = true -> exists r, s = p ++ r.
Proof.
  induction p as [|x p IH]; intros s H; [exists s; reflexivity|].
  destruct s as [|y s]; [discriminate|]. cbn in H. apply andb_true_iff in H. destruct H as [E H].
  apply N.eqb_eq in E. subst. destruct (IH s H) as [r ->]. exists r. reflexivity.
Qed.

Lemma starts_with_head : forall x p y s, starts_with (x :: p) (y :: s) = true -> x = y.
Proof. intros x p y s H. cbn in H. apply andb_true_iff in H. destruct H as [E _]. apply N.eqb_eq in E. exact E. Qed.

(* find returns the first matching offset *)
Lemma find_some : forall p s i, find p s = Some i ->
  starts_with p (skipn i s) = true /\ (forall j, j < i -> starts_with p (skipn j s) = false) /\ i <= length s.
Proof.
  intros p s. induction s as [|y s IH]; intros i H; cbn [find] in H.
  - destruct (starts_with p []) eqn:E; [|discriminate]. inversion H; subst. cbn. repeat split; [exact E|lia|lia].
  - destruct (starts_with p (y :: s)) eqn:E.
    + inversion H; subst. cbn [skipn]. repeat split; [exact E|lia|lia].
    + destruct (find p s) as [k|] eqn:F; [|discriminate]. inversion H; subst.
      destruct (IH k eq_refl) as [A [B C]]. cbn [skipn length]. repeat split; [exact A| |lia].
      intros j Hj. destruct j as [|j]; [exact E|]. cbn [skipn]. apply B. lia.
Qed.

Lemma find_none : forall p s, find p s = None -> forall j, starts_with p (skipn j s) = false.
Proof.
  intros p s. induction s as [|y s IH]; intros H j; cbn [find] in H.
  - destruct (starts_with p []) eqn:E; [discriminate|]. destruct j; exact E.
  - destruct (starts_with p (y :: s)) eqn:E; [discriminate|].
    destruct (find p s) eqn:F; [discriminate|].
    destruct j as [|j]; [exact E|]. cbn [skipn]. apply IH. reflexivity.
Qed.

(* if nothing matches before offset k, the search continues at k *)
Lemma find_skip : forall p s k, k <= length s ->
  (forall j, j < k -> starts_with p (skipn j s) = false) ->
  find p s = match find p (skipn k s) with Some i => Some (k + i) | None => None end.
Proof.
  intros p s k. revert s. induction k as [|k IH]; intros s Hk H.
  - cbn [skipn]. destruct (find p s); reflexivity.
  - destruct s as [|y s]; [cbn in Hk; lia|]. cbn [find skipn].
    pose proof (H 0 ltac:(lia)) as H0. cbn [skipn] in H0. rewrite H0.
    assert (Hk' : k <= length s) by (cbn in Hk; lia).
    assert (H' : forall j, j < k -> starts_with p (skipn j s) = false).
    { intros j Hj. apply (H (S j)). lia. }
    rewrite (IH s Hk' H').
    destruct (find p (skipn k s)); reflexivity.
Qed.

Lemma find_at_zero : forall p r, find p (p ++ r) = Some 0.
Proof. intros p r. destruct (p ++ r) eqn:E; cbn [find]; rewrite <- E, starts_with_app; reflexivity. Qed.

Lemma skipn_app_exact : forall A (a b : list A), skipn (length a) (a ++ b) = b.
Proof. intros A a b. induction a; cbn; auto. Qed.

Lemma skipn_app_lt : forall A (a b : list A) j, j <= length a -> skipn j (a ++ b) = skipn j a ++ b.
Proof.
  intros A a b j. revert a. induction j as [|j IH]; intros a H; [reflexivity|].
  destruct a as [|x a]; [cbn in H; lia|]. cbn [skipn app]. apply IH. cbn in H. lia.
Qed.
