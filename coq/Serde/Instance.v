(* Serde/Instance.v — the regenerated shapes (gen/Shapes.v) of every derived struct and enum meet the
   condition of the round-trip theorem: distinct JSON keys, flattened members resolved to an externally
   tagged enum (or the catch-all map of MT292 / MT296), untagged enums distinguishable by their keys. *)

From Coq Require Import Strings.String.
From SwiftMT Require Import Base.Bytes Base.StrOps Serde.Model.
From SwiftMT Require Export gen.Shapes.
From SwiftMT Require gen.Families.
Local Open Scope string_scope.

Definition resolve (n : bytes) : bytes := match lookup n gen.Families.field_aliases with Some y => y | None => n end.
Definition is_map (t : bytes) : bool := starts_with (bs "HashMap<") t.
Definition enum_keys (t : bytes) : option (list bytes) :=
  match lookup (resolve t) enums with
  | Some (EExternal, vs) => Some (map fst vs)
  | _ => None
  end.
Definition is_optional (w : wrap) : bool := match w with WOpt | WOptVec => true | _ => false end.
Definition kind_of (m : member) : option mkind :=
  if m_flatten m then
    match enum_keys (m_ty m) with Some ks => Some (KEnum ks (is_optional (m_wrap m))) | None => None end
  else Some (KField (m_key m) (is_optional (m_wrap m)) (negb (m_skip_none m))).
Definition struct_kinds (ms : list member) : list mkind :=
  flat_map (fun m => match kind_of m with Some k => [k] | None => [] end) ms.
Definition shape_ok (ms : list member) : bool :=
  nodupb (all_keys (struct_kinds ms))
  && forallb (fun m => negb (m_flatten m) || match enum_keys (m_ty m) with Some _ => true | None => is_map (m_ty m) end) ms
  && forallb (fun m => match m_alias m with [] => true | _ => false end) ms.
Definition shapes_ok : bool := forallb (fun p => shape_ok (snd p)) structs.
Definition external_enums_ok : bool :=
  forallb (fun p => match fst (snd p) with EExternal | EInternal _ => nodupb (map fst (snd (snd p))) | EUntagged => true end) enums.

(* #[serde(untagged)]: variants are tried in order; the JSON of a later variant must not satisfy an earlier one *)
Definition struct_of (t : bytes) : list member := match lookup (resolve t) structs with Some ms => ms | None => [] end.
Definition accepts_key (ms : list member) (k : bytes) : bool :=
  existsb (fun m => bytes_eqb (m_key m) k || (negb (match m_alias m with [] => true | _ => false end) && bytes_eqb (m_alias m) k)) ms.
Definition can_match (earlier later : list member) : bool :=
  forallb (fun m => is_optional (m_wrap m) || accepts_key later (m_key m)
                    || (negb (match m_alias m with [] => true | _ => false end) && accepts_key later (m_alias m))) earlier.
Fixpoint ordered_pairs_ok (vs : list (list member)) : bool :=
  match vs with
  | [] => true
  | a :: r => forallb (fun b => negb (can_match a b)) r && ordered_pairs_ok r
  end.
Definition untagged_ok : bool :=
  forallb (fun p => match fst (snd p) with
                    | EUntagged => ordered_pairs_ok (map (fun v => struct_of (snd v)) (snd (snd p)))
                    | _ => true end) enums.

Lemma gen_shapes_ok : shapes_ok = true.
Proof. vm_compute. reflexivity. Qed.
Lemma gen_external_enums_ok : external_enums_ok = true.
Proof. vm_compute. reflexivity. Qed.
Lemma gen_untagged_ok : untagged_ok = true.
Proof. vm_compute. reflexivity. Qed.

Lemma shape_nodup : forall S ms, In (S, ms) structs -> NoDup (all_keys (struct_kinds ms)).
Proof.
  intros S ms H. pose proof gen_shapes_ok as OK. unfold shapes_ok in OK. rewrite forallb_forall in OK.
  specialize (OK _ H). cbn [snd] in OK. unfold shape_ok in OK.
  do 2 (apply andb_true_iff in OK; destruct OK as [OK ?]). apply nodupb_NoDup. exact OK.
Qed.

Lemma structs_many : (140 <= List.length structs)%nat.
Proof. vm_compute. repeat constructor. Qed.
