(* Serde/Model.v — what #[derive(Serialize, Deserialize)] does with a struct, as far as losslessness goes
   (property C08), and the theorem that it loses nothing when the JSON keys of the struct — its own members'
   keys and the variant keys of every flattened option enum — are pairwise distinct.

   A struct value is a list of member values; a member is
     required / optional with its own key, or
     a flattened (optional) enum: one of several variant keys carries the payload.
   Payloads (nested structs, leaves, arrays) are opaque JSON values here: their own round trip is the same
   theorem one level down, or a leaf-codec lemma.  serde_json itself (object lookup by key, arrays in order)
   is part of the trusted base. *)

From Coq Require Import Strings.String Lia.
From SwiftMT Require Import Base.Bytes.

(* ---- what the translator emits *)
Inductive wrap := WReq | WOpt | WVec | WOptVec.
Record member := {
  m_key : bytes; m_flatten : bool; m_wrap : wrap; m_ty : bytes;
  m_skip_none : bool; m_custom : bytes; m_alias : bytes
}.
Inductive emode := EExternal | EInternal (tag : bytes) | EUntagged.

(* ---- the abstract view used by the theorem *)
Inductive mkind :=
| KField (key : bytes) (optional : bool) (null_when_absent : bool)   (* key: value ; an absent Option is skipped or written as null *)
| KEnum (keys : list bytes) (optional : bool).                       (* #[serde(flatten)] (Option<)enum(>): variant key: payload *)

Section RT.
Variable json : Type.
Variable jnull : json.
Variable is_null : json -> bool.
Hypothesis is_null_null : is_null jnull = true.

Inductive mval :=
| VField (v : option json)                 (* None only for an optional member *)
| VEnum (v : option (nat * json)).         (* variant index, payload *)

Definition obj := list (bytes * json).

(* a present value is never the JSON null (an Option<T> whose T serialises to null cannot round-trip: excluded, as in serde) *)
Definition val_ok (k : mkind) (v : mval) : bool :=
  match k, v with
  | KField _ opt _, VField None => opt
  | KField _ _ _, VField (Some j) => negb (is_null j)
  | KEnum keys opt, VEnum None => opt
  | KEnum keys _, VEnum (Some (i, j)) => Nat.ltb i (List.length keys) && negb (is_null j)
  | _, _ => false
  end.

Definition to_entries (k : mkind) (v : mval) : obj :=
  match k, v with
  | KField key _ nulls, VField None => if nulls then [(key, jnull)] else []
  | KField key _ _, VField (Some j) => [(key, j)]
  | KEnum keys _, VEnum (Some (i, j)) => match nth_error keys i with Some key => [(key, j)] | None => [] end
  | _, _ => []
  end.

Fixpoint to_json (ks : list mkind) (vs : list mval) : obj :=
  match ks, vs with
  | k :: ks', v :: vs' => to_entries k v ++ to_json ks' vs'
  | _, _ => []
  end.

Definition get (o : obj) (key : bytes) : option json :=
  match lookup key o with Some j => if is_null j then None else Some j | None => None end.

(* first variant key present *)
Fixpoint find_variant (o : obj) (keys : list bytes) (i : nat) : option (nat * json) :=
  match keys with
  | [] => None
  | key :: r => match get o key with Some j => Some (i, j) | None => find_variant o r (S i) end
  end.

Definition from_member (o : obj) (k : mkind) : option mval :=
  match k with
  | KField key opt _ =>
      match get o key with
      | Some j => Some (VField (Some j))
      | None => if opt then Some (VField None) else None
      end
  | KEnum keys opt =>
      match find_variant o keys 0 with
      | Some x => Some (VEnum (Some x))
      | None => if opt then Some (VEnum None) else None
      end
  end.

Fixpoint from_json (o : obj) (ks : list mkind) : option (list mval) :=
  match ks with
  | [] => Some []
  | k :: r => match from_member o k, from_json o r with
              | Some v, Some vs => Some (v :: vs)
              | _, _ => None
              end
  end.

Definition keys_of (k : mkind) : list bytes := match k with KField key _ _ => [key] | KEnum keys _ => keys end.
Definition all_keys (ks : list mkind) : list bytes := flat_map keys_of ks.

(* ---- lemmas *)
Lemma lookup_app_l : forall (A : Type) k (a b : list (bytes * A)) v, lookup k a = Some v -> lookup k (a ++ b) = Some v.
Proof.
  intros A k a b v. induction a as [|[k' v'] r IH]; cbn [lookup app]; [discriminate|].
  destruct (bytes_eqb k k'); [auto | exact IH].
Qed.
Lemma lookup_app_r : forall (A : Type) k (a b : list (bytes * A)), lookup k a = None -> lookup k (a ++ b) = lookup k b.
Proof.
  intros A k a b. induction a as [|[k' v'] r IH]; cbn [lookup app]; [reflexivity|].
  destruct (bytes_eqb k k'); [discriminate | exact IH].
Qed.
Lemma lookup_not_in : forall (A : Type) k (o : list (bytes * A)), ~ In k (map fst o) -> lookup k o = None.
Proof.
  intros A k o H. destruct (lookup k o) eqn:E; [|reflexivity]. exfalso. apply H.
  apply lookup_some_in in E. apply in_map_iff. exists (k, a). split; [reflexivity | exact E].
Qed.

Lemma nodup_app_r : forall (A : Type) (a b : list A), NoDup (a ++ b) -> NoDup b.
Proof. intros A a b. induction a as [|x r IH]; cbn [app]; intro H; [exact H|]. inversion H; subst. auto. Qed.
Lemma nodup_app_l : forall (A : Type) (a b : list A), NoDup (a ++ b) -> NoDup a.
Proof.
  intros A a b. induction a as [|x r IH]; cbn [app]; intro H; [constructor|]. inversion H as [|? ? Hn ND]; subst.
  constructor; [intro Hx; apply Hn; apply in_or_app; left; exact Hx | apply IH; exact ND].
Qed.

(* the entries of a member only use its own keys *)
Lemma entries_keys : forall k v x, In x (map fst (to_entries k v)) -> In x (keys_of k).
Proof.
  intros k v x H. destruct k as [key opt nulls | keys opt].
  - destruct v as [[j|] | e]; cbn [to_entries keys_of] in *; try destruct nulls; cbn in *; tauto.
  - destruct v as [f | [[i j]|]]; cbn [to_entries keys_of] in *; try (cbn in H; tauto).
    destruct (nth_error keys i) eqn:E; cbn in H; [|tauto]. destruct H as [H|[]]. subst. apply (nth_error_In _ _ E).
Qed.
Lemma json_keys : forall ks vs x, In x (map fst (to_json ks vs)) -> In x (all_keys ks).
Proof.
  induction ks as [|k r IH]; intros vs x H; [destruct vs; destruct H|]. destruct vs as [|v vs']; [destruct H|].
  cbn [to_json all_keys flat_map] in *. rewrite map_app in H. apply in_app_iff in H. apply in_or_app.
  destruct H as [H|H]; [left; apply (entries_keys k v x H) | right; apply (IH vs' x H)].
Qed.

Lemma get_other : forall o key, ~ In key (map fst o) -> get o key = None.
Proof. intros o key H. unfold get. rewrite (lookup_not_in _ _ _ H). reflexivity. Qed.

(* reading one member back from the object its own entries were put into *)
Lemma member_rt : forall k v rest,
  val_ok k v = true -> NoDup (keys_of k) -> (forall x, In x (keys_of k) -> ~ In x (map fst rest)) ->
  from_member (to_entries k v ++ rest) k = Some v.
Proof.
  intros k v rest Hok Hnd Hrest.
  destruct k as [key opt nulls | keys opt]; destruct v as [[j|] | [[i j]|]]; cbn [val_ok] in Hok; try discriminate.
  - (* present field *)
    cbn [to_entries from_member app]. unfold get. cbn [lookup]. rewrite bytes_eqb_refl.
    apply negb_true_iff in Hok. rewrite Hok. reflexivity.
  - (* absent optional field *)
    subst opt. cbn [to_entries from_member]. destruct nulls; cbn [app].
    + unfold get. cbn [lookup]. rewrite bytes_eqb_refl, is_null_null. reflexivity.
    + rewrite get_other; [reflexivity|]. apply Hrest. left. reflexivity.
  - (* a variant *)
    apply andb_true_iff in Hok. destruct Hok as [Hi Hj]. apply Nat.ltb_lt in Hi. apply negb_true_iff in Hj.
    cbn [to_entries from_member]. destruct (nth_error keys i) as [key|] eqn:E; [|apply nth_error_None in E; lia].
    cbn [app].
    assert (G : forall ks i0 base, NoDup ks -> (forall x, In x ks -> ~ In x (map fst rest)) -> nth_error ks i0 = Some key ->
                find_variant ((key, j) :: rest) ks base = Some (base + i0, j)).
    { clear E Hnd Hrest Hi. induction ks as [|k0 r IH]; intros i0 base ND HR E0; [destruct i0; discriminate|].
      destruct i0 as [|i'].
      - cbn in E0. inversion E0; subst k0. cbn [find_variant]. unfold get. cbn [lookup]. rewrite bytes_eqb_refl, Hj.
        rewrite Nat.add_0_r. reflexivity.
      - cbn [nth_error] in E0. cbn [find_variant]. inversion ND as [|? ? Hn ND']; subst.
        assert (Hne : bytes_eqb k0 key = false).
        { apply bytes_eqb_neq. intro; subst. apply Hn. apply (nth_error_In _ _ E0). }
        unfold get at 1. cbn [lookup]. rewrite Hne.
        rewrite (lookup_not_in _ _ _ (HR k0 (or_introl eq_refl))).
        rewrite (IH i' (S base) ND' (fun x Hx => HR x (or_intror Hx)) E0). f_equal. f_equal. lia. }
    rewrite (G keys i 0 Hnd Hrest E). reflexivity.
  - (* no variant *)
    subst opt. cbn [to_entries from_member app].
    assert (G : forall ks base, (forall x, In x ks -> ~ In x (map fst rest)) -> find_variant rest ks base = None).
    { induction ks as [|k0 r IH]; intros base HR; [reflexivity|]. cbn [find_variant].
      rewrite (get_other _ _ (HR k0 (or_introl eq_refl))). apply IH. intros x Hx. apply HR. right. exact Hx. }
    rewrite (G keys 0 Hrest). reflexivity.
Qed.

(* members that come BEFORE in the object do not disturb the lookup of a later member with different keys *)
Lemma from_member_skip : forall pre o k,
  (forall x, In x (keys_of k) -> ~ In x (map fst pre)) -> from_member (pre ++ o) k = from_member o k.
Proof.
  intros pre o k H. assert (G : forall key, In key (keys_of k) -> get (pre ++ o) key = get o key).
  { intros key Hk. unfold get. rewrite lookup_app_r; [reflexivity|]. apply lookup_not_in. apply H. exact Hk. }
  destruct k as [key opt nulls | keys opt]; cbn [from_member keys_of] in *.
  - rewrite (G key (or_introl eq_refl)). reflexivity.
  - assert (F : forall ks base, (forall x, In x ks -> In x keys) -> find_variant (pre ++ o) ks base = find_variant o ks base).
    { induction ks as [|k0 r IH]; intros base Hsub; [reflexivity|]. cbn [find_variant].
      rewrite (G k0 (Hsub k0 (or_introl eq_refl))). destruct (get o k0); [reflexivity|]. apply IH. intros x Hx. apply Hsub. right. exact Hx. }
    rewrite (F keys 0 (fun x Hx => Hx)). reflexivity.
Qed.

Fixpoint vals_ok (ks : list mkind) (vs : list mval) : bool :=
  match ks, vs with
  | [], [] => true
  | k :: ks', v :: vs' => val_ok k v && vals_ok ks' vs'
  | _, _ => false
  end.

(* THE round trip: distinct keys => every member value comes back, whatever the payloads are *)
Theorem struct_roundtrip : forall ks vs, vals_ok ks vs = true -> NoDup (all_keys ks) ->
  from_json (to_json ks vs) ks = Some vs.
Proof.
  assert (G : forall ks vs pre, vals_ok ks vs = true -> NoDup (all_keys ks) ->
              (forall x, In x (all_keys ks) -> ~ In x (map fst pre)) ->
              from_json (pre ++ to_json ks vs) ks = Some vs).
  { induction ks as [|k r IH]; intros vs pre Hok Hnd Hpre; destruct vs as [|v vs']; cbn [vals_ok] in Hok; try discriminate; [reflexivity|].
    apply andb_true_iff in Hok. destruct Hok as [Hv Hvs].
    cbn [all_keys flat_map] in Hnd, Hpre. fold (all_keys r) in Hnd, Hpre.
    pose proof (nodup_app_r _ _ _ Hnd) as Hnd_r.
    pose proof (nodup_app_l _ _ _ Hnd) as Hnd_k.
    cbn [from_json to_json].
    (* this member *)
    rewrite from_member_skip by (intros x Hx; apply Hpre; apply in_or_app; left; exact Hx).
    rewrite member_rt; [| exact Hv | exact Hnd_k |].
    2:{ intros x Hx Hin. apply json_keys in Hin. revert x Hx Hin. clear - Hnd.
        induction (keys_of k) as [|a l IHl]; intros x Hx Hin; [destruct Hx|]. cbn [app] in Hnd. inversion Hnd as [|? ? Hn ND]; subst.
        destruct Hx as [Hx|Hx]; [subst; apply Hn; apply in_or_app; right; exact Hin | exact (IHl ND x Hx Hin)]. }
    (* the remaining members: the entries of this member join the prefix *)
    rewrite app_assoc. rewrite IH; [reflexivity | exact Hvs | exact Hnd_r |].
    intros x Hx Hin. rewrite map_app in Hin. apply in_app_iff in Hin. destruct Hin as [Hin|Hin].
    - exact (Hpre x (in_or_app _ _ _ (or_intror Hx)) Hin).
    - apply entries_keys in Hin. revert Hnd Hin Hx. clear. induction (keys_of k) as [|a l IHl]; intros Hnd Hin Hx; [destruct Hin|].
      cbn [app] in Hnd. inversion Hnd as [|? ? Hn ND]; subst.
      destruct Hin as [Hin|Hin]; [subst; apply Hn; apply in_or_app; right; exact Hx | exact (IHl ND Hin Hx)]. }
  intros ks vs Hok Hnd. apply (G ks vs [] Hok Hnd). intros x _ [].
Qed.

End RT.
