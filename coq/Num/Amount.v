(* Num/Amount.v — amounts and rates:
   swift_utils::{parse_amount, parse_amount_with_currency, format_swift_amount,
   format_swift_amount_for_currency, get_currency_decimals (table regenerated in gen/Tables.v)},
   Rust's str::parse::<f64> on a plain decimal (correctly rounded, nearest-even) and `{:.k}`
   (exact expansion, half-even) as integer algorithms over Z.

   A binary64 value is represented as (m, e) = m * 2^e with m >= 0; amounts are never negative,
   infinite or NaN (that is one of the theorems), so signs and specials are not represented. *)

From SwiftMT Require Import Base.Bytes Base.StrOps.
From Coq Require Import ZArith Lia.
Local Open Scope Z_scope.

Definition is_sep (b : N) : bool := N.eqb b 44 || N.eqb b 46.     (* ',' or '.' *)

(* input.find([',', '.']) *)
Fixpoint split_sep (s : bytes) : bytes * option bytes :=
  match s with
  | [] => ([], None)
  | b :: r => if is_sep b then ([], Some r)
              else let '(i, f) := split_sep r in (b :: i, f)
  end.

Definition digits_val (s : bytes) : Z := fold_left (fun acc b => 10 * acc + (Z.of_N b - 48)) s 0.

(* parse_amount, up to the call of the float parser: Some (n, j) = the decimal n / 10^j *)
Definition parse_amount_dec (s : bytes) : option (Z * nat) :=
  if Nat.ltb 17 (length s) then None else
  let '(i, fo) := split_sep s in
  let f := match fo with Some f => f | None => [] end in
  match i with
  | [] => None
  | _ => if forallb ascii_digit i && forallb ascii_digit f
         then Some (digits_val (i ++ f), length f) else None
  end.

(* ---- binary64 as (mantissa, exponent) *)
Record b64 := { mant : Z; expo : Z }.

(* round-half-even of A / B for A >= 0, B > 0 *)
Definition rhe (A B : Z) : Z :=
  let q := A / B in let r := A mod B in
  if 2 * r <? B then q else if B <? 2 * r then q + 1 else if Z.even q then q else q + 1.

(* n * 2^s / d as a fraction with positive denominator, s of either sign *)
Definition scaled (n d s : Z) : Z * Z := if 0 <=? s then (n * 2 ^ s, d) else (n, d * 2 ^ (- s)).

(* str::parse::<f64> of the decimal n / d (n >= 0, d > 0): correctly rounded to nearest, ties to even.
   (Values here are far from the subnormal and overflow ranges.) *)
Definition round53 (n d : Z) : b64 :=
  if n =? 0 then {| mant := 0; expo := 0 |} else
  let s0 := 52 - (Z.log2 n - Z.log2 d) in
  let '(A0, B0) := scaled n d s0 in
  let q0 := A0 / B0 in
  let s := if q0 <? 2 ^ 52 then s0 + 1 else if 2 ^ 53 <=? q0 then s0 - 1 else s0 in
  let '(A, B) := scaled n d s in
  {| mant := rhe A B; expo := - s |}.

(* format!("{:.k}", x): the scaled integer round_half_even(x * 10^k) *)
Definition to_dec (k : nat) (x : b64) : Z :=
  if 0 <=? expo x then mant x * 2 ^ expo x * 10 ^ Z.of_nat k
  else rhe (mant x * 10 ^ Z.of_nat k) (2 ^ (- expo x)).

Definition parse_amount (s : bytes) : option b64 :=
  match parse_amount_dec s with
  | Some (n, j) => Some (round53 n (10 ^ Z.of_nat j))
  | None => None
  end.

(* parse_amount_with_currency: decimals written <= decimals of the currency *)
Definition parse_amount_with_currency (decimals_of : bytes -> nat) (s cur : bytes) : option b64 :=
  match parse_amount_dec s with
  | Some (n, j) => if Nat.leb j (decimals_of cur) then Some (round53 n (10 ^ Z.of_nat j)) else None
  | None => None
  end.

(* ---- printing: decimal digits of a non-negative integer, and `{:.k}` with ',' *)
Fixpoint digits_fuel (fuel : nat) (z : Z) (acc : bytes) : bytes :=
  match fuel with
  | O => acc
  | S f => let acc' := Z.to_N (48 + z mod 10) :: acc in
           if z / 10 =? 0 then acc' else digits_fuel f (z / 10) acc'
  end.
Definition show_nat (z : Z) : bytes := digits_fuel (S (Z.to_nat (Z.log2 z))) z [].
Definition pad_to (k : nat) (s : bytes) : bytes := repeat 48%N (k - length s) ++ s.

(* format_swift_amount(amount, k) = format!("{:.k}", amount).replace('.', ",") *)
Definition format_amount (k : nat) (x : b64) : bytes :=
  let Q := to_dec k x in
  match k with
  | O => show_nat Q
  | _ => show_nat (Q / 10 ^ Z.of_nat k) ++ [44%N] ++ pad_to k (show_nat (Q mod 10 ^ Z.of_nat k))
  end.

(* IEEE-754 bit pattern of a positive normal (m, e) — for comparison with f64::to_bits *)
Definition to_bits (x : b64) : Z :=
  if mant x =? 0 then 0 else
  let l := Z.log2 (mant x) in
  (* normalise the mantissa to 53 bits: value = m' * 2^e' with 2^52 <= m' < 2^53 *)
  let sh := 52 - l in
  let m' := if 0 <=? sh then mant x * 2 ^ sh else mant x / 2 ^ (- sh) in
  let e' := expo x - sh in
  (e' + 52 + 1023) * 2 ^ 52 + (m' - 2 ^ 52).
