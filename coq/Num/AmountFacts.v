(* Num/AmountFacts.v — C06: amounts are accepted only as plain decimals, are finite and
   non-negative, respect the currency's precision, and survive printing exactly:
   for every decimal n / 10^j whose k-decimal rendering has at most 15 digits,
   `{:.k}` of the nearest binary64 prints exactly n * 10^(k-j).  Integer arithmetic only. *)

From SwiftMT Require Import Base.Bytes Base.StrOps Num.Amount.
From Coq Require Import ZArith Lia.
Local Open Scope Z_scope.

(* ---- round-half-even *)
Lemma rhe_unique : forall A B N, 0 < B -> 2 * Z.abs (A - N * B) < B -> rhe A B = N.
Proof.
  intros A B N HB H. unfold rhe.
  pose proof (Z.div_mod A B ltac:(lia)) as E. pose proof (Z.mod_pos_bound A B HB) as R.
  set (q := A / B) in *. set (r := A mod B) in *.
  assert (HN : N = q \/ N = q + 1) by nia.
  destruct HN as [-> | ->].
  - assert (2 * r < B) by nia. destruct (2 * r <? B) eqn:E1; [reflexivity|apply Z.ltb_ge in E1; lia].
  - assert (B < 2 * r) by nia.
    destruct (2 * r <? B) eqn:E1; [apply Z.ltb_lt in E1; lia|].
    destruct (B <? 2 * r) eqn:E2; [reflexivity|apply Z.ltb_ge in E2; lia].
Qed.

Lemma rhe_near : forall A B, 0 < B -> 2 * Z.abs (rhe A B * B - A) <= B.
Proof.
  intros A B HB. unfold rhe.
  pose proof (Z.div_mod A B ltac:(lia)) as E. pose proof (Z.mod_pos_bound A B HB) as R.
  set (q := A / B) in *. set (r := A mod B) in *.
  destruct (2 * r <? B) eqn:E1; [apply Z.ltb_lt in E1; nia|apply Z.ltb_ge in E1].
  destruct (B <? 2 * r) eqn:E2; [apply Z.ltb_lt in E2; nia|apply Z.ltb_ge in E2].
  destruct (Z.even q); nia.
Qed.

Lemma rhe_range : forall A B, 0 < B -> A / B <= rhe A B <= A / B + 1.
Proof.
  intros A B HB. unfold rhe.
  destruct (2 * (A mod B) <? B); [lia|]. destruct (B <? 2 * (A mod B)); [lia|]. destruct (Z.even (A / B)); lia.
Qed.

(* ---- the nearest binary64 of n/d, for values below 2^52 *)
Lemma round53_shape : forall n d, 0 < n -> 0 < d -> n < 2 ^ 52 * d ->
  exists s, 0 <= s /\ round53 n d = {| mant := rhe (n * 2 ^ s) d; expo := - s |} /\
            2 ^ 52 <= n * 2 ^ s / d < 2 ^ 53.
Proof.
  intros n d Hn Hd Hlt. unfold round53.
  destruct (n =? 0) eqn:E0; [apply Z.eqb_eq in E0; lia|]. clear E0.
  pose proof (Z.log2_spec n Hn) as [Ln1 Ln2]. pose proof (Z.log2_spec d Hd) as [Ld1 Ld2].
  pose proof (Z.log2_nonneg n) as Lnn. pose proof (Z.log2_nonneg d) as Ldn.
  set (ln := Z.log2 n) in *. set (ld := Z.log2 d) in *.
  set (s0 := 52 - (ln - ld)).
  assert (Hs0 : 0 <= s0).
  { unfold s0. assert (ln <= ld + 52); [|lia].
    apply Z.lt_succ_r. apply (Z.pow_lt_mono_r_iff 2); [lia|lia|].
    replace (2 ^ Z.succ (ld + 52)) with (2 ^ 52 * 2 ^ (Z.succ ld)) by (rewrite <- Z.pow_add_r by lia; f_equal; lia).
    nia. }
  assert (Hpow : 2 ^ ln * 2 ^ s0 = 2 ^ 52 * 2 ^ ld).
  { rewrite <- !Z.pow_add_r by lia. f_equal. unfold s0. lia. }
  assert (HP : 0 < 2 ^ s0) by (apply Z.pow_pos_nonneg; lia).
  assert (Hs1 : 2 ^ (s0 + 1) = 2 * 2 ^ s0) by (rewrite Z.pow_add_r by lia; lia).
  set (P := 2 ^ s0) in *.
  assert (Hlo : 2 ^ 51 * d < n * P + 1).
  { replace (2 ^ Z.succ ld) with (2 * 2 ^ ld) in Ld2 by (rewrite Z.pow_succ_r by lia; reflexivity). nia. }
  assert (Hhi : n * P < 2 ^ 53 * d).
  { replace (2 ^ Z.succ ln) with (2 * 2 ^ ln) in Ln2 by (rewrite Z.pow_succ_r by lia; reflexivity). nia. }
  unfold scaled at 1. destruct (0 <=? s0) eqn:Es0; [|apply Z.leb_gt in Es0; lia]. fold P.
  assert (Hq0lo : 2 ^ 51 <= n * P / d) by (apply Z.div_le_lower_bound; lia).
  assert (Hq0hi : n * P / d < 2 ^ 53) by (apply Z.div_lt_upper_bound; lia).
  destruct (n * P / d <? 2 ^ 52) eqn:Eq0.
  - apply Z.ltb_lt in Eq0.
    assert (HnP : n * P < 2 ^ 52 * d).
    { pose proof (Z.div_mod (n * P) d ltac:(lia)). pose proof (Z.mod_pos_bound (n * P) d Hd). nia. }
    exists (s0 + 1). split; [lia|]. unfold scaled.
    destruct (0 <=? s0 + 1) eqn:Es1; [|apply Z.leb_gt in Es1; lia]. split; [reflexivity|].
    rewrite Hs1. split; [apply Z.div_le_lower_bound; nia|apply Z.div_lt_upper_bound; nia].
  - apply Z.ltb_ge in Eq0.
    destruct (2 ^ 53 <=? n * P / d) eqn:Eq1; [apply Z.leb_le in Eq1; lia|]. clear Eq1.
    exists s0. split; [exact Hs0|]. unfold scaled. rewrite Es0. fold P. split; [reflexivity|lia].
Qed.

Lemma round53_spec : forall n d, 0 < n -> 0 < d -> n < 2 ^ 52 * d ->
  0 <= - expo (round53 n d) /\ 2 ^ 52 <= mant (round53 n d) <= 2 ^ 53 /\
  2 * Z.abs (mant (round53 n d) * d - n * 2 ^ (- expo (round53 n d))) <= d.
Proof.
  intros n d Hn Hd Hlt. destruct (round53_shape n d Hn Hd Hlt) as [s [Hs [-> Hq]]].
  cbn [mant expo]. replace (- - s) with s by lia.
  pose proof (rhe_range (n * 2 ^ s) d Hd) as Rg. pose proof (rhe_near (n * 2 ^ s) d Hd) as Nr.
  repeat split; lia.
Qed.

(* ---- printing the nearest binary64 of a short decimal gives the decimal back *)
Theorem print_exact : forall n j k, 0 <= n -> (j <= k)%nat ->
  n * 10 ^ Z.of_nat (k - j) < 10 ^ 15 ->
  to_dec k (round53 n (10 ^ Z.of_nat j)) = n * 10 ^ Z.of_nat (k - j).
Proof.
  intros n j k Hn Hjk Hsmall.
  set (d := 10 ^ Z.of_nat j). set (c := 10 ^ Z.of_nat (k - j)). set (K := 10 ^ Z.of_nat k).
  assert (Hd : 0 < d) by (apply Z.pow_pos_nonneg; lia).
  assert (Hc : 0 < c) by (apply Z.pow_pos_nonneg; lia).
  assert (HK : K = d * c).
  { unfold K, d, c. rewrite <- Z.pow_add_r by lia. f_equal. lia. }
  destruct (Z.eq_dec n 0) as [->|Hn0].
  - unfold round53. cbn [Z.eqb]. unfold to_dec. cbn [expo mant]. cbn. reflexivity.
  - assert (Hnpos : 0 < n) by lia.
    assert (Hval : n < 2 ^ 52 * d).
    { assert (n * c < 2 ^ 52) by (fold c in Hsmall; lia). nia. }
    pose proof (round53_spec n d Hnpos Hd Hval) as [Hs [[Hm1 Hm2] Hnear]].
    set (x := round53 n d) in *. set (s := - expo x) in *.
    assert (HS : 0 < 2 ^ s) by (apply Z.pow_pos_nonneg; lia).
    set (S2 := 2 ^ s) in *.
    (* 10^k < 2^s : otherwise the value would be at least 2^52 - 1/2 > n * c *)
    assert (HKS : K < S2).
    { destruct (Z.lt_ge_cases K S2) as [|Hge]; [assumption|exfalso].
      assert ((2 ^ 53 - 1) * d <= 2 * n * S2) by nia.
      assert (2 * n * S2 <= 2 * n * K) by nia.
      assert (n * c < 2 ^ 52) by (fold c in Hsmall; lia). nia. }
    unfold to_dec.
    destruct (0 <=? expo x) eqn:Ee.
    + (* expo = 0, i.e. s = 0: then S2 = 1 and K < 1, impossible *)
      apply Z.leb_le in Ee. assert (s = 0) by (unfold s; lia).
      assert (S2 = 1) by (unfold S2; rewrite H; reflexivity).
      assert (0 < K) by (apply Z.pow_pos_nonneg; lia). lia.
    + fold s. fold S2. fold K. apply rhe_unique; [exact HS|].
      (* |m K - n c S2| * d = K * |m d - n S2| <= K d / 2, and K < S2 *)
      assert (Hid : (mant x * K - n * c * S2) * d = K * (mant x * d - n * S2)) by (rewrite HK; ring).
      assert (2 * Z.abs (mant x * K - n * c * S2) <= K).
      { assert (Z.abs ((mant x * K - n * c * S2) * d) = K * Z.abs (mant x * d - n * S2)).
        { rewrite Hid. rewrite Z.abs_mul. rewrite (Z.abs_eq K); [reflexivity|]. rewrite HK. nia. }
        rewrite Z.abs_mul in H. rewrite (Z.abs_eq d) in H by lia. nia. }
      lia.
Qed.

(* ---- grammar: what parse_amount accepts *)
Lemma split_sep_app : forall s i f, split_sep s = (i, f) ->
  forallb (fun b => negb (is_sep b)) i = true /\
  match f with
  | Some f' => exists c, is_sep c = true /\ s = i ++ c :: f'
  | None => s = i
  end.
Proof.
  induction s as [|b r IH]; intros i f H; cbn [split_sep] in H.
  - inversion H; subst. split; reflexivity.
  - destruct (is_sep b) eqn:Eb.
    + inversion H; subst. split; [reflexivity|]. exists b. split; [exact Eb|reflexivity].
    + destruct (split_sep r) as [i' f'] eqn:Er. inversion H; subst.
      destruct (IH i' f eq_refl) as [H1 H2]. split.
      * cbn [forallb]. rewrite Eb. exact H1.
      * destruct f as [f''|]; [destruct H2 as [c [Hc ->]]; exists c; split; [exact Hc|reflexivity]|subst; reflexivity].
Qed.

(* accepted => at most 17 bytes, one or more digits, then optionally one separator and digits:
   no sign, no exponent, no "inf", no "NaN", no leading separator *)
Theorem amount_grammar : forall s n j, parse_amount_dec s = Some (n, j) ->
  (length s <= 17)%nat /\
  exists i f, i <> [] /\ forallb ascii_digit i = true /\ forallb ascii_digit f = true /\ length f = j /\
    n = digits_val (i ++ f) /\
    (s = i /\ f = [] \/ exists c, is_sep c = true /\ s = i ++ c :: f).
Proof.
  intros s n j H. unfold parse_amount_dec in H.
  destruct (Nat.ltb 17 (length s)) eqn:El; [discriminate|]. apply PeanoNat.Nat.ltb_ge in El.
  destruct (split_sep s) as [i fo] eqn:Es.
  destruct i as [|b i']; [discriminate|].
  destruct (split_sep_app _ _ _ Es) as [_ Hs].
  set (f := match fo with Some f => f | None => [] end) in *.
  destruct (forallb ascii_digit (b :: i') && forallb ascii_digit f) eqn:Ed; [|discriminate].
  apply andb_true_iff in Ed. destruct Ed as [Di Df]. inversion H; subst n j. split; [exact El|].
  exists (b :: i'), f.
  repeat split; try assumption; try discriminate.
  unfold f. destruct fo as [f'|]; [right; exact Hs|left; split; [exact Hs|reflexivity]].
Qed.

Lemma digits_val_nonneg_acc : forall s acc, 0 <= acc -> forallb ascii_digit s = true ->
  0 <= fold_left (fun a b => 10 * a + (Z.of_N b - 48)) s acc.
Proof.
  induction s as [|b r IH]; intros acc Ha H; cbn [fold_left]; [exact Ha|].
  cbn [forallb] in H. apply andb_true_iff in H. destruct H as [Hb Hr].
  apply IH; [|exact Hr]. unfold ascii_digit in Hb. apply andb_true_iff in Hb. destruct Hb as [H1 _].
  apply N.leb_le in H1. lia.
Qed.

Lemma digits_val_bound_acc : forall s acc, 0 <= acc -> forallb ascii_digit s = true ->
  fold_left (fun a b => 10 * a + (Z.of_N b - 48)) s acc < (acc + 1) * 10 ^ Z.of_nat (length s).
Proof.
  induction s as [|b r IH]; intros acc Ha H; cbn [fold_left length].
  - cbn. lia.
  - cbn [forallb] in H. apply andb_true_iff in H. destruct H as [Hb Hr].
    unfold ascii_digit in Hb. apply andb_true_iff in Hb. destruct Hb as [H1 H2].
    apply N.leb_le in H1. apply N.leb_le in H2.
    assert (Ha' : 0 <= 10 * acc + (Z.of_N b - 48)) by lia.
    pose proof (IH _ Ha' Hr) as IH'.
    rewrite Nat2Z.inj_succ, Z.pow_succ_r by lia.
    assert (0 < 10 ^ Z.of_nat (length r)) by (apply Z.pow_pos_nonneg; lia). nia.
Qed.

(* accepted => finite, non-negative, below 10^17 (as a decimal: n / 10^j with n < 10^17) *)
Theorem amount_finite_nonneg : forall s n j, parse_amount_dec s = Some (n, j) -> 0 <= n < 10 ^ 17.
Proof.
  intros s n j H. destruct (amount_grammar s n j H) as [Hl [i [f [Hi [Di [Df [Hj [Hn Hs]]]]]]]].
  assert (Dif : forallb ascii_digit (i ++ f) = true) by (rewrite forallb_app, Di, Df; reflexivity).
  subst n. unfold digits_val. split.
  - apply digits_val_nonneg_acc; [lia|exact Dif].
  - pose proof (digits_val_bound_acc (i ++ f) 0 ltac:(lia) Dif) as B.
    assert (Hlen : (length (i ++ f) <= 17)%nat).
    { rewrite app_length. destruct Hs as [[-> ->]|[c [_ ->]]]; [cbn; lia|rewrite app_length in Hl; cbn in Hl; lia]. }
    assert (10 ^ Z.of_nat (length (i ++ f)) <= 10 ^ 17) by (apply Z.pow_le_mono_r; lia). lia.
Qed.

(* a currency's precision bounds the decimals that were written *)
Theorem currency_precision : forall dec s cur x, parse_amount_with_currency dec s cur = Some x ->
  exists n j, parse_amount_dec s = Some (n, j) /\ (j <= dec cur)%nat /\ x = round53 n (10 ^ Z.of_nat j).
Proof.
  intros dec s cur x H. unfold parse_amount_with_currency in H.
  destruct (parse_amount_dec s) as [[n j]|]; [|discriminate].
  destruct (Nat.leb j (dec cur)) eqn:E; [|discriminate]. apply PeanoNat.Nat.leb_le in E.
  inversion H; subst. exists n, j. repeat split; assumption.
Qed.

(* the whole path: an accepted amount printed with k >= its own decimals and at most 15
   digits is printed as exactly the decimal that was read (padded with zeros) *)
Theorem accepted_prints_exact : forall s n j k x, parse_amount_dec s = Some (n, j) ->
  parse_amount s = Some x -> (j <= k)%nat -> n * 10 ^ Z.of_nat (k - j) < 10 ^ 15 ->
  to_dec k x = n * 10 ^ Z.of_nat (k - j).
Proof.
  intros s n j k x Hd Hp Hjk Hs. unfold parse_amount in Hp. rewrite Hd in Hp. inversion Hp; subst.
  apply print_exact; [|exact Hjk|exact Hs]. exact (proj1 (amount_finite_nonneg s n j Hd)).
Qed.
