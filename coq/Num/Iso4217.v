(* Num/Iso4217.v — the ISO 4217 minor-unit table written by hand (specification), and the
   theorem that the table regenerated from get_currency_decimals is the same function of the
   currency code, for EVERY code. *)

From Coq Require Import Strings.String.
From SwiftMT Require Import Base.Bytes.
From SwiftMT Require gen.Tables.

(* ISO 4217 (2024 list): currencies whose minor unit is not 2 *)
Definition iso_minor_units : list (bytes * nat) :=
  map (fun c => (bs c, 0)) ["BIF"; "CLP"; "DJF"; "GNF"; "ISK"; "JPY"; "KMF"; "KRW"; "PYG"; "RWF"; "UGX"; "UYI"; "VND"; "VUV"; "XAF"; "XOF"; "XPF"]%string
  ++ map (fun c => (bs c, 3)) ["BHD"; "IQD"; "JOD"; "KWD"; "LYD"; "OMR"; "TND"]%string
  ++ map (fun c => (bs c, 4)) ["CLF"; "UYW"]%string.

Definition decimals_of (t : list (bytes * nat)) (default : nat) (cur : bytes) : nat :=
  match lookup cur t with Some n => n | None => default end.

Definition spec_decimals : bytes -> nat := decimals_of iso_minor_units 2.
Definition gen_decimals : bytes -> nat :=
  decimals_of gen.Tables.currency_decimals gen.Tables.currency_decimals_default.

Definition same_table (a b : list (bytes * nat)) : bool :=
  forallb (fun kv => match lookup (fst kv) b with Some n => Nat.eqb n (snd kv) | None => false end) a.

Definition tables_agree : bool :=
  same_table gen.Tables.currency_decimals iso_minor_units
  && same_table iso_minor_units gen.Tables.currency_decimals
  && nodupb (map fst gen.Tables.currency_decimals)
  && Nat.eqb gen.Tables.currency_decimals_default 2
  && gen.Tables.format_for_currency_uses_table.

Lemma gen_tables_agree : tables_agree = true.
Proof. vm_compute. reflexivity. Qed.

Lemma lookup_first : forall (t : list (bytes * nat)) k v, lookup k t = Some v -> In (k, v) t.
Proof. intros. apply lookup_some_in. assumption. Qed.

Lemma same_table_lookup : forall a b k v, same_table a b = true -> lookup k a = Some v -> lookup k b = Some v.
Proof.
  intros a b k v H L. unfold same_table in H. rewrite forallb_forall in H.
  specialize (H (k, v) (lookup_some_in _ _ _ _ L)). cbn [fst snd] in H.
  destruct (lookup k b) as [n|]; [|discriminate]. apply PeanoNat.Nat.eqb_eq in H. subst. reflexivity.
Qed.

Theorem decimals_agree : forall cur, gen_decimals cur = spec_decimals cur.
Proof.
  intro cur. pose proof gen_tables_agree as T. unfold tables_agree in T.
  do 4 (apply andb_true_iff in T; destruct T as [T ?]).
  match goal with Hd : Nat.eqb _ 2 = true |- _ => apply PeanoNat.Nat.eqb_eq in Hd; rename Hd into Hdef end.
  unfold gen_decimals, spec_decimals, decimals_of. rewrite Hdef.
  destruct (lookup cur gen.Tables.currency_decimals) as [n|] eqn:E1.
  - rewrite (same_table_lookup _ _ _ _ T E1). reflexivity.
  - destruct (lookup cur iso_minor_units) as [m|] eqn:E2; [|reflexivity].
    match goal with Hs : same_table iso_minor_units _ = true |- _ => rewrite (same_table_lookup _ _ _ _ Hs E2) in E1 end.
    discriminate.
Qed.
