(* Valid/Instance.v — the regenerated validator shapes are well-formed and the
   adapters have the recognised form.  Re-checked against gen/ on every run. *)

From Coq Require Import Strings.String.
From SwiftMT Require Import Base.Bytes Valid.Aggregate.
From SwiftMT Require gen.Dispatch.

Definition all_types : list bytes := map (fun c => bs "MT" ++ bs c)
  ["101"; "103"; "104"; "107"; "110"; "111"; "112"; "190"; "191"; "192"; "196"; "199";
   "200"; "202"; "204"; "205"; "210"; "290"; "291"; "292"; "296"; "299";
   "900"; "910"; "920"; "935"; "940"; "941"; "942"; "950"]%string.

Definition shapes_ok : bool :=
  forallb (fun p => wf_groups (snd p)) validator_shapes
  && forallb (fun p => snd p) stop_aware_callees
  && forallb (fun T => match lookup T validator_shapes with Some _ => true | None => false end) all_types
  && forallb (fun p => mem (fst p) all_types) validator_shapes.

Definition adapters_ok : bool :=
  swift_message_validate_is_full_rules
  && plugin_validate_verdict_is_emptiness
  && forallb (fun p => snd p) trait_delegates
  && forallb (fun T => match lookup T trait_delegates with Some b => b | None => false end) all_types
  && forallb (fun p => snd p) gen.Dispatch.wrapper_validate_delegates
  && forallb (fun p => snd p) gen.Dispatch.plugin_validate_full_rules
  && gen.Dispatch.plugin_validate_uses_auto.

(* the rule code of every type is a function of the message: no site where the result could
   depend on hash-iteration order, the clock, an RNG or interior-mutable state *)
Definition rules_deterministic : bool :=
  forallb (fun p => match snd p with [] => true | _ :: _ => false end) nondeterminism_sites
  && forallb (fun T => match lookup T nondeterminism_sites with Some _ => true | None => false end) all_types.

Lemma gen_rules_deterministic : rules_deterministic = true.
Proof. vm_compute. reflexivity. Qed.

Lemma gen_shapes_ok : shapes_ok = true.
Proof. vm_compute. reflexivity. Qed.

Lemma gen_adapters_ok : adapters_ok = true.
Proof. vm_compute. reflexivity. Qed.

Lemma shape_wf : forall T gs, In (T, gs) validator_shapes -> wf_groups gs = true.
Proof.
  intros T gs H. pose proof gen_shapes_ok as OK. unfold shapes_ok in OK.
  do 3 (apply andb_true_iff in OK; destruct OK as [OK ?]).
  rewrite forallb_forall in OK. apply (OK (T, gs) H).
Qed.

Lemma every_type_has_shape : forall T, In T all_types -> exists gs, In (T, gs) validator_shapes.
Proof.
  intros T HT. pose proof gen_shapes_ok as OK. unfold shapes_ok in OK.
  do 3 (apply andb_true_iff in OK; destruct OK as [OK ?]).
  match goal with Hf : forallb _ all_types = true |- _ => rewrite forallb_forall in Hf; specialize (Hf T HT) end.
  destruct (lookup T validator_shapes) as [gs|] eqn:E; [|discriminate].
  exists gs. apply lookup_some_in. exact E.
Qed.

(* the message-level adapters, as far as C13 is concerned: a verdict computed from the
   full (stop = false) list by emptiness, errors mapped one to one in order *)
Section Adapters.
Variable err : Type.
Variable opt_of : bytes -> option err.
Variable vec_of : bytes -> list err.
Variable cands_of : bytes -> list (option err).
Variable code_of : err -> bytes.

Definition full (gs : list vgroup) := validate err opt_of vec_of cands_of gs false.
Definition stopped (gs : list vgroup) := validate err opt_of vec_of cands_of gs true.

(* SwiftMessage::validate (and ParsedSwiftMessage::validate, which delegates) *)
Definition message_validate (gs : list vgroup) : bool * list bytes :=
  let errors := map code_of (full gs) in (is_nil errors, errors).
(* plugin validate_mt on a message that parses *)
Definition plugin_verdict (gs : list vgroup) : bool := is_nil (map code_of (full gs)).

Lemma is_nil_map : forall A B (f : A -> B) l, is_nil (map f l) = is_nil l.
Proof. intros A B f [|x l]; reflexivity. Qed.

Lemma adapters_agree : forall gs, wf_groups gs = true ->
  fst (message_validate gs) = plugin_verdict gs /\
  (fst (message_validate gs) = true <-> full gs = []) /\
  (fst (message_validate gs) = true <-> stopped gs = []) /\
  snd (message_validate gs) = map code_of (full gs).
Proof.
  intros gs Hwf. unfold message_validate, plugin_verdict. cbn [fst snd].
  rewrite is_nil_map.
  destruct (validate_prefix err opt_of vec_of cands_of gs Hwf) as [_ Hnil].
  fold (full gs) in Hnil. fold (stopped gs) in Hnil.
  split; [reflexivity|]. split; [apply is_nil_spec|]. split; [|reflexivity].
  rewrite is_nil_spec. symmetry. exact Hnil.
Qed.
End Adapters.
