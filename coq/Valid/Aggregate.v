(* Valid/Aggregate.v — the aggregation performed by every `validate_network_rules`
   (messages/mt*.rs), as a program over the group shapes regenerated in
   gen/ValidatorShapes.v, and the generic C13 theorem: for ANY results of the rule
   functions, the stop-on-first-error run returns a prefix of the full run, empty
   exactly when the full run is empty.

   A rule function is one of
     - Option-returning, flag-oblivious            (opt_of name)
     - Vec-returning, flag-oblivious               (vec_of name)
     - Vec-returning, receives the flag, and has the sequential shape
       "push; if stop { return }" checked by the translator: it is determined by a
       list of candidate errors (cands_of name): all of them without the flag, the
       first one with it. *)

From SwiftMT Require Import Base.Bytes.
From SwiftMT Require Export gen.ValidatorShapes.

Section Agg.
Variable err : Type.
Variable opt_of : bytes -> option err.
Variable vec_of : bytes -> list err.
Variable cands_of : bytes -> list (option err).

Fixpoint all_somes (l : list (option err)) : list err :=
  match l with
  | [] => []
  | Some e :: r => e :: all_somes r
  | None :: r => all_somes r
  end.

Fixpoint first_some (l : list (option err)) : list err :=
  match l with
  | [] => []
  | Some e :: _ => [e]
  | None :: r => first_some r
  end.

Definition is_nil {A} (l : list A) : bool := match l with [] => true | _ => false end.

Definition run_vec (name : bytes) (passes_flag stop : bool) : list err :=
  if passes_flag then (if stop then first_some (cands_of name) else all_somes (cands_of name))
  else vec_of name.

(* the body of validate_network_rules: [acc] is `all_errors` *)
Fixpoint exec (gs : list vgroup) (stop : bool) (acc : list err) : list err :=
  match gs with
  | [] => acc
  | GOpt n checks :: r =>
      match opt_of n with
      | Some e => let acc' := acc ++ [e] in
                  if checks && stop then acc' else exec r stop acc'
      | None => exec r stop acc
      end
  | GVec n pf checks :: r =>
      let acc' := acc ++ run_vec n pf stop in
      if checks && stop && negb (is_nil acc') then acc' else exec r stop acc'
  end.

Definition validate (gs : list vgroup) (stop : bool) : list err := exec gs stop [].

Inductive prefix {A} : list A -> list A -> Prop :=
| prefix_nil : forall l, prefix [] l
| prefix_cons : forall x a b, prefix a b -> prefix (x :: a) (x :: b).

Lemma prefix_refl : forall A (l : list A), prefix l l.
Proof. induction l; constructor; assumption. Qed.

Lemma prefix_app : forall A (a b : list A), prefix a (a ++ b).
Proof. induction a; cbn; intros; constructor; auto. Qed.

Lemma prefix_trans : forall A (a b c : list A), prefix a b -> prefix b c -> prefix a c.
Proof.
  intros A a b c H. revert c. induction H; intros c Hc.
  - constructor.
  - inversion Hc; subst. constructor. apply IHprefix. assumption.
Qed.

Lemma prefix_app_l : forall A (p a b : list A), prefix a b -> prefix (p ++ a) (p ++ b).
Proof. induction p; cbn; intros; [assumption|constructor; auto]. Qed.

Lemma prefix_iff_app : forall A (a b : list A), prefix a b <-> exists t, b = a ++ t.
Proof.
  intros A a b. split.
  - induction 1 as [l|x a b H [t IH]]; [exists l; reflexivity|exists t; cbn; congruence].
  - intros [t ->]. apply prefix_app.
Qed.

Lemma first_all_prefix : forall l, prefix (first_some l) (all_somes l).
Proof. induction l as [|[e|] r IH]; cbn; try constructor; auto. constructor. Qed.

Lemma first_all_nil : forall l, first_some l = [] <-> all_somes l = [].
Proof. induction l as [|[e|] r IH]; cbn; split; intro H; try reflexivity; try discriminate; apply IH; exact H. Qed.

(* accumulated errors are never lost *)
Lemma exec_extends : forall gs stop acc, prefix acc (exec gs stop acc).
Proof.
  induction gs as [|g r IH]; intros stop acc; cbn [exec].
  - apply prefix_refl.
  - destruct g as [n checks|n pf checks].
    + destruct (opt_of n) as [e|].
      * destruct (checks && stop).
        -- apply prefix_app.
        -- eapply prefix_trans; [apply prefix_app|apply IH].
      * apply IH.
    + destruct (checks && stop && negb (is_nil (acc ++ run_vec n pf stop))).
      * apply prefix_app.
      * eapply prefix_trans; [apply prefix_app|apply IH].
Qed.

Lemma prefix_nonnil : forall A (a b : list A), prefix a b -> a <> [] -> b <> [].
Proof. intros A a b H Ha Hb. subst. inversion H. subst. contradiction. Qed.

Lemma is_nil_spec : forall A (l : list A), is_nil l = true <-> l = [].
Proof. intros A [|x l]; cbn; split; intro H; try reflexivity; discriminate. Qed.

Lemma run_vec_prefix : forall n pf, prefix (run_vec n pf true) (run_vec n pf false).
Proof. intros n [|]; unfold run_vec; [apply first_all_prefix|apply prefix_refl]. Qed.

Lemma run_vec_nil : forall n pf, run_vec n pf true = [] <-> run_vec n pf false = [].
Proof. intros n [|]; unfold run_vec; [apply first_all_nil|tauto]. Qed.

(* well-formedness of a shape: a callee that receives the flag is followed by the
   early-return test (otherwise the two runs accumulate different lists and a later
   group's errors would not extend a prefix) *)
Definition wf_group (g : vgroup) : bool :=
  match g with
  | GVec _ true checks => checks
  | _ => true
  end.
Definition wf_groups (gs : list vgroup) : bool := forallb wf_group gs.

Lemma app_nil_both : forall A (a b : list A), a ++ b = [] -> a = [] /\ b = [].
Proof. intros A [|x a] b H; [auto|discriminate]. Qed.

Lemma exec_prefix : forall gs a, wf_groups gs = true ->
  prefix (exec gs true a) (exec gs false a) /\ (exec gs true a = [] <-> exec gs false a = []).
Proof.
  induction gs as [|g r IH]; intros a Hwf; cbn [exec].
  - split; [apply prefix_refl|tauto].
  - cbn [wf_groups forallb] in Hwf. apply andb_true_iff in Hwf. destruct Hwf as [Hg Hr].
    destruct g as [n checks|n pf checks].
    + destruct (opt_of n) as [e|]; [|apply IH; exact Hr].
      rewrite andb_false_r, andb_true_r. destruct checks; [|apply IH; exact Hr].
      pose proof (exec_extends r false (a ++ [e])) as Hext. split.
      * exact Hext.
      * split; intro H.
        -- apply app_nil_both in H. destruct H as [_ H]. discriminate.
        -- exfalso. apply (prefix_nonnil _ _ _ Hext); [|exact H].
           intro Hl. apply app_nil_both in Hl. destruct Hl as [_ Hl]. discriminate.
    + rewrite andb_false_r, andb_true_r. cbn [andb].
      destruct pf.
      * (* the callee receives the flag; wf: checks = true *)
        cbn [wf_group] in Hg. subst checks. cbn [andb].
        destruct (is_nil (a ++ run_vec n true true)) eqn:En; cbn [negb].
        -- apply is_nil_spec in En. apply app_nil_both in En. destruct En as [Ha Hv]. subst a.
           apply run_vec_nil in Hv. rewrite Hv. cbn [app].
           replace (run_vec n true true) with (@nil err) by (symmetry; apply run_vec_nil; exact Hv).
           apply IH. exact Hr.
        -- assert (Hne : a ++ run_vec n true true <> []).
           { intro H. apply is_nil_spec in H. congruence. }
           pose proof (exec_extends r false (a ++ run_vec n true false)) as Hext.
           assert (Hp : prefix (a ++ run_vec n true true) (exec r false (a ++ run_vec n true false))).
           { eapply prefix_trans; [apply prefix_app_l; apply run_vec_prefix|exact Hext]. }
           split; [exact Hp|]. split; intro H; [contradiction|].
           exfalso. apply (prefix_nonnil _ _ _ Hp Hne). exact H.
      * (* flag-oblivious callee: both runs append the same list *)
        unfold run_vec at 1 2 3. cbn [run_vec].
        destruct checks; cbn [andb]; [|apply IH; exact Hr].
        destruct (is_nil (a ++ vec_of n)) eqn:En; cbn [negb]; [apply IH; exact Hr|].
        assert (Hne : a ++ vec_of n <> []).
        { intro H. apply is_nil_spec in H. congruence. }
        pose proof (exec_extends r false (a ++ vec_of n)) as Hext.
        split; [exact Hext|]. split; intro H; [contradiction|].
        exfalso. apply (prefix_nonnil _ _ _ Hext Hne). exact H.
Qed.

Theorem validate_prefix : forall gs, wf_groups gs = true ->
  prefix (validate gs true) (validate gs false) /\
  (validate gs true = [] <-> validate gs false = []).
Proof. intros gs H. unfold validate. apply exec_prefix. exact H. Qed.

End Agg.
