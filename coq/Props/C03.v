(* Props/C03.v — Every well-formed message of a supported type is accepted and reproduced
   exactly.  PARTIAL: what is proved, for every regenerated layout, is that acceptance and the
   parsed structure depend on the text only through its TAG SEQUENCE and the field parsers'
   verdicts, and that whatever is accepted is reproduced exactly.  So for each structure
   (which optional fields, which option letters, how many repetitions) one accepted
   representative settles ALL messages of that structure, whatever their field contents.
   NOT proved: that every tag sequence of the independent specification (spec/mt_layouts.json)
   is accepted.  That inclusion is explored by enumeration of structures on the library and on
   the extracted model (stream spec) and is therefore bounded in the number of repetitions. *)

From SwiftMT Require Import Base.Bytes Engine.Layout Engine.Tokens Engine.Facts Engine.Replay Engine.Instance Engine.Extract Engine.Factor Engine.FactorInstance.

(* one accepted message of a structure => every message with the same tags whose contents the
   same field parsers accept is accepted, with the same field types, letters and tags in order *)
Theorem C03_structure_decides_partial : forall T L, In (T, L) all_layouts ->
  forall fparse fuel toks1 toks2 its1,
  map fst toks1 = map fst toks2 ->
  trun fparse fuel L toks1 = Accept its1 ->
  Forall2 (fun it t2 => fparse (i_ty it) (i_letter it) (snd t2) = true) its1 toks2 ->
  (forall it t2 ty l, In (it, t2) (combine its1 toks2) -> fparse ty l (i_content it) = true -> fparse ty l (snd t2) = true) ->
  exists its2, trun fparse fuel L toks2 = Accept its2 /\ Forall2 same_slot its1 its2 /\ map tok_of its2 = toks2.
Proof.
  intros T L H fparse fuel toks1 toks2 its1 Htags Hrun _ Hmono.
  pose proof (layout_wf T L H) as W.
  destruct (accept_exact fparse L fuel toks1 its1 W Hrun) as [Hex _].
  assert (Hle : Forall2 (tok_le fparse) toks1 toks2).
  { subst toks1. clear Hrun. revert toks2 Htags Hmono.
    induction its1 as [|it r IH]; intros [|t2 r2] Htags Hmono; cbn in Htags; try discriminate; [constructor|].
    inversion Htags as [[Ha Hb]]. constructor.
    - split; [exact Ha|]. intros ty l Hp. apply (Hmono it t2 ty l); [left; reflexivity|exact Hp].
    - apply IH; [exact Hb|]. intros it' t' ty l Hin. apply Hmono. right. exact Hin. }
  unfold wf_layout in W. apply andb_true_iff in W.
  destruct (replay_accept fparse L fuel toks1 toks2 its1 (proj1 W) Hle Hrun) as [its2 [Hrun2 Hs]].
  exists its2. split; [exact Hrun2|]. split; [exact Hs|].
  pose proof (layout_wf T L H) as W2.
  exact (proj1 (accept_exact fparse L fuel toks2 its2 W2 Hrun2)).
Qed.

(* whatever is accepted is reproduced exactly: the items are the text's field occurrences *)
Theorem C03_accepted_is_reproduced : forall T L, In (T, L) all_layouts ->
  forall fparse fuel toks its, trun fparse fuel L toks = Accept its -> map tok_of its = toks.
Proof.
  exact (fun T L H fparse fuel toks its Hr => proj1 (accept_exact fparse L fuel toks its (layout_wf T L H) Hr)).
Qed.

(* byte level: an accepted canonical text is reproduced byte for byte from the parsed items *)
Theorem C03_accepted_is_reproduced_bytes : forall T L, In (T, L) all_layouts ->
  forall crlf fparse fuel w toks its, aws w = true -> forallb tok_ok toks = true ->
  brun fparse fuel L (w ++ render crlf toks) = Accept its ->
  w ++ render crlf (map tok_of its) = w ++ render crlf toks.
Proof.
  intros T L H crlf fparse fuel w toks its Hw Ht Hr.
  exact (proj2 (proj2 (accept_exact_bytes T L H crlf fparse fuel w toks its Hw Ht Hr))).
Qed.

Print Assumptions C03_structure_decides_partial.
Print Assumptions C03_accepted_is_reproduced.
Print Assumptions C03_accepted_is_reproduced_bytes.
