(* Props/C03.v — Every well-formed message of a supported type is accepted and reproduced
   exactly.  PARTIAL: what is proved, for every regenerated layout, is that acceptance and the
   parsed structure depend on the text only through its TAG SEQUENCE and the field parsers'
   verdicts, and that whatever is accepted is reproduced exactly.  So for each structure
   (which optional fields, which option letters, how many repetitions) one accepted
   representative settles ALL messages of that structure, whatever their field contents.
   NOT proved: that every tag sequence of the independent specification (spec/mt_layouts.json)
   is accepted.  That inclusion is explored by enumeration of structures on the library and on
   the extracted model (stream spec) and is therefore bounded in the number of repetitions. *)

From Coq Require Import Strings.String.
From SwiftMT Require Import Base.Bytes Engine.Layout Engine.Tokens Engine.Facts Engine.Replay Engine.Instance Engine.Extract Engine.Factor Engine.FactorInstance Engine.Regex Engine.Abs Engine.AbsSound Engine.Total Engine.AbsInstance Engine.AbsCommon Engine.AbsResult gen.Specs Engine.AbsBytes.

(* one accepted message of a structure => every message with the same tags whose contents the
   same field parsers accept is accepted, with the same field types, letters and tags in order *)
Theorem C03_structure_decides_partial : forall T L, In (T, L) all_layouts ->
  forall fparse fuel toks1 toks2 its1,
  map fst toks1 = map fst toks2 ->
  trun fparse fuel L toks1 = Accept its1 ->
  Forall2 (fun it t2 => fparse (i_ty it) (i_letter it) (snd t2) = true) its1 toks2 ->
  (forall it t2 ty l, In (it, t2) (combine its1 toks2) -> fparse ty l (i_content it) = true -> fparse ty l (snd t2) = true) ->
  exists its2, trun fparse fuel L toks2 = Accept its2 /\ Forall2 same_slot its1 its2 /\ map tok_of its2 = toks2.
Proof.
  intros T L H fparse fuel toks1 toks2 its1 Htags Hrun _ Hmono.
  pose proof (layout_wf T L H) as W.
  destruct (accept_exact fparse L fuel toks1 its1 W Hrun) as [Hex _].
  assert (Hle : Forall2 (tok_le fparse) toks1 toks2).
  { subst toks1. clear Hrun. revert toks2 Htags Hmono.
    induction its1 as [|it r IH]; intros [|t2 r2] Htags Hmono; cbn in Htags; try discriminate; [constructor|].
    inversion Htags as [[Ha Hb]]. constructor.
    - split; [exact Ha|]. intros ty l Hp. apply (Hmono it t2 ty l); [left; reflexivity|exact Hp].
    - apply IH; [exact Hb|]. intros it' t' ty l Hin. apply Hmono. right. exact Hin. }
  unfold wf_layout in W. apply andb_true_iff in W.
  destruct (replay_accept fparse L fuel toks1 toks2 its1 (proj1 W) Hle Hrun) as [its2 [Hrun2 Hs]].
  exists its2. split; [exact Hrun2|]. split; [exact Hs|].
  pose proof (layout_wf T L H) as W2.
  exact (proj1 (accept_exact fparse L fuel toks2 its2 W2 Hrun2)).
Qed.

(* whatever is accepted is reproduced exactly: the items are the text's field occurrences *)
Theorem C03_accepted_is_reproduced : forall T L, In (T, L) all_layouts ->
  forall fparse fuel toks its, trun fparse fuel L toks = Accept its -> map tok_of its = toks.
Proof.
  exact (fun T L H fparse fuel toks its Hr => proj1 (accept_exact fparse L fuel toks its (layout_wf T L H) Hr)).
Qed.

(* byte level: an accepted canonical text is reproduced byte for byte from the parsed items *)
Theorem C03_accepted_is_reproduced_bytes : forall T L, In (T, L) all_layouts ->
  forall crlf fparse fuel w toks its, aws w = true -> forallb tok_ok toks = true ->
  brun fparse fuel L (w ++ render crlf toks) = Accept its ->
  w ++ render crlf (map tok_of its) = w ++ render crlf toks.
Proof.
  intros T L H crlf fparse fuel w toks its Hw Ht Hr.
  exact (proj2 (proj2 (accept_exact_bytes T L H crlf fparse fuel w toks its Hw Ht Hr))).
Qed.

(* INCLUSION, unbounded.  The independent specification of a type (spec/mt_layouts.json rendered as a tag expression,
   gen/Specs.v: a finite union of tag expressions, [spec_lang]) is a regular language over full tags.  For the 24 types not listed in inclusion_open: EVERY text whose
   tag sequence is a word of the specification -- any number of repetitions, any combination of optional fields and option
   letters -- and whose tokens are good is accepted by the regenerated layout and reproduced token for token.
   A token is good when every field parser the layout may apply to its tag answers as expected on its content: a plain
   field parser accepts, an option family accepts exactly the letters it has an arm for (C14).
   Proved by an abstract interpretation of the layout over the residuals of the expression (Engine/Abs.v), whose
   soundness with respect to the interpreter is Engine/AbsSound.v and whose verdict on the regenerated layouts is
   re-computed on every run (gen_inclusion_ok). *)
Theorem C03_specification_is_accepted : forall T L alts,
  lookup T all_layouts = Some L -> lookup T specs = Some alts -> mem T inclusion_open = false ->
  forall fparse toks, spec_lang alts (map fst toks) -> Forall (good_token fparse L) toks ->
  forall f, lsize L + List.length toks + 1 <= f ->
  exists its, trun fparse f L toks = Accept its /\ map tok_of its = toks.
Proof. exact spec_inclusion. Qed.

(* for the open types (except MT204, of whose specification no word is accepted): the specification minus the listed
   deviations (spec/mt_layouts_restricted.json: MT940 without 25P / 60M / 62M / final 86, with 1..500 statement lines;
   MT196 without 11a; MT101/104/107 with at most one of the two field-50 roles per place, in MT101 sequence B an ordering
   customer only after an instructing party) IS accepted, unboundedly *)
Theorem C03_restricted_specification_is_accepted : forall T L alts,
  lookup T all_layouts = Some L -> lookup T specs_restricted = Some alts ->
  forall fparse toks, spec_lang alts (map fst toks) -> Forall (good_token fparse L) toks ->
  forall f, lsize L + List.length toks + 1 <= f ->
  exists its, trun fparse f L toks = Accept its /\ map tok_of its = toks.
Proof. exact spec_inclusion_restricted. Qed.

(* the general statement: any layout that passes the analysis accepts every good word of the expression *)
Theorem C03_analysis_is_sound : forall fparse fp U n L R, includes fp U n L R = true -> loops_ok L = true ->
  forall toks, matches R (map fst toks) -> Forall (good fparse fp U) toks ->
  forall f, lsize L + List.length toks + 1 <= f -> exists its, trun fparse f L toks = Accept its.
Proof. exact includes_accepts. Qed.

(* membership in the specification is decidable, by the matcher the correspondence runs use *)
Theorem C03_specification_membership : forall w r, matchb r w = true <-> matches r w.
Proof. exact matchb_spec. Qed.

(* the six open types are open for a reason: each has a word of its specification, with good tokens, that its layout
   rejects (the listed findings C03-mt940-25p, C03-mt204-field-order, C03-mt196-11a, C03-mt101/104/107 two fields 50) *)
Local Open Scope string_scope.
Local Open Scope list_scope.
Definition spec_word_rejected (T : string) (tags : list string) : Prop :=
  let toks := map (fun t => (bs t, bs "X")) tags in
  match lookup (bs T) specs, lookup (bs T) all_layouts with
  | Some alts, Some L => existsb (fun R => matchb R (map fst toks)) alts = true /\ (exists e, trun model_fparse 400 L toks = Reject e)
  | _, _ => False
  end.
Theorem C03_inclusion_refuted_for_open_types :
  spec_word_rejected "MT940" ["20"; "25P"; "28C"; "60F"; "61"; "62F"] /\
  spec_word_rejected "MT204" ["20"; "19"; "30"; "20"; "32B"; "53A"] /\
  spec_word_rejected "MT196" ["20"; "21"; "76"; "11R"] /\
  spec_word_rejected "MT101" ["20"; "28D"; "50C"; "50F"; "30"; "21"; "32B"; "59"; "71A"].
Proof. vm_compute. repeat split; try reflexivity; eexists; reflexivity. Qed.

(* MT204 (open): the layout reads field 19 before field 20, the specification has 20 first: every good text of the
   specification is rejected, not only the witness above *)
Theorem C03_mt204_rejects_every_word_of_its_specification : forall L alts,
  lookup (bs "MT204") all_layouts = Some L -> lookup (bs "MT204") specs = Some alts ->
  forall fparse toks, spec_lang alts (map fst toks) -> Forall (good_token fparse L) toks ->
  forall f, lsize L + List.length toks + 1 <= f -> exists e, trun fparse f L toks = Reject e.
Proof. exact mt204_rejects_its_specification. Qed.

(* the inclusion for the byte-level cursor on canonical texts (Props/C01.v) *)
Theorem C03_specification_is_accepted_bytes : forall T L alts,
  lookup T all_layouts = Some L -> lookup T specs = Some alts -> mem T inclusion_open = false ->
  forall crlf fparse w toks, aws w = true -> forallb tok_ok toks = true ->
  spec_lang alts (map fst toks) -> Forall (good_token fparse L) toks ->
  forall f, lsize L + List.length toks + 1 <= f ->
  exists its, brun fparse f L (w ++ render crlf toks) = Accept its /\ map tok_of its = toks.
Proof. exact spec_inclusion_bytes. Qed.

Print Assumptions C03_structure_decides_partial.
Print Assumptions C03_accepted_is_reproduced.
Print Assumptions C03_accepted_is_reproduced_bytes.
Print Assumptions C03_specification_is_accepted.
Print Assumptions C03_analysis_is_sound.
Print Assumptions C03_specification_membership.
Print Assumptions C03_inclusion_refuted_for_open_types.
Print Assumptions C03_restricted_specification_is_accepted.
Print Assumptions C03_mt204_rejects_every_word_of_its_specification.
Print Assumptions C03_specification_is_accepted_bytes.
