(* Props/C17.v — Reject / return / cover classification follows the codes present,
   consistently.  Property theorems only; for all messages and all upper-casing oracles. *)

From SwiftMT Require Import Base.Bytes Base.StrOps Classify.Model Classify.Facts.
From Coq Require Import Strings.String.

Theorem C17_reject_iff : forall U m, supports (c_ty m) = true -> known_short_codes m = false ->
  has_reject U m = carries_reject U m.
Proof. exact reject_iff. Qed.

Theorem C17_return_iff : forall U m, supports (c_ty m) = true -> known_short_codes m = false ->
  has_return U m = carries_return U m.
Proof. exact return_iff. Qed.

Theorem C17_return_only_is_not_reject : forall U m, supports (c_ty m) = true -> known_short_codes m = false ->
  carries_return U m = true -> carries_reject U m = false -> has_reject U m = false /\ has_return U m = true.
Proof. exact return_only_not_reject. Qed.

Theorem C17_same_across_types : forall U m t1 t2, supports t1 = true -> supports t2 = true ->
  known_short_codes (with_ty m t1) = false -> known_short_codes (with_ty m t2) = false ->
  has_reject U (with_ty m t1) = has_reject U (with_ty m t2) /\
  has_return U (with_ty m t1) = has_return U (with_ty m t2).
Proof. exact same_across_types. Qed.

Theorem C17_other_types : forall U m, c_ty m = TOther ->
  f72_reject m = false /\ f72_return m = false /\ is_cover m = false /\ plugin_method U m = MNormal.
Proof. exact others_field72_never. Qed.

Theorem C17_method_is_implied : forall U m, supports (c_ty m) = true ->
  plugin_method U m =
  method_spec (c_ty m)
    (has_reject U m || match c_ty m with T103 => false | _ => flag_is m "REJT" end)
    (has_return U m || match c_ty m with T103 => false | _ => flag_is m "RETN" end)
    (is_cover m || flag_is m "COV") (c_stp m).
Proof. exact method_is_implied. Qed.

(* the known class is inhabited and is exactly where the full statement fails (witness) *)
Example C17_short_code_witness : exists m, c_ty m = T202 /\ known_short_codes m = true /\
  has_reject (fun _ => []) m = true /\ carries_reject (fun _ => []) m = false.
Proof.
  exists {| c_ty := T202; c_lines72 := [bs "/RJT/AC01"]; c_mur := None; c_flag := None; c_seqb_cust := false; c_stp := false |}.
  vm_compute. repeat split; reflexivity.
Qed.

Print Assumptions C17_reject_iff.
Print Assumptions C17_return_iff.
Print Assumptions C17_return_only_is_not_reject.
Print Assumptions C17_same_across_types.
Print Assumptions C17_other_types.
Print Assumptions C17_method_is_implied.
