(* Props/C07.v — Parsing is total: any input gives a value or an error, never a panic or hang.
   Property theorems only.  What a proof about the model can carry is termination of the modelled loops and
   the shape of their results; panics of the Rust code and wall-clock time are explored by the stream `total`
   (see lib/c07.py and DESIGN.md: the level claimed for C07 is partial). *)

From Coq Require Import Strings.String.
From SwiftMT Require Import Base.Bytes Base.StrOps Legacy.Block4Map Legacy.Total Fmt.Model Fmt.Facts Headers.Hdr12 Headers.Hdr12Facts Engine.Layout Engine.Tokens Engine.Extract Engine.Total Engine.TotalInstance Engine.Defs.

Local Open Scope string_scope.
Local Open Scope list_scope.

(* the field-map tokeniser terminates on every text: entries or the structured "malformed field tag" error, never out of fuel *)
Theorem C07_tokeniser_total : forall b, parse_block4_fields b <> TOutOfFuel.
Proof. exact parse_block4_fields_total. Qed.
Theorem C07_tokeniser_loop_progress : forall fuel content cp fp line acc,
  List.length content - cp < fuel -> tok_loop fuel content cp fp line acc <> TOutOfFuel.
Proof. exact tok_loop_fuel. Qed.

(* the format recogniser, a structural recursion over the format, decides every string (no fuel at all) *)
Theorem C07_recogniser_decides : forall f s, accepts f s = true \/ accepts f s = false.
Proof. intros f s. destruct (accepts f s); [left | right]; reflexivity. Qed.

(* block 1 / block 2: every string is either rejected or accepted with the documented length: no third outcome *)
Theorem C07_header_outcomes : forall s, (parse_b1 s = None \/ exists h, parse_b1 s = Some h) /\ (parse_b2 s = None \/ exists h, parse_b2 s = Some h).
Proof. intro s. split; [destruct (parse_b1 s) as [h|] | destruct (parse_b2 s) as [h|]]; try (right; eexists; reflexivity); left; reflexivity. Qed.

(* the cursor interpreter (the 30 parse_from_block4 bodies as regenerated) answers on EVERY byte string: with
   enough fuel the outcome is accept, reject or stuck, never out of fuel.  The byte cursor is field_extractor.rs /
   MessageParser as transcribed (Engine/Extract.v); the measure is the length of the remaining text, which every
   successful extraction strictly shortens; every regenerated loop has a mandatory consuming call at the top level
   of its body (checked on the regenerated layouts by computation: gen_layouts_progress). *)
Theorem C07_layouts_terminate_on_every_text : forall fparse T L (text : bytes), In (T, L) all_layouts ->
  exists f, forall g, f <= g -> brun fparse g L text <> OutOfFuel.
Proof. exact layout_never_out_of_fuel_bytes. Qed.

Theorem C07_layouts_terminate_on_every_token_list : forall fparse T L toks, In (T, L) all_layouts ->
  exists f, forall g, f <= g -> trun fparse g L toks <> OutOfFuel.
Proof. exact layout_never_out_of_fuel. Qed.

(* the general statement behind both: any cursor whose extraction shrinks a size, any layout whose loops progress *)
Theorem C07_progress_implies_termination :
  forall (C : Type) (detect : C -> bytes -> bool) (extract : C -> bytes -> option (bytes * C)) (complete : C -> bool) (size : C -> nat),
  (forall c tag x c', extract c tag = Some (x, c') -> size c' < size c) ->
  forall fparse ss (s : st C), loops_ok ss = true ->
  exists f, forall g, f <= g -> exec C detect extract complete fparse g ss s <> FOutOfFuel C.
Proof. exact exec_terminates. Qed.

(* an explicit, linear bound: fuel = size of the layout + length of the text + 1 is enough for any cursor, and the
   fuel the extracted runner uses for the correspondence (4 * length + 2000) is enough for all 30 layouts *)
Theorem C07_linear_fuel_is_enough :
  forall (C : Type) (detect : C -> bytes -> bool) (extract : C -> bytes -> option (bytes * C)) (complete : C -> bool) (size : C -> nat),
  (forall c tag x c', extract c tag = Some (x, c') -> size c' < size c) ->
  forall fparse f ss (s : st C), loops_ok ss = true -> lsize ss + size (cur s) + 1 <= f ->
  exec C detect extract complete fparse f ss s <> FOutOfFuel C.
Proof. exact exec_fuel_bound. Qed.

Theorem C07_runner_fuel_is_enough : forall fparse T L (text : bytes), In (T, L) all_layouts ->
  forall g, 4 * List.length text + 2000 <= g -> brun fparse g L text <> OutOfFuel.
Proof. exact runner_fuel_suffices. Qed.

(* the syntactic condition is needed: a loop without a mandatory call runs out of every fuel *)
Theorem C07_no_progress_loop_diverges : forall fparse f,
  texec fparse f [SWhile (CNot (CDetect (bs "20"))) []] (init (list tok) []) = FOutOfFuel _.
Proof. exact no_progress_loop_diverges. Qed.

Print Assumptions C07_tokeniser_total.
Print Assumptions C07_tokeniser_loop_progress.
Print Assumptions C07_recogniser_decides.
Print Assumptions C07_header_outcomes.
Print Assumptions C07_layouts_terminate_on_every_text.
Print Assumptions C07_layouts_terminate_on_every_token_list.
Print Assumptions C07_progress_implies_termination.
Print Assumptions C07_no_progress_loop_diverges.
Print Assumptions C07_linear_fuel_is_enough.
Print Assumptions C07_runner_fuel_is_enough.
