(* Props/C07.v — Parsing is total: any input gives a value or an error, never a panic or hang.
   Property theorems only.  What a proof about the model can carry is termination of the modelled loops and
   the shape of their results; panics of the Rust code and wall-clock time are explored by the stream `total`
   (see lib/c07.py and DESIGN.md: the level claimed for C07 is partial). *)

From SwiftMT Require Import Base.Bytes Base.StrOps Legacy.Block4Map Legacy.Total Fmt.Model Fmt.Facts Headers.Hdr12 Headers.Hdr12Facts.

(* the field-map tokeniser terminates on every text: entries or the structured "malformed field tag" error, never out of fuel *)
Theorem C07_tokeniser_total : forall b, parse_block4_fields b <> TOutOfFuel.
Proof. exact parse_block4_fields_total. Qed.
Theorem C07_tokeniser_loop_progress : forall fuel content cp fp line acc,
  List.length content - cp < fuel -> tok_loop fuel content cp fp line acc <> TOutOfFuel.
Proof. exact tok_loop_fuel. Qed.

(* the format recogniser, a structural recursion over the format, decides every string (no fuel at all) *)
Theorem C07_recogniser_decides : forall f s, accepts f s = true \/ accepts f s = false.
Proof. intros f s. destruct (accepts f s); [left | right]; reflexivity. Qed.

(* block 1 / block 2: every string is either rejected or accepted with the documented length: no third outcome *)
Theorem C07_header_outcomes : forall s, (parse_b1 s = None \/ exists h, parse_b1 s = Some h) /\ (parse_b2 s = None \/ exists h, parse_b2 s = Some h).
Proof. intro s. split; [destruct (parse_b1 s) as [h|] | destruct (parse_b2 s) as [h|]]; try (right; eexists; reflexivity); left; reflexivity. Qed.

Print Assumptions C07_tokeniser_total.
Print Assumptions C07_tokeniser_loop_progress.
Print Assumptions C07_recogniser_decides.
Print Assumptions C07_header_outcomes.
