(* Props/C05.v — Field parsers accept exactly their documented SWIFT format.
   Property theorems only.  The recogniser [accepts] is what the correspondence run compares every field parser
   with; these theorems say what it decides, for every format and every string. *)

From Coq Require Import Strings.String.
From SwiftMT Require Import Base.Bytes Base.StrOps Fmt.Model Fmt.Facts Fmt.Instance.

(* accepted exactly when the WHOLE content has the documented format (component lengths, classes, optional parts,
   line counts, calendar dates, currency, BIC shape, slashes) *)
Theorem C05_accepts_iff_whole_content_matches : forall f s, accepts f s = true <-> Matches f s.
Proof. exact accepts_spec. Qed.

(* nothing ignored or truncated: a content whose prefix has the format but which as a whole has not is rejected *)
Theorem C05_no_accepted_prefix : forall f p rest, Matches f p -> ~ Matches f (p ++ rest) -> accepts f (p ++ rest) = false.
Proof. exact rejects_unless_whole. Qed.

Theorem C05_struct_format : forall T f r s, lookup T field_formats = Some (f, r) ->
  (struct_accepts T s = Some true <-> Matches f s /\ rule_holds r s = true).
Proof. exact struct_accepts_spec. Qed.

(* all 114 field types (89 structs + 25 option families regenerated from src/fields) have a documented format in the table *)
Theorem C05_every_field_type_has_a_format : every_type_has_format = true.
Proof. exact gen_every_type_has_format. Qed.

(* non-vacuity: documented examples are accepted, near misses are not *)
Example C05_examples :
  format_accepts (bs "Field32A") (bs "260930USD1250,50") = Some true
  /\ format_accepts (bs "Field32A") (bs "260931USD1250,50") = Some false
  /\ format_accepts (bs "Field32A") (bs "260930USD1250.50") = Some false
  /\ format_accepts (bs "Field59") (bs "/12345678" ++ [nl] ++ bs "JOHN DOE") = Some true
  /\ format_accepts (bs "Field52A") (bs "DEUTDEFF" ++ [nl] ++ bs "EXTRA LINE") = Some false
  /\ format_accepts (bs "Field20") (bs "REF//1") = Some false
  /\ format_accepts (bs "Field70") (bs "A" ++ [nl] ++ bs "B" ++ [nl] ++ bs "C" ++ [nl] ++ bs "D" ++ [nl] ++ bs "E") = Some false.
Proof. vm_compute. repeat split. Qed.

Print Assumptions C05_accepts_iff_whole_content_matches.
Print Assumptions C05_no_accepted_prefix.
Print Assumptions C05_struct_format.
Print Assumptions C05_every_field_type_has_a_format.
Print Assumptions C05_examples.
