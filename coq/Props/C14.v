(* Props/C14.v — Field option letters decide the variant and are preserved.
   Property theorems only.  [positions] = every (message type, family, base tag) at which a
   regenerated layout reads a field with option detection; the families are regenerated from
   src/fields on every run.  Payload parsers, the heuristics' guards and the value type are arbitrary. *)

From SwiftMT Require Import Base.Bytes Family.Model Family.Facts Family.Instance.

(* every position's family is well-formed for its base tag: every variant has a letter arm, every arm's
   payload prints base ++ letter, printing delegates to the payload, the heuristic's return sites wrap
   the result of the payload parser they name, applied to the content itself *)
Theorem C14_every_position_well_formed : bad_positions = [].
Proof. exact gen_positions_ok. Qed.

(* the letter written in the message decides: an accepted value is the variant that prints the tag read *)
Theorem C14_letter_decides : forall T fam base, In (T, (fam, base)) positions ->
  exists f, family_named fam = Some f /\
  forall (value : Type) pparse guard altarg l c v (x : value),
    parse_named value pparse guard altarg ptag f base l c = Some (v, x) -> vtag ptag f v = base ++ l.
Proof.
  intros T fam base HI. destruct (position_wf T fam base HI) as [f [Hf _]].
  exists f. split; [exact Hf|]. intros value pparse guard altarg l c v x H.
  exact (named_tag value pparse guard altarg ptag f base l c v x H).
Qed.

(* a letter of the family selects exactly that option's parser: accepted iff it accepts, with its value *)
Theorem C14_own_letter_selects_its_parser : forall T fam base, In (T, (fam, base)) positions ->
  exists f, family_named fam = Some f /\
  forall (value : Type) pparse guard altarg l c p v, In (letter_opt l, p, v) (f_arms f) ->
    parse_named value pparse guard altarg ptag f base l c
    = match pparse p c with Some x => Some (v, x) | None => None end.
Proof.
  intros T fam base HI. destruct (position_wf T fam base HI) as [f [Hf [WF _]]].
  exists f. split; [exact Hf|]. intros value pparse guard altarg l c p v Ha.
  exact (named_own_letter value pparse guard altarg ptag f base l c p v WF Ha).
Qed.

(* a letter the family does not have, or no letter when it has no letter-less option, is rejected:
   parsing never yields a variant other than the one named by the tag *)
Theorem C14_foreign_letter_rejected : forall T fam base, In (T, (fam, base)) positions ->
  exists f, family_named fam = Some f /\
  forall (value : Type) pparse guard altarg l c, find_arm (letter_opt l) (f_arms f) = None ->
    parse_named value pparse guard altarg ptag f base l c = None.
Proof.
  intros T fam base HI. destruct (position_wf T fam base HI) as [f [Hf [WF _]]].
  exists f. split; [exact Hf|]. intros value pparse guard altarg l c Hn.
  exact (named_foreign_letter value pparse guard altarg ptag f base l c WF Hn).
Qed.

(* parsed without a letter, any variant returned is one whose own parser accepts that content ... *)
Theorem C14_heuristic_sound : forall T fam base, In (T, (fam, base)) positions ->
  exists f, family_named fam = Some f /\
  forall (value : Type) pparse guard altarg c v (x : value),
    heval value pparse guard altarg (f_heur f) c = Some (v, x) ->
    exists p, payload_of_variant f v = Some p /\ pparse p c = Some x.
Proof.
  intros T fam base HI. destruct (position_wf T fam base HI) as [f [Hf [WF HO]]].
  exists f. split; [exact Hf|]. intros value pparse guard altarg c v x H.
  exact (heuristic_sound value pparse guard altarg ptag f base c v x WF HO H).
Qed.

(* ... and re-reading its printed content under its own letter gives the same value, whenever the
   payload parser re-accepts that printed content with the same value (the field-level round trip) *)
Theorem C14_heuristic_reparse : forall T fam base, In (T, (fam, base)) positions ->
  exists f, family_named fam = Some f /\
  forall (value : Type) pparse guard altarg v (x : value) p c',
    payload_of_variant f v = Some p ->
    In (letter_opt (skipn (List.length base) (ptag p)), p, v) (f_arms f) ->
    pparse p c' = Some x ->
    parse_named value pparse guard altarg ptag f base (skipn (List.length base) (ptag p)) c' = Some (v, x).
Proof.
  intros T fam base HI. destruct (position_wf T fam base HI) as [f [Hf [WF _]]].
  exists f. split; [exact Hf|]. intros value pparse guard altarg v x p c' Hp Ha Hre.
  exact (heuristic_reparse value pparse guard altarg ptag f base v x p c' WF Hp Ha Hre).
Qed.

Theorem C14_positions_exist : (80 <= List.length positions)%nat.
Proof. exact positions_nonempty. Qed.

Print Assumptions C14_every_position_well_formed.
Print Assumptions C14_letter_decides.
Print Assumptions C14_own_letter_selects_its_parser.
Print Assumptions C14_foreign_letter_rejected.
Print Assumptions C14_heuristic_sound.
Print Assumptions C14_heuristic_reparse.
Print Assumptions C14_positions_exist.
