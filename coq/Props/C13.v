(* Props/C13.v — Validation entry points are coherent, order-stable and side-effect free.
   Property theorems only. *)

From SwiftMT Require Import Base.Bytes Valid.Aggregate Valid.Instance.

(* for every one of the 30 regenerated validator bodies and ANY behaviour of the rule
   functions it calls (any number of errors per rule, any combination of violated rules):
   the stop-on-first-error list is a prefix of the full list, empty exactly when it is *)
Theorem C13_stop_is_prefix : forall T gs, In (T, gs) validator_shapes ->
  forall (err : Type) (opt_of : bytes -> option err) (vec_of : bytes -> list err)
         (cands_of : bytes -> list (option err)),
  prefix (validate err opt_of vec_of cands_of gs true) (validate err opt_of vec_of cands_of gs false) /\
  (validate err opt_of vec_of cands_of gs true = [] <-> validate err opt_of vec_of cands_of gs false = []).
Proof.
  exact (fun T gs H err o v c => validate_prefix err o v c gs (shape_wf T gs H)).
Qed.

Theorem C13_every_type_covered : forall T, In T all_types -> exists gs, In (T, gs) validator_shapes.
Proof. exact every_type_has_shape. Qed.

(* validity flag, wrapper result and plugin verdict are the emptiness of the full list *)
Theorem C13_adapters_agree : forall T gs, In (T, gs) validator_shapes ->
  forall (err : Type) opt_of vec_of cands_of (code_of : err -> bytes),
  fst (message_validate err opt_of vec_of cands_of code_of gs) = plugin_verdict err opt_of vec_of cands_of code_of gs /\
  (fst (message_validate err opt_of vec_of cands_of code_of gs) = true <-> full err opt_of vec_of cands_of gs = []) /\
  (fst (message_validate err opt_of vec_of cands_of code_of gs) = true <-> stopped err opt_of vec_of cands_of gs = []) /\
  snd (message_validate err opt_of vec_of cands_of code_of gs) = map code_of (full err opt_of vec_of cands_of gs).
Proof.
  exact (fun T gs H err o v c k => adapters_agree err o v c k gs (shape_wf T gs H)).
Qed.

(* the source has the adapter shape the model assumes (re-computed from gen/ on every run) *)
Theorem C13_adapters_recognised : adapters_ok = true.
Proof. exact gen_adapters_ok. Qed.

Theorem C13_shapes_recognised : shapes_ok = true.
Proof. exact gen_shapes_ok. Qed.

(* the quantification over rule *functions* above is justified: the regenerated scan of all
   30 message files finds no iteration over an unordered container, clock, RNG or interior
   mutability in rule code, so each rule's result is determined by the message; with the two
   theorems above, validating again returns the same list in the same order *)
Theorem C13_rules_are_functions_of_the_message : rules_deterministic = true.
Proof. exact gen_rules_deterministic. Qed.

Print Assumptions C13_stop_is_prefix.
Print Assumptions C13_rules_are_functions_of_the_message.
Print Assumptions C13_every_type_covered.
Print Assumptions C13_adapters_agree.
Print Assumptions C13_adapters_recognised.
Print Assumptions C13_shapes_recognised.
