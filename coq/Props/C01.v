(* Props/C01.v — Nothing in an accepted message is silently discarded.
   Property theorems only. *)

From SwiftMT Require Import Base.Bytes Engine.Layout Engine.Tokens Engine.Facts Engine.Instance Engine.Extract Engine.Factor Engine.FactorInstance.

(* For each of the 30 parse_from_block4 bodies as regenerated from the current source, for
   EVERY field-parser behaviour [fparse], every token sequence and every fuel: if the text
   block is accepted, the parsed field occurrences are exactly the field occurrences of the
   text (tag and content, in input order) and each was accepted by its own field parser.
   Hence a text with an unknown tag, a repeated non-repeatable field, a field out of
   position, content after the last field, too many repetitions, or an invalid field content
   is never accepted with that part dropped. *)
Theorem C01_accept_exact : forall T L, In (T, L) all_layouts ->
  forall fparse fuel toks its,
  trun fparse fuel L toks = Accept its ->
  map tok_of its = toks /\ Forall (item_ok fparse) its.
Proof.
  exact (fun T L H fparse fuel toks its => accept_exact fparse L fuel toks its (layout_wf T L H)).
Qed.

Theorem C01_layouts_recognised : layouts_ok = true.
Proof. exact gen_layouts_ok. Qed.

(* The same at byte level: the byte cursor (field_extractor.rs and MessageParser as transcribed in
   Engine/Extract.v) reads a canonical text -- optional leading white space, then ":tag:content" and a line
   end (LF or CRLF) per field, tags of 2-4 ASCII alphanumerics, contents in which no line starts with a colon
   or a dash, without dash-brace and without trailing line end -- exactly as the token cursor reads its token
   list (Engine/Factor.v, exec_factor), so an accepted text is accounted for byte for byte. *)
Theorem C01_accept_exact_bytes : forall T L, In (T, L) all_layouts ->
  forall crlf fparse fuel w toks its, aws w = true -> forallb tok_ok toks = true ->
  brun fparse fuel L (w ++ render crlf toks) = Accept its ->
  map tok_of its = toks /\ Forall (item_ok fparse) its /\ w ++ render crlf (map tok_of its) = w ++ render crlf toks.
Proof. exact accept_exact_bytes. Qed.

Theorem C01_byte_level_is_token_level : forall T L, In (T, L) all_layouts ->
  forall crlf fparse fuel w toks, aws w = true -> forallb tok_ok toks = true ->
  brun fparse fuel L (w ++ render crlf toks) = trun fparse fuel L toks.
Proof. exact layout_factor. Qed.

Print Assumptions C01_accept_exact.
Print Assumptions C01_layouts_recognised.
Print Assumptions C01_accept_exact_bytes.
Print Assumptions C01_byte_level_is_token_level.
