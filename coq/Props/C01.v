(* Props/C01.v — Nothing in an accepted message is silently discarded.
   Property theorems only. *)

From SwiftMT Require Import Base.Bytes Engine.Layout Engine.Tokens Engine.Facts Engine.Instance.

(* For each of the 30 parse_from_block4 bodies as regenerated from the current source, for
   EVERY field-parser behaviour [fparse], every token sequence and every fuel: if the text
   block is accepted, the parsed field occurrences are exactly the field occurrences of the
   text (tag and content, in input order) and each was accepted by its own field parser.
   Hence a text with an unknown tag, a repeated non-repeatable field, a field out of
   position, content after the last field, too many repetitions, or an invalid field content
   is never accepted with that part dropped. *)
Theorem C01_accept_exact : forall T L, In (T, L) all_layouts ->
  forall fparse fuel toks its,
  trun fparse fuel L toks = Accept its ->
  map tok_of its = toks /\ Forall (item_ok fparse) its.
Proof.
  exact (fun T L H fparse fuel toks its => accept_exact fparse L fuel toks its (layout_wf T L H)).
Qed.

Theorem C01_layouts_recognised : layouts_ok = true.
Proof. exact gen_layouts_ok. Qed.

Print Assumptions C01_accept_exact.
Print Assumptions C01_layouts_recognised.
