(* Props/C12.v — Message-type dispatch is consistent across every entry point.
   Property theorems only; each is closed by [exact] of a lemma proved elsewhere. *)

From SwiftMT Require Import Base.Bytes Dispatch.Model Dispatch.Facts Dispatch.Instance.

(* typed parse as the announced type reaches that type's API; as any other supported type: T03 *)
Theorem C12_typed_match : forall c, In c supported ->
  parse_typed gen_tables (MT c) c = RTyped (MT c).
Proof. exact (typed_match gen_tables gen_tables_ok). Qed.

Theorem C12_typed_mismatch : forall c c', In c' supported -> c <> c' ->
  parse_typed gen_tables (MT c') c = RT03 c' c.
Proof. exact (typed_mismatch gen_tables gen_tables_ok). Qed.

(* auto-detecting parse: for EVERY type string c (not only 000-999) *)
Theorem C12_auto_supported : forall c, In c supported ->
  parse_auto gen_tables c = RWrapped (MT c) (parse_typed gen_tables (MT c) c).
Proof. exact (auto_supported gen_tables gen_tables_ok). Qed.

Theorem C12_auto_unsupported : forall c, ~ In c supported ->
  parse_auto gen_tables c = RUnsupported c.
Proof. exact (auto_unsupported gen_tables gen_tables_ok). Qed.

Theorem C12_auto_never_other : forall c V T, parse_auto gen_tables c = RWrapped V (RTyped T) ->
  In c supported /\ V = MT c /\ T = MT c.
Proof. exact (auto_never_other gen_tables gen_tables_ok). Qed.

Theorem C12_wrapper_reports_type : forall c, In c supported ->
  lookup (MT c) (t_wmt gen_tables) = Some c /\ lookup (MT c) (t_wtag gen_tables) = Some c /\
  wrapper_validate gen_tables (MT c) = RTyped (MT c).
Proof. exact (wrapper_reports_type gen_tables gen_tables_ok). Qed.

(* plugin functions *)
Theorem C12_plugin_parse_supported : forall c, In c supported ->
  plugin_parse gen_tables c = RJsonOf (MT c).
Proof. exact (plugin_parse_supported gen_tables gen_tables_ok). Qed.

Theorem C12_plugin_parse_unsupported : forall c, ~ In c supported ->
  plugin_parse gen_tables c = RUnsupported c.
Proof. exact (plugin_parse_unsupported gen_tables gen_tables_ok). Qed.

Theorem C12_plugin_validate_supported : forall c, In c supported ->
  plugin_validate gen_tables c = RRulesOf (MT c) c.
Proof. exact (plugin_validate_supported gen_tables gen_tables_ok). Qed.

Theorem C12_plugin_validate_unsupported : forall c, ~ In c supported ->
  plugin_validate gen_tables c = RUnsupported c.
Proof. exact (plugin_validate_unsupported gen_tables gen_tables_ok). Qed.

Theorem C12_publish_supported : forall c, In c supported ->
  publish gen_tables c = RPublishOf (MT c) /\ publish gen_tables (MT c) = RPublishOf (MT c).
Proof. exact (publish_supported gen_tables gen_tables_ok). Qed.

Theorem C12_publish_unsupported : forall s, ~ In s supported -> ~ In s (map MT supported) ->
  publish gen_tables s = RUnsupported s.
Proof. exact (publish_unsupported gen_tables gen_tables_ok). Qed.

Theorem C12_body_type : forall c, In c supported ->
  lookup (MT c) (t_body_mt gen_tables) = Some c.
Proof. exact (body_type_roundtrip gen_tables gen_tables_ok). Qed.

Print Assumptions C12_typed_match.
Print Assumptions C12_typed_mismatch.
Print Assumptions C12_auto_supported.
Print Assumptions C12_auto_unsupported.
Print Assumptions C12_auto_never_other.
Print Assumptions C12_wrapper_reports_type.
Print Assumptions C12_plugin_parse_supported.
Print Assumptions C12_plugin_parse_unsupported.
Print Assumptions C12_plugin_validate_supported.
Print Assumptions C12_plugin_validate_unsupported.
Print Assumptions C12_publish_supported.
Print Assumptions C12_publish_unsupported.
Print Assumptions C12_body_type.
