(* Props/C09.v — Mandatory structure is enforced and the error names the culprit.
   Property theorems only. *)

From SwiftMT Require Import Base.Bytes Engine.Layout Engine.Tokens Engine.Facts Engine.Instance Engine.Extract Engine.Factor Engine.FactorInstance.

Lemma layout_dropfree : forall T L, In (T, L) all_layouts -> dropfree L = true.
Proof.
  intros T L H. pose proof (layout_wf T L H) as W. unfold wf_layout in W.
  apply andb_true_iff in W. exact (proj1 W).
Qed.

(* whatever one of the 30 regenerated layouts rejects, the error is TRUE of the text:
   EMissing t      : the text splits into a consumed prefix and a rest whose next field is not t;
   EBadField t c   : the text contains the field (t, c) at the cursor and its field parser rejects c;
   EUnparsed       : a non-empty rest follows the last field of the type.
   For every field-parser behaviour, token sequence and fuel. *)
Theorem C09_rejection_names_culprit : forall T L, In (T, L) all_layouts ->
  forall fparse fuel toks e,
  trun fparse fuel L toks = Reject e -> reject_ok fparse toks e.
Proof.
  exact (fun T L H fparse fuel toks e => reject_sound fparse L fuel toks e (layout_dropfree T L H)).
Qed.

(* a mandatory field that is not the next field is reported missing under its own tag *)
Theorem C09_mandatory_missing : forall fparse fuel ty tag d r (s : st (list tok)),
  t_detect (cur s) tag = false -> (dup s = true \/ mem tag (seen s) = false) ->
  texec fparse (S fuel) (SReq ty tag d :: r) s = FReject _ (EMissing tag).
Proof. exact req_missing. Qed.

(* a field with content its parser rejects is reported with its tag and that content *)
Theorem C09_bad_content_mandatory : forall fparse fuel ty tag d r (s : st (list tok)) content rest,
  cur s = (tag, content) :: rest -> (dup s = true \/ mem tag (seen s) = false) ->
  fparse ty None content = false ->
  texec fparse (S fuel) (SReq ty tag d :: r) s = FReject _ (EBadField tag content).
Proof. exact req_badfield. Qed.

Theorem C09_bad_content_optional : forall fparse fuel ty tag d r (s : st (list tok)) content rest,
  cur s = (tag, content) :: rest ->
  fparse ty None content = false ->
  texec fparse (S fuel) (SOpt ty tag d :: r) s = FReject _ (EBadField tag content).
Proof. exact opt_badfield. Qed.

(* the same for the byte cursor on a canonical text (see Props/C01.v) *)
Theorem C09_rejection_names_culprit_bytes : forall T L, In (T, L) all_layouts ->
  forall crlf fparse fuel w toks e, aws w = true -> forallb tok_ok toks = true ->
  brun fparse fuel L (w ++ render crlf toks) = Reject e -> reject_ok fparse toks e.
Proof. exact reject_sound_bytes. Qed.

Print Assumptions C09_rejection_names_culprit.
Print Assumptions C09_mandatory_missing.
Print Assumptions C09_bad_content_mandatory.
Print Assumptions C09_bad_content_optional.
Print Assumptions C09_rejection_names_culprit_bytes.
