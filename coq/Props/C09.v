(* Props/C09.v — Mandatory structure is enforced and the error names the culprit.
   Property theorems only. *)

From SwiftMT Require Import Base.Bytes Engine.Layout Engine.Tokens Engine.Facts Engine.Instance Engine.Extract Engine.Factor Engine.FactorInstance Engine.Regex Engine.Abs Engine.AbsSound Engine.Total Engine.AbsInstance Engine.AbsCommon Engine.AbsResultC09 gen.Specs Engine.AbsBytesC09.

Lemma layout_dropfree : forall T L, In (T, L) all_layouts -> dropfree L = true.
Proof.
  intros T L H. pose proof (layout_wf T L H) as W. unfold wf_layout in W.
  apply andb_true_iff in W. exact (proj1 W).
Qed.

(* whatever one of the 30 regenerated layouts rejects, the error is TRUE of the text:
   EMissing t      : the text splits into a consumed prefix and a rest whose next field is not t;
   EBadField t c   : the text contains the field (t, c) at the cursor and its field parser rejects c;
   EUnparsed       : a non-empty rest follows the last field of the type.
   For every field-parser behaviour, token sequence and fuel. *)
Theorem C09_rejection_names_culprit : forall T L, In (T, L) all_layouts ->
  forall fparse fuel toks e,
  trun fparse fuel L toks = Reject e -> reject_ok fparse toks e.
Proof.
  exact (fun T L H fparse fuel toks e => reject_sound fparse L fuel toks e (layout_dropfree T L H)).
Qed.

(* a mandatory field that is not the next field is reported missing under its own tag *)
Theorem C09_mandatory_missing : forall fparse fuel ty tag d r (s : st (list tok)),
  t_detect (cur s) tag = false -> (dup s = true \/ mem tag (seen s) = false) ->
  texec fparse (S fuel) (SReq ty tag d :: r) s = FReject _ (EMissing tag).
Proof. exact req_missing. Qed.

(* a field with content its parser rejects is reported with its tag and that content *)
Theorem C09_bad_content_mandatory : forall fparse fuel ty tag d r (s : st (list tok)) content rest,
  cur s = (tag, content) :: rest -> (dup s = true \/ mem tag (seen s) = false) ->
  fparse ty None content = false ->
  texec fparse (S fuel) (SReq ty tag d :: r) s = FReject _ (EBadField tag content).
Proof. exact req_badfield. Qed.

Theorem C09_bad_content_optional : forall fparse fuel ty tag d r (s : st (list tok)) content rest,
  cur s = (tag, content) :: rest ->
  fparse ty None content = false ->
  texec fparse (S fuel) (SOpt ty tag d :: r) s = FReject _ (EBadField tag content).
Proof. exact opt_badfield. Qed.

(* the same for the byte cursor on a canonical text (see Props/C01.v) *)
Theorem C09_rejection_names_culprit_bytes : forall T L, In (T, L) all_layouts ->
  forall crlf fparse fuel w toks e, aws w = true -> forallb tok_ok toks = true ->
  brun fparse fuel L (w ++ render crlf toks) = Reject e -> reject_ok fparse toks e.
Proof. exact reject_sound_bytes. Qed.

(* MANDATORY STRUCTURE IS ENFORCED, unbounded.  gen/Specs.v lists, per type, the languages obtained from the independent
   specification by leaving out exactly one mandatory element: a mandatory field, every occurrence of a mandatory
   repetitive field, a whole mandatory sequence, or a mandatory element of one occurrence of a sequence (that occurrence
   anywhere among any number of complete ones; when what is left of the occurrence could be empty, one language per
   element that is then the first one present): 154 languages over the 30 types, after leaving out the 4 in which the text can
   still be a word of the specification (gen/Specs.v spec_deletions_ambiguous, each with such a word, checked below).
   For each of them (deletion_open is empty), EVERY text whose tag sequence is a word of the language and whose tokens are good (see
   Props/C03.v) is rejected by the regenerated layout, and the error is true of the text (what is reported missing is
   not the next field, what is reported malformed is in the text and its parser rejects it).  Proved by the same
   abstract interpreter as the inclusion of C03, in the mode that drops the paths that certainly reject
   (Engine/Abs.v, lax; soundness Engine/AbsSound.v, excludes_rejects); recomputed on every run. *)
Theorem C09_missing_mandatory_element_is_rejected : forall T L ds what D,
  lookup T all_layouts = Some L -> lookup T spec_deletions = Some ds ->
  In (what, D) ds -> pair_mem (T, what) deletion_open = false ->
  forall fparse toks, matches D (map fst toks) -> Forall (good_token fparse L) toks ->
  forall f, lsize L + List.length toks + 1 <= f ->
  exists e, trun fparse f L toks = Reject e /\ reject_ok fparse toks e.
Proof. exact deletion_rejected. Qed.

(* the general statement: any layout that passes the analysis in its rejecting mode rejects every good word *)
Theorem C09_rejection_analysis_is_sound : forall fparse fp U n L R, excludes fp U n L R = true -> loops_ok L = true ->
  forall toks, matches R (map fst toks) -> Forall (good fparse fp U) toks ->
  forall f, lsize L + List.length toks + 1 <= f -> exists e, trun fparse f L toks = Reject e.
Proof. exact excludes_rejects. Qed.

(* the deletion languages left out of spec_deletions each contain a word of the specification (so a text of that shape
   may be a well-formed message and must not be expected to be rejected) *)
Theorem C09_left_out_deletions_are_ambiguous :
  forallb (fun p => forallb (fun d => let '(D, w) := snd d in
                                      matchb D w && match lookup (fst p) specs with Some alts => existsb (fun R => matchb R w) alts | None => false end)
                            (snd p)) spec_deletions_ambiguous = true.
Proof. exact left_out_deletions_are_ambiguous. Qed.

(* the same for the byte-level cursor on canonical texts *)
Theorem C09_missing_mandatory_element_is_rejected_bytes : forall T L ds what D,
  lookup T all_layouts = Some L -> lookup T spec_deletions = Some ds ->
  In (what, D) ds -> pair_mem (T, what) deletion_open = false ->
  forall crlf fparse w toks, aws w = true -> forallb tok_ok toks = true ->
  matches D (map fst toks) -> Forall (good_token fparse L) toks ->
  forall f, lsize L + List.length toks + 1 <= f ->
  exists e, brun fparse f L (w ++ render crlf toks) = Reject e /\ reject_ok fparse toks e.
Proof. exact deletion_rejected_bytes. Qed.

Print Assumptions C09_rejection_names_culprit.
Print Assumptions C09_mandatory_missing.
Print Assumptions C09_bad_content_mandatory.
Print Assumptions C09_bad_content_optional.
Print Assumptions C09_rejection_names_culprit_bytes.
Print Assumptions C09_missing_mandatory_element_is_rejected.
Print Assumptions C09_rejection_analysis_is_sound.
Print Assumptions C09_left_out_deletions_are_ambiguous.
Print Assumptions C09_missing_mandatory_element_is_rejected_bytes.
