(* Props/C10.v — Envelope integrity: blocks and headers are extracted and reproduced
   faithfully.  Property theorems only. *)

From Coq Require Import Strings.String.
From SwiftMT Require Import Base.Bytes Base.StrOps Headers.Hdr12 Headers.Hdr12Facts Headers.Hdr35 Headers.B3.

(* block 1: accepted only with exactly 25 ASCII bytes, and reproduced byte for byte *)
Theorem C10_basic_header_shape : forall s h, parse_b1 s = Some h -> List.length s = 25 /\ is_ascii s = true.
Proof. exact b1_shape. Qed.
Theorem C10_basic_header_roundtrip : forall s h, parse_b1 s = Some h -> display_b1 h = s.
Proof. exact b1_roundtrip. Qed.

(* block 2, input and output alike: only the lengths the format has; nothing partly read *)
Theorem C10_application_header_shape : forall s h, parse_b2 s = Some h ->
  is_ascii s = true /\
  match h with
  | AInput _ => sub s 0 1 = bs "I"%string /\ (List.length s = 17 \/ List.length s = 18 \/ List.length s = 21)
  | AOutput _ => sub s 0 1 = bs "O"%string /\ (List.length s = 46 \/ List.length s = 47)
  end.
Proof. exact b2_shape. Qed.
Theorem C10_application_header_roundtrip : forall s h, parse_b2 s = Some h -> display_b2 h = s.
Proof. exact b2_roundtrip. Qed.

(* block 3: any subset of the documented tags, in any order, with brace-free values: after
   parse and print every simple tag reads back its exact value ... *)
Theorem C10_user_header_tags_preserved : forall tvs t, In t b3_order -> simple_tag t = true ->
  forallb group_ok tvs = true ->
  read_tag t (parse_display b3_order (render tvs)) = lookup_first t tvs.
Proof.
  exact (fun tvs t Hin Hs Hg => simple_tags_preserved b3_order tvs t (proj1 b3_order_ok) (proj2 b3_order_ok) Hin Hs Hg).
Qed.

(* ... and every tag, structured ones included, reads back what the parser keeps of it *)
Theorem C10_user_header_all_tags : forall tvs t, In t b3_order -> forallb group_ok tvs = true ->
  read_tag t (parse_display b3_order (render tvs)) =
  match lookup_first t tvs with Some v => keep t v | None => None end.
Proof.
  exact (fun tvs t Hin Hg => tags_preserved b3_order tvs t (proj1 b3_order_ok) (proj2 b3_order_ok) Hin Hg).
Qed.

(* block 5: checksum and MAC *)
Theorem C10_trailer_tags_preserved : forall tvs t, In t b5_order -> forallb group_ok tvs = true ->
  read_tag t (parse_display b5_order (render tvs)) = lookup_first t tvs.
Proof.
  intros tvs t Hin Hg.
  apply (simple_tags_preserved b5_order tvs t (proj1 b5_order_ok) (proj2 b5_order_ok) Hin); [|exact Hg].
  destruct Hin as [<-|[<-|[]]]; vm_compute; reflexivity.
Qed.

Print Assumptions C10_basic_header_shape.
Print Assumptions C10_basic_header_roundtrip.
Print Assumptions C10_application_header_shape.
Print Assumptions C10_application_header_roundtrip.
Print Assumptions C10_user_header_tags_preserved.
Print Assumptions C10_user_header_all_tags.
Print Assumptions C10_trailer_tags_preserved.
