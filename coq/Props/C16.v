(* Props/C16.v — The field-map tokeniser and sequential consumption lose and reorder nothing.
   Property theorems only. *)

From SwiftMT Require Import Base.Bytes Base.StrOps Legacy.Block4Map Legacy.Tracker Legacy.Facts.
From Coq Require Import Sorting.Sorted.

(* position stamps increase strictly in input order — for any text with at most 65 536 fields *)
Theorem C16_stamps_increase : forall b es, parse_block4_fields b = TOk es -> (N.of_nat (List.length es) <= 65536)%N ->
  StronglySorted N.lt (map stamp es).
Proof. exact stamps_increase. Qed.

(* ... and the bound is necessary: the 16-bit field counter wraps (known finding C16-stamp-wrap) *)
Theorem C16_stamps_refuted_beyond_65535 :
  exists e1 e2, e_line e1 = e_line e2 /\ e_idx e2 = N.succ (e_idx e1) /\ (stamp e2 < stamp e1)%N.
Proof. exact stamps_refuted. Qed.

(* sequential consumption: for ANY interleaving of requests by tag, from a fresh tracker, the
   requests for a tag return that tag's occurrences exactly once each, in input order *)
Theorem C16_consumption_in_input_order : forall b es, parse_block4_fields b = TOk es ->
  (N.of_nat (List.length es) <= 65536)%N ->
  forall h tag, returned_for tag (run_history es [] h) = firstn (requests_for tag h) (values_of es tag).
Proof. exact consumption_in_input_order. Qed.

(* splitting into sequences: every field is assigned to exactly one sequence, for any markers *)
Theorem C16_split_covers : forall sb sc all e, In e all ->
  In e (part sb sc SeqA all) \/ In e (part sb sc SeqB all) \/ In e (part sb sc SeqC all).
Proof. exact split_partition. Qed.
Theorem C16_split_counts : forall sb sc all,
  List.length (part sb sc SeqA all) + List.length (part sb sc SeqB all) + List.length (part sb sc SeqC all) = List.length all.
Proof. exact split_disjoint_lengths. Qed.

Print Assumptions C16_stamps_increase.
Print Assumptions C16_stamps_refuted_beyond_65535.
Print Assumptions C16_consumption_in_input_order.
Print Assumptions C16_split_covers.
Print Assumptions C16_split_counts.
