(* Props/C15.v — Shipped scenarios always generate valid, exactly round-trippable messages.
   Property theorems only.  PARTIAL.  What the theorems carry:
   (1) every draw: for every shipped scenario file and every text leaf that fills a constrained component of a field or
       header, EVERY value the leaf's template can take — whatever the generators draw from their word lists, alphabets
       and number ranges — has the characters, the length and the first / last character the component requires
       (Scenario/Lang.v: the template language and the generators' languages; gen/Scenarios.v: the scenario files, the
       word lists of the `fake` crate and the requirement table, regenerated on every run);
   (2) the numeric part of "converts back ... without numeric rounding": an amount that the generator produces as (the
       binary64 nearest to) a decimal with j decimals is published with k >= j decimals as exactly that decimal.
   What they do not carry: that a value of the required shape is published, parsed, validated and read back unchanged
   by the library — that is explored per draw, with draws directed at the edges of (1) (stream `scenario`). *)

From Coq Require Import List ZArith.
From SwiftMT Require Import Base.Bytes Num.Amount Num.AmountFacts Scenario.Lang Scenario.Sound gen.Scenarios Scenario.Instance.
Local Open Scope Z_scope.

Theorem C15_every_leaf_fits_in_every_draw : forall file idxs i,
  In (file, idxs) scenario_leaves -> In i idxs ->
  exists tag key t rs, nth_error distinct_leaves i = Some (tag, key, t) /\ req_of tag key reqs = Some rs /\
    forall w, den kinds t w -> exists r, In r rs /\ Gv r w.
Proof. exact every_leaf_fits. Qed.

(* the analysis behind it, for any template and any requirement *)
Theorem C15_abstraction_is_sound : forall ks t w, den ks t w -> G (abs (map aklang ks) t) w.
Proof. exact abs_sound. Qed.

Theorem C15_fit_is_sound : forall ks t r, fits (abs (map aklang ks) t) r = true -> forall w, den ks t w -> Gv r w.
Proof. exact fits_every_draw. Qed.

Theorem C15_generated_decimal_amounts_publish_exactly : forall n j k, 0 <= n -> (j <= k)%nat ->
  n * 10 ^ Z.of_nat (k - j) < 10 ^ 15 ->
  to_dec k (round53 n (10 ^ Z.of_nat j)) = n * 10 ^ Z.of_nat (k - j).
Proof. exact print_exact. Qed.

(* the text that was published is read back as a plain decimal: the same digits, no more decimals than written *)
Theorem C15_published_amounts_read_as_written : forall s n j, parse_amount_dec s = Some (n, j) -> 0 <= n < 10 ^ 17.
Proof. exact amount_finite_nonneg. Qed.

Print Assumptions C15_every_leaf_fits_in_every_draw.
Print Assumptions C15_abstraction_is_sound.
Print Assumptions C15_fit_is_sound.
Print Assumptions C15_generated_decimal_amounts_publish_exactly.
Print Assumptions C15_published_amounts_read_as_written.
