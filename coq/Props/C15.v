(* Props/C15.v — Shipped scenarios always generate valid, exactly round-trippable messages.
   Property theorems only.  PARTIAL: the draws of the scenario generators (datafake / fake) are not modelled;
   what a theorem carries is the numeric part of "converts back ... without numeric rounding": an amount that the
   generator produces as (the binary64 nearest to) a decimal with j decimals is published with k >= j decimals as
   exactly that decimal, whenever the printed number has at most 15 digits.  Everything else is explored per draw
   (stream `scenario`, exact comparison). *)

From Coq Require Import ZArith.
From SwiftMT Require Import Base.Bytes Num.Amount Num.AmountFacts.
Local Open Scope Z_scope.

Theorem C15_generated_decimal_amounts_publish_exactly : forall n j k, 0 <= n -> (j <= k)%nat ->
  n * 10 ^ Z.of_nat (k - j) < 10 ^ 15 ->
  to_dec k (round53 n (10 ^ Z.of_nat j)) = n * 10 ^ Z.of_nat (k - j).
Proof. exact print_exact. Qed.

(* the text that was published is read back as a plain decimal: the same digits, no more decimals than written *)
Theorem C15_published_amounts_read_as_written : forall s n j, parse_amount_dec s = Some (n, j) -> 0 <= n < 10 ^ 17.
Proof. exact amount_finite_nonneg. Qed.

Print Assumptions C15_generated_decimal_amounts_publish_exactly.
Print Assumptions C15_published_amounts_read_as_written.
