(* Props/C08.v — JSON conversion is lossless and agrees with the MT serialisation.
   Property theorems only. *)

From Coq Require Import Strings.String.
From SwiftMT Require Import Base.Bytes Serde.Model Serde.Instance Dates.DateTime Dates.Facts.

(* a derived struct whose JSON keys (own members and the variant keys of flattened option enums) are pairwise
   distinct comes back from its JSON object member by member, whatever the payloads are *)
Theorem C08_struct_roundtrip : forall (json : Type) (jnull : json) (is_null : json -> bool), is_null jnull = true ->
  forall ks vs, vals_ok json is_null ks vs = true -> NoDup (all_keys ks) ->
  from_json json is_null (to_json json jnull ks vs) ks = Some vs.
Proof. exact struct_roundtrip. Qed.

(* every one of the regenerated structs (messages, sequences, fields, headers, wrappers) meets that condition *)
Theorem C08_every_struct_has_distinct_keys : forall S ms, In (S, ms) structs -> NoDup (all_keys (struct_kinds ms)).
Proof. exact shape_nodup. Qed.
Theorem C08_shapes_recognised : shapes_ok = true /\ external_enums_ok = true /\ untagged_ok = true.
Proof. split; [exact gen_shapes_ok | split; [exact gen_external_enums_ok | exact gen_untagged_ok]]. Qed.
Theorem C08_shapes_exist : (140 <= List.length structs)%nat.
Proof. exact structs_many. Qed.

(* leaf codecs written by hand: dates (YYMMDD strings in 11x / 13D / 32x JSON) and times come back exactly,
   for every date of the century window, with one meaning in every field *)
Theorem C08_date_leaf_roundtrip : forall y m d, (1950 <= y <= 2049)%N -> valid_date y m d = true ->
  parse_date_yymmdd (format_yymmdd {| yr := y; mo := m; dy := d |}) = Some {| yr := y; mo := m; dy := d |}.
Proof. exact date_complete. Qed.
Theorem C08_date_one_meaning : forall f g s, date_of f s = date_of g s.
Proof. exact one_meaning. Qed.

Print Assumptions C08_struct_roundtrip.
Print Assumptions C08_every_struct_has_distinct_keys.
Print Assumptions C08_shapes_recognised.
Print Assumptions C08_shapes_exist.
Print Assumptions C08_date_leaf_roundtrip.
Print Assumptions C08_date_one_meaning.
