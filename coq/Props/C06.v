(* Props/C06.v — Monetary amounts and rates are accepted only as decimals and preserved
   exactly.  Property theorems only. *)

From SwiftMT Require Import Base.Bytes Base.StrOps Num.Amount Num.AmountFacts Num.Iso4217.
From Coq Require Import ZArith.
Local Open Scope Z_scope.

(* accepted => digits, at most one separator after at least one digit, at most 17 bytes (the longest amount format, field 19):
   no NaN, inf, exponent, sign or leading separator *)
Theorem C06_amount_grammar : forall s n j, parse_amount_dec s = Some (n, j) ->
  (length s <= 17)%nat /\
  exists i f, i <> [] /\ forallb ascii_digit i = true /\ forallb ascii_digit f = true /\ length f = j /\
    n = digits_val (i ++ f) /\
    (s = i /\ f = [] \/ exists c, is_sep c = true /\ s = i ++ c :: f).
Proof. exact amount_grammar. Qed.

(* accepted => finite and non-negative: the decimal n / 10^j with 0 <= n < 10^17 *)
Theorem C06_finite_nonneg : forall s n j, parse_amount_dec s = Some (n, j) -> 0 <= n < 10 ^ 17.
Proof. exact amount_finite_nonneg. Qed.

(* with a currency: no more decimals than the currency allows, by the regenerated table ... *)
Theorem C06_currency_precision : forall s cur x,
  parse_amount_with_currency gen_decimals s cur = Some x ->
  exists n j, parse_amount_dec s = Some (n, j) /\ (j <= gen_decimals cur)%nat /\ x = round53 n (10 ^ Z.of_nat j).
Proof. exact (currency_precision gen_decimals). Qed.

(* ... which is the ISO 4217 minor-unit table, for EVERY currency code *)
Theorem C06_table_is_iso4217 : forall cur, gen_decimals cur = spec_decimals cur.
Proof. exact decimals_agree. Qed.

(* the numerical core: every decimal whose k-decimal rendering has at most 15 digits is printed
   back exactly by `{:.k}` of its nearest binary64 — all values the format permits, not a sample *)
Theorem C06_print_exact : forall n j k, 0 <= n -> (j <= k)%nat ->
  n * 10 ^ Z.of_nat (k - j) < 10 ^ 15 ->
  to_dec k (round53 n (10 ^ Z.of_nat j)) = n * 10 ^ Z.of_nat (k - j).
Proof. exact print_exact. Qed.

Theorem C06_accepted_prints_exact : forall s n j k x, parse_amount_dec s = Some (n, j) ->
  parse_amount s = Some x -> (j <= k)%nat -> n * 10 ^ Z.of_nat (k - j) < 10 ^ 15 ->
  to_dec k x = n * 10 ^ Z.of_nat (k - j).
Proof. exact accepted_prints_exact. Qed.

Print Assumptions C06_amount_grammar.
Print Assumptions C06_finite_nonneg.
Print Assumptions C06_currency_precision.
Print Assumptions C06_table_is_iso4217.
Print Assumptions C06_print_exact.
Print Assumptions C06_accepted_prints_exact.
