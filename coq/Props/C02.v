(* Props/C02.v — MT round trip is stable (text-block level).  Property theorems only. *)

From SwiftMT Require Import Base.Bytes Engine.Layout Engine.Tokens Engine.Facts Engine.Replay Engine.Instance Engine.Extract Engine.Factor Engine.FactorInstance.

(* For each of the 30 regenerated layouts, every field-parser behaviour and every field printer
   whose output is (a) accepted again by every parser that accepted the original content and
   (b) idempotent: if a text block is accepted, then the serialisation of the parse (printed field
   by field, in parse order) is accepted again by the same layout, and serialising the second
   parse reproduces it exactly.  No bound on the number of fields or repetitions. *)
Theorem C02_block_roundtrip : forall T L, In (T, L) all_layouts ->
  forall (fparse : bytes -> option bytes -> bytes -> bool)
         (fprint : bytes -> option bytes -> bytes -> bytes),
  (forall ty l c ty' l', fparse ty l c = true -> fparse ty' l' c = true -> fparse ty' l' (fprint ty l c) = true) ->
  (forall ty l c, fparse ty l c = true -> fprint ty l (fprint ty l c) = fprint ty l c) ->
  forall fuel toks its,
  trun fparse fuel L toks = Accept its ->
  exists its', trun fparse fuel L (serial fprint its) = Accept its' /\ serial fprint its' = serial fprint its.
Proof.
  exact (fun T L H fparse fprint Ha Hi fuel toks its =>
           msg_roundtrip fparse fprint Ha Hi L fuel toks its (layout_wf T L H)).
Qed.

(* an accepting run depends on the text only through its tags and the parsers' verdicts *)
Theorem C02_replay : forall T L, In (T, L) all_layouts ->
  forall fparse fuel toks1 toks2 its1,
  Forall2 (tok_le fparse) toks1 toks2 ->
  trun fparse fuel L toks1 = Accept its1 ->
  exists its2, trun fparse fuel L toks2 = Accept its2 /\ Forall2 same_slot its1 its2.
Proof.
  intros T L H fparse fuel toks1 toks2 its1 Hle Hrun.
  pose proof (layout_wf T L H) as W. unfold wf_layout in W. apply andb_true_iff in W.
  exact (replay_accept fparse L fuel toks1 toks2 its1 (proj1 W) Hle Hrun).
Qed.

(* the same for the byte cursor: the text printed canonically from the parse is accepted again and printing
   the second parse gives the same bytes, for printers that moreover print clean contents *)
Theorem C02_block_roundtrip_bytes : forall T L, In (T, L) all_layouts ->
  forall crlf (fparse : bytes -> option bytes -> bytes -> bool) (fprint : bytes -> option bytes -> bytes -> bytes),
  (forall ty l c ty' l', fparse ty l c = true -> fparse ty' l' c = true -> fparse ty' l' (fprint ty l c) = true) ->
  (forall ty l c, fparse ty l c = true -> fprint ty l (fprint ty l c) = fprint ty l c) ->
  (forall ty l c, content_ok (fprint ty l c) = true) ->
  forall fuel w toks its, aws w = true -> forallb tok_ok toks = true ->
  brun fparse fuel L (w ++ render crlf toks) = Accept its ->
  exists its', brun fparse fuel L (render crlf (serial fprint its)) = Accept its'
               /\ render crlf (serial fprint its') = render crlf (serial fprint its).
Proof. exact msg_roundtrip_bytes. Qed.

Print Assumptions C02_block_roundtrip.
Print Assumptions C02_replay.
Print Assumptions C02_block_roundtrip_bytes.
