(* Props/C11.v — Dates and times: calendar-valid only, one meaning everywhere, round-trip
   stable.  Property theorems only; all quantify over ALL byte strings (no enumeration). *)

From SwiftMT Require Import Base.Bytes Base.StrOps Dates.DateTime Dates.Facts.

Theorem C11_date_calendar_valid : forall s d, parse_date_yymmdd s = Some d ->
  length s = 6 /\ forallb ascii_digit s = true /\
  valid_date (yr d) (mo d) (dy d) = true /\ (1950 <= yr d <= 2049)%N.
Proof. exact date_valid. Qed.

Theorem C11_date_roundtrip : forall s d, parse_date_yymmdd s = Some d -> format_yymmdd d = s.
Proof. exact date_roundtrip. Qed.

Theorem C11_date_complete : forall y m d, (1950 <= y <= 2049)%N -> valid_date y m d = true ->
  parse_date_yymmdd (format_yymmdd {| yr := y; mo := m; dy := d |}) = Some {| yr := y; mo := m; dy := d |}.
Proof. exact date_complete. Qed.

(* the same six bytes denote the same date in every date-bearing field, in MT and in JSON *)
Theorem C11_one_meaning : forall f g s, date_of f s = date_of g s.
Proof. exact one_meaning. Qed.

Theorem C11_time_valid : forall s t, parse_time_hhmm s = Some t ->
  length s = 4 /\ forallb ascii_digit s = true /\ (hh t <= 23)%N /\ (mi t <= 59)%N.
Proof. exact time_valid. Qed.

Theorem C11_time_roundtrip : forall s t, parse_time_hhmm s = Some t -> format_hhmm t = s.
Proof. exact time_roundtrip. Qed.

Theorem C11_offset_valid : forall s, offset_ok s = true ->
  exists a b c d, s = [a; b; c; d] /\ forallb ascii_digit s = true /\ (num2 a b <= 14)%N /\ (num2 c d <= 59)%N.
Proof. exact offset_valid. Qed.

Print Assumptions C11_date_calendar_valid.
Print Assumptions C11_date_roundtrip.
Print Assumptions C11_date_complete.
Print Assumptions C11_one_meaning.
Print Assumptions C11_time_valid.
Print Assumptions C11_time_roundtrip.
Print Assumptions C11_offset_valid.
