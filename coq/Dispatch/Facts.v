(* Dispatch/Facts.v — specification of C12 and the generic theorem:
   every table satisfying the decidable predicate [tables_ok] dispatches every
   type string (ANY byte string, not only 000-999) as the property demands. *)

From Coq Require Import Strings.String.
From SwiftMT Require Import Base.Bytes Dispatch.Model.

(* ---- specification, written by hand from the property: the 30 supported types *)
Definition supported : list bytes := map bs
  ["101"; "103"; "104"; "107"; "110"; "111"; "112"; "190"; "191"; "192"; "196"; "199";
   "200"; "202"; "204"; "205"; "210"; "290"; "291"; "292"; "296"; "299";
   "900"; "910"; "920"; "935"; "940"; "941"; "942"; "950"]%string.

Definition MT (c : bytes) : bytes := bs "MT" ++ c.

Lemma MT_inj : forall a b, MT a = MT b -> a = b.
Proof. intros a b H. unfold MT in H. apply app_inv_head in H. exact H. Qed.

Definition lookup_is {A} (eqb : A -> A -> bool) (k : bytes) (t : list (bytes * A)) (v : A) : bool :=
  match lookup k t with Some v' => eqb v' v | None => false end.

Definition pair_eqb (a b : bytes * bytes) : bool :=
  bytes_eqb (fst a) (fst b) && bytes_eqb (snd a) (snd b).

Definition entry_ok (tb : tables) (c : bytes) : bool :=
  lookup_is pair_eqb c (t_auto tb) (MT c, MT c)
  && lookup_is bytes_eqb (MT c) (t_body_mt tb) c
  && lookup_is bytes_eqb (MT c) (t_wpayload tb) (MT c)
  && lookup_is bytes_eqb (MT c) (t_wtag tb) c
  && lookup_is bytes_eqb (MT c) (t_wmt tb) c
  && lookup_is Bool.eqb (MT c) (t_wval tb) true
  && lookup_is Bool.eqb (MT c) (t_pval tb) true
  && lookup_is bytes_eqb c (t_ppub tb) (MT c)
  && lookup_is bytes_eqb (MT c) (t_ppub tb) (MT c)
  && match lookup c (t_pparse tb) with
     | Some (into, true) => lookup_is bytes_eqb into (t_into tb) (MT c)
     | _ => false
     end.

Definition tables_ok (tb : tables) : bool :=
  t_auto_scrut tb && t_auto_fb tb && t_guard tb && t_pparse_scrut tb && t_pparse_fb tb
  && t_ppub_macro tb && t_ppub_fb tb && t_ppub_strip tb && t_pval_auto tb
  && forallb (entry_ok tb) supported
  && forallb (fun k => mem k supported) (map fst (t_auto tb))
  && forallb (fun k => mem k supported || mem k (map MT supported)) (map fst (t_ppub tb))
  && forallb (fun k => mem k supported) (map fst (t_pparse tb))
  && nodupb supported.

(* ---- unpacking *)

Lemma lookup_is_bytes : forall k t v, lookup_is bytes_eqb k t v = true -> lookup k t = Some v.
Proof.
  unfold lookup_is. intros k t v H. destruct (lookup k t) as [v'|]; [|discriminate].
  apply bytes_eqb_eq in H. subst. reflexivity.
Qed.

Lemma lookup_is_bool : forall k t v, lookup_is Bool.eqb k t v = true -> lookup k t = Some v.
Proof.
  unfold lookup_is. intros k t v H. destruct (lookup k t) as [v'|]; [|discriminate].
  apply Bool.eqb_prop in H. subst. reflexivity.
Qed.

Lemma lookup_is_pair : forall k t a b, lookup_is pair_eqb k t (a, b) = true -> lookup k t = Some (a, b).
Proof.
  unfold lookup_is, pair_eqb. intros k t a b H.
  destruct (lookup k t) as [[a' b']|]; [|discriminate]. cbn [fst snd] in H.
  apply andb_true_iff in H. destruct H as [H1 H2].
  apply bytes_eqb_eq in H1. apply bytes_eqb_eq in H2. subst. reflexivity.
Qed.

Record entry_facts (tb : tables) (c : bytes) : Prop := {
  ef_auto : lookup c (t_auto tb) = Some (MT c, MT c);
  ef_body : lookup (MT c) (t_body_mt tb) = Some c;
  ef_wpay : lookup (MT c) (t_wpayload tb) = Some (MT c);
  ef_wtag : lookup (MT c) (t_wtag tb) = Some c;
  ef_wmt : lookup (MT c) (t_wmt tb) = Some c;
  ef_wval : lookup (MT c) (t_wval tb) = Some true;
  ef_pval : lookup (MT c) (t_pval tb) = Some true;
  ef_ppub : lookup c (t_ppub tb) = Some (MT c);
  ef_ppub' : lookup (MT c) (t_ppub tb) = Some (MT c);
  ef_pparse : exists into, lookup c (t_pparse tb) = Some (into, true) /\ lookup into (t_into tb) = Some (MT c)
}.

Lemma entry_ok_facts : forall tb c, entry_ok tb c = true -> entry_facts tb c.
Proof.
  intros tb c H. unfold entry_ok in H.
  repeat (apply andb_true_iff in H; destruct H as [H ?]).
  constructor;
    try (apply lookup_is_bytes; assumption);
    try (apply lookup_is_bool; assumption);
    try (apply lookup_is_pair; assumption).
  match goal with
  | Hp : match lookup c (t_pparse tb) with _ => _ end = true |- _ =>
      destruct (lookup c (t_pparse tb)) as [[into [|]]|]; try discriminate;
      exists into; split; [reflexivity|apply lookup_is_bytes; exact Hp]
  end.
Qed.

Record ok_facts (tb : tables) : Prop := {
  of_scrut : t_auto_scrut tb = true;
  of_fb : t_auto_fb tb = true;
  of_guard : t_guard tb = true;
  of_pscrut : t_pparse_scrut tb = true;
  of_pfb : t_pparse_fb tb = true;
  of_macro : t_ppub_macro tb = true;
  of_pubfb : t_ppub_fb tb = true;
  of_strip : t_ppub_strip tb = true;
  of_pvauto : t_pval_auto tb = true;
  of_entries : forall c, In c supported -> entry_facts tb c;
  of_auto_keys : forall k, In k (map fst (t_auto tb)) -> In k supported;
  of_ppub_keys : forall k, In k (map fst (t_ppub tb)) -> In k supported \/ In k (map MT supported);
  of_pparse_keys : forall k, In k (map fst (t_pparse tb)) -> In k supported;
}.

Lemma tables_ok_facts : forall tb, tables_ok tb = true -> ok_facts tb.
Proof.
  intros tb H. unfold tables_ok in H.
  repeat (apply andb_true_iff in H; destruct H as [H ?]).
  constructor; try assumption.
  - intros c Hc. apply entry_ok_facts.
    match goal with Hf : forallb (entry_ok tb) supported = true |- _ =>
      rewrite forallb_forall in Hf; apply Hf; exact Hc end.
  - intros k Hk.
    match goal with Hf : forallb _ (map fst (t_auto tb)) = true |- _ =>
      rewrite forallb_forall in Hf; apply Hf in Hk; apply mem_in in Hk; exact Hk end.
  - intros k Hk.
    match goal with Hf : forallb _ (map fst (t_ppub tb)) = true |- _ =>
      rewrite forallb_forall in Hf; apply Hf in Hk; apply orb_true_iff in Hk;
      destruct Hk as [Hk|Hk]; apply mem_in in Hk; [left|right]; exact Hk end.
  - intros k Hk.
    match goal with Hf : forallb _ (map fst (t_pparse tb)) = true |- _ =>
      rewrite forallb_forall in Hf; apply Hf in Hk; apply mem_in in Hk; exact Hk end.
Qed.

(* ---- the theorems, for every table with tables_ok and EVERY type string c *)

Section Generic.
Variable tb : tables.
Hypothesis OK : tables_ok tb = true.

Let F := tables_ok_facts tb OK.

(* typed parse of a supported type: accepted as that type iff the header announces it *)
Theorem typed_match : forall c, In c supported -> parse_typed tb (MT c) c = RTyped (MT c).
Proof.
  intros c Hc. unfold parse_typed.
  rewrite (ef_body _ _ (of_entries _ F c Hc)), (of_guard _ F), bytes_eqb_refl. reflexivity.
Qed.

Theorem typed_mismatch : forall c c', In c' supported -> c <> c' ->
  parse_typed tb (MT c') c = RT03 c' c.
Proof.
  intros c c' Hc' Hne. unfold parse_typed.
  rewrite (ef_body _ _ (of_entries _ F c' Hc')), (of_guard _ F).
  destruct (bytes_eqb c c') eqn:E; [apply bytes_eqb_eq in E; contradiction|reflexivity].
Qed.

(* auto-detecting parse = wrapper around the typed API of the announced type *)
Theorem auto_supported : forall c, In c supported ->
  parse_auto tb c = RWrapped (MT c) (parse_typed tb (MT c) c).
Proof.
  intros c Hc. unfold parse_auto.
  rewrite (of_scrut _ F). cbn [negb].
  rewrite (ef_auto _ _ (of_entries _ F c Hc)), (typed_match c Hc). reflexivity.
Qed.

Theorem auto_unsupported : forall c, ~ In c supported -> parse_auto tb c = RUnsupported c.
Proof.
  intros c Hc. unfold parse_auto. rewrite (of_scrut _ F). cbn [negb].
  destruct (lookup c (t_auto tb)) as [[T V]|] eqn:E.
  - exfalso. apply Hc. apply (of_auto_keys _ F).
    apply lookup_some_in in E. apply in_map_iff. exists (c, (T, V)). split; [reflexivity|exact E].
  - rewrite (of_fb _ F). reflexivity.
Qed.

(* never parsed as some other type *)
Corollary auto_never_other : forall c V T, parse_auto tb c = RWrapped V (RTyped T) ->
  In c supported /\ V = MT c /\ T = MT c.
Proof.
  intros c V T H. destruct (in_dec bytes_eq_dec c supported) as [Hc|Hc].
  - rewrite (auto_supported c Hc), (typed_match c Hc) in H. inversion H. auto.
  - rewrite (auto_unsupported c Hc) in H. discriminate.
Qed.

Theorem wrapper_reports_type : forall c, In c supported ->
  lookup (MT c) (t_wmt tb) = Some c /\ lookup (MT c) (t_wtag tb) = Some c /\
  wrapper_validate tb (MT c) = RTyped (MT c).
Proof.
  intros c Hc. pose proof (of_entries _ F c Hc) as E. repeat split.
  - exact (ef_wmt _ _ E).
  - exact (ef_wtag _ _ E).
  - unfold wrapper_validate. rewrite (ef_wval _ _ E), (ef_wpay _ _ E). reflexivity.
Qed.

Theorem plugin_parse_supported : forall c, In c supported -> plugin_parse tb c = RJsonOf (MT c).
Proof.
  intros c Hc. pose proof (of_entries _ F c Hc) as E. unfold plugin_parse.
  rewrite (of_pscrut _ F). cbn [negb].
  rewrite (auto_supported c Hc), (typed_match c Hc).
  rewrite (ef_wmt _ _ E), (ef_wpay _ _ E), bytes_eqb_refl. cbn [negb].
  destruct (ef_pparse _ _ E) as [into [H1 H2]]. rewrite H1, H2, bytes_eqb_refl. reflexivity.
Qed.

Theorem plugin_parse_unsupported : forall c, ~ In c supported -> plugin_parse tb c = RUnsupported c.
Proof.
  intros c Hc. unfold plugin_parse. rewrite (of_pscrut _ F). cbn [negb].
  rewrite (auto_unsupported c Hc). reflexivity.
Qed.

Theorem plugin_validate_supported : forall c, In c supported ->
  plugin_validate tb c = RRulesOf (MT c) c.
Proof.
  intros c Hc. pose proof (of_entries _ F c Hc) as E. unfold plugin_validate.
  rewrite (of_pvauto _ F). cbn [negb].
  rewrite (auto_supported c Hc), (typed_match c Hc).
  rewrite (ef_wmt _ _ E), (ef_wpay _ _ E), (ef_pval _ _ E), bytes_eqb_refl. reflexivity.
Qed.

Theorem plugin_validate_unsupported : forall c, ~ In c supported ->
  plugin_validate tb c = RUnsupported c.
Proof.
  intros c Hc. unfold plugin_validate. rewrite (of_pvauto _ F). cbn [negb].
  rewrite (auto_unsupported c Hc). reflexivity.
Qed.

Theorem publish_supported : forall c, In c supported ->
  publish tb c = RPublishOf (MT c) /\ publish tb (MT c) = RPublishOf (MT c).
Proof.
  intros c Hc. pose proof (of_entries _ F c Hc) as E. unfold publish.
  rewrite (of_macro _ F), (of_strip _ F). cbn [andb negb].
  rewrite (ef_ppub _ _ E), (ef_ppub' _ _ E). split; reflexivity.
Qed.

Theorem publish_unsupported : forall s, ~ In s supported -> ~ In s (map MT supported) ->
  publish tb s = RUnsupported s.
Proof.
  intros s H1 H2. unfold publish. rewrite (of_macro _ F), (of_strip _ F). cbn [andb negb].
  destruct (lookup s (t_ppub tb)) as [T|] eqn:E.
  - exfalso. apply lookup_some_in in E.
    assert (Hk : In s (map fst (t_ppub tb))) by (apply in_map_iff; exists (s, T); split; [reflexivity|exact E]).
    destruct (of_ppub_keys _ F s Hk); contradiction.
  - rewrite (of_pubfb _ F). reflexivity.
Qed.

Theorem body_type_roundtrip : forall c, In c supported -> lookup (MT c) (t_body_mt tb) = Some c.
Proof. intros c Hc. exact (ef_body _ _ (of_entries _ F c Hc)). Qed.

End Generic.
