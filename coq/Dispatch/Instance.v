(* Dispatch/Instance.v — the tables regenerated from /repo satisfy tables_ok.
   This is the obligation that re-checks on every run: editing a dispatch arm in
   the source changes gen/Dispatch.v and this computation. *)

From Coq Require Import Strings.String.
From SwiftMT Require Import Base.Bytes Dispatch.Model Dispatch.Facts.
From SwiftMT Require gen.Dispatch.

From SwiftMT Require Export Dispatch.Defs.

Lemma gen_tables_ok : tables_ok gen_tables = true.
Proof. vm_compute. reflexivity. Qed.

(* non-vacuity: the premises of the generic theorems are met by a non-trivial case *)
Example supported_has_30 : length supported = 30.
Proof. reflexivity. Qed.
Example in_103 : In (bs "103"%string) supported.
Proof. apply mem_in. vm_compute. reflexivity. Qed.
Example not_in_102 : ~ In (bs "102"%string) supported.
Proof. intro H. apply mem_in in H. vm_compute in H. discriminate. Qed.
