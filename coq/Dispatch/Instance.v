(* Dispatch/Instance.v — the tables regenerated from /repo satisfy tables_ok.
   This is the obligation that re-checks on every run: editing a dispatch arm in
   the source changes gen/Dispatch.v and this computation. *)

From Coq Require Import Strings.String.
From SwiftMT Require Import Base.Bytes Dispatch.Model Dispatch.Facts.
From SwiftMT Require gen.Dispatch.

Definition gen_tables : tables := {|
  t_auto := gen.Dispatch.auto_arms;
  t_auto_scrut := gen.Dispatch.auto_scrutinee_is_header_type;
  t_auto_fb := gen.Dispatch.auto_fallback_unsupported;
  t_guard := gen.Dispatch.typed_mismatch_guard_present;
  t_wpayload := gen.Dispatch.wrapper_payload;
  t_wtag := gen.Dispatch.wrapper_serde_tag;
  t_wmt := gen.Dispatch.wrapper_message_type;
  t_wval := gen.Dispatch.wrapper_validate_delegates;
  t_into := gen.Dispatch.into_arms;
  t_pparse_scrut := gen.Dispatch.plugin_parse_scrutinee_ok;
  t_pparse := gen.Dispatch.plugin_parse_arms;
  t_pparse_fb := gen.Dispatch.plugin_parse_fallback_unsupported;
  t_ppub_macro := gen.Dispatch.plugin_publish_macro_ok;
  t_ppub := gen.Dispatch.plugin_publish_arms;
  t_ppub_fb := gen.Dispatch.plugin_publish_fallback_unsupported;
  t_ppub_strip := gen.Dispatch.plugin_publish_strips_mt_prefix;
  t_pval := gen.Dispatch.plugin_validate_full_rules;
  t_pval_auto := gen.Dispatch.plugin_validate_uses_auto;
  t_body_mt := gen.Dispatch.body_message_type
|}.

Lemma gen_tables_ok : tables_ok gen_tables = true.
Proof. vm_compute. reflexivity. Qed.

(* non-vacuity: the premises of the generic theorems are met by a non-trivial case *)
Example supported_has_30 : length supported = 30.
Proof. reflexivity. Qed.
Example in_103 : In (bs "103"%string) supported.
Proof. apply mem_in. vm_compute. reflexivity. Qed.
Example not_in_102 : ~ In (bs "102"%string) supported.
Proof. intro H. apply mem_in in H. vm_compute in H. discriminate. Qed.
