(* Dispatch/Defs.v — the tables regenerated from /repo, as the record the model consults (definitions only: the
   extracted runner depends on this file, never on the checks in Dispatch/Instance.v) *)

From Coq Require Import Strings.String.
From SwiftMT Require Import Base.Bytes Dispatch.Model Dispatch.Facts.
From SwiftMT Require gen.Dispatch.

Definition gen_tables : tables := {|
  t_auto := gen.Dispatch.auto_arms;
  t_auto_scrut := gen.Dispatch.auto_scrutinee_is_header_type;
  t_auto_fb := gen.Dispatch.auto_fallback_unsupported;
  t_guard := gen.Dispatch.typed_mismatch_guard_present;
  t_wpayload := gen.Dispatch.wrapper_payload;
  t_wtag := gen.Dispatch.wrapper_serde_tag;
  t_wmt := gen.Dispatch.wrapper_message_type;
  t_wval := gen.Dispatch.wrapper_validate_delegates;
  t_into := gen.Dispatch.into_arms;
  t_pparse_scrut := gen.Dispatch.plugin_parse_scrutinee_ok;
  t_pparse := gen.Dispatch.plugin_parse_arms;
  t_pparse_fb := gen.Dispatch.plugin_parse_fallback_unsupported;
  t_ppub_macro := gen.Dispatch.plugin_publish_macro_ok;
  t_ppub := gen.Dispatch.plugin_publish_arms;
  t_ppub_fb := gen.Dispatch.plugin_publish_fallback_unsupported;
  t_ppub_strip := gen.Dispatch.plugin_publish_strips_mt_prefix;
  t_pval := gen.Dispatch.plugin_validate_full_rules;
  t_pval_auto := gen.Dispatch.plugin_validate_uses_auto;
  t_body_mt := gen.Dispatch.body_message_type
|}.
