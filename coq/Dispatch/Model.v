(* Dispatch/Model.v — the five message-type dispatch tables of the library and the
   entry points that consult them (parser/swift_parser.rs parse_message /
   parse_message_auto, parsed_message.rs, plugin/{parse,publish,validate}.rs).

   The tables are a parameter (record [tables]); gen/Dispatch.v supplies the value
   regenerated from the source.  What a typed parse does with the text block is
   opaque here ([RTyped T] = "whatever SwiftParser::parse::<T> returns"): C12 is
   about WHICH typed API is reached, not about what it does. *)

From SwiftMT Require Import Base.Bytes.

Record tables := {
  t_auto : list (bytes * (bytes * bytes));   (* "103" => parse_message::<T> ... ParsedSwiftMessage::V *)
  t_auto_scrut : bool;                       (* scrutinee is application_header.message_type()      *)
  t_auto_fb : bool;                          (* `_ =>` arm is UnsupportedMessageType                *)
  t_guard : bool;                            (* parse_message::<T> compares header type with T::message_type() before parsing the body *)
  t_wpayload : list (bytes * bytes);         (* enum variant V(Box<SwiftMessage<T>>)                *)
  t_wtag : list (bytes * bytes);             (* #[serde(rename = "...")]                            *)
  t_wmt : list (bytes * bytes);              (* ParsedSwiftMessage::message_type                    *)
  t_wval : list (bytes * bool);              (* ParsedSwiftMessage::validate delegates to inner     *)
  t_into : list (bytes * bytes);             (* into_mtNNN -> variant                               *)
  t_pparse_scrut : bool;
  t_pparse : list (bytes * (bytes * bool));  (* plugin parse: "103" => into_mt103, to_value(&that)   *)
  t_pparse_fb : bool;
  t_ppub_macro : bool;                       (* convert_json!(T) = from_value::<SwiftMessage<T>> + to_mt_message *)
  t_ppub : list (bytes * bytes);             (* "103" | "MT103" => convert_json!(T)                 *)
  t_ppub_fb : bool;
  t_ppub_strip : bool;
  t_pval : list (bytes * bool);              (* plugin validate: V(msg) => msg.fields.validate_network_rules(false) *)
  t_pval_auto : bool;
  t_body_mt : list (bytes * bytes)           (* impl SwiftMessageBody for T { fn message_type() }   *)
}.

(* outcome of an entry point, as far as dispatch is concerned *)
Inductive res :=
| RTyped (T : bytes)                    (* the result of the typed API for body type T                      *)
| RT03 (expected got : bytes)           (* message-type-mismatch error                                      *)
| RUnsupported (code : bytes)
| RWrapped (V : bytes) (r : res)        (* ParsedSwiftMessage::V(r)                                         *)
| RJsonOf (T : bytes)                   (* plugin parse: serde_json::to_value of SwiftMessage<T>            *)
| RRulesOf (T : bytes) (reported : bytes) (* plugin validate: full rule list of T, message_type reported    *)
| RPublishOf (T : bytes)                (* plugin publish: from_value::<SwiftMessage<T>> then to_mt_message *)
| RNotFound (what : bytes)              (* "MTnnn message not found in SwiftMT message"                     *)
| RStuck.                               (* the source no longer has the shape the model describes           *)

Section Model.
Variable tb : tables.

(* SwiftParser::parse_message::<T> on a message whose application header announces [c] *)
Definition parse_typed (T c : bytes) : res :=
  match lookup T (t_body_mt tb) with
  | None => RStuck
  | Some mt =>
      if t_guard tb then (if bytes_eqb c mt then RTyped T else RT03 mt c)
      else RTyped T
  end.

(* SwiftParser::parse_message_auto *)
Definition parse_auto (c : bytes) : res :=
  if negb (t_auto_scrut tb) then RStuck else
  match lookup c (t_auto tb) with
  | Some (T, V) => match parse_typed T c with
                   | RTyped T' => RWrapped V (RTyped T')
                   | r => r                       (* `?` propagates the error *)
                   end
  | None => if t_auto_fb tb then RUnsupported c else RStuck
  end.

(* plugin Parse::parse_swift_mt *)
Definition plugin_parse (c : bytes) : res :=
  if negb (t_pparse_scrut tb) then RStuck else
  match parse_auto c with
  | RWrapped V (RTyped T) =>
      match lookup V (t_wmt tb), lookup V (t_wpayload tb) with
      | Some mt, Some P =>
          if negb (bytes_eqb P T) then RStuck else
          match lookup mt (t_pparse tb) with
          | Some (into, tv) =>
              match lookup into (t_into tb) with
              | Some V' => if bytes_eqb V' V then (if tv then RJsonOf P else RStuck) else RNotFound mt
              | None => RStuck
              end
          | None => if t_pparse_fb tb then RUnsupported mt else RStuck
          end
      | _, _ => RStuck
      end
  | r => r
  end.

(* plugin Validate::validate_mt_message *)
Definition plugin_validate (c : bytes) : res :=
  if negb (t_pval_auto tb) then RStuck else
  match parse_auto c with
  | RWrapped V (RTyped T) =>
      match lookup V (t_wmt tb), lookup V (t_wpayload tb), lookup V (t_pval tb) with
      | Some mt, Some P, Some true => if bytes_eqb P T then RRulesOf P mt else RStuck
      | _, _, _ => RStuck
      end
  | r => r
  end.

(* ParsedSwiftMessage::validate on a wrapper built by parse_auto *)
Definition wrapper_validate (V : bytes) : res :=
  match lookup V (t_wval tb), lookup V (t_wpayload tb) with
  | Some true, Some P => RTyped P
  | _, _ => RStuck
  end.

(* plugin publish: json_to_mt on the type string after `trim_start_matches("MT")` *)
Definition publish (s : bytes) : res :=
  if negb (t_ppub_macro tb && t_ppub_strip tb) then RStuck else
  match lookup s (t_ppub tb) with
  | Some T => RPublishOf T
  | None => if t_ppub_fb tb then RUnsupported s else RStuck
  end.

End Model.
