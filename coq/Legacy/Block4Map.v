(* Legacy/Block4Map.v — the field-map tokeniser parser/generated.rs parse_block4_fields and
   normalize_field_tag, over bytes.  The HashMap result is represented by the ordered list of
   entries (tag, value, stamp); grouping by tag preserves that order. *)

From Coq Require Import Strings.String.
From SwiftMT Require Import Base.Bytes Base.StrOps Headers.Hdr12.

(* byte length of the UTF-8 character starting with lead byte b *)
Definition char_len (b : N) : nat := if N.ltb b 128 then 1 else if N.ltb b 224 then 2 else if N.ltb b 240 then 3 else 4.

(* str::trim_end(): offset just after the last non-white-space character *)
Fixpoint trim_end_pos (fuel : nat) (s : bytes) (p last : nat) : nat :=
  match fuel with
  | 0 => last
  | S f =>
      match skipn p s with
      | [] => last
      | b :: _ =>
          match ws_len (skipn p s) with
          | 0 => let p' := p + char_len b in trim_end_pos f s p' p'
          | n => trim_end_pos f s (p + n) last
          end
      end
  end.
Definition trim_end (s : bytes) : bytes := firstn (trim_end_pos (S (List.length s)) s 0 0) s.
Definition trim (s : bytes) : bytes := trim_end (trim_start s).

Definition hash : N := 35.
Definition is_keep_number (n : bytes) : bool :=
  mem n (map bs ["11"; "13"; "21"; "23"; "25"; "26"; "28"; "32"; "33"; "34"; "37"; "50"; "51"; "52"; "53"; "54"; "55";
                 "56"; "57"; "58"; "59"; "60"; "62"; "71"; "77"; "90"]%string).

Fixpoint span_digits (s : bytes) : bytes * bytes :=
  match s with
  | b :: r => if ascii_digit b then let '(d, rest) := span_digits r in (b :: d, rest) else ([], s)
  | [] => ([], [])
  end.

Definition normalize_field_tag (raw : bytes) : bytes :=
  if existsb (N.eqb hash) raw then raw else
  let '(num, suffix) := span_digits raw in
  match suffix with
  | [] => raw
  | _ => if is_keep_number num then raw
         else if forallb ascii_upper (chars suffix) then num else raw
  end.

Record entry := { e_tag : bytes; e_value : bytes; e_line : N; e_idx : N }.

(* (line_number << 16) | (field_position & 0xFFFF) *)
Definition stamp (e : entry) : N := (e_line e * 65536 + (e_idx e mod 65536))%N.

Inductive tres := TOk (es : list entry) | TErr | TOutOfFuel.

Fixpoint tok_loop (fuel : nat) (content : bytes) (cp : nat) (fp line : N) (acc : list entry) : tres :=
  match fuel with
  | 0 => TOutOfFuel
  | S f =>
      if Nat.leb (List.length content) cp then TOk (rev acc) else
      let line := if Nat.ltb 0 cp && match nth_error (chars content) (cp - 1) with Some c => N.eqb c nl | None => false end
                  then N.succ line else line in
      match find [colon] (skipn cp content) with
      | None => TOk (rev acc)
      | Some fs =>
          let fstart := cp + fs in
          match find [colon] (skipn (fstart + 1) content) with
          | None => TErr
          | Some te =>
              let tag_end := fstart + 1 + te in
              let raw_tag := sub content (fstart + 1) tag_end in
              let vstart := tag_end + 1 in
              let vend := match find [nl; colon] (skipn vstart content) with
                          | Some nf => vstart + nf
                          | None => List.length content
                          end in
              let e := {| e_tag := normalize_field_tag raw_tag; e_value := trim (sub content vstart vend);
                          e_line := line; e_idx := fp |} in
              tok_loop f content vend (N.succ fp) line (e :: acc)
          end
      end
  end.

Definition parse_block4_fields (block4 : bytes) : tres :=
  let content := trim block4 in
  tok_loop (S (List.length content)) content 0 0%N 1%N [].
