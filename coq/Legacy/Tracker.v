(* Legacy/Tracker.v — FieldConsumptionTracker and find_field_with_variant_sequential_constrained
   (parser/swift_parser.rs), and split_into_sequences' assignment (parser/sequence_parser.rs).
   The field map is the ordered entry list of Block4Map; a stamp identifies an occurrence. *)

From Coq Require Import Strings.String.
From SwiftMT Require Import Base.Bytes Base.StrOps Legacy.Block4Map.
From Coq Require Import Lia.

(* values of one tag, in map order: (value, stamp) *)
Definition values_of (es : list entry) (tag : bytes) : list (bytes * N) :=
  map (fun e => (e_value e, stamp e)) (filter (fun e => bytes_eqb (e_tag e) tag) es).

(* consumed_indices: tag -> stamps *)
Definition tracker := list (bytes * N).
Definition consumed (tr : tracker) (tag : bytes) (pos : N) : bool :=
  existsb (fun p => bytes_eqb (fst p) tag && N.eqb (snd p) pos) tr.
Definition mark_consumed (tr : tracker) (tag : bytes) (pos : N) : tracker := (tag, pos) :: tr.

(* get_next_available: first value whose stamp is not consumed for this tag *)
Fixpoint next_available (tr : tracker) (tag : bytes) (vals : list (bytes * N)) : option (bytes * N) :=
  match vals with
  | [] => None
  | (v, p) :: r => if consumed tr tag p then next_available tr tag r else Some (v, p)
  end.

(* the exact-tag path of find_field_with_variant_sequential_constrained: look up, return, mark *)
Definition consume (es : list entry) (tr : tracker) (tag : bytes) : option (bytes * N) * tracker :=
  match next_available tr tag (values_of es tag) with
  | Some (v, p) => (Some (v, p), mark_consumed tr tag p)
  | None => (None, tr)
  end.

(* ---- sequential consumption returns each occurrence once, in map order *)

(* run a history of consumption requests; collect what each returns *)
Fixpoint run_history (es : list entry) (tr : tracker) (h : list bytes) : list (bytes * option (bytes * N)) :=
  match h with
  | [] => []
  | t :: r => let '(res, tr') := consume es tr t in (t, res) :: run_history es tr' r
  end.

Definition returned_for (tag : bytes) (out : list (bytes * option (bytes * N))) : list (bytes * N) :=
  flat_map (fun x => if bytes_eqb (fst x) tag then match snd x with Some v => [v] | None => [] end else []) out.

Definition requests_for (tag : bytes) (h : list bytes) : nat := List.length (filter (bytes_eqb tag) h).

Definition consumed_prefix (tr : tracker) (tag : bytes) (vals : list (bytes * N)) (k : nat) : Prop :=
  (forall v p, In (v, p) (firstn k vals) -> consumed tr tag p = true) /\
  (forall v p, In (v, p) (skipn k vals) -> consumed tr tag p = false).

Lemma consumed_mark_same : forall tr tag p, consumed (mark_consumed tr tag p) tag p = true.
Proof. intros. unfold consumed, mark_consumed. cbn. rewrite bytes_eqb_refl, N.eqb_refl. reflexivity. Qed.

Lemma consumed_mark_other_tag : forall tr tag tag' p q, tag <> tag' ->
  consumed (mark_consumed tr tag' q) tag p = consumed tr tag p.
Proof.
  intros. unfold consumed, mark_consumed. cbn. apply bytes_eqb_neq in H.
  assert (E : bytes_eqb tag' tag = false).
  { destruct (bytes_eqb tag' tag) eqn:E; [|reflexivity]. apply bytes_eqb_eq in E. subst.
    rewrite bytes_eqb_refl in H. discriminate. }
  rewrite E. reflexivity.
Qed.

Lemma consumed_mark_other_pos : forall tr tag p q, p <> q ->
  consumed (mark_consumed tr tag q) tag p = consumed tr tag p.
Proof.
  intros. unfold consumed, mark_consumed. cbn. rewrite bytes_eqb_refl.
  assert (E : N.eqb q p = false) by (apply N.eqb_neq; lia). rewrite E. reflexivity.
Qed.

Lemma next_available_prefix : forall tr tag vals k, consumed_prefix tr tag vals k ->
  next_available tr tag vals = nth_error vals k.
Proof.
  intros tr tag vals. induction vals as [|[v p] r IH]; intros k [H1 H2].
  - destruct k; reflexivity.
  - cbn [next_available]. destruct k as [|k].
    + cbn [skipn] in H2. rewrite (H2 v p (or_introl eq_refl)). reflexivity.
    + cbn [firstn] in H1. rewrite (H1 v p (or_introl eq_refl)). cbn [nth_error]. apply IH. split.
      * intros v' p' Hin. apply (H1 v' p'). right. exact Hin.
      * intros v' p' Hin. apply (H2 v' p'). exact Hin.
Qed.

(* the main invariant: with pairwise distinct stamps within a tag, after any history the consumed
   set of each tag is exactly a prefix of its value list, as long as the history asked for it *)
Definition distinct_stamps (vals : list (bytes * N)) : Prop := NoDup (map snd vals).

Lemma in_skipn_S : forall A (l : list A) k x, nth_error l k = Some x -> skipn k l = x :: skipn (S k) l.
Proof.
  intros A l. induction l as [|y r IH]; intros k x H; [destruct k; discriminate|].
  destruct k as [|k]; cbn in H |- *; [inversion H; reflexivity|]. apply IH. exact H.
Qed.

Lemma firstn_S_snoc : forall A (l : list A) k x, nth_error l k = Some x -> firstn (S k) l = firstn k l ++ [x].
Proof.
  intros A l. induction l as [|y r IH]; intros k x H; [destruct k; discriminate|].
  destruct k as [|k]; cbn in H |- *; [inversion H; reflexivity|]. f_equal. apply IH. exact H.
Qed.

Lemma NoDup_nth_notin_rest : forall (l : list (bytes * N)) k v p, NoDup (map snd l) -> nth_error l k = Some (v, p) ->
  forall v' p', In (v', p') (skipn (S k) l) -> p' <> p.
Proof.
  intros l. induction l as [|[v0 p0] r IH]; intros k v p Hnd Hn v' p' Hin; [destruct k; discriminate|].
  cbn [map] in Hnd. inversion Hnd as [|? ? Hni Hnd']; subst.
  destruct k as [|k]; cbn in Hn, Hin.
  - inversion Hn; subst. intro E. subst. apply Hni. apply in_map_iff. exists (v', p). split; [reflexivity|exact Hin].
  - eapply IH; eassumption.
Qed.

Lemma consume_step : forall es tr tag k,
  distinct_stamps (values_of es tag) -> consumed_prefix tr tag (values_of es tag) k ->
  let '(res, tr') := consume es tr tag in
  res = nth_error (values_of es tag) k /\
  consumed_prefix tr' tag (values_of es tag) (if res then S k else k) /\
  (forall tag' k', tag' <> tag -> consumed_prefix tr tag' (values_of es tag') k' -> consumed_prefix tr' tag' (values_of es tag') k').
Proof.
  intros es tr tag k Hd Hp. unfold consume. rewrite (next_available_prefix _ _ _ _ Hp).
  destruct (nth_error (values_of es tag) k) as [[v p]|] eqn:En.
  - split; [reflexivity|]. split.
    + destruct Hp as [H1 H2]. split.
      * intros v' p' Hin. rewrite (firstn_S_snoc _ _ _ _ En) in Hin. apply in_app_or in Hin. destruct Hin as [Hin|Hin].
        -- destruct (N.eq_dec p' p) as [->|Hne]; [apply consumed_mark_same|].
           rewrite consumed_mark_other_pos by exact Hne. eapply H1. exact Hin.
        -- destruct Hin as [E|[]]. inversion E; subst. apply consumed_mark_same.
      * intros v' p' Hin. rewrite consumed_mark_other_pos.
        -- apply (H2 v' p'). rewrite (in_skipn_S _ _ _ _ En). right. exact Hin.
        -- eapply NoDup_nth_notin_rest; eassumption.
    + intros tag' k' Hne [H1 H2]. split; intros v' p' Hin; rewrite consumed_mark_other_tag by exact Hne; eauto.
  - split; [reflexivity|]. split; [exact Hp|]. intros; assumption.
Qed.

Lemma skipn_nth_none : forall A (l : list A) k, nth_error l k = None -> skipn k l = [].
Proof.
  intros A l. induction l as [|y r IH]; intros k H; [destruct k; reflexivity|].
  destruct k as [|k]; [discriminate|]. cbn in H |- *. apply IH. exact H.
Qed.

Theorem history_returns_in_order : forall es, (forall tag, distinct_stamps (values_of es tag)) ->
  forall h tr (kf : bytes -> nat),
  (forall tag, consumed_prefix tr tag (values_of es tag) (kf tag)) ->
  forall tag, returned_for tag (run_history es tr h) =
              firstn (requests_for tag h) (skipn (kf tag) (values_of es tag)).
Proof.
  intros es Hd h. induction h as [|t r IH]; intros tr kf Hinv tag; [reflexivity|].
  cbn [run_history]. pose proof (consume_step es tr t (kf t) (Hd t) (Hinv t)) as Hs.
  destruct (consume es tr t) as [res tr'] eqn:Ec. destruct Hs as [Hres [Hpre Hoth]].
  set (kf' := fun x => if bytes_eqb x t then (if res then S (kf t) else kf t) else kf x).
  assert (Hinv' : forall tag0, consumed_prefix tr' tag0 (values_of es tag0) (kf' tag0)).
  { intro tag0. unfold kf'. destruct (bytes_eqb tag0 t) eqn:E.
    - apply bytes_eqb_eq in E. subst. exact Hpre.
    - apply Hoth; [apply bytes_eqb_neq; exact E|apply Hinv]. }
  unfold returned_for. cbn [flat_map fst snd]. fold (returned_for tag (run_history es tr' r)).
  rewrite (IH tr' kf' Hinv' tag). unfold requests_for. cbn [filter].
  destruct (bytes_eqb t tag) eqn:Et.
  - apply bytes_eqb_eq in Et. subst t. rewrite bytes_eqb_refl. cbn [List.length]. unfold kf'. rewrite bytes_eqb_refl.
    destruct res as [[v p]|].
    + symmetry in Hres. rewrite (in_skipn_S _ _ _ _ Hres). cbn [firstn app]. reflexivity.
    + symmetry in Hres. rewrite (skipn_nth_none _ _ _ Hres). cbn [app]. rewrite !firstn_nil. reflexivity.
  - assert (Et' : bytes_eqb tag t = false).
    { destruct (bytes_eqb tag t) eqn:E; [|reflexivity]. apply bytes_eqb_eq in E. subst. rewrite bytes_eqb_refl in Et. discriminate. }
    rewrite Et'. cbn [app]. unfold kf'. rewrite Et'. reflexivity.
Qed.

(* from a fresh tracker: the k-th request for a tag returns its k-th occurrence; each occurrence
   is returned at most once, in map (= input) order *)
Corollary fresh_history : forall es, (forall tag, distinct_stamps (values_of es tag)) ->
  forall h tag, returned_for tag (run_history es [] h) = firstn (requests_for tag h) (values_of es tag).
Proof.
  intros es Hd h tag.
  rewrite (history_returns_in_order es Hd h [] (fun _ => 0)); [reflexivity|].
  intro t. split; [intros v p H; destruct H|intros v p H; reflexivity].
Qed.

(* ---- split_into_sequences: the assignment loop, for any start indices *)
Inductive seq := SeqA | SeqB | SeqC.
Definition seq_a_tags : list bytes := map bs ["72"; "77E"; "79"]%string.
Definition assign (sb sc : option nat) (i : nat) (tag : bytes) : seq :=
  if mem tag seq_a_tags then SeqA else
  match sb with
  | None => SeqA
  | Some b => if Nat.ltb i b then SeqA else
              match sc with
              | Some c => if Nat.leb c i then SeqC else SeqB
              | None => SeqB
              end
  end.
Definition seq_eqb (a b : seq) : bool := match a, b with SeqA, SeqA | SeqB, SeqB | SeqC, SeqC => true | _, _ => false end.

Fixpoint indexed {A} (i : nat) (l : list A) : list (nat * A) :=
  match l with [] => [] | x :: r => (i, x) :: indexed (S i) r end.

Definition part (sb sc : option nat) (s : seq) (all : list entry) : list entry :=
  map snd (filter (fun ie => seq_eqb (assign sb sc (fst ie) (e_tag (snd ie))) s) (indexed 0 all)).

(* every field lands in exactly one of the three sequences *)
Theorem split_partition : forall sb sc all e,
  In e all -> (In e (part sb sc SeqA all) \/ In e (part sb sc SeqB all) \/ In e (part sb sc SeqC all)).
Proof.
  intros sb sc all e Hin. unfold part.
  assert (Hgen : forall i l, In e l -> exists j, In (j, e) (indexed i l)).
  { intros i l. revert i. induction l as [|x r IH]; intros i H; [destruct H|].
    destruct H as [->|H]; [exists i; left; reflexivity|]. destruct (IH (S i) H) as [j Hj]. exists j. right. exact Hj. }
  destruct (Hgen 0 all Hin) as [j Hj].
  destruct (assign sb sc j (e_tag e)) eqn:Ea; [left|right; left|right; right];
    apply in_map_iff; exists (j, e); (split; [reflexivity|]); apply filter_In; (split; [exact Hj|]);
    cbn [fst snd]; rewrite Ea; reflexivity.
Qed.

Theorem split_disjoint_lengths : forall sb sc all,
  List.length (part sb sc SeqA all) + List.length (part sb sc SeqB all) + List.length (part sb sc SeqC all) = List.length all.
Proof.
  intros sb sc all. unfold part. rewrite !map_length.
  assert (H : forall i l,
    List.length (filter (fun ie => seq_eqb (assign sb sc (fst ie) (e_tag (snd ie))) SeqA) (indexed i l)) +
    List.length (filter (fun ie => seq_eqb (assign sb sc (fst ie) (e_tag (snd ie))) SeqB) (indexed i l)) +
    List.length (filter (fun ie => seq_eqb (assign sb sc (fst ie) (e_tag (snd ie))) SeqC) (indexed i l)) = List.length l).
  { intros i l. revert i. induction l as [|x r IH]; intro i; [reflexivity|].
    cbn [indexed filter fst snd]. destruct (assign sb sc i (e_tag x)); cbn [seq_eqb List.length]; specialize (IH (S i)); lia. }
  apply H.
Qed.

(* ---- the variant path of find_field_with_variant_sequential_constrained: candidates are the map's
   tags base + one upper-case letter; they are tried in order of their smallest unconsumed stamp;
   variants outside [valid] are skipped.  With distinct stamps this is: the earliest unconsumed
   occurrence among the admissible variant tags. *)
Definition is_variant_of (base tag : bytes) : bool :=
  starts_with base tag && Nat.eqb (List.length tag) (S (List.length base)) &&
  match nth_error tag (List.length base) with Some c => ascii_upper c | None => false end.

Definition admissible (base : bytes) (valid : option (list bytes)) (tag : bytes) : bool :=
  is_variant_of base tag &&
  match valid with
  | None => true
  | Some vs => mem (skipn (List.length base) tag) vs
  end.

Fixpoint earliest (tr : tracker) (cands : list entry) (best : option entry) : option entry :=
  match cands with
  | [] => best
  | e :: r =>
      if consumed tr (e_tag e) (stamp e) then earliest tr r best
      else match best with
           | Some b => if N.ltb (stamp e) (stamp b) then earliest tr r (Some e) else earliest tr r best
           | None => earliest tr r (Some e)
           end
  end.

(* returns (value, variant letter or None for the bare tag, stamp) *)
Definition lookup_variant (es : list entry) (tr : tracker) (base : bytes) (valid : option (list bytes))
  : option (bytes * option bytes * N) * tracker :=
  match consume es tr base with
  | (Some (v, p), tr') => (Some (v, None, p), tr')
  | (None, _) =>
      match earliest tr (filter (fun e => admissible base valid (e_tag e)) es) None with
      | Some e => (Some (e_value e, Some (skipn (List.length base) (e_tag e)), stamp e), mark_consumed tr (e_tag e) (stamp e))
      | None => (None, tr)
      end
  end.

(* ---- split_into_sequences: where sequences B and C start (sequence_parser.rs) *)
Record seq_config := { cfg_marker : bytes; cfg_c_fields : list bytes; cfg_has_c : bool }.

Fixpoint position {A} (f : A -> bool) (l : list A) (i : nat) : option nat :=
  match l with [] => None | x :: r => if f x then Some i else position f r (S i) end.

Fixpoint second_20 (l : list entry) (i : nat) (seen : bool) : option nat :=
  match l with
  | [] => None
  | e :: r => if bytes_eqb (e_tag e) (bs "20") then (if seen then Some i else second_20 r (S i) true) else second_20 r (S i) seen
  end.

Fixpoint drop_trailing_alpha (rt : bytes) : bytes :=   (* on the reversed tag *)
  match rt with
  | c :: r => if is_alphabetic c then drop_trailing_alpha r else rt
  | [] => []
  end.
(* tag.trim_end_matches(char::is_alphabetic) — tags here are ASCII *)
Definition base_of (tag : bytes) : bytes := rev (drop_trailing_alpha (rev tag)).

Fixpoint last_index {A} (f : A -> bool) (l : list A) (i : nat) (acc : option nat) : option nat :=
  match l with [] => acc | x :: r => last_index f r (S i) (if f x then Some i else acc) end.

Definition seq_starts (cfg : seq_config) (all : list entry) : option nat * option nat :=
  let marker := cfg_marker cfg in
  let secondary := if bytes_eqb marker (bs "23") then Some (bs "25") else None in
  let is_marker (e : entry) := bytes_eqb (e_tag e) marker || match secondary with Some s => bytes_eqb (e_tag e) s | None => false end in
  let is_mt204 := bytes_eqb marker (bs "20") && Nat.ltb 1 (List.length (filter (fun e => bytes_eqb (e_tag e) (bs "20")) all)) in
  let sb := if is_mt204 then second_20 all 0 false else position is_marker all 0 in
  let sc :=
    if cfg_has_c cfg && match sb with Some _ => true | None => false end then
      if bytes_eqb marker (bs "61") then
        let markers := filter (fun f => negb (bytes_eqb f (bs "86"))) (cfg_c_fields cfg) in
        match sb with
        | Some b => match position (fun e => mem (base_of (e_tag e)) markers) (skipn b all) b with Some i => Some i | None => None end
        | None => None
        end
      else
        let ends := map bs ["59"; "70"; "71A"; "77B"; "36"]%string in
        match last_index (fun e => mem (base_of (e_tag e)) ends) all 0 None with
        | Some le => position (fun e => mem (e_tag e) (cfg_c_fields cfg)) (skipn (S le) all) (S le)
        | None => match sb with
                  | Some b => position (fun e => mem (e_tag e) (cfg_c_fields cfg)) (skipn b all) b
                  | None => None
                  end
        end
    else None in
  (sb, sc).

Definition split_into_sequences (cfg : seq_config) (all : list entry) : list entry * list entry * list entry :=
  let '(sb, sc) := seq_starts cfg all in
  (part sb sc SeqA all, part sb sc SeqB all, part sb sc SeqC all).

Definition get_sequence_config (mt : bytes) : seq_config :=
  if bytes_eqb mt (bs "MT104") then
    {| cfg_marker := bs "21"; cfg_c_fields := map bs ["32B"; "19"; "71F"; "71G"; "53"]%string; cfg_has_c := true |}
  else if bytes_eqb mt (bs "MT204") then {| cfg_marker := bs "20"; cfg_c_fields := []; cfg_has_c := false |}
  else {| cfg_marker := bs "21"; cfg_c_fields := []; cfg_has_c := false |}.
