(* Legacy/Total.v — the tokeniser loop of the field-map API terminates within its fuel on every input. *)

From Coq Require Import Lia.
From SwiftMT Require Import Base.Bytes Base.StrOps Legacy.Block4Map.

Lemma tok_loop_fuel : forall fuel content cp fp line acc,
  List.length content - cp < fuel -> tok_loop fuel content cp fp line acc <> TOutOfFuel.
Proof.
  induction fuel as [|f IH]; intros content cp fp line acc H; [lia|].
  cbn [tok_loop]. destruct (Nat.leb (List.length content) cp) eqn:L; [discriminate|].
  apply PeanoNat.Nat.leb_gt in L.
  destruct (find [colon] (skipn cp content)) as [fs|]; [|discriminate].
  destruct (find [colon] (skipn (cp + fs + 1) content)) as [te|]; [|discriminate].
  apply IH.
  destruct (find [nl; colon] (skipn (cp + fs + 1 + te + 1) content)) as [nf|]; lia.
Qed.

(* parse_block4_fields never runs out of fuel: it returns the entries or the structured "malformed field tag" error *)
Theorem parse_block4_fields_total : forall b, parse_block4_fields b <> TOutOfFuel.
Proof. intro b. unfold parse_block4_fields. apply tok_loop_fuel. lia. Qed.
