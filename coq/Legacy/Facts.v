(* Legacy/Facts.v — C16: stamps of the field-map tokeniser increase strictly in input order
   (below 65 536 fields; refuted beyond), hence consumption by tag is in input order. *)

From SwiftMT Require Import Base.Bytes Base.StrOps Legacy.Block4Map Legacy.Tracker.
From Coq Require Import Lia Sorting.Sorted.

Fixpoint wf_seq (fp line : N) (l : list entry) : Prop :=
  match l with
  | [] => True
  | e :: r => e_idx e = fp /\ (line <= e_line e)%N /\ wf_seq (N.succ fp) (e_line e) r
  end.

Lemma tok_loop_seq : forall fuel content cp fp line acc es,
  tok_loop fuel content cp fp line acc = TOk es ->
  exists news, es = rev acc ++ news /\ wf_seq fp line news.
Proof.
  induction fuel as [|f IH]; intros content cp fp line acc es H; [discriminate|].
  cbn [tok_loop] in H.
  destruct (Nat.leb (List.length content) cp); [inversion H; subst; exists []; rewrite app_nil_r; split; [reflexivity|exact I]|].
  set (line' := if Nat.ltb 0 cp && match nth_error (chars content) (cp - 1) with Some c => N.eqb c nl | None => false end
                then N.succ line else line) in *.
  assert (Hl : (line <= line')%N) by (unfold line'; destruct (_ && _); lia).
  destruct (find [colon] (skipn cp content)) as [fs|]; [|inversion H; subst; exists []; rewrite app_nil_r; split; [reflexivity|exact I]].
  destruct (find [colon] (skipn (cp + fs + 1) content)) as [te|]; [|discriminate].
  apply IH in H. destruct H as [news [-> Hw]]. cbn [rev]. rewrite <- app_assoc. cbn [app].
  eexists. split; [reflexivity|]. cbn [wf_seq e_idx e_line]. repeat split; [exact Hl|exact Hw].
Qed.

Theorem tokeniser_indices : forall b es, parse_block4_fields b = TOk es -> wf_seq 0 1 es.
Proof.
  intros b es H. unfold parse_block4_fields in H. apply tok_loop_seq in H. destruct H as [news [-> Hw]]. exact Hw.
Qed.

(* strictly increasing stamps below the 16-bit wrap *)
Lemma wf_seq_sorted : forall l fp line, wf_seq fp line l -> (fp + N.of_nat (List.length l) <= 65536)%N ->
  StronglySorted N.lt (map stamp l) /\ (forall e, In e l -> (line * 65536 + fp <= stamp e)%N).
Proof.
  induction l as [|e r IH]; intros fp line Hw Hb; [split; [constructor|intros e []]|].
  cbn [wf_seq] in Hw. destruct Hw as [Hi [Hl Hr]].
  assert (Hb' : (N.succ fp + N.of_nat (List.length r) <= 65536)%N) by (cbn [List.length] in Hb; lia).
  destruct (IH _ _ Hr Hb') as [Hs Hlow].
  assert (He : stamp e = (e_line e * 65536 + fp)%N).
  { unfold stamp. rewrite Hi. rewrite N.mod_small; [reflexivity|]. cbn [List.length] in Hb. lia. }
  split.
  - cbn [map]. constructor; [exact Hs|]. apply Forall_forall. intros x Hx. apply in_map_iff in Hx.
    destruct Hx as [e' [<- Hin]]. specialize (Hlow e' Hin). rewrite He. lia.
  - intros e' [<-|Hin]; [rewrite He; lia|]. specialize (Hlow e' Hin). lia.
Qed.

Theorem stamps_increase : forall b es, parse_block4_fields b = TOk es -> (N.of_nat (List.length es) <= 65536)%N ->
  StronglySorted N.lt (map stamp es).
Proof.
  intros b es H Hn. apply (wf_seq_sorted es 0%N 1%N (tokeniser_indices b es H)). lia.
Qed.

(* beyond 65 535 fields the low 16 bits wrap: the statement without the bound is refuted *)
Example stamps_refuted : exists e1 e2, e_line e1 = e_line e2 /\ e_idx e2 = N.succ (e_idx e1) /\ (stamp e2 < stamp e1)%N.
Proof.
  exists {| e_tag := []; e_value := []; e_line := 1; e_idx := 65535 |},
         {| e_tag := []; e_value := []; e_line := 1; e_idx := 65536 |}.
  vm_compute. repeat split; reflexivity.
Qed.

(* distinct stamps within every tag follow, which is what the tracker theorem needs *)
Lemma sorted_lt_nodup : forall l, StronglySorted N.lt l -> NoDup l.
Proof.
  induction l as [|x r IH]; intro H; [constructor|]. inversion H as [|? ? Hs Hf]; subst. constructor; [|apply IH; exact Hs].
  intro Hin. rewrite Forall_forall in Hf. specialize (Hf x Hin). lia.
Qed.

Lemma sorted_filter_map : forall (f : entry -> bool) l, StronglySorted N.lt (map stamp l) -> StronglySorted N.lt (map stamp (filter f l)).
Proof.
  induction l as [|e r IH]; intro H; [constructor|]. cbn [map] in H. inversion H as [|? ? Hs Hf]; subst.
  cbn [filter]. destruct (f e); [|apply IH; exact Hs]. cbn [map]. constructor; [apply IH; exact Hs|].
  apply Forall_forall. intros x Hx. apply in_map_iff in Hx. destruct Hx as [e' [<- Hin]]. apply filter_In in Hin.
  rewrite Forall_forall in Hf. apply Hf. apply in_map. exact (proj1 Hin).
Qed.

Theorem values_distinct : forall b es, parse_block4_fields b = TOk es -> (N.of_nat (List.length es) <= 65536)%N ->
  forall tag, distinct_stamps (values_of es tag).
Proof.
  intros b es H Hn tag. unfold distinct_stamps, values_of. rewrite map_map. cbn [snd].
  apply sorted_lt_nodup. apply (sorted_filter_map (fun e => bytes_eqb (e_tag e) tag)). exact (stamps_increase b es H Hn).
Qed.

(* C16, consumption: from a fresh tracker, for ANY interleaving of requests, the k-th request for a
   tag returns the k-th occurrence of that tag in the text; none is returned twice *)
Theorem consumption_in_input_order : forall b es, parse_block4_fields b = TOk es -> (N.of_nat (List.length es) <= 65536)%N ->
  forall h tag, returned_for tag (run_history es [] h) = firstn (requests_for tag h) (values_of es tag).
Proof.
  intros b es H Hn h tag. apply fresh_history. exact (values_distinct b es H Hn).
Qed.
