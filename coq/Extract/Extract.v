(* Extract/Extract.v — extraction of the executable model for the correspondence check.
   ExtrOcamlBasic only (bool, option, unit, prod, list, sumbool -> OCaml natives);
   N, Z, positive, nat, spec_float stay extracted inductives.  No Extract Constant /
   Extract Inductive directive of our own. *)

Require Extraction.
Require Import ExtrOcamlBasic.
From SwiftMT Require Import Base.Bytes Dispatch.Model Dispatch.Facts Dispatch.Defs.
From SwiftMT Require Import Dates.DateTime Num.Amount Classify.Model Headers.Hdr12 Headers.Hdr35 Headers.B3 Headers.Blocks Legacy.Block4Map Legacy.Tracker.
From SwiftMT Require Import Family.Model Family.Defs Rules.Msg Rules.All Fmt.Model Fmt.Defs.
From SwiftMT Require Import Base.StrOps Engine.Layout Engine.Tokens Engine.Extract Engine.Defs Engine.Factor Engine.Regex Engine.AbsInstance gen.Specs.

Extraction "swiftmt_model.ml"
  Dispatch.Model.parse_typed Dispatch.Model.parse_auto Dispatch.Model.plugin_parse
  Dispatch.Model.plugin_validate Dispatch.Model.publish Dispatch.Model.wrapper_validate
  Dispatch.Defs.gen_tables Dispatch.Facts.supported
  Engine.Extract.brun Engine.Tokens.trun Engine.Defs.layout_of Engine.Extract.extract_field_content
  Engine.Extract.b_detect Engine.Extract.b_complete Engine.Factor.is_canonical Engine.Regex.matchb gen.Specs.specs Engine.AbsInstance.inclusion_open Engine.AbsInstance.check_type
  Dates.DateTime.date_of Dates.DateTime.parse_time_hhmm Dates.DateTime.offset_ok Dates.DateTime.format_yymmdd Dates.DateTime.format_hhmm
  Num.Amount.parse_amount Num.Amount.parse_amount_dec Num.Amount.to_bits Num.Amount.format_amount Num.Amount.to_dec
  Classify.Model.has_reject Classify.Model.has_return Classify.Model.is_cover Classify.Model.plugin_method
  Headers.Hdr12.parse_b1 Headers.Hdr12.display_b1 Headers.Hdr12.parse_b2 Headers.Hdr12.display_b2 Headers.Hdr12.message_type_of
  Headers.Blocks.extract_block Headers.Blocks.trailer_display Headers.Blocks.user_header_display Headers.Hdr35.read_tag
  Legacy.Block4Map.parse_block4_fields Legacy.Block4Map.stamp Legacy.Tracker.lookup_variant Legacy.Tracker.values_of Legacy.Tracker.mark_consumed Legacy.Tracker.next_available Legacy.Tracker.split_into_sequences Legacy.Tracker.get_sequence_config
  Family.Model.named_core Family.Model.pwv_core Family.Defs.family_named Family.Defs.ptag Family.Defs.positions
  Rules.All.validate_rules Fmt.Defs.format_accepts.
