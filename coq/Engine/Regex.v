(* Engine/Regex.v — tag languages: the independent layout specification of a message type is a regular
   expression over full tags; derivatives, first sets and the head normal form used by the abstract
   interpreter (Engine/Abs.v).  Only the direction needed for soundness is proved: every word of the
   language is covered by the head normal form. *)

From Coq Require Import Lia Bool.
From SwiftMT Require Import Base.Bytes.

Inductive re :=
| RNone                                   (* no word *)
| REps                                    (* the empty word *)
| RTag (ts : list bytes)                  (* one field whose full tag is one of ts *)
| RSeq (a b : re)
| RAlt (a b : re)
| RRep (r : re) (lo : nat) (hi : option nat).   (* lo..hi repetitions of r (hi = None: unbounded) *)

Definition ropt (r : re) : re := RAlt r REps.

Fixpoint re_eqb (a b : re) : bool :=
  match a, b with
  | RNone, RNone => true
  | REps, REps => true
  | RTag x, RTag y => (fix go (x y : list bytes) := match x, y with
                        | [], [] => true | u :: x', v :: y' => bytes_eqb u v && go x' y' | _, _ => false end) x y
  | RSeq a1 a2, RSeq b1 b2 => re_eqb a1 b1 && re_eqb a2 b2
  | RAlt a1 a2, RAlt b1 b2 => re_eqb a1 b1 && re_eqb a2 b2
  | RRep r l h, RRep r' l' h' =>
      re_eqb r r' && Nat.eqb l l' && match h, h' with None, None => true | Some x, Some y => Nat.eqb x y | _, _ => false end
  | _, _ => false
  end.

Lemma tags_eqb_eq : forall x y,
  (fix go (x y : list bytes) := match x, y with
     | [], [] => true | u :: x', v :: y' => bytes_eqb u v && go x' y' | _, _ => false end) x y = true -> x = y.
Proof.
  induction x as [|u x IH]; intros [|v y] H; try discriminate; [reflexivity|].
  apply andb_prop in H. destruct H as [H1 H2]. apply bytes_eqb_eq in H1. subst. f_equal. apply IH. exact H2.
Qed.

Lemma re_eqb_eq : forall a b, re_eqb a b = true -> a = b.
Proof.
  induction a as [| |x|a1 IH1 a2 IH2|a1 IH1 a2 IH2|r IH l h]; intros [| |y|b1 b2|b1 b2|r' l' h'] H; cbn [re_eqb] in H;
    try discriminate; try reflexivity.
  - f_equal. apply tags_eqb_eq. exact H.
  - apply andb_prop in H. destruct H as [H1 H2]. f_equal; [apply IH1 | apply IH2]; assumption.
  - apply andb_prop in H. destruct H as [H1 H2]. f_equal; [apply IH1 | apply IH2]; assumption.
  - apply andb_prop in H. destruct H as [H H3]. apply andb_prop in H. destruct H as [H1 H2].
    apply Nat.eqb_eq in H2. subst l'. rewrite (IH r' H1).
    destruct h as [x|], h' as [y|]; try discriminate; [apply Nat.eqb_eq in H3; subst; reflexivity | reflexivity].
Qed.

(* ---- the language *)
Inductive matches : re -> list bytes -> Prop :=
| MEps : matches REps []
| MTag : forall ts t, mem t ts = true -> matches (RTag ts) [t]
| MSeq : forall a b u v, matches a u -> matches b v -> matches (RSeq a b) (u ++ v)
| MAltL : forall a b u, matches a u -> matches (RAlt a b) u
| MAltR : forall a b u, matches b u -> matches (RAlt a b) u
| MRepDone : forall r hi, matches (RRep r 0 hi) []
| MRepMore : forall r lo hi u v,
    u <> [] -> matches r u ->
    match hi with Some h => 1 <= h | None => True end ->
    matches (RRep r (pred lo) (match hi with Some h => Some (pred h) | None => None end)) v ->
    matches (RRep r lo hi) (u ++ v).
(* MRepMore takes one non-empty repetition; with lo = 0, pred lo = 0: any number may follow *)

Fixpoint nullable (r : re) : bool :=
  match r with
  | RNone => false
  | REps => true
  | RTag _ => false
  | RSeq a b => nullable a && nullable b
  | RAlt a b => nullable a || nullable b
  | RRep _ lo _ => Nat.eqb lo 0
  end.

Lemma nullable_sound : forall r, matches r [] -> nullable r = true.
Proof.
  intros r H. remember [] as w eqn:E. induction H; cbn [nullable]; try reflexivity; try discriminate.
  - apply app_eq_nil in E. destruct E as [-> ->]. rewrite IHmatches1, IHmatches2; reflexivity.
  - rewrite IHmatches; [reflexivity | exact E].
  - rewrite IHmatches; [apply orb_true_r | exact E].
  - apply app_eq_nil in E. destruct E as [-> _]. contradiction.
Qed.

(* smart constructors: keep residuals syntactically small and stable *)
Definition sseq (a b : re) : re :=
  match a, b with
  | RNone, _ => RNone
  | _, RNone => RNone
  | REps, _ => b
  | _, REps => a
  | _, _ => RSeq a b
  end.
(* alternatives are kept flat and without repetition, so that residuals of repetitions stabilise syntactically *)
Fixpoint alts (r : re) : list re :=
  match r with
  | RAlt a b => alts a ++ alts b
  | RNone => []
  | _ => [r]
  end.
Fixpoint dedup_re (l : list re) : list re :=
  match l with
  | [] => []
  | x :: t => if existsb (re_eqb x) t then dedup_re t else x :: dedup_re t
  end.
Fixpoint mk_alt (l : list re) : re :=
  match l with
  | [] => RNone
  | x :: t => match t with [] => x | _ :: _ => RAlt x (mk_alt t) end
  end.
Definition salt (a b : re) : re := mk_alt (dedup_re (alts a ++ alts b)).

Lemma sseq_sound : forall a b w, matches (RSeq a b) w -> matches (sseq a b) w.
Proof.
  intros a b w H. inversion H as [| |a' b' u v Ha Hb| | | |]; subst.
  destruct a; destruct b; cbn [sseq]; try exact H; try (inversion Ha; fail); try (inversion Hb; fail);
    try (inversion Ha; subst; cbn [app]; exact Hb); try (inversion Hb; subst; rewrite app_nil_r; exact Ha).
Qed.

Lemma alts_sound : forall r w, matches r w -> exists x, In x (alts r) /\ matches x w.
Proof.
  induction r as [| |ts|a IHa b IHb|a IHa b IHb|x IHx lo hi]; intros w H; cbn [alts].
  - inversion H.
  - exists REps. split; [left; reflexivity | exact H].
  - exists (RTag ts). split; [left; reflexivity | exact H].
  - exists (RSeq a b). split; [left; reflexivity | exact H].
  - inversion H as [| | |a' b' u Ha|a' b' u Hb| |]; subst.
    + destruct (IHa w Ha) as [x [Hin Hx]]. exists x. split; [apply in_or_app; left; exact Hin | exact Hx].
    + destruct (IHb w Hb) as [x [Hin Hx]]. exists x. split; [apply in_or_app; right; exact Hin | exact Hx].
  - exists (RRep x lo hi). split; [left; reflexivity | exact H].
Qed.
Lemma alts_complete : forall r w x, In x (alts r) -> matches x w -> matches r w.
Proof.
  induction r as [| |ts|a IHa b IHb|a IHa b IHb|y IHy lo hi]; intros w x Hin Hx; cbn [alts] in Hin;
    try (destruct Hin as [E|[]]; subst x; exact Hx).
  - contradiction.
  - apply in_app_or in Hin. destruct Hin as [Hin|Hin]; [apply MAltL; exact (IHa w x Hin Hx) | apply MAltR; exact (IHb w x Hin Hx)].
Qed.
Lemma dedup_re_in : forall l x, In x l -> In x (dedup_re l).
Proof.
  induction l as [|y t IH]; intros x H; [contradiction|]. cbn [dedup_re]. destruct H as [E|H].
  - subst y. destruct (existsb (re_eqb x) t) eqn:Ex.
    + apply existsb_exists in Ex. destruct Ex as [z [Hz Ez]]. apply re_eqb_eq in Ez. subst z. apply IH. exact Hz.
    + left. reflexivity.
  - destruct (existsb (re_eqb y) t); [apply IH; exact H | right; apply IH; exact H].
Qed.
Lemma dedup_re_sub : forall l x, In x (dedup_re l) -> In x l.
Proof.
  induction l as [|y t IH]; intros x H; [contradiction|]. cbn [dedup_re] in H.
  destruct (existsb (re_eqb y) t); [right; apply IH; exact H|]. destruct H as [E|H]; [left; exact E | right; apply IH; exact H].
Qed.
Lemma mk_alt_sound : forall l x w, In x l -> matches x w -> matches (mk_alt l) w.
Proof.
  induction l as [|y t IH]; intros x w Hin Hx; [contradiction|]. cbn [mk_alt]. destruct t as [|z t'].
  - destruct Hin as [E|[]]. subst y. exact Hx.
  - destruct Hin as [E|Hin]; [subst y; apply MAltL; exact Hx | apply MAltR; exact (IH x w Hin Hx)].
Qed.
Lemma mk_alt_complete : forall l w, matches (mk_alt l) w -> exists x, In x l /\ matches x w.
Proof.
  induction l as [|y t IH]; intros w H; cbn [mk_alt] in H; [inversion H|]. destruct t as [|z t'].
  - exists y. split; [left; reflexivity | exact H].
  - inversion H as [| | |a' b' u Ha|a' b' u Hb| |]; subst.
    + exists y. split; [left; reflexivity | exact Ha].
    + destruct (IH w Hb) as [x [Hin Hx]]. exists x. split; [right; exact Hin | exact Hx].
Qed.

Lemma salt_sound : forall a b w, matches (RAlt a b) w -> matches (salt a b) w.
Proof.
  intros a b w H. destruct (alts_sound (RAlt a b) w H) as [x [Hin Hx]]. cbn [alts] in Hin.
  unfold salt. apply (mk_alt_sound _ x w); [apply dedup_re_in; exact Hin | exact Hx].
Qed.

(* Brzozowski derivative by one tag *)
Fixpoint deriv (t : bytes) (r : re) : re :=
  match r with
  | RNone | REps => RNone
  | RTag ts => if mem t ts then REps else RNone
  | RSeq a b => salt (sseq (deriv t a) b) (if nullable a then deriv t b else RNone)
  | RAlt a b => salt (deriv t a) (deriv t b)
  | RRep x lo hi =>
      match hi with
      | Some 0 => RNone
      | _ => sseq (deriv t x) (RRep x (pred lo) (match hi with Some h => Some (pred h) | None => None end))
      end
  end.

Lemma deriv_sound : forall r t w, matches r (t :: w) -> matches (deriv t r) w.
Proof.
  intros r t w H. remember (t :: w) as tw eqn:E. revert t w E.
  induction H as [|ts t0 Hm|a b u v Ha IHa Hb IHb|a b u Ha IHa|a b u Hb IHb|r hi|r lo hi u v Hne Hu IHu Hhi Hv IHv];
    intros t w E; cbn [deriv].
  - discriminate.
  - inversion E; subst. rewrite Hm. constructor.
  - apply salt_sound. destruct u as [|c u'].
    + cbn [app] in E. subst v. apply MAltR. rewrite (nullable_sound a Ha). apply IHb. reflexivity.
    + cbn [app] in E. inversion E; subst. apply MAltL. apply sseq_sound. constructor; [apply IHa; reflexivity | exact Hb].
  - apply salt_sound. apply MAltL. apply IHa. exact E.
  - apply salt_sound. apply MAltR. apply IHb. exact E.
  - discriminate.
  - destruct u as [|c u']; [contradiction|]. cbn [app] in E. inversion E; subst.
    assert (G : matches (sseq (deriv t r) (RRep r (pred lo) (match hi with Some h => Some (pred h) | None => None end))) (u' ++ v)) by
      (apply sseq_sound; constructor; [apply IHu; reflexivity | exact Hv]).
    destruct hi as [[|h]|]; [lia | exact G | exact G].
Qed.

(* ---- first tags and the head normal form *)
Fixpoint first (r : re) : list bytes :=
  match r with
  | RNone | REps => []
  | RTag ts => ts
  | RSeq a b => first a ++ (if nullable a then first b else [])
  | RAlt a b => first a ++ first b
  | RRep x lo hi => match hi with Some 0 => [] | _ => first x end
  end.

Lemma mem_app_l : forall t (a b : list bytes), mem t a = true -> mem t (a ++ b) = true.
Proof. intros t a b H. unfold mem in *. rewrite existsb_app, H. reflexivity. Qed.
Lemma mem_app_r : forall t (a b : list bytes), mem t b = true -> mem t (a ++ b) = true.
Proof. intros t a b H. unfold mem in *. rewrite existsb_app, H. apply orb_true_r. Qed.

Lemma first_sound : forall r t w, matches r (t :: w) -> mem t (first r) = true.
Proof.
  intros r t w H. remember (t :: w) as tw eqn:E. revert t w E.
  induction H as [|ts t0 Hm|a b u v Ha IHa Hb IHb|a b u Ha IHa|a b u Hb IHb|r hi|r lo hi u v Hne Hu IHu Hhi Hv IHv];
    intros t w E; cbn [first].
  - discriminate.
  - inversion E; subst. exact Hm.
  - destruct u as [|c u'].
    + cbn [app] in E. subst v. apply mem_app_r. rewrite (nullable_sound a Ha). apply (IHb t w). reflexivity.
    + cbn [app] in E. inversion E; subst. apply mem_app_l. apply (IHa t u'). reflexivity.
  - apply mem_app_l. apply (IHa t w). exact E.
  - apply mem_app_r. apply (IHb t w). exact E.
  - discriminate.
  - destruct u as [|c u']; [contradiction|]. cbn [app] in E. inversion E; subst.
    destruct hi as [[|h]|]; [lia | apply (IHu t u'); reflexivity | apply (IHu t u'); reflexivity].
Qed.

Fixpoint dedup (l : list bytes) : list bytes :=
  match l with
  | [] => []
  | x :: r => if mem x r then dedup r else x :: dedup r
  end.
Lemma mem_dedup : forall t l, mem t l = true -> mem t (dedup l) = true.
Proof.
  intros t l. induction l as [|x r IH]; intro H; [discriminate|].
  change (mem t (x :: r)) with (bytes_eqb t x || mem t r) in H. cbn [dedup].
  destruct (bytes_eqb t x) eqn:E.
  - apply bytes_eqb_eq in E. subst x. destruct (mem t r) eqn:M; [apply IH; reflexivity|].
    change (bytes_eqb t t || mem t (dedup r) = true). rewrite bytes_eqb_refl. reflexivity.
  - cbn [orb] in H. destruct (mem x r); [apply IH; exact H|].
    change (bytes_eqb t x || mem t (dedup r) = true). rewrite E. apply IH. exact H.
Qed.

Inductive hd := HEmpty | HCons (t : bytes) (r : re).
Definition hd_eqb (a b : hd) : bool :=
  match a, b with
  | HEmpty, HEmpty => true
  | HCons t r, HCons t' r' => bytes_eqb t t' && re_eqb r r'
  | _, _ => false
  end.
Lemma hd_eqb_eq : forall a b, hd_eqb a b = true -> a = b.
Proof.
  intros [|t r] [|t' r'] H; try discriminate; [reflexivity|]. cbn in H. apply andb_prop in H. destruct H as [H1 H2].
  apply bytes_eqb_eq in H1. apply re_eqb_eq in H2. subst. reflexivity.
Qed.

Definition hd_in (h : hd) (w : list bytes) : Prop :=
  match h with
  | HEmpty => w = []
  | HCons t r => exists w', w = t :: w' /\ matches r w'
  end.

Definition hnf (r : re) : list hd :=
  (if nullable r then [HEmpty] else []) ++ map (fun t => HCons t (deriv t r)) (dedup (first r)).

Lemma hnf_sound : forall r w, matches r w -> exists h, In h (hnf r) /\ hd_in h w.
Proof.
  intros r w H. unfold hnf. destruct w as [|t w'].
  - exists HEmpty. rewrite (nullable_sound r H). split; [left; reflexivity | reflexivity].
  - exists (HCons t (deriv t r)). split.
    + apply in_or_app. right. apply in_map_iff. exists t. split; [reflexivity|].
      apply mem_in. apply mem_dedup. exact (first_sound r t w' H).
    + exists w'. split; [reflexivity | apply deriv_sound; exact H].
Qed.

(* ---- the converse direction: a decidable matcher (used to exhibit members of the language and by the
   correspondence runs to check that generated messages are words of the specification) *)
Lemma sseq_complete : forall a b w, matches (sseq a b) w -> matches (RSeq a b) w.
Proof.
  intros a b w H.
  assert (E1 : forall x, matches x w -> matches (RSeq REps x) w) by (intros x K; apply (MSeq REps x [] w); [constructor | exact K]).
  assert (E2 : forall x, matches x w -> matches (RSeq x REps) w) by (intros x K; rewrite <- (app_nil_r w); apply MSeq; [exact K | constructor]).
  destruct a; destruct b; cbn [sseq] in H; try exact H; try (inversion H; fail); try (apply E1; exact H); try (apply E2; exact H).
Qed.
Lemma salt_complete : forall a b w, matches (salt a b) w -> matches (RAlt a b) w.
Proof.
  intros a b w H. unfold salt in H. destruct (mk_alt_complete _ w H) as [x [Hin Hx]].
  apply dedup_re_sub in Hin. apply (alts_complete (RAlt a b) w x); [exact Hin | exact Hx].
Qed.

Lemma deriv_complete : forall r t w, matches (deriv t r) w -> matches r (t :: w).
Proof.
  induction r as [| |ts|a IHa b IHb|a IHa b IHb|x IHx lo hi]; intros t w H; cbn [deriv] in H.
  - inversion H.
  - inversion H.
  - destruct (mem t ts) eqn:E; [|inversion H]. inversion H; subst. constructor. exact E.
  - apply salt_complete in H. inversion H as [| | |a' b' u Ha|a' b' u Hb| |]; subst.
    + apply sseq_complete in Ha. inversion Ha as [| |a' b' u v Hu Hv| | | |]; subst.
      change (t :: u ++ v) with ((t :: u) ++ v). constructor; [apply IHa; exact Hu | exact Hv].
    + destruct (nullable a) eqn:N; [|inversion Hb].
      assert (NE : forall r0, nullable r0 = true -> matches r0 []).
      { clear. induction r0 as [| |ts|a IHa b IHb|a IHa b IHb|x IHx lo hi]; cbn [nullable]; intro N; try discriminate.
        - constructor.
        - apply andb_prop in N. destruct N as [N1 N2]. apply (MSeq a b [] []); [apply IHa | apply IHb]; assumption.
        - apply orb_prop in N. destruct N as [N|N]; [apply MAltL; apply IHa | apply MAltR; apply IHb]; exact N.
        - apply Nat.eqb_eq in N. subst lo. constructor. }
      apply (MSeq a b [] (t :: w)); [apply NE; exact N | apply IHb; exact Hb].
  - apply salt_complete in H. inversion H; subst; [apply MAltL; apply IHa | apply MAltR; apply IHb]; assumption.
  - assert (K : matches (sseq (deriv t x) (RRep x (pred lo) (match hi with Some h => Some (pred h) | None => None end))) w ->
                match hi with Some h => 1 <= h | None => True end -> matches (RRep x lo hi) (t :: w)).
    { intros K Hh. apply sseq_complete in K. inversion K as [| |a' b' u v Hu Hv| | | |]; subst.
      change (t :: u ++ v) with ((t :: u) ++ v). apply MRepMore; [discriminate | apply IHx; exact Hu | exact Hh | exact Hv]. }
    destruct hi as [[|h]|]; [inversion H | apply K; [exact H | lia] | apply K; [exact H | exact I]].
Qed.

Fixpoint matchb (r : re) (w : list bytes) : bool :=
  match w with
  | [] => nullable r
  | t :: w' => matchb (deriv t r) w'
  end.

Lemma nullable_complete : forall r, nullable r = true -> matches r [].
Proof.
  induction r as [| |ts|a IHa b IHb|a IHa b IHb|x IHx lo hi]; cbn [nullable]; intro N; try discriminate.
  - constructor.
  - apply andb_prop in N. destruct N as [N1 N2]. apply (MSeq a b [] []); [apply IHa | apply IHb]; assumption.
  - apply orb_prop in N. destruct N as [N|N]; [apply MAltL; apply IHa | apply MAltR; apply IHb]; exact N.
  - apply Nat.eqb_eq in N. subst lo. constructor.
Qed.

Theorem matchb_spec : forall w r, matchb r w = true <-> matches r w.
Proof.
  induction w as [|t w IH]; intro r; cbn [matchb]; split; intro H.
  - apply nullable_complete. exact H.
  - apply nullable_sound. exact H.
  - apply deriv_complete. apply IH. exact H.
  - apply IH. apply deriv_sound. exact H.
Qed.
