(* Engine/Factor.v — byte level = token level.
   A text block written canonically from a token list (":tag:content" + line end, optional leading
   white space, LF or CRLF) is read by the byte-level cursor (field_extractor.rs / MessageParser
   as transcribed in Engine/Extract.v) exactly as the token cursor reads the token list, for every
   layout whose tags contain no colon, every fuel and every field-parser oracle.  The conditions on
   contents are SWIFT's own: no line of a content starts with ':' or '-', no "-}" inside, no trailing
   line end. *)

From Coq Require Import Lia Bool.
From SwiftMT Require Import Base.Bytes Base.StrOps Base.FindFacts Engine.Layout Engine.Tokens Engine.Extract Engine.Sim.

(* ---- predicates on tags and contents *)
Definition nocolon (t : bytes) : bool := forallb (fun b => negb (N.eqb b colon)) t.
Definition tag_ok (t : bytes) : bool := Nat.leb 2 (length t) && Nat.leb (length t) 4 && forallb ascii_alnum t.

(* no byte a immediately followed by byte b *)
Fixpoint no_pair (a b : N) (s : bytes) : bool :=
  match s with
  | c :: r => negb (N.eqb c a && match r with d :: _ => N.eqb d b | [] => false end) && no_pair a b r
  | [] => true
  end.
Fixpoint last_is (a : N) (s : bytes) : bool :=
  match s with
  | [] => false
  | c :: r => match r with [] => N.eqb c a | _ :: _ => last_is a r end
  end.

Definition content_ok (x : bytes) : bool :=
  no_pair nl colon x && no_pair nl dash x && no_pair dash rbrace x && negb (last_is nl x) && negb (last_is cr x).
Definition tok_ok (t : tok) : bool := tag_ok (fst t) && content_ok (snd t).
Definition aws (w : bytes) : bool := forallb (fun b => N.eqb b nl || N.eqb b cr || N.eqb b 32) w.

Definition eol (crlf : bool) : bytes := if crlf then [cr; nl] else [nl].
Fixpoint render (crlf : bool) (toks : list tok) : bytes :=
  match toks with
  | [] => []
  | (t, x) :: r => marker t ++ x ++ eol crlf ++ render crlf r
  end.

(* the class of texts the factorisation speaks about, as one executable predicate (extracted: the correspondence
   runs count how many of their texts fall in it) *)
Definition is_canonical (text w : bytes) (crlf : bool) (toks : list tok) : bool :=
  aws w && forallb tok_ok toks && bytes_eqb text (w ++ render crlf toks).

(* ---- small list facts *)
Lemma last_is_snoc : forall a s c, last_is a (s ++ [c]) = N.eqb c a.
Proof.
  intros a s c. induction s as [|d r IH]; [reflexivity|].
  cbn [app last_is]. destruct (r ++ [c]) eqn:E; [destruct r; discriminate|]. exact IH.
Qed.

Lemma trim_end_snoc : forall c s, trim_end_byte c (s ++ [c]) = trim_end_byte c s.
Proof. intros c s. unfold trim_end_byte. rewrite rev_app_distr. cbn [rev app drop_while_eq]. rewrite N.eqb_refl. reflexivity. Qed.

Lemma trim_end_id : forall c s, last_is c s = false -> trim_end_byte c s = s.
Proof.
  intros c s. destruct s as [|d r] using rev_ind; intro H; [reflexivity|].
  rewrite last_is_snoc in H. unfold trim_end_byte. rewrite rev_app_distr. cbn [rev app drop_while_eq]. rewrite H.
  change (rev (d :: rev r) = r ++ [d]). cbn [rev]. rewrite rev_involutive. reflexivity.
Qed.

Lemma no_pair_find : forall a b p s, no_pair a b s = true -> find (a :: b :: p) s = None.
Proof.
  intros a b p s. induction s as [|c r IH]; intro H; [reflexivity|].
  cbn [no_pair] in H. apply andb_prop in H. destruct H as [H1 H2].
  cbn [find]. rewrite (IH H2).
  assert (E : starts_with (a :: b :: p) (c :: r) = false).
  { cbn [starts_with]. destruct (N.eqb a c) eqn:Eac; [|reflexivity]. apply N.eqb_eq in Eac. subst c.
    rewrite N.eqb_refl in H1. destruct r as [|d r']; [reflexivity|]. cbn [andb] in H1.
    rewrite N.eqb_sym. destruct (N.eqb d b); [discriminate | reflexivity]. }
  rewrite E. reflexivity.
Qed.

Lemma no_pair_app : forall a b x y, no_pair a b x = true -> no_pair a b y = true ->
  match y with d :: _ => negb (N.eqb d b) | [] => true end = true -> no_pair a b (x ++ y) = true.
Proof.
  intros a b x y Hx Hy Hh. induction x as [|c r IH]; [exact Hy|].
  cbn [no_pair] in Hx. apply andb_prop in Hx. destruct Hx as [H1 H2].
  cbn [app no_pair]. rewrite (IH H2), andb_true_r.
  destruct r as [|d r']; [|exact H1].
  cbn [app]. destruct y as [|d y']; [exact H1|]. destruct (N.eqb d b); [discriminate|]. rewrite andb_false_r. reflexivity.
Qed.

Lemma find_colon : forall t z, nocolon t = true -> find [colon] (t ++ colon :: z) = Some (length t).
Proof.
  induction t as [|c r IH]; intros z H.
  - cbn [app find starts_with]. rewrite N.eqb_refl. reflexivity.
  - cbn [nocolon forallb] in H. apply andb_prop in H. destruct H as [H1 H2].
    cbn [app find starts_with]. rewrite N.eqb_sym. destruct (N.eqb c colon); [discriminate|]. cbn [andb].
    rewrite (IH z H2). reflexivity.
Qed.

Lemma chars_ascii : forall t, forallb (fun b => N.ltb b 128) t = true -> chars t = t.
Proof.
  intro t. unfold chars. generalize (le_n (length t)). generalize (length t) at 2 3. intros f.
  revert t. induction f as [|f IH]; intros t L H.
  - destruct t; [reflexivity | cbn in L; lia].
  - destruct t as [|b r]; [reflexivity|]. cbn [forallb] in H. apply andb_prop in H. destruct H as [H1 H2].
    cbn [decode_fuel]. rewrite H1. rewrite IH; [reflexivity | cbn in L; lia | exact H2].
Qed.

Lemma alnum_ascii : forall b, ascii_alnum b = true -> N.ltb b 128 = true.
Proof.
  intros b H. unfold ascii_alnum, ascii_digit, ascii_upper, ascii_lower in H. apply N.ltb_lt.
  repeat match goal with
         | H : (_ || _) = true |- _ => apply orb_prop in H; destruct H as [H|H]
         | H : (_ && _) = true |- _ => apply andb_prop in H; destruct H as [? H]
         end; apply N.leb_le in H; lia.
Qed.

Lemma tag_ok_nocolon : forall t, tag_ok t = true -> nocolon t = true.
Proof.
  intros t H. unfold tag_ok in H. apply andb_prop in H. destruct H as [_ H]. unfold nocolon.
  rewrite forallb_forall in *. intros b Hb. specialize (H b Hb).
  destruct (N.eqb b colon) eqn:E; [|reflexivity]. apply N.eqb_eq in E. subst b. discriminate.
Qed.

Lemma marker_is_field_marker : forall t z, tag_ok t = true -> is_field_marker (marker t ++ z) = true.
Proof.
  intros t z H. pose proof (tag_ok_nocolon t H) as NC. unfold marker. cbn [app is_field_marker]. rewrite N.eqb_refl. cbn [negb].
  rewrite <- app_assoc. cbn [app]. rewrite (find_colon t z NC).
  rewrite firstn_app, Nat.sub_diag, firstn_all. cbn [firstn]. rewrite app_nil_r.
  unfold tag_ok in H. apply andb_prop in H. destruct H as [H H3]. rewrite H. cbn [andb].
  rewrite chars_ascii.
  - rewrite forallb_forall in *. intros b Hb. specialize (H3 b Hb). unfold is_alphanumeric. rewrite (alnum_ascii b H3). exact H3.
  - rewrite forallb_forall in *. intros b Hb. apply alnum_ascii. apply H3. exact Hb.
Qed.

(* ---- the boundary search *)
Lemma boundary_none : forall s, no_pair nl colon s = true -> find_next_field_boundary s = None.
Proof.
  induction s as [|c r IH]; intro H; [reflexivity|].
  cbn [no_pair] in H. apply andb_prop in H. destruct H as [H1 H2].
  cbn [find_next_field_boundary]. rewrite (IH H2).
  destruct (N.eqb c nl); [|reflexivity]. cbn [andb] in *.
  destruct r as [|d r']; [reflexivity|]. cbn [starts_with]. rewrite N.eqb_sym. destruct (N.eqb d colon); [discriminate | reflexivity].
Qed.

Lemma boundary_at : forall x pre Y, no_pair nl colon x = true ->
  (pre = [] \/ pre = [cr]) -> starts_with [colon] Y = true -> is_field_marker Y = true ->
  find_next_field_boundary (x ++ pre ++ nl :: Y) = Some (length x + length pre).
Proof.
  intros x pre Y Hx Hp HY HM. induction x as [|c r IH].
  - cbn [app length plus]. destruct Hp as [-> | ->]; cbn [app find_next_field_boundary length].
    + rewrite N.eqb_refl, HY, HM. reflexivity.
    + replace (N.eqb cr nl) with false by reflexivity. cbn [andb]. rewrite N.eqb_refl, HY, HM. reflexivity.
  - cbn [no_pair] in Hx. apply andb_prop in Hx. destruct Hx as [H1 H2].
    cbn [app find_next_field_boundary length plus]. rewrite (IH H2).
    destruct (N.eqb c nl); [|reflexivity]. cbn [andb] in *.
    destruct r as [|d r'].
    + destruct Hp as [-> | ->]; reflexivity.
    + cbn [app starts_with]. rewrite N.eqb_sym. destruct (N.eqb d colon); [discriminate | reflexivity].
Qed.

(* ---- extract_field_content on a canonical text *)
Lemma aws_nocolon : forall w, aws w = true -> forallb (fun b => negb (N.eqb colon b)) w = true.
Proof.
  intros w H. unfold aws in H. rewrite forallb_forall in *. intros b Hb. specialize (H b Hb).
  destruct (N.eqb colon b) eqn:E; [|reflexivity]. apply N.eqb_eq in E. subst b. discriminate.
Qed.

Lemma find_after : forall w p z, forallb (fun b => negb (N.eqb colon b)) w = true ->
  find (colon :: p) (w ++ (colon :: p) ++ z) = Some (length w).
Proof.
  induction w as [|c r IH]; intros p z H.
  - cbn [app length]. apply (find_at_zero (colon :: p) z).
  - cbn [forallb] in H. apply andb_prop in H. destruct H as [H1 H2].
    cbn [app find length]. replace (starts_with (colon :: p) (c :: r ++ colon :: p ++ z)) with false.
    + change (r ++ colon :: p ++ z) with (r ++ (colon :: p) ++ z). rewrite (IH p z H2). reflexivity.
    + cbn [starts_with]. destruct (N.eqb colon c); [discriminate | reflexivity].
Qed.

Lemma skipn_app2 : forall (a b z : bytes), skipn (length a + length b) (a ++ b ++ z) = z.
Proof. intros a b z. rewrite app_assoc, <- app_length. apply skipn_app_exact. Qed.

Definition pre (crlf : bool) : bytes := if crlf then [cr] else [].
Lemma eol_pre : forall crlf Y, eol crlf ++ Y = pre crlf ++ nl :: Y.
Proof. intros [|] Y; reflexivity. Qed.
Lemma pre_cases : forall crlf, pre crlf = [] \/ pre crlf = [cr].
Proof. intros [|]; [right | left]; reflexivity. Qed.

Lemma content_trim : forall x crlf, content_ok x = true ->
  trim_end_byte cr (trim_end_byte nl (x ++ pre crlf)) = x.
Proof.
  intros x crlf H. unfold content_ok in H.
  apply andb_prop in H. destruct H as [H Hc]. apply andb_prop in H. destruct H as [_ Hn].
  apply negb_true_iff in Hc. apply negb_true_iff in Hn.
  destruct crlf; cbn [pre].
  - rewrite (trim_end_id nl); [|rewrite last_is_snoc; reflexivity]. rewrite trim_end_snoc. apply trim_end_id. exact Hc.
  - rewrite app_nil_r. rewrite (trim_end_id nl x Hn). apply trim_end_id. exact Hc.
Qed.

Lemma efc_mid : forall w t x crlf Y, aws w = true -> content_ok x = true ->
  starts_with [colon] Y = true -> is_field_marker Y = true ->
  extract_field_content (w ++ marker t ++ x ++ eol crlf ++ Y) t
  = Some (x, length w + length (marker t) + length x + length (eol crlf)).
Proof.
  intros w t x crlf Y Hw Hx HY HM. unfold extract_field_content. cbv zeta.
  unfold marker at 1. rewrite (find_after w (t ++ [colon]) _ (aws_nocolon w Hw)). fold (marker t).
  rewrite skipn_app2. rewrite eol_pre.
  assert (NP : no_pair nl colon x = true).
  { unfold content_ok in Hx. repeat (apply andb_prop in Hx; destruct Hx as [Hx ?]). exact Hx. }
  rewrite (boundary_at x (pre crlf) Y NP (pre_cases crlf) HY HM).
  rewrite app_assoc, <- app_length, firstn_app, Nat.sub_diag, firstn_all. cbn [firstn]. rewrite app_nil_r.
  rewrite nth_error_app2 by lia. rewrite Nat.sub_diag. cbn [nth_error]. rewrite N.eqb_refl.
  rewrite (content_trim x crlf Hx). f_equal. f_equal. rewrite app_length. destruct crlf; cbn [pre eol length]; lia.
Qed.

Lemma efc_last : forall w t x crlf, aws w = true -> content_ok x = true ->
  extract_field_content (w ++ marker t ++ x ++ eol crlf) t
  = Some (x, length w + length (marker t) + length x + length (eol crlf)).
Proof.
  intros w t x crlf Hw Hx. unfold extract_field_content. cbv zeta.
  unfold marker at 1. rewrite (find_after w (t ++ [colon]) _ (aws_nocolon w Hw)). fold (marker t).
  rewrite skipn_app2.
  pose proof Hx as Hx0. unfold content_ok in Hx0.
  apply andb_prop in Hx0. destruct Hx0 as [Hx0 Hlc].
  apply andb_prop in Hx0. destruct Hx0 as [Hx0 Hln]. apply andb_prop in Hx0. destruct Hx0 as [Hx0 Hdr].
  apply andb_prop in Hx0. destruct Hx0 as [Hnc Hnd].
  assert (A1 : no_pair nl colon (x ++ eol crlf) = true) by (apply no_pair_app; [exact Hnc | destruct crlf; reflexivity | destruct crlf; reflexivity]).
  assert (A2 : no_pair nl dash (x ++ eol crlf) = true) by (apply no_pair_app; [exact Hnd | destruct crlf; reflexivity | destruct crlf; reflexivity]).
  assert (A3 : no_pair dash rbrace (x ++ eol crlf) = true) by (apply no_pair_app; [exact Hdr | destruct crlf; reflexivity | destruct crlf; reflexivity]).
  rewrite (boundary_none _ A1).
  rewrite (no_pair_find nl dash [rbrace] _ A2), (no_pair_find nl dash [nl] _ A2), (no_pair_find nl dash [] _ A2).
  rewrite (no_pair_find dash rbrace [] _ A3).
  replace (x ++ eol crlf) with ((x ++ pre crlf) ++ [nl]) by (destruct crlf; cbn [pre eol]; rewrite <- app_assoc; reflexivity).
  rewrite trim_end_snoc. rewrite (content_trim x crlf Hx). f_equal. f_equal.
  rewrite !app_length. destruct crlf; cbn [pre eol length]; lia.
Qed.

(* ---- detect / complete on a canonical text *)
Lemma trim_start_ws : forall w fuel z, aws w = true -> length w <= fuel ->
  trim_start_fuel fuel (w ++ colon :: z) = colon :: z.
Proof.
  induction w as [|c r IH]; intros fuel z H L.
  - cbn [app]. destruct fuel; reflexivity.
  - destruct fuel as [|f]; [cbn in L; lia|]. cbn [aws forallb] in H. apply andb_prop in H. destruct H as [H1 H2].
    cbn [app trim_start_fuel].
    assert (E : ws_len (c :: r ++ colon :: z) = 1).
    { apply orb_prop in H1. destruct H1 as [H1|H1]; [apply orb_prop in H1; destruct H1 as [H1|H1]|];
        apply N.eqb_eq in H1; subst c; reflexivity. }
    rewrite E. cbn [skipn]. apply IH; [exact H2 | cbn in L; lia].
Qed.

Lemma trim_start_allws : forall w fuel, aws w = true -> length w <= fuel -> trim_start_fuel fuel w = [].
Proof.
  induction w as [|c r IH]; intros fuel H L.
  - destruct fuel; reflexivity.
  - destruct fuel as [|f]; [cbn in L; lia|]. cbn [aws forallb] in H. apply andb_prop in H. destruct H as [H1 H2].
    cbn [trim_start_fuel].
    assert (E : ws_len (c :: r) = 1).
    { apply orb_prop in H1. destruct H1 as [H1|H1]; [apply orb_prop in H1; destruct H1 as [H1|H1]|];
        apply N.eqb_eq in H1; subst c; reflexivity. }
    rewrite E. cbn [skipn]. apply IH; [exact H2 | cbn in L; lia].
Qed.

Lemma sw_tag : forall tag t z, nocolon tag = true -> nocolon t = true ->
  starts_with (tag ++ [colon]) (t ++ colon :: z) = bytes_eqb t tag.
Proof.
  induction tag as [|a tag IH]; intros t z Ha Ht; destruct t as [|c t'].
  - reflexivity.
  - cbn [nocolon forallb] in Ht. apply andb_prop in Ht. destruct Ht as [H1 _].
    cbn [app starts_with bytes_eqb]. rewrite N.eqb_sym. destruct (N.eqb c colon); [discriminate | reflexivity].
  - cbn [nocolon forallb] in Ha. apply andb_prop in Ha. destruct Ha as [H1 _].
    cbn [app starts_with bytes_eqb]. destruct (N.eqb a colon); [discriminate | reflexivity].
  - cbn [nocolon forallb] in Ha, Ht. apply andb_prop in Ha. destruct Ha as [_ Ha]. apply andb_prop in Ht. destruct Ht as [_ Ht].
    cbn [app starts_with bytes_eqb]. rewrite (IH t' z Ha Ht). rewrite N.eqb_sym. reflexivity.
Qed.

(* ---- the relation between the two cursors *)
Section Rel.
Variable crlf : bool.

Definition Rel (rem : bytes) (toks : list tok) : Prop :=
  exists w, aws w = true /\ forallb tok_ok toks = true /\ rem = w ++ render crlf toks.

Lemma render_head : forall t x r, render crlf ((t, x) :: r) = colon :: t ++ colon :: x ++ eol crlf ++ render crlf r.
Proof. intros t x r. cbn [render]. unfold marker. cbn [app]. rewrite <- app_assoc. reflexivity. Qed.

Lemma rel_detect : forall rem toks tag, Rel rem toks -> nocolon tag = true -> b_detect rem tag = t_detect toks tag.
Proof.
  intros rem toks tag [w [Hw [Ht E]]] Hq. subst rem. unfold b_detect, trim_start.
  destruct toks as [|[t x] r].
  - cbn [render]. rewrite app_nil_r. rewrite (trim_start_allws w _ Hw (le_n _)). reflexivity.
  - rewrite render_head. rewrite (trim_start_ws w _ _ Hw) by (rewrite app_length; lia).
    cbn [forallb] in Ht. apply andb_prop in Ht. destruct Ht as [H1 _]. unfold tok_ok in H1. cbn [fst] in H1.
    apply andb_prop in H1. destruct H1 as [H1 _].
    unfold marker. cbn [starts_with t_detect]. rewrite N.eqb_refl. cbn [andb].
    apply sw_tag; [exact Hq | apply tag_ok_nocolon; exact H1].
Qed.

Lemma rel_complete : forall rem toks, Rel rem toks -> b_complete rem = t_complete toks.
Proof.
  intros rem toks [w [Hw [Ht E]]]. subst rem. unfold b_complete, trim_start.
  destruct toks as [|[t x] r].
  - cbn [render]. rewrite app_nil_r. rewrite (trim_start_allws w _ Hw (le_n _)). reflexivity.
  - rewrite render_head. rewrite (trim_start_ws w _ _ Hw) by (rewrite app_length; lia). reflexivity.
Qed.

Lemma rel_extract : forall rem toks tag, Rel rem toks -> nocolon tag = true -> t_detect toks tag = true ->
  match b_extract rem tag, t_extract toks tag with
  | Some (a, c1'), Some (b, c2') => a = b /\ Rel c1' c2'
  | None, None => True
  | _, _ => False
  end.
Proof.
  intros rem toks tag [w [Hw [Ht E]]] Hq Hd. subst rem.
  destruct toks as [|[t x] r]; [discriminate|].
  cbn [t_detect] in Hd. cbn [t_extract]. rewrite Hd. apply bytes_eqb_eq in Hd. subst tag.
  cbn [forallb] in Ht. apply andb_prop in Ht. destruct Ht as [H1 Hr]. unfold tok_ok in H1. cbn [fst snd] in H1.
  apply andb_prop in H1. destruct H1 as [Htag Hx].
  unfold b_extract. cbn [render].
  assert (EFC : extract_field_content (w ++ marker t ++ x ++ eol crlf ++ render crlf r) t
                = Some (x, length w + length (marker t) + length x + length (eol crlf))).
  { destruct r as [|[t' x'] r'].
    - cbn [render]. rewrite app_nil_r. apply efc_last; assumption.
    - cbn [forallb] in Hr. apply andb_prop in Hr. destruct Hr as [H2 _]. unfold tok_ok in H2. cbn [fst] in H2.
      apply andb_prop in H2. destruct H2 as [Ht' _].
      apply efc_mid; try assumption.
      + cbn [render]. unfold marker. cbn [app starts_with]. rewrite N.eqb_refl. reflexivity.
      + cbn [render]. apply marker_is_field_marker. exact Ht'. }
  rewrite EFC. split; [reflexivity|].
  exists []. split; [reflexivity|]. split; [exact Hr|]. cbn [app].
  replace (w ++ marker t ++ x ++ eol crlf ++ render crlf r) with ((w ++ marker t ++ x ++ eol crlf) ++ render crlf r)
    by (rewrite <- !app_assoc; reflexivity).
  replace (length w + length (marker t) + length x + length (eol crlf)) with (length (w ++ marker t ++ x ++ eol crlf))
    by (rewrite !app_length; lia).
  apply skipn_app_exact.
Qed.

(* ---- byte level = token level *)
Theorem exec_factor : forall fparse fuel L w toks,
  tags_ok nocolon L = true -> aws w = true -> forallb tok_ok toks = true ->
  brun fparse fuel L (w ++ render crlf toks) = trun fparse fuel L toks.
Proof.
  intros fparse fuel L w toks HL Hw Ht. unfold brun, trun.
  apply (run_sim bytes (list tok) b_detect b_extract b_complete t_detect t_extract t_complete fparse Rel nocolon).
  - intros c1 c2 t HR HQ. apply rel_detect; assumption.
  - intros c1 c2 HR. apply rel_complete; assumption.
  - intros c1 c2 t HR HQ HD. apply rel_extract; assumption.
  - exists w. repeat split; assumption.
  - exact HL.
Qed.

End Rel.
