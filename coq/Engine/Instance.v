(* Engine/Instance.v — every regenerated layout is well-formed: drop-free (no statement
   advances the cursor and discards the result) and returns Ok only directly after the
   completeness check; the trait method delegates to the translated body. *)

From SwiftMT Require Import Base.Bytes Engine.Layout Engine.Tokens Engine.Facts.
From SwiftMT Require Export gen.Layouts.

Fixpoint forallb2 {A : Type} (p : A -> A -> bool) (a b : list A) : bool :=
  match a, b with
  | [], [] => true
  | x :: a', y :: b' => p x y && forallb2 p a' b'
  | _, _ => false
  end.

Definition layouts_ok : bool :=
  forallb (fun p => wf_layout (snd p)) all_layouts
  && forallb (fun p => snd p) layout_entry_ok
  && Nat.eqb (length all_layouts) 30
  && forallb2 bytes_eqb cursor_letters_req letters7 && forallb2 bytes_eqb cursor_letters_opt letters7
  && forallb2 bytes_eqb cursor_letters_peek letters26.

Lemma gen_layouts_ok : layouts_ok = true.
Proof. vm_compute. reflexivity. Qed.

Lemma layout_wf : forall T L, In (T, L) all_layouts -> wf_layout L = true.
Proof.
  intros T L H. pose proof gen_layouts_ok as OK. unfold layouts_ok in OK.
  do 5 (apply andb_true_iff in OK; destruct OK as [OK ?]).
  rewrite forallb_forall in OK. apply (OK (T, L) H).
Qed.

Definition layout_of (T : bytes) : list stmt :=
  match lookup T all_layouts with Some L => L | None => [] end.
