(* Engine/Instance.v — every regenerated layout is well-formed: drop-free (no statement
   advances the cursor and discards the result) and returns Ok only directly after the
   completeness check; the trait method delegates to the translated body. *)

From SwiftMT Require Import Base.Bytes Engine.Layout Engine.Tokens Engine.Facts.
From SwiftMT Require Export gen.Layouts.

From SwiftMT Require Export Engine.Defs.

Lemma gen_layouts_ok : layouts_ok = true.
Proof. vm_compute. reflexivity. Qed.

Lemma layout_wf : forall T L, In (T, L) all_layouts -> wf_layout L = true.
Proof.
  intros T L H. pose proof gen_layouts_ok as OK. unfold layouts_ok in OK.
  do 5 (apply andb_true_iff in OK; destruct OK as [OK ?]).
  rewrite forallb_forall in OK. apply (OK (T, L) H).
Qed.
