(* Engine/AbsBytesC09.v — the rejection (C09) theorem for the byte-level cursor on canonical texts *)
From Coq Require Import Lia Bool Strings.String.
From SwiftMT Require Import Base.Bytes Base.StrOps Engine.Layout Engine.Tokens Engine.Extract Engine.Facts Engine.Regex Engine.Abs
  Engine.AbsSound Engine.Total Engine.Instance Engine.Factor Engine.FactorInstance Engine.AbsInstance Engine.AbsCommon Engine.AbsResultC09.
From SwiftMT Require Import gen.Specs.
Local Open Scope list_scope.

Theorem deletion_rejected_bytes : forall T L ds what D, lookup T all_layouts = Some L -> lookup T spec_deletions = Some ds ->
  In (what, D) ds -> pair_mem (T, what) deletion_open = false ->
  forall crlf fparse w toks, aws w = true -> forallb tok_ok toks = true ->
  matches D (map fst toks) -> Forall (good_token fparse L) toks ->
  forall f, lsize L + List.length toks + 1 <= f ->
  exists e, brun fparse f L (w ++ render crlf toks) = Reject e /\ reject_ok fparse toks e.
Proof.
  intros T L ds what D EL HD Hin Ho crlf fparse w toks Hw Ht Hm Hg f Hf.
  assert (HL : In (T, L) all_layouts) by (apply lookup_some_in; exact EL).
  rewrite (layout_factor T L HL crlf fparse f w toks Hw Ht).
  exact (deletion_rejected T L ds what D EL HD Hin Ho fparse toks Hm Hg f Hf).
Qed.
