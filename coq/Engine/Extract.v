(* Engine/Extract.v — parser/field_extractor.rs transcribed over bytes (as repaired by the
   fix: commit for the blank-line look-ahead), and the byte-level cursor of MessageParser. *)

From SwiftMT Require Import Base.Bytes Base.StrOps Engine.Layout.

Definition marker (tag : bytes) : bytes := colon :: tag ++ [colon].

(* is_field_marker: ":" + 2..4 bytes, all chars alphanumeric, + ":" *)
Definition is_field_marker (input : bytes) : bool :=
  match input with
  | c :: rest =>
      if negb (N.eqb c colon) then false else
      match find [colon] rest with
      | Some close =>
          let tag := firstn close rest in
          Nat.leb 2 (length tag) && Nat.leb (length tag) 4 && forallb is_alphanumeric (chars tag)
      | None => false
      end
  | [] => false
  end.

(* find_next_field_boundary: offset of the first '\n' that is followed by a field marker *)
Fixpoint find_next_field_boundary (input : bytes) : option nat :=
  match input with
  | [] => None
  | ch :: rest =>
      if N.eqb ch nl && starts_with [colon] rest && is_field_marker rest then Some 0
      else match find_next_field_boundary rest with Some i => Some (S i) | None => None end
  end.

Definition extract_field_content (input tag : bytes) : option (bytes * nat) :=
  let m := marker tag in
  match find m input with
  | None => None
  | Some field_start =>
      let content_start := field_start + length m in
      let remaining := skipn content_start input in
      let '(raw, has_nl) :=
        match find_next_field_boundary remaining with
        | Some e => (firstn e remaining, match nth_error remaining e with Some b => N.eqb b nl | None => false end)
        | None =>
            match find [nl; dash; rbrace] remaining with
            | Some e => (firstn e remaining, true)
            | None =>
              match find [nl; dash; nl] remaining with
              | Some e => (firstn e remaining, true)
              | None =>
                match find [nl; dash] remaining with
                | Some e =>
                    let after := e + 2 in
                    if Nat.leb (length remaining) after || starts_with [rbrace] (skipn after remaining)
                    then (firstn e remaining, true) else (remaining, false)
                | None =>
                  match find [dash; rbrace] remaining with
                  | Some e => (firstn e remaining, false)
                  | None => (remaining, false)
                  end
                end
              end
            end
        end in
      let content := trim_end_byte cr (trim_end_byte nl raw) in
      Some (content, field_start + length m + length raw + (if has_nl then 1 else 0))
  end.

(* ---- MessageParser over the remaining input *)
Definition b_detect (rem : bytes) (tag : bytes) : bool := starts_with (marker tag) (trim_start rem).
Definition b_extract (rem : bytes) (tag : bytes) : option (bytes * bytes) :=
  match extract_field_content rem tag with
  | Some (content, consumed) => Some (content, skipn consumed rem)
  | None => None
  end.
(* is_complete: position >= len || remaining.trim().is_empty() || remaining.trim() == "-" *)
Definition b_complete (rem : bytes) : bool :=
  match trim_start rem with
  | [] => true
  | c :: r => N.eqb c dash && all_ws r
  end.

Definition brun (fparse : bytes -> option bytes -> bytes -> bool) (fuel : nat) (L : list stmt) (text : bytes) : outcome :=
  run bytes b_detect b_extract b_complete fparse fuel L text.
