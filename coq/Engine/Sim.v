(* Engine/Sim.v — the cursor interpreter does not look at the cursor except through detect / extract /
   complete: two cursors related by a relation that those three operations respect (on the tags the
   layout can ask about) give the same outcome, step by step, for every layout and every fuel. *)

From Coq Require Import Bool.
From SwiftMT Require Import Base.Bytes Engine.Layout.

Section Sim.
Variables C1 C2 : Type.
Variable d1 : C1 -> bytes -> bool.
Variable x1 : C1 -> bytes -> option (bytes * C1).
Variable k1 : C1 -> bool.
Variable d2 : C2 -> bytes -> bool.
Variable x2 : C2 -> bytes -> option (bytes * C2).
Variable k2 : C2 -> bool.
Variable fparse : bytes -> option bytes -> bytes -> bool.
Variable R : C1 -> C2 -> Prop.
Variable Q : bytes -> bool.      (* the tags a layout may ask about *)

Hypothesis Hd : forall c1 c2 t, R c1 c2 -> Q t = true -> d1 c1 t = d2 c2 t.
Hypothesis Hk : forall c1 c2, R c1 c2 -> k1 c1 = k2 c2.
Hypothesis Hx : forall c1 c2 t, R c1 c2 -> Q t = true -> d2 c2 t = true ->
  match x1 c1 t, x2 c2 t with
  | Some (a, c1'), Some (b, c2') => a = b /\ R c1' c2'
  | None, None => True
  | _, _ => False
  end.

Notation exec1 := (exec C1 d1 x1 k1 fparse).
Notation exec2 := (exec C2 d2 x2 k2 fparse).

(* the state of cursor 2 with cursor 1 put in *)
Definition lift (s : st C2) (c : C1) : st C1 :=
  {| cur := c; seen := seen s; dup := dup s; env := env s; items := items s; verified := verified s |}.

Definition Rs (a : st C1) (b : st C2) : Prop := exists c, R c (cur b) /\ a = lift b c.

Definition Rflow (f1 : flow C1) (f2 : flow C2) : Prop :=
  match f1, f2 with
  | FNext _ a, FNext _ b => Rs a b
  | FBreak _ a, FBreak _ b => Rs a b
  | FReturnOk _ a, FReturnOk _ b => Rs a b
  | FReject _ e, FReject _ e' => e = e'
  | FOutOfFuel _, FOutOfFuel _ => True
  | FStuck _, FStuck _ => True
  | _, _ => False
  end.

(* the tags mentioned by a layout *)
Definition Qv (base : bytes) : bool :=
  Q base && forallb (fun l => Q (base ++ l)) letters7 && forallb (fun l => Q (base ++ l)) letters26.

Fixpoint cond_ok (c : cond) : bool :=
  match c with
  | CDetect t => Q t
  | COr a b | CAnd a b => cond_ok a && cond_ok b
  | CNot a => cond_ok a
  | _ => true
  end.

Definition call_ok (x : stmt) : bool :=
  match x with
  | SReq _ tag _ | SOpt _ tag _ => Q tag
  | SReqV _ base _ | SOptV _ base _ => Qv base
  | _ => true
  end.

Fixpoint stmt_ok (x : stmt) : bool :=
  match x with
  | SReq _ tag _ | SOpt _ tag _ => Q tag
  | SReqV _ base _ | SOptV _ base _ => Qv base
  | SWhile c body => cond_ok c && forallb stmt_ok body
  | SIf c th el => cond_ok c && forallb stmt_ok th && forallb stmt_ok el
  | SPeek _ base arms d =>
      Qv base
      && (fix ga (a : list (list bytes * list stmt)) := match a with [] => true | (_, b) :: r => forallb stmt_ok b && ga r end) arms
      && forallb stmt_ok d
  | SWhileLetOk c body => call_ok c && forallb stmt_ok body
  | STryElse c _ th el => call_ok c && forallb stmt_ok th && forallb stmt_ok el
  | _ => true
  end.
Definition tags_ok (ss : list stmt) : bool := forallb stmt_ok ss.

Lemma eval_sim : forall c (s : st C2) c1, R c1 (cur s) -> cond_ok c = true ->
  eval C1 d1 k1 c (lift s c1) = eval C2 d2 k2 c s.
Proof.
  induction c as [t|a IHa b IHb|a IHa b IHb|a IHa|v n|v n|v|v| |]; intros s c1 HR Ok; cbn [eval cond_ok] in *;
    try reflexivity.
  - apply Hd; assumption.
  - apply andb_prop in Ok. destruct Ok as [Oa Ob]. rewrite (IHa s c1 HR Oa), (IHb s c1 HR Ob). reflexivity.
  - apply andb_prop in Ok. destruct Ok as [Oa Ob]. rewrite (IHa s c1 HR Oa), (IHb s c1 HR Ob). reflexivity.
  - rewrite (IHa s c1 HR Ok). reflexivity.
  - apply Hk. exact HR.
Qed.

Lemma first_letter_sim : forall ls base c1 c2, R c1 c2 -> Q base = true -> forallb (fun l => Q (base ++ l)) ls = true ->
  first_letter C1 d1 c1 base ls = first_letter C2 d2 c2 base ls.
Proof.
  induction ls as [|l r IH]; intros base c1 c2 HR Qb Ql; cbn [first_letter].
  - rewrite (Hd _ _ _ HR Qb). reflexivity.
  - cbn [forallb] in Ql. apply andb_prop in Ql. destruct Ql as [Q1 Q2].
    rewrite (Hd _ _ _ HR Q1). rewrite (IH base c1 c2 HR Qb Q2). reflexivity.
Qed.

(* the result of a cursor call, related *)
Definition Rx (a : xres C1) (b : xres C2) : Prop :=
  match a, b with
  | XOk _ c s, XOk _ c' s' => c = c' /\ Rs s s'
  | XErr _ e, XErr _ e' => e = e'
  | XNotFound _, XNotFound _ => True
  | _, _ => False
  end.

Lemma extract_field_sim : forall (s : st C2) c1 tag opt, R c1 (cur s) -> Q tag = true ->
  Rx (extract_field C1 d1 x1 (lift s c1) tag opt) (extract_field C2 d2 x2 s tag opt).
Proof.
  intros s c1 tag opt HR Qt. unfold extract_field. cbn [lift dup seen cur env items].
  destruct (negb (dup s) && mem tag (seen s) && negb opt); [reflexivity|].
  rewrite (Hd _ _ _ HR Qt). destruct (d2 (cur s) tag) eqn:Ed; [|exact I].
  pose proof (Hx _ _ _ HR Qt Ed) as H.
  destruct (x1 c1 tag) as [[a c1']|]; destruct (x2 (cur s) tag) as [[b c2']|]; try contradiction; [|exact I].
  destruct H as [E HR']. subst b. split; [reflexivity|]. exists c1'. split; [exact HR' | reflexivity].
Qed.

Definition Rc (a : cres C1) (b : cres C2) : Prop :=
  match a, b with
  | COk _ p s, COk _ p' s' => p = p' /\ Rs s s'
  | CErr _ e s, CErr _ e' s' => e = e' /\ Rs s s'
  | _, _ => False
  end.

Lemma Rs_lift : forall (s : st C2) c1, R c1 (cur s) -> Rs (lift s c1) s.
Proof. intros s c1 H. exists c1. split; [exact H | reflexivity]. Qed.

Lemma Rs_add_item : forall a b it, Rs a b -> Rs (add_item C1 a it) (add_item C2 b it).
Proof. intros a b it [c [HR E]]. subst a. exists c. split; [exact HR | reflexivity]. Qed.

Lemma call_sim : forall x (s : st C2) c1, R c1 (cur s) -> call_ok x = true ->
  match call C1 d1 x1 fparse x (lift s c1), call C2 d2 x2 fparse x s with
  | Some (a, d), Some (b, d') => d = d' /\ Rc a b
  | None, None => True
  | _, _ => False
  end.
Proof.
  intros x s c1 HR Ok. destruct x; cbn [call call_ok] in *; try exact I; (split; [reflexivity|]).
  - unfold call_req. pose proof (extract_field_sim s c1 tag false HR Ok) as H.
    destruct (extract_field C1 d1 x1 (lift s c1) tag false) as [c a|e|];
      destruct (extract_field C2 d2 x2 s tag false) as [c' b|e'|]; cbn [Rx] in H; try contradiction.
    + destruct H as [E Hs]. subst c'. destruct (fparse ty None c); cbn [Rc].
      * split; [reflexivity | apply Rs_add_item; exact Hs].
      * split; [reflexivity | exact Hs].
    + subst e'. split; [reflexivity | apply Rs_lift; exact HR].
    + split; [reflexivity | apply Rs_lift; exact HR].
  - unfold call_opt. cbn [lift cur]. rewrite (Hd _ _ _ HR Ok).
    destruct (negb (d2 (cur s) tag)); [split; [reflexivity | apply Rs_lift; exact HR]|].
    pose proof (extract_field_sim s c1 tag true HR Ok) as H.
    destruct (extract_field C1 d1 x1 (lift s c1) tag true) as [c a|e|];
      destruct (extract_field C2 d2 x2 s tag true) as [c' b|e'|]; cbn [Rx] in H; try contradiction.
    + destruct H as [E Hs]. subst c'. destruct (fparse ty None c); cbn [Rc].
      * split; [reflexivity | apply Rs_add_item; exact Hs].
      * split; [reflexivity | exact Hs].
    + split; [reflexivity | apply Rs_lift; exact HR].
    + split; [reflexivity | apply Rs_lift; exact HR].
  - unfold call_reqv. cbn [lift cur]. unfold Qv in Ok. apply andb_prop in Ok. destruct Ok as [Ok Q26].
    apply andb_prop in Ok. destruct Ok as [Qb Q7].
    rewrite (first_letter_sim letters7 base c1 (cur s) HR Qb Q7).
    destruct (first_letter C2 d2 (cur s) base letters7) as [l|] eqn:El; [|split; [reflexivity | apply Rs_lift; exact HR]].
    assert (Ql : Q (base ++ l) = true).
    { clear - El Qb Q7. revert El Q7. generalize letters7. induction l0 as [|l' r IH]; cbn [first_letter forallb]; intros El Q7.
      - destruct (d2 (cur s) base); [|discriminate]. inversion El; subst. rewrite app_nil_r. exact Qb.
      - apply andb_prop in Q7. destruct Q7 as [Q1 Q2]. destruct (d2 (cur s) (base ++ l')).
        + inversion El; subst. exact Q1.
        + apply IH; assumption. }
    pose proof (extract_field_sim s c1 (base ++ l) false HR Ql) as H.
    destruct (extract_field C1 d1 x1 (lift s c1) (base ++ l) false) as [c a|e|];
      destruct (extract_field C2 d2 x2 s (base ++ l) false) as [c' b|e'|]; cbn [Rx] in H; try contradiction.
    + destruct H as [E Hs]. subst c'. destruct (fparse fam (Some l) c); cbn [Rc].
      * split; [reflexivity | apply Rs_add_item; exact Hs].
      * split; [reflexivity | exact Hs].
    + subst e'. split; [reflexivity | apply Rs_lift; exact HR].
    + split; [reflexivity | apply Rs_lift; exact HR].
  - unfold call_optv. cbn [lift cur]. unfold Qv in Ok. apply andb_prop in Ok. destruct Ok as [Ok Q26].
    apply andb_prop in Ok. destruct Ok as [Qb Q7].
    rewrite (first_letter_sim letters7 base c1 (cur s) HR Qb Q7).
    destruct (first_letter C2 d2 (cur s) base letters7) as [l|] eqn:El; [|split; [reflexivity | apply Rs_lift; exact HR]].
    assert (Ql : Q (base ++ l) = true).
    { clear - El Qb Q7. revert El Q7. generalize letters7. induction l0 as [|l' r IH]; cbn [first_letter forallb]; intros El Q7.
      - destruct (d2 (cur s) base); [|discriminate]. inversion El; subst. rewrite app_nil_r. exact Qb.
      - apply andb_prop in Q7. destruct Q7 as [Q1 Q2]. destruct (d2 (cur s) (base ++ l')).
        + inversion El; subst. exact Q1.
        + apply IH; assumption. }
    pose proof (extract_field_sim s c1 (base ++ l) true HR Ql) as H.
    destruct (extract_field C1 d1 x1 (lift s c1) (base ++ l) true) as [c a|e|];
      destruct (extract_field C2 d2 x2 s (base ++ l) true) as [c' b|e'|]; cbn [Rx] in H; try contradiction.
    + destruct H as [E Hs]. subst c'. destruct (fparse fam (Some l) c); cbn [Rc].
      * split; [reflexivity | apply Rs_add_item; exact Hs].
      * split; [reflexivity | exact Hs].
    + split; [reflexivity | apply Rs_lift; exact HR].
    + split; [reflexivity | apply Rs_lift; exact HR].
Qed.

Lemma Rs_bind : forall a b d p, Rs a b -> Rs (bind C1 a d p) (bind C2 b d p).
Proof. intros a b d p [c [HR E]]. subst a. exists c. split; [destruct d, p; exact HR | destruct d, p; reflexivity]. Qed.
Lemma Rs_set_dup : forall a b v, Rs a b -> Rs (set_dup C1 a v) (set_dup C2 b v).
Proof. intros a b v [c [HR E]]. subst a. exists c. split; [exact HR | reflexivity]. Qed.
Lemma Rs_set_verified : forall a b v, Rs a b -> Rs (set_verified C1 a v) (set_verified C2 b v).
Proof. intros a b v [c [HR E]]. subst a. exists c. split; [exact HR | reflexivity]. Qed.
Lemma Rs_set_env : forall a b v n, Rs a b -> Rs (set_env C1 a v n) (set_env C2 b v n).
Proof. intros a b v n [c [HR E]]. subst a. exists c. split; [exact HR | reflexivity]. Qed.
Lemma Rs_get : forall a b v, Rs a b -> get C1 a v = get C2 b v.
Proof. intros a b v [c [HR E]]. subst a. reflexivity. Qed.

Lemma pick_arm_tags : forall l arms d,
  (fix ga (a : list (list bytes * list stmt)) := match a with [] => true | (_, b) :: r => forallb stmt_ok b && ga r end) arms = true ->
  forallb stmt_ok d = true -> tags_ok (pick_arm l arms d) = true.
Proof.
  intros l arms d Ha Hd0. induction arms as [|[ls b] r IH]; cbn [pick_arm]; [exact Hd0|].
  apply andb_prop in Ha. destruct Ha as [Hb Hr]. destruct (mem l ls); [exact Hb | apply IH; exact Hr].
Qed.

Theorem exec_sim : forall fuel ss a b, Rs a b -> tags_ok ss = true -> Rflow (exec1 fuel ss a) (exec2 fuel ss b).
Proof.
  induction fuel as [|f IH]; intros ss a b HR Ok; [exact I|].
  cbn [exec]. destruct ss as [|x r]; [exact HR|].
  unfold tags_ok in Ok. cbn [forallb] in Ok. apply andb_prop in Ok. destruct Ok as [Ox Or].
  assert (CALL : forall c, call_ok c = true ->
            match call C1 d1 x1 fparse c a, call C2 d2 x2 fparse c b with
            | Some (u, d), Some (v, d') => d = d' /\ Rc u v
            | None, None => True
            | _, _ => False
            end).
  { intros c Oc. destruct HR as [c1 [HR E]]. subst a. apply call_sim; assumption. }
  assert (EV : forall c, cond_ok c = true -> eval C1 d1 k1 c a = eval C2 d2 k2 c b).
  { intros c Oc. destruct HR as [c1 [HR E]]. subst a. apply eval_sim; assumption. }
  destruct x; cbn [stmt_ok] in Ox.
  - pose proof (CALL (SReq ty tag d) Ox) as H.
    destruct (call C1 d1 x1 fparse (SReq ty tag d) a) as [[[p u|e u] d']|];
      destruct (call C2 d2 x2 fparse (SReq ty tag d) b) as [[[p' v|e' v] d'']|]; try contradiction;
      try (destruct H as [Ed H]; cbn [Rc] in H; try contradiction; destruct H as [E Hs]; subst).
    + apply IH; [apply Rs_bind; exact Hs | exact Or].
    + reflexivity.
    + exact I.
  - pose proof (CALL (SOpt ty tag d) Ox) as H.
    destruct (call C1 d1 x1 fparse (SOpt ty tag d) a) as [[[p u|e u] d']|];
      destruct (call C2 d2 x2 fparse (SOpt ty tag d) b) as [[[p' v|e' v] d'']|]; try contradiction;
      try (destruct H as [Ed H]; cbn [Rc] in H; try contradiction; destruct H as [E Hs]; subst).
    + apply IH; [apply Rs_bind; exact Hs | exact Or].
    + reflexivity.
    + exact I.
  - pose proof (CALL (SReqV fam base d) Ox) as H.
    destruct (call C1 d1 x1 fparse (SReqV fam base d) a) as [[[p u|e u] d']|];
      destruct (call C2 d2 x2 fparse (SReqV fam base d) b) as [[[p' v|e' v] d'']|]; try contradiction;
      try (destruct H as [Ed H]; cbn [Rc] in H; try contradiction; destruct H as [E Hs]; subst).
    + apply IH; [apply Rs_bind; exact Hs | exact Or].
    + reflexivity.
    + exact I.
  - pose proof (CALL (SOptV fam base d) Ox) as H.
    destruct (call C1 d1 x1 fparse (SOptV fam base d) a) as [[[p u|e u] d']|];
      destruct (call C2 d2 x2 fparse (SOptV fam base d) b) as [[[p' v|e' v] d'']|]; try contradiction;
      try (destruct H as [Ed H]; cbn [Rc] in H; try contradiction; destruct H as [E Hs]; subst).
    + apply IH; [apply Rs_bind; exact Hs | exact Or].
    + reflexivity.
    + exact I.
  - apply IH; [apply Rs_set_dup; exact HR | exact Or].
  - rewrite (Rs_get a b v HR). apply IH; [apply Rs_set_env; exact HR | exact Or].
  - apply IH; [apply Rs_set_env; exact HR | exact Or].
  - apply IH; [apply Rs_set_env; exact HR | exact Or].
  - apply andb_prop in Ox. destruct Ox as [Oc Ob]. rewrite (EV c Oc).
    destruct (eval C2 d2 k2 c b); [|apply IH; assumption].
    pose proof (IH body a b HR Ob) as H.
    destruct (exec1 f body a) as [u|u|u|e| |]; destruct (exec2 f body b) as [v|v|v|e'| |]; cbn [Rflow] in H; try contradiction.
    + apply IH; [exact H|]. unfold tags_ok. cbn [forallb stmt_ok]. rewrite Oc, Ob, Or. reflexivity.
    + apply IH; assumption.
    + exact H.
    + exact H.
    + exact I.
    + exact I.
  - apply andb_prop in Ox. destruct Ox as [Ox Oe]. apply andb_prop in Ox. destruct Ox as [Oc Ot]. rewrite (EV c Oc).
    assert (Ob : tags_ok (if eval C2 d2 k2 c b then th else el) = true) by (destruct (eval C2 d2 k2 c b); assumption).
    pose proof (IH _ a b HR Ob) as H.
    destruct (exec1 f (if eval C2 d2 k2 c b then th else el) a) as [u|u|u|e| |];
      destruct (exec2 f (if eval C2 d2 k2 c b then th else el) b) as [v|v|v|e'| |]; cbn [Rflow] in H; try contradiction;
      try exact H; try exact I.
    apply IH; assumption.
  - exact HR.
  - reflexivity.
  - apply andb_prop in Ox. destruct Ox as [Ox Od]. apply andb_prop in Ox. destruct Ox as [Ov Oa].
    unfold Qv in Ov. apply andb_prop in Ov. destruct Ov as [Ov Q26]. apply andb_prop in Ov. destruct Ov as [Qb Q7].
    assert (FL : first_letter C1 d1 (cur a) base (if all_letters then letters26 else letters7)
               = first_letter C2 d2 (cur b) base (if all_letters then letters26 else letters7)).
    { destruct HR as [c1 [HR E]]. subst a. cbn [lift cur]. apply first_letter_sim; [exact HR | exact Qb | destruct all_letters; assumption]. }
    rewrite FL. destruct (first_letter C2 d2 (cur b) base (if all_letters then letters26 else letters7)) as [l|]; [|apply IH; assumption].
    pose proof (IH _ a b HR (pick_arm_tags l arms default Oa Od)) as H.
    destruct (exec1 f (pick_arm l arms default) a) as [u|u|u|e| |];
      destruct (exec2 f (pick_arm l arms default) b) as [v|v|v|e'| |]; cbn [Rflow] in H; try contradiction;
      try exact H; try exact I.
    apply IH; assumption.
  - apply andb_prop in Ox. destruct Ox as [Oc Ob].
    pose proof (CALL x Oc) as H.
    destruct (call C1 d1 x1 fparse x a) as [[[p u|e u] d']|];
      destruct (call C2 d2 x2 fparse x b) as [[[p' v|e' v] d'']|]; try contradiction;
      try (destruct H as [Ed H]; cbn [Rc] in H; try contradiction; destruct H as [E Hs]; subst).
    + pose proof (IH body _ _ (Rs_bind _ _ d'' p' Hs) Ob) as H.
      destruct (exec1 f body (bind C1 u d'' p')) as [u'|u'|u'|e| |];
        destruct (exec2 f body (bind C2 v d'' p')) as [v'|v'|v'|e'| |]; cbn [Rflow] in H; try contradiction;
        try exact H; try exact I.
      * apply IH; [exact H|]. unfold tags_ok. cbn [forallb stmt_ok]. rewrite Oc, Ob, Or. reflexivity.
      * apply IH; assumption.
    + apply IH; assumption.
    + exact I.
  - apply andb_prop in Ox. destruct Ox as [Ox Oe]. apply andb_prop in Ox. destruct Ox as [Oc Ot].
    pose proof (CALL x Oc) as H.
    destruct (call C1 d1 x1 fparse x a) as [[[p u|e u] d']|];
      destruct (call C2 d2 x2 fparse x b) as [[[p' v|e' v] d'']|]; try contradiction;
      try (destruct H as [Ed H]; cbn [Rc] in H; try contradiction; destruct H as [E Hs]; subst).
    + assert (Ob : tags_ok (if some_only && negb p' then el else th) = true) by (destruct (some_only && negb p'); assumption).
      pose proof (IH _ _ _ (Rs_bind _ _ d'' p' Hs) Ob) as H.
      destruct (exec1 f (if some_only && negb p' then el else th) (bind C1 u d'' p')) as [u'|u'|u'|e| |];
        destruct (exec2 f (if some_only && negb p' then el else th) (bind C2 v d'' p')) as [v'|v'|v'|e'| |]; cbn [Rflow] in H; try contradiction;
        try exact H; try exact I.
      apply IH; assumption.
    + pose proof (IH el _ _ Hs Oe) as H.
      destruct (exec1 f el u) as [u'|u'|u'|e| |]; destruct (exec2 f el v) as [v'|v'|v'|e0| |]; cbn [Rflow] in H; try contradiction;
        try exact H; try exact I.
      apply IH; assumption.
    + exact I.
  - assert (K : k1 (cur a) = k2 (cur b)) by (destruct HR as [c1 [HR E]]; subst a; apply Hk; exact HR).
    rewrite K. destruct (k2 (cur b)); [apply IH; [apply Rs_set_verified; exact HR | exact Or] | reflexivity].
  - exact HR.
Qed.

Theorem run_sim : forall fuel L c1 c2, R c1 c2 -> tags_ok L = true ->
  run C1 d1 x1 k1 fparse fuel L c1 = run C2 d2 x2 k2 fparse fuel L c2.
Proof.
  intros fuel L c1 c2 HR Ok. unfold run.
  assert (H0 : Rs (init C1 c1) (init C2 c2)) by (exists c1; split; [exact HR | reflexivity]).
  pose proof (exec_sim fuel L _ _ H0 Ok) as H.
  destruct (exec1 fuel L (init C1 c1)) as [u|u|u|e| |]; destruct (exec2 fuel L (init C2 c2)) as [v|v|v|e'| |];
    cbn [Rflow] in H; try contradiction; try reflexivity.
  - destruct H as [c [_ E]]. subst u. reflexivity.
  - subst e'. reflexivity.
Qed.

End Sim.
