(* Engine/AbsBytes.v — the inclusion (C03) and rejection (C09) theorems for the byte-level cursor on canonical texts *)
From Coq Require Import Lia Bool Strings.String.
From SwiftMT Require Import Base.Bytes Base.StrOps Engine.Layout Engine.Tokens Engine.Extract Engine.Facts Engine.Regex Engine.Abs
  Engine.AbsSound Engine.Total Engine.Instance Engine.Factor Engine.FactorInstance Engine.AbsInstance Engine.AbsCommon Engine.AbsResult.
From SwiftMT Require Import gen.Specs.
Local Open Scope list_scope.

Theorem spec_inclusion_bytes : forall T L alts, lookup T all_layouts = Some L -> lookup T specs = Some alts -> mem T inclusion_open = false ->
  forall crlf fparse w toks, aws w = true -> forallb tok_ok toks = true ->
  spec_lang alts (map fst toks) -> Forall (good_token fparse L) toks ->
  forall f, lsize L + List.length toks + 1 <= f ->
  exists its, brun fparse f L (w ++ render crlf toks) = Accept its /\ map tok_of its = toks.
Proof.
  intros T L alts EL HR Ho crlf fparse w toks Hw Ht Hm Hg f Hf.
  assert (HL : In (T, L) all_layouts) by (apply lookup_some_in; exact EL).
  rewrite (layout_factor T L HL crlf fparse f w toks Hw Ht).
  exact (spec_inclusion T L alts EL HR Ho fparse toks Hm Hg f Hf).
Qed.
