(* Engine/AbsResultC09.v — C09: the deletion languages are rejected by the regenerated layouts (the verdict of the abstract interpreter, lax mode, and what follows) *)
From Coq Require Import Lia Bool Strings.String.
From SwiftMT Require Import Base.Bytes Engine.Layout Engine.Tokens Engine.Regex Engine.Abs Engine.AbsSound Engine.Total Engine.TotalInstance Engine.Facts Engine.Instance Engine.AbsInstance Engine.AbsCommon Family.Model Family.Instance.
From SwiftMT Require Import gen.Families gen.Specs.
Local Open Scope string_scope.
Local Open Scope list_scope.

(* The facts below are stated in the unfolded form the proofs use and proved by one VM evaluation at Qed
   (a lemma stated through a defined constant made later proofs re-evaluate the analysis in the kernel's
   lazy machine: minutes instead of seconds). *)
Lemma gen_deletions_forall :
  forallb (fun p => forallb (fun d => pair_mem (fst p, fst d) deletion_open || check_deletion (fst p) (snd d)) (snd p)) spec_deletions = true.
Proof. vm_cast_no_check (eq_refl true). Qed.

(* ---- C09: a text whose tags are a word of the specification with one mandatory element missing is rejected *)
Theorem deletion_rejected : forall T L ds what D, lookup T all_layouts = Some L -> lookup T spec_deletions = Some ds ->
  In (what, D) ds -> pair_mem (T, what) deletion_open = false ->
  forall fparse toks, matches D (map fst toks) -> Forall (good_token fparse L) toks ->
  forall f, lsize L + List.length toks + 1 <= f ->
  exists e, trun fparse f L toks = Reject e /\ reject_ok fparse toks e.
Proof.
  intros T L ds what D EL HD Hin Hopen fparse toks Hm Hg f Hf.
  pose proof gen_deletions_forall as OK. rewrite forallb_forall in OK.
  assert (HinS : In (T, ds) spec_deletions) by (apply lookup_some_in; exact HD).
  specialize (OK (T, ds) HinS). cbn [fst snd] in OK. rewrite forallb_forall in OK. specialize (OK (what, D) Hin).
  cbn [fst snd] in OK. rewrite Hopen in OK. cbn [orb] in OK.
  unfold check_deletion in OK. rewrite EL in OK.
  destruct (layout_progress T L EL) as [PL HL].
  destruct (excludes_rejects fparse fp (uses L) 400 L D OK PL toks Hm Hg f Hf) as [e He].
  exists e. split; [exact He|].
  pose proof (layout_wf T L HL) as W. unfold wf_layout in W. apply andb_true_iff in W.
  exact (reject_sound fparse L f toks e (proj1 W) He).
Qed.

(* the deletion languages that were left out are left out for a reason: each contains a word of the specification *)
Theorem left_out_deletions_are_ambiguous :
  forallb (fun p => forallb (fun d => let '(D, w) := snd d in
                                      matchb D w && match lookup (fst p) specs with Some alts => existsb (fun R => matchb R w) alts | None => false end)
                            (snd p)) spec_deletions_ambiguous = true.
Proof. vm_cast_no_check (eq_refl true). Qed.

Example deletion_is_not_vacuous :
  let toks := map (fun t => (bs t, bs "X")) ["20"; "21"; "58D"] in      (* an MT202 without its mandatory 32A *)
  match lookup (bs "MT202") spec_deletions, lookup (bs "MT202") all_layouts with
  | Some ds, Some L => existsb (fun d => matchb (snd d) (map fst toks)) ds = true /\ (exists e, trun model_fparse 400 L toks = Reject e)
  | _, _ => False
  end.
Proof. vm_compute. split; [reflexivity | eexists; reflexivity]. Qed.
