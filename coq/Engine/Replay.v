(* Engine/Replay.v — C02 at token level: an accepting run depends on the text only through
   its tag sequence and the field parsers' verdicts.  If a second text carries the same tags
   and, position by position, contents that every field parser accepting the first also
   accepts (in particular the serialisation of the first parse, when each field's printed
   form is accepted again), then the same layout accepts it with the same structure
   (same field types, option letters and tags, in the same order). *)

From SwiftMT Require Import Base.Bytes Engine.Layout Engine.Tokens Engine.Facts.

Section Replay.
Variable fparse : bytes -> option bytes -> bytes -> bool.

Definition tok_le (t1 t2 : tok) : Prop :=
  fst t1 = fst t2 /\ forall ty l, fparse ty l (snd t1) = true -> fparse ty l (snd t2) = true.

Definition same_slot (i1 i2 : item) : Prop :=
  i_ty i1 = i_ty i2 /\ i_letter i1 = i_letter i2 /\ i_tag i1 = i_tag i2.

Notation cstate := (st (list tok)).

Record Rs (s1 s2 : cstate) : Prop := {
  r_cur : Forall2 tok_le (cur s1) (cur s2);
  r_seen : seen s1 = seen s2;
  r_dup : dup s1 = dup s2;
  r_env : env s1 = env s2;
  r_ver : verified s1 = verified s2;
  r_items : Forall2 same_slot (items s1) (items s2)
}.

Lemma detect_same : forall c1 c2 tag, Forall2 tok_le c1 c2 -> t_detect c1 tag = t_detect c2 tag.
Proof.
  intros c1 c2 tag H. destruct H as [|[t1 x1] [t2 x2] r1 r2 [Ht _] _]; [reflexivity|].
  cbn in Ht. subst. reflexivity.
Qed.

Lemma complete_same : forall c1 c2, Forall2 tok_le c1 c2 -> t_complete c1 = t_complete c2.
Proof. intros c1 c2 H. destruct H; reflexivity. Qed.

Lemma first_letter_same : forall c1 c2 base ls, Forall2 tok_le c1 c2 ->
  first_letter _ t_detect c1 base ls = first_letter _ t_detect c2 base ls.
Proof.
  intros c1 c2 base ls H. induction ls as [|l r IH]; cbn [first_letter].
  - rewrite (detect_same _ _ base H). reflexivity.
  - rewrite (detect_same _ _ (base ++ l) H), IH. reflexivity.
Qed.

Lemma get_same : forall (s1 s2 : cstate) v, env s1 = env s2 -> get _ s1 v = get _ s2 v.
Proof. intros s1 s2 v H. unfold get. rewrite H. reflexivity. Qed.

Lemma eval_same : forall c (s1 s2 : cstate), Rs s1 s2 ->
  eval _ t_detect t_complete c s1 = eval _ t_detect t_complete c s2.
Proof.
  induction c; intros s1 s2 R; cbn [eval];
    try rewrite (IHc1 _ _ R); try rewrite (IHc2 _ _ R); try rewrite (IHc _ _ R);
    try rewrite (get_same s1 s2 v (r_env _ _ R)); try reflexivity.
  - apply detect_same. exact (r_cur _ _ R).
  - apply complete_same. exact (r_cur _ _ R).
Qed.

Lemma Rs_set_env : forall s1 s2 v n, Rs s1 s2 -> Rs (set_env _ s1 v n) (set_env _ s2 v n).
Proof. intros s1 s2 v n [A B C D E F]. constructor; cbn; try assumption. rewrite D. reflexivity. Qed.
Lemma Rs_set_dup : forall s1 s2 b, Rs s1 s2 -> Rs (set_dup _ s1 b) (set_dup _ s2 b).
Proof. intros s1 s2 b [A B C D E F]. constructor; cbn; assumption || reflexivity. Qed.
Lemma Rs_set_verified : forall s1 s2 b, Rs s1 s2 -> Rs (set_verified _ s1 b) (set_verified _ s2 b).
Proof. intros s1 s2 b [A B C D E F]. constructor; cbn; assumption || reflexivity. Qed.
Lemma Rs_bind : forall s1 s2 d p, Rs s1 s2 -> Rs (bind _ s1 d p) (bind _ s2 d p).
Proof.
  intros s1 s2 d p R. destruct d as [v|v|]; cbn [bind].
  - apply Rs_set_env. exact R.
  - destruct p; [|exact R]. rewrite (get_same s1 s2 v (r_env _ _ R)). apply Rs_set_env. exact R.
  - exact R.
Qed.

(* extraction in lockstep *)
Lemma extract_field_same : forall (s1 s2 : cstate) tag opt, Rs s1 s2 ->
  match extract_field _ t_detect t_extract s1 tag opt, extract_field _ t_detect t_extract s2 tag opt with
  | XOk _ c1 s1', XOk _ c2 s2' =>
      Rs s1' s2' /\ (forall ty l, fparse ty l c1 = true -> fparse ty l c2 = true)
  | XErr _ e1, XErr _ e2 => e1 = e2
  | XNotFound _, XNotFound _ => True
  | _, _ => False
  end.
Proof.
  intros s1 s2 tag opt R. unfold extract_field.
  rewrite <- (r_dup _ _ R), <- (r_seen _ _ R).
  destruct (negb (dup s1) && mem tag (seen s1) && negb opt); [reflexivity|].
  rewrite <- (detect_same _ _ tag (r_cur _ _ R)).
  destruct (t_detect (cur s1) tag) eqn:Ed; [|exact I].
  pose proof (r_cur _ _ R) as Hc.
  destruct Hc as [|[t1 x1] [t2 x2] r1 r2 [Ht Hle] Hr]; [discriminate|].
  cbn in Ht. subst t2. unfold t_detect in Ed. unfold t_extract. rewrite Ed.
  split.
  - constructor; cbn; try reflexivity; [exact Hr|exact (r_env _ _ R)|exact (r_items _ _ R)].
  - exact Hle.
Qed.

Lemma Rs_add_item : forall s1 s2 i1 i2, Rs s1 s2 -> same_slot i1 i2 -> Rs (add_item _ s1 i1) (add_item _ s2 i2).
Proof. intros s1 s2 i1 i2 [A B C D E F] H. constructor; cbn; try assumption. constructor; assumption. Qed.

(* a cursor call that succeeds on the first text succeeds on the second, in related states *)
Lemma call_same : forall x (s1 s2 : cstate) p s1' d, Rs s1 s2 ->
  call _ t_detect t_extract fparse x s1 = Some (COk _ p s1', d) ->
  exists s2', call _ t_detect t_extract fparse x s2 = Some (COk _ p s2', d) /\ Rs s1' s2'.
Proof.
  intros x s1 s2 p s1' d R H. destruct x; cbn [call] in H |- *; try discriminate;
    inversion H as [[Hc Hd]]; clear H.
  - unfold call_req in *. pose proof (extract_field_same s1 s2 tag false R) as E.
    destruct (extract_field _ _ _ s1 tag false) as [c1 t1|e1|]; try discriminate.
    destruct (extract_field _ _ _ s2 tag false) as [c2 t2|e2|]; try contradiction.
    destruct E as [R' Hle]. destruct (fparse ty None c1) eqn:Ep; [|discriminate].
    rewrite (Hle _ _ Ep). inversion Hc; subst. eexists. split; [reflexivity|].
    apply Rs_add_item; [exact R'|repeat split].
  - unfold call_opt in *. rewrite <- (detect_same _ _ tag (r_cur _ _ R)).
    destruct (negb (t_detect (cur s1) tag)).
    + inversion Hc; subst. exists s2. split; [reflexivity|exact R].
    + pose proof (extract_field_same s1 s2 tag true R) as E.
      destruct (extract_field _ _ _ s1 tag true) as [c1 t1|e1|];
        destruct (extract_field _ _ _ s2 tag true) as [c2 t2|e2|]; try contradiction;
        try (inversion Hc; subst; exists s2; split; [reflexivity|exact R]).
      destruct E as [R' Hle]. destruct (fparse ty None c1) eqn:Ep; [|discriminate].
      rewrite (Hle _ _ Ep). inversion Hc; subst. eexists. split; [reflexivity|].
      apply Rs_add_item; [exact R'|repeat split].
  - unfold call_reqv in *. rewrite <- (first_letter_same _ _ base letters7 (r_cur _ _ R)).
    destruct (first_letter _ t_detect (cur s1) base letters7) as [l|]; [|discriminate].
    pose proof (extract_field_same s1 s2 (base ++ l) false R) as E.
    destruct (extract_field _ _ _ s1 (base ++ l) false) as [c1 t1|e1|]; try discriminate.
    destruct (extract_field _ _ _ s2 (base ++ l) false) as [c2 t2|e2|]; try contradiction.
    destruct E as [R' Hle]. destruct (fparse fam (Some l) c1) eqn:Ep; [|discriminate].
    rewrite (Hle _ _ Ep). inversion Hc; subst. eexists. split; [reflexivity|].
    apply Rs_add_item; [exact R'|repeat split].
  - unfold call_optv in *. rewrite <- (first_letter_same _ _ base letters7 (r_cur _ _ R)).
    destruct (first_letter _ t_detect (cur s1) base letters7) as [l|].
    2:{ inversion Hc; subst. exists s2. split; [reflexivity|exact R]. }
    pose proof (extract_field_same s1 s2 (base ++ l) true R) as E.
    destruct (extract_field _ _ _ s1 (base ++ l) true) as [c1 t1|e1|];
      destruct (extract_field _ _ _ s2 (base ++ l) true) as [c2 t2|e2|]; try contradiction;
      try (inversion Hc; subst; exists s2; split; [reflexivity|exact R]).
    destruct E as [R' Hle]. destruct (fparse fam (Some l) c1) eqn:Ep; [|discriminate].
    rewrite (Hle _ _ Ep). inversion Hc; subst. eexists. split; [reflexivity|].
    apply Rs_add_item; [exact R'|repeat split].
Qed.

Definition flow_rel (f1 f2 : flow (list tok)) : Prop :=
  match f1, f2 with
  | FNext _ a, FNext _ b | FBreak _ a, FBreak _ b | FReturnOk _ a, FReturnOk _ b => Rs a b
  | FNext _ _, _ | FBreak _ _, _ | FReturnOk _ _, _ => False
  | _, _ => True          (* nothing is claimed when the first run does not proceed *)
  end.

Notation exec' := (texec fparse).

Lemma exec_lockstep : forall fuel ss (s1 s2 : cstate),
  dropfree ss = true -> Rs s1 s2 -> flow_rel (exec' fuel ss s1) (exec' fuel ss s2).
Proof.
  induction fuel as [|f IH]; intros ss s1 s2 Hdf R; [exact I|].
  unfold texec in *. cbn [exec]. destruct ss as [|x r]; [exact R|].
  unfold dropfree in Hdf. cbn [forallb] in Hdf. apply andb_true_iff in Hdf. destruct Hdf as [Hx Hr].
  fold (dropfree r) in Hr.
  assert (Hcall : forall y, (y = x) -> call _ t_detect t_extract fparse y s1 <> None ->
      flow_rel
        match call _ t_detect t_extract fparse y s1 with
        | Some (COk _ p s', d) => exec _ t_detect t_extract t_complete fparse f r (bind _ s' d p)
        | Some (CErr _ e _, _) => FReject _ e
        | None => FStuck _
        end
        match call _ t_detect t_extract fparse y s2 with
        | Some (COk _ p s', d) => exec _ t_detect t_extract t_complete fparse f r (bind _ s' d p)
        | Some (CErr _ e _, _) => FReject _ e
        | None => FStuck _
        end).
  { intros y _ Hn. destruct (call _ _ _ _ y s1) as [[[p s1'|e s1'] d]|] eqn:Ec; try exact I.
    destruct (call_same y s1 s2 p s1' d R Ec) as [s2' [E2 R']]. rewrite E2.
    apply IH; [exact Hr|apply Rs_bind; exact R']. }
  destruct x.
  - apply (Hcall _ eq_refl). discriminate.
  - apply (Hcall _ eq_refl). discriminate.
  - apply (Hcall _ eq_refl). discriminate.
  - apply (Hcall _ eq_refl). discriminate.
  - apply IH; [exact Hr|apply Rs_set_dup; exact R].
  - rewrite (get_same s1 s2 v (r_env _ _ R)). apply IH; [exact Hr|apply Rs_set_env; exact R].
  - apply IH; [exact Hr|apply Rs_set_env; exact R].
  - apply IH; [exact Hr|apply Rs_set_env; exact R].
  - (* SWhile *) cbn [dropfree_stmt] in Hx. fold (dropfree body) in Hx.
    rewrite <- (eval_same c s1 s2 R).
    destruct (eval _ _ _ c s1); [|apply IH; assumption].
    pose proof (IH body s1 s2 Hx R) as Hb.
    destruct (exec _ _ _ _ _ f body s1) as [a|a|a|e| |];
      destruct (exec _ _ _ _ _ f body s2) as [b|b|b|e'| |]; cbn [flow_rel] in Hb |- *; try contradiction; try exact I; try exact Hb.
    + apply IH; [|exact Hb]. unfold dropfree. cbn [forallb dropfree_stmt]. fold (dropfree body). fold (dropfree r).
      rewrite Hx, Hr. reflexivity.
    + apply IH; assumption.
  - (* SIf *) cbn [dropfree_stmt] in Hx. apply andb_true_iff in Hx. destruct Hx as [Hth Hel].
    fold (dropfree th) in Hth. fold (dropfree el) in Hel.
    rewrite <- (eval_same c s1 s2 R).
    assert (Hsel : dropfree (if eval _ t_detect t_complete c s1 then th else el) = true)
      by (destruct (eval _ _ _ c s1); assumption).
    pose proof (IH _ s1 s2 Hsel R) as Hb.
    destruct (exec _ _ _ _ _ f (if eval _ t_detect t_complete c s1 then th else el) s1) as [a|a|a|e| |];
      destruct (exec _ _ _ _ _ f (if eval _ t_detect t_complete c s1 then th else el) s2) as [b|b|b|e'| |];
      cbn [flow_rel] in Hb |- *; try contradiction; try exact I; try exact Hb.
    apply IH; assumption.
  - exact R.
  - exact I.
  - (* SPeek *) cbn [dropfree_stmt] in Hx. apply andb_true_iff in Hx. destruct Hx as [Ha Hd].
    fold (dropfree default) in Hd.
    rewrite <- (first_letter_same _ _ base (if all_letters then letters26 else letters7) (r_cur _ _ R)).
    destruct (first_letter _ _ (cur s1) base _) as [l|]; [|apply IH; assumption].
    pose proof (IH _ s1 s2 (dropfree_pick_arm l arms default Ha Hd) R) as Hb.
    destruct (exec _ _ _ _ _ f (pick_arm l arms default) s1) as [a|a|a|e| |];
      destruct (exec _ _ _ _ _ f (pick_arm l arms default) s2) as [b|b|b|e'| |];
      cbn [flow_rel] in Hb |- *; try contradiction; try exact I; try exact Hb.
    apply IH; assumption.
  - discriminate.
  - discriminate.
  - (* SVerifyComplete *) rewrite <- (complete_same _ _ (r_cur _ _ R)).
    destruct (t_complete (cur s1)); [|exact I].
    apply IH; [exact Hr|apply Rs_set_verified; exact R].
  - exact R.
Qed.

End Replay.

Lemma Forall2_rev : forall A B (P : A -> B -> Prop) l1 l2, Forall2 P l1 l2 -> Forall2 P (rev l1) (rev l2).
Proof.
  intros A B P l1 l2 H. induction H as [|x y l1 l2 Hxy H IH]; cbn [rev]; [constructor|].
  apply Forall2_app; [exact IH|constructor; [exact Hxy|constructor]].
Qed.

(* C02, token level *)
Theorem replay_accept : forall fparse L fuel toks1 toks2 its1,
  dropfree L = true ->
  Forall2 (tok_le fparse) toks1 toks2 ->
  trun fparse fuel L toks1 = Accept its1 ->
  exists its2, trun fparse fuel L toks2 = Accept its2 /\ Forall2 same_slot its1 its2.
Proof.
  intros fparse L fuel toks1 toks2 its1 Hdf Hle Hrun. unfold trun, run in *.
  assert (R0 : Rs fparse (init _ toks1) (init _ toks2)).
  { constructor; cbn; try reflexivity; [exact Hle|constructor]. }
  pose proof (exec_lockstep fparse fuel L _ _ Hdf R0) as Hl. unfold texec in Hl.
  destruct (exec _ _ _ _ _ fuel L (init _ toks1)) as [a|a|a|e| |]; try discriminate.
  destruct (exec _ _ _ _ _ fuel L (init _ toks2)) as [b|b|b|e'| |]; cbn [flow_rel] in Hl; try contradiction.
  inversion Hrun; subst. exists (rev (items b)). split; [reflexivity|].
  apply Forall2_rev. exact (r_items _ _ _ Hl).
Qed.

(* ---- message-level round trip, for any field printer that is accepted again and idempotent *)
Section RoundTrip.
Variable fparse : bytes -> option bytes -> bytes -> bool.
Variable fprint : bytes -> option bytes -> bytes -> bytes.   (* content printed for a field of type ty / letter l parsed from c *)

(* printed content of an item, and the serialised token sequence (to_mt_string, field by field) *)
Definition print_item (it : item) : tok := (i_tag it, fprint (i_ty it) (i_letter it) (i_content it)).
Definition serial (its : list item) : list tok := map print_item its.

Hypothesis print_accepted : forall ty l c ty' l', fparse ty l c = true -> fparse ty' l' c = true ->
  fparse ty' l' (fprint ty l c) = true.
Hypothesis print_idem : forall ty l c, fparse ty l c = true ->
  fprint ty l (fprint ty l c) = fprint ty l c.

Lemma serial_le : forall its, Forall (item_ok fparse) its ->
  Forall2 (tok_le fparse) (map tok_of its) (serial its).
Proof.
  induction its as [|it r IH]; intro H; cbn [map serial]; [constructor|].
  inversion H as [|? ? Hit Hr]; subst. constructor; [|apply IH; exact Hr].
  split; [reflexivity|]. intros ty l Hp. cbn [snd tok_of print_item] in *.
  apply print_accepted; assumption.
Qed.

Theorem msg_roundtrip : forall L fuel toks its,
  wf_layout L = true ->
  trun fparse fuel L toks = Accept its ->
  exists its', trun fparse fuel L (serial its) = Accept its' /\ serial its' = serial its.
Proof.
  intros L fuel toks its Hwf Hrun.
  destruct (accept_exact fparse L fuel toks its Hwf Hrun) as [Htoks Hok].
  pose proof Hwf as Hwf'. unfold wf_layout in Hwf'. apply andb_true_iff in Hwf'. destruct Hwf' as [Hdf _].
  rewrite <- Htoks in Hrun.
  destruct (replay_accept fparse L fuel _ _ its Hdf (serial_le its Hok) Hrun) as [its' [Hrun' Hslots]].
  exists its'. split; [exact Hrun'|].
  destruct (accept_exact fparse L fuel _ its' Hwf Hrun') as [Htoks' _].
  (* its' has the slots of its and the contents of serial its *)
  clear Hrun Hrun' Htoks. revert its' Hslots Htoks'.
  induction its as [|it r IH]; intros its' Hs Ht.
  - inversion Hs; subst. reflexivity.
  - inversion Hs as [|? it' ? r' [Hty [Hl Htag]] Hr']; subst. cbn [map serial] in Ht |- *.
    inversion Ht as [[Ht1 Ht2]]. inversion Hok as [|? ? Hit Hokr]; subst.
    f_equal.
    + unfold print_item. rewrite Ht1, <- Hty, <- Hl, Ht2.
      rewrite print_idem; [reflexivity|exact Hit].
    + try rewrite H. apply IH; assumption.
Qed.
End RoundTrip.
