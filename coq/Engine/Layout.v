(* Engine/Layout.v — the layout IR (what rs2v regenerates from every parse_from_block4)
   and its interpreter, generic in the cursor implementation.

   The interpreter transcribes parser/message_parser.rs (after the fix: commits that
   anchor extraction at the cursor):
     parse_field / parse_optional_field / parse_variant_field /
     parse_optional_variant_field / extract_field (duplicate check, fields_seen,
     allow_duplicates) / detect_variant / detect_variant_optional / peek_field_variant /
     detect_field / is_complete / with_duplicates / utils::verify_parser_complete.
   What a field parser does with a content is a parameter [fparse]. *)

From SwiftMT Require Import Base.Bytes.
From Coq Require Import Strings.String.

Inductive cond :=
| CDetect (tag : bytes)
| COr (a b : cond) | CAnd (a b : cond) | CNot (a : cond)
| CLenLt (v : bytes) (n : nat) | CLenGe (v : bytes) (n : nat)
| CIsZero (v : bytes) | CNonZero (v : bytes)
| CComplete | CTrue.

Inductive dst := DLet (v : bytes) | DPush (v : bytes) | DNone.

Inductive stmt :=
| SReq (ty tag : bytes) (d : dst)            (* parser.parse_field::<T>(tag)?                    *)
| SOpt (ty tag : bytes) (d : dst)            (* parser.parse_optional_field::<T>(tag)?           *)
| SReqV (fam base : bytes) (d : dst)         (* parser.parse_variant_field::<E>(base)?           *)
| SOptV (fam base : bytes) (d : dst)         (* parser.parse_optional_variant_field::<E>(base)?  *)
| SDup (b : bool)                            (* parser = parser.with_duplicates(b)               *)
| SPush (v : bytes) | SSet (v : bytes) | SZero (v : bytes)
| SWhile (c : cond) (body : list stmt)
| SIf (c : cond) (th el : list stmt)
| SBreak
| SFail (msg : bytes)                        (* return Err(InvalidFormat { .. })                 *)
| SPeek (all_letters : bool) (base : bytes) (arms : list (list bytes * list stmt)) (default : list stmt)
| SWhileLetOk (call : stmt) (body : list stmt)   (* while let Ok(x) = CALL { body }: error swallowed *)
| STryElse (call : stmt) (some_only : bool) (th el : list stmt)  (* if let Ok(x) = CALL {th} else {el} *)
| SVerifyComplete
| SReturnOk.

(* one parsed field occurrence *)
Record item := { i_ty : bytes; i_letter : option bytes; i_tag : bytes; i_content : bytes }.

Inductive perr :=
| EMissing (tag : bytes)                 (* ParseError::MissingRequiredField { field_tag, message_type } *)
| EBadField (tag content : bytes)        (* ParseError::InvalidFieldFormat { field_tag, value }          *)
| EDuplicate (tag : bytes)               (* InvalidFormat "Duplicate field: tag"                         *)
| EUnparsed                              (* InvalidFormat "Unparsed content remaining in message"        *)
| EFailed (msg : bytes).                 (* InvalidFormat with the layout's own message                  *)

Section Interp.
Variable C : Type.                                  (* cursor state *)
Variable detect : C -> bytes -> bool.               (* MessageParser::detect_field                       *)
Variable extract : C -> bytes -> option (bytes * C). (* extract_field_content at the cursor + advance *)
Variable complete : C -> bool.                      (* MessageParser::is_complete                        *)
Variable fparse : bytes -> option bytes -> bytes -> bool.
  (* T::parse(content) succeeded (letter = None) / E::parse_with_variant(content, Some(letter), _) succeeded *)

Record st := {
  cur : C;
  seen : list bytes;            (* fields_seen *)
  dup : bool;                   (* allow_duplicates *)
  env : list (bytes * nat);     (* vec lengths / option presence of the layout's variables *)
  items : list item;            (* parsed field occurrences, most recent first *)
  verified : bool               (* nothing was consumed since the last successful completeness check *)
}.

Definition get (s : st) (v : bytes) : nat :=
  match lookup v (env s) with Some n => n | None => 0 end.
Definition set_env (s : st) (v : bytes) (n : nat) : st :=
  {| cur := cur s; seen := seen s; dup := dup s; env := (v, n) :: env s; items := items s; verified := verified s |}.
Definition bind (s : st) (d : dst) (present : bool) : st :=
  match d with
  | DLet v => set_env s v (if present then 1 else 0)
  | DPush v => if present then set_env s v (S (get s v)) else s
  | DNone => s
  end.

Fixpoint eval (c : cond) (s : st) : bool :=
  match c with
  | CDetect t => detect (cur s) t
  | COr a b => eval a s || eval b s
  | CAnd a b => eval a s && eval b s
  | CNot a => negb (eval a s)
  | CLenLt v n => Nat.ltb (get s v) n
  | CLenGe v n => Nat.leb n (get s v)
  | CIsZero v => Nat.eqb (get s v) 0
  | CNonZero v => negb (Nat.eqb (get s v) 0)
  | CComplete => complete (cur s)
  | CTrue => true
  end.

(* result of a cursor call *)
Inductive cres :=
| COk (present : bool) (s : st)      (* value obtained (present) or Ok(None) *)
| CErr (e : perr) (s : st).          (* Err(e); [s] is the cursor state AFTER the call (it may have advanced) *)

Inductive xres := XOk (content : bytes) (s : st) | XErr (e : perr) | XNotFound.

(* MessageParser::extract_field(tag, optional) *)
Definition extract_field (s : st) (tag : bytes) (optional : bool) : xres :=
  if negb (dup s) && mem tag (seen s) && negb optional then XErr (EDuplicate tag)
  else if detect (cur s) tag then
    match extract (cur s) tag with
    | Some (content, c') =>
        XOk content {| cur := c'; seen := if dup s then seen s else tag :: seen s; dup := dup s;
                       env := env s; items := items s; verified := false |}
    | None => XNotFound
    end
  else XNotFound.

Definition add_item (s : st) (it : item) : st :=
  {| cur := cur s; seen := seen s; dup := dup s; env := env s; items := it :: items s; verified := verified s |}.

(* the letters detect_variant / detect_variant_optional look for; Engine/Instance.v checks this constant
   against the list regenerated from parser/message_parser.rs *)
Definition letters7 : list bytes := map bs ["A"; "B"; "C"; "D"; "F"; "G"; "H"; "K"; "L"; "P"]%string.
Definition letters26 : list bytes :=
  map bs ["A"; "B"; "C"; "D"; "E"; "F"; "G"; "H"; "I"; "J"; "K"; "L"; "M"; "N"; "O"; "P"; "Q"; "R";
          "S"; "T"; "U"; "V"; "W"; "X"; "Y"; "Z"]%string.

(* detect_variant / detect_variant_optional / peek_field_variant: first letter whose full tag is at the cursor, else the bare tag *)
Fixpoint first_letter (c : C) (base : bytes) (ls : list bytes) : option bytes :=
  match ls with
  | [] => if detect c base then Some [] else None
  | l :: r => if detect c (base ++ l) then Some l else first_letter c base r
  end.

Definition call_req (s : st) (ty tag : bytes) : cres :=
  match extract_field s tag false with
  | XErr e => CErr e s
  | XNotFound => CErr (EMissing tag) s
  | XOk content s' =>
      if fparse ty None content
      then COk true (add_item s' {| i_ty := ty; i_letter := None; i_tag := tag; i_content := content |})
      else CErr (EBadField tag content) s'
  end.

Definition call_opt (s : st) (ty tag : bytes) : cres :=
  if negb (detect (cur s) tag) then COk false s else
  match extract_field s tag true with
  | XOk content s' =>
      if fparse ty None content
      then COk true (add_item s' {| i_ty := ty; i_letter := None; i_tag := tag; i_content := content |})
      else CErr (EBadField tag content) s'
  | _ => COk false s
  end.

Definition call_reqv (s : st) (fam base : bytes) : cres :=
  match first_letter (cur s) base letters7 with
  | None => CErr (EMissing base) s
  | Some l =>
      let tag := base ++ l in
      match extract_field s tag false with
      | XErr e => CErr e s
      | XNotFound => CErr (EMissing tag) s
      | XOk content s' =>
          if fparse fam (Some l) content
          then COk true (add_item s' {| i_ty := fam; i_letter := Some l; i_tag := tag; i_content := content |})
          else CErr (EBadField tag content) s'
      end
  end.

Definition call_optv (s : st) (fam base : bytes) : cres :=
  match first_letter (cur s) base letters7 with
  | None => COk false s
  | Some l =>
      let tag := base ++ l in
      match extract_field s tag true with
      | XOk content s' =>
          if fparse fam (Some l) content
          then COk true (add_item s' {| i_ty := fam; i_letter := Some l; i_tag := tag; i_content := content |})
          else CErr (EBadField tag content) s'
      | _ => COk false s
      end
  end.

Definition call (x : stmt) (s : st) : option (cres * dst) :=
  match x with
  | SReq ty tag d => Some (call_req s ty tag, d)
  | SOpt ty tag d => Some (call_opt s ty tag, d)
  | SReqV fam base d => Some (call_reqv s fam base, d)
  | SOptV fam base d => Some (call_optv s fam base, d)
  | _ => None
  end.

Inductive flow :=
| FNext (s : st) | FBreak (s : st) | FReturnOk (s : st) | FReject (e : perr) | FOutOfFuel | FStuck.

Fixpoint pick_arm (l : bytes) (arms : list (list bytes * list stmt)) (default : list stmt) : list stmt :=
  match arms with
  | [] => default
  | (ls, body) :: r => if mem l ls then body else pick_arm l r default
  end.

Definition set_verified (s : st) (b : bool) : st :=
  {| cur := cur s; seen := seen s; dup := dup s; env := env s; items := items s; verified := b |}.
Definition set_dup (s : st) (b : bool) : st :=
  {| cur := cur s; seen := seen s; dup := b; env := env s; items := items s; verified := verified s |}.

Fixpoint exec (fuel : nat) (ss : list stmt) (s : st) : flow :=
  match fuel with
  | 0 => FOutOfFuel
  | S f =>
    match ss with
    | [] => FNext s
    | x :: r =>
      match x with
      | SReq _ _ _ | SOpt _ _ _ | SReqV _ _ _ | SOptV _ _ _ =>
          match call x s with
          | Some (COk p s', d) => exec f r (bind s' d p)
          | Some (CErr e _, _) => FReject e            (* `?` *)
          | None => FStuck
          end
      | SDup b => exec f r (set_dup s b)
      | SPush v => exec f r (set_env s v (S (get s v)))
      | SSet v => exec f r (set_env s v 1)
      | SZero v => exec f r (set_env s v 0)
      | SWhile c body =>
          if eval c s then
            match exec f body s with
            | FNext s' => exec f (x :: r) s'
            | FBreak s' => exec f r s'
            | other => other
            end
          else exec f r s
      | SIf c th el =>
          match exec f (if eval c s then th else el) s with
          | FNext s' => exec f r s'
          | other => other
          end
      | SBreak => FBreak s
      | SFail msg => FReject (EFailed msg)
      | SPeek all base arms default =>
          match first_letter (cur s) base (if all then letters26 else letters7) with
          | None => exec f r s
          | Some l =>
              match exec f (pick_arm l arms default) s with
              | FNext s' => exec f r s'
              | other => other
              end
          end
      | SWhileLetOk c body =>
          match call c s with
          | Some (COk p s', d) =>
              match exec f body (bind s' d p) with
              | FNext s'' => exec f (x :: r) s''
              | FBreak s'' => exec f r s''
              | other => other
              end
          | Some (CErr _ s', _) => exec f r s'          (* the error is swallowed; the cursor stays advanced *)
          | None => FStuck
          end
      | STryElse c some_only th el =>
          match call c s with
          | Some (COk p s', d) =>
              match exec f (if some_only && negb p then el else th) (bind s' d p) with
              | FNext s'' => exec f r s''
              | other => other
              end
          | Some (CErr _ s', _) =>
              match exec f el s' with
              | FNext s'' => exec f r s''
              | other => other
              end
          | None => FStuck
          end
      | SVerifyComplete =>
          if complete (cur s) then exec f r (set_verified s true) else FReject EUnparsed
      | SReturnOk => FReturnOk s
      end
    end
  end.

Definition init (c : C) : st :=
  {| cur := c; seen := []; dup := false; env := []; items := []; verified := false |}.

Inductive outcome := Accept (its : list item) | Reject (e : perr) | OutOfFuel | Stuck.

(* T::parse_from_block4(text) for the layout L *)
Definition run (fuel : nat) (L : list stmt) (c : C) : outcome :=
  match exec fuel L (init c) with
  | FReturnOk s => Accept (rev (items s))
  | FReject e => Reject e
  | FOutOfFuel => OutOfFuel
  | FNext _ | FBreak _ | FStuck => Stuck
  end.

End Interp.

Arguments cur {C}. Arguments seen {C}. Arguments dup {C}. Arguments env {C}. Arguments items {C}. Arguments verified {C}.
